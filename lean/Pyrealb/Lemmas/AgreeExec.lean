import Pyrealb.Model.HeapLink
/-! # Generic facts about a run of assignments (`Heap.exec`) used by the agreement theorems (C03)

* `exec_star`: in a run all of whose pointer reads go through the slot of ONE node `c` (the controller), every
  written `peng` slot ends up holding the controller's record, whatever the order and number of the assignments.
* `exec_star_n`: the field `n` of that record is the value of the last `writeN`.
* `exec_append`, `exec_peng_notTarget`, `exec_last_writer`: the "last writer" reasoning for runs with several sources
  (Dependent.linkProperties). -/
namespace Pyrealb.Agree
open Pyrealb Pyrealb.Heap

/-- the node whose `peng` slot the assignment writes -/
def pengTarget : Act → Option Nat
  | .setPeng _ x _ => some x
  | .fresh x _ => some x
  | _ => none

def pengTargets (acts : List Act) : List Nat := acts.filterMap pengTarget

/-- values written to the field `n` of a record, in order -/
def nWrite : Act → Option Val
  | .writeN _ _ v => some v
  | _ => none

def nWrites (acts : List Act) : List Val := acts.filterMap nWrite

/-- star-shaped assignment: its pointer read (if any) is the slot of `c`; no allocation, no guard -/
def Star (c : Nat) : Act → Prop
  | .setPeng _ _ y => y = c
  | .writeN _ y _ => y = c
  | .fresh _ _ => False
  | .guardHas _ => False
  | _ => True

/-- no `guardHas` (the run cannot end early) -/
def NoGuard (acts : List Act) : Prop := ∀ a ∈ acts, ∀ o, a ≠ .guardHas o

theorem stops_false_of_ne (a : Act) (pg : Nat → Option Nat) (hn : ∀ o, a ≠ .guardHas o) : a.stops pg = false := by
  cases a <;> simp [Act.stops] at *

/-- an assignment that is not a pointer write leaves every `peng` slot alone -/
theorem step_peng_of_noTarget (st st' : Heap) (a : Act) (ht : pengTarget a = none) (hs : step st a = .ok st') :
    st'.peng = st.peng := by
  cases a with
  | setPeng s x y => simp [pengTarget] at ht
  | fresh x i => simp [pengTarget] at ht
  | setTaux s x y =>
    simp only [step] at hs
    split at hs
    · cases hs; rfl
    · split at hs
      · cases hs
      · cases hs; rfl
  | writeN s y v =>
    simp only [step] at hs
    split at hs
    · cases hs; rfl
    · split at hs
      · cases hs
      · cases hs; rfl
  | copyG s t y =>
    simp only [step] at hs
    split at hs
    · split at hs
      · cases hs
      · cases hs; rfl
    · split at hs
      · cases hs
      · split at hs
        · cases hs
        · cases hs; rfl
  | setCod x y => simp only [step] at hs; cases hs; rfl
  | setSubject x y => simp only [step] at hs; cases hs; rfl
  | morphoError x => simp only [step, Heap.warn] at hs; cases hs; rfl
  | guardHas o => simp only [step] at hs; cases hs; rfl
  | crash c => simp [step] at hs

/-- a pointer write `x.peng = y.peng` -/
theorem step_setPeng (st st' : Heap) (s : Bool) (x y : Nat) (hs : step st (.setPeng s x y) = .ok st') :
    (∃ r, st.peng y = some r ∧ st' = { st with peng := upd st.peng x (some r) }) ∨
    (st.peng y = none ∧ s = false ∧ st' = st) := by
  simp only [step] at hs
  cases hy : st.peng y with
  | some r => rw [hy] at hs; simp only at hs; cases hs; exact Or.inl ⟨r, rfl, rfl⟩
  | none =>
    rw [hy] at hs
    simp only at hs
    cases s with
    | true => simp at hs
    | false => simp at hs; exact Or.inr ⟨rfl, rfl, hs.symm⟩

/-! ### star-shaped runs -/

theorem exec_star (c r : Nat) : ∀ (acts : List Act) (h h' : Heap),
    (∀ a ∈ acts, Star c a) → h.peng c = some r → exec h acts = .ok h' →
    h'.peng c = some r ∧ (∀ x ∈ pengTargets acts, h'.peng x = some r) ∧
    (∀ x, h'.peng x = h.peng x ∨ h'.peng x = some r) := by
  intro acts
  induction acts with
  | nil =>
    intro h h' _ hc hex
    simp only [exec] at hex
    cases hex
    exact ⟨hc, by simp [pengTargets], fun x => Or.inl rfl⟩
  | cons a as ih =>
    intro h h' hstar hc hex
    have ha : Star c a := hstar a List.mem_cons_self
    have has : ∀ b ∈ as, Star c b := fun b hb => hstar b (List.mem_cons_of_mem _ hb)
    have hng : ∀ o, a ≠ .guardHas o := by
      intro o heq; subst heq; exact ha
    simp only [exec, stops_false_of_ne a h.peng hng] at hex
    cases hst : step h a with
    | error e => rw [hst] at hex; simp at hex
    | ok h1 =>
      rw [hst] at hex
      simp only at hex
      cases hpt : pengTarget a with
      | none =>
        have hp1 := step_peng_of_noTarget h h1 a hpt hst
        obtain ⟨i1, i2, i3⟩ := ih h1 h' has (by rw [hp1]; exact hc) hex
        refine ⟨i1, ?_, ?_⟩
        · intro x hx
          simp only [pengTargets, List.filterMap_cons, hpt] at hx
          exact i2 x hx
        · intro x; rw [← hp1]; exact i3 x
      | some x0 =>
        cases a with
        | setPeng s x y =>
          have hy : y = c := ha
          subst hy
          simp only [pengTarget, Option.some.injEq] at hpt
          subst hpt
          rcases step_setPeng h h1 s x y hst with ⟨r', hr', h1eq⟩ | ⟨hn, _, _⟩
          · rw [hc] at hr'
            cases hr'
            have hc1 : h1.peng y = some r := by
              subst h1eq
              simp only [upd]
              split
              · rfl
              · exact hc
            obtain ⟨i1, i2, i3⟩ := ih h1 h' has hc1 hex
            refine ⟨i1, ?_, ?_⟩
            · intro z hz
              simp only [pengTargets, List.filterMap_cons, pengTarget, List.mem_cons] at hz
              rcases hz with rfl | hz
              · rcases i3 z with e | e
                · rw [e]; subst h1eq; simp [upd]
                · exact e
              · exact i2 z hz
            · intro z
              rcases i3 z with e | e
              · subst h1eq
                by_cases hzx : z = x
                · subst hzx; right; rw [e]; simp [upd]
                · left; rw [e]; simp [upd, hzx]
              · exact Or.inr e
          · rw [hc] at hn; cases hn
        | fresh x i => exact absurd ha (by simp [Star])
        | setTaux s x y => simp [pengTarget] at hpt
        | writeN s y v => simp [pengTarget] at hpt
        | copyG s t y => simp [pengTarget] at hpt
        | setCod x y => simp [pengTarget] at hpt
        | setSubject x y => simp [pengTarget] at hpt
        | morphoError x => simp [pengTarget] at hpt
        | guardHas o => simp [pengTarget] at hpt
        | crash c => simp [pengTarget] at hpt

/-- an assignment that is neither `writeN` nor a record copy leaves the field `n` of every record alone -/
theorem step_prec_n (st st' : Heap) (a : Act) (hw : nWrite a = none) (hf : ∀ x i, a ≠ .fresh x i)
    (hs : step st a = .ok st') (r : Nat) : (st'.prec r).n = (st.prec r).n := by
  cases a with
  | setPeng s x y =>
    simp only [step] at hs
    split at hs
    · cases hs; rfl
    · split at hs
      · cases hs
      · cases hs; rfl
  | fresh x i => exact absurd rfl (hf x i)
  | setTaux s x y =>
    simp only [step] at hs
    split at hs
    · cases hs; rfl
    · split at hs
      · cases hs
      · cases hs; rfl
  | writeN s y v => simp [nWrite] at hw
  | copyG s t y =>
    simp only [step] at hs
    split at hs
    · split at hs
      · cases hs
      · cases hs; rfl
    · split at hs
      · cases hs
      · split at hs
        · cases hs
        · cases hs
          simp only [upd]
          split
          · next heq => subst heq; rfl
          · rfl
  | setCod x y => simp only [step] at hs; cases hs; rfl
  | setSubject x y => simp only [step] at hs; cases hs; rfl
  | morphoError x => simp only [step, Heap.warn] at hs; cases hs; rfl
  | guardHas o => simp only [step] at hs; cases hs; rfl
  | crash c => simp [step] at hs

/-- the number of the controller's record after a star-shaped run: the last value written -/
theorem exec_star_n (c r : Nat) : ∀ (acts : List Act) (h h' : Heap),
    (∀ a ∈ acts, Star c a) → h.peng c = some r → exec h acts = .ok h' →
    (h'.prec r).n = (match (nWrites acts).getLast? with | some v => some v | none => (h.prec r).n) := by
  intro acts
  induction acts with
  | nil =>
    intro h h' _ _ hex
    simp only [exec] at hex
    cases hex
    simp [nWrites]
  | cons a as ih =>
    intro h h' hstar hc hex
    have ha : Star c a := hstar a List.mem_cons_self
    have has : ∀ b ∈ as, Star c b := fun b hb => hstar b (List.mem_cons_of_mem _ hb)
    have hng : ∀ o, a ≠ .guardHas o := by
      intro o heq; subst heq; exact ha
    have hnf : ∀ x i, a ≠ .fresh x i := by
      intro x i heq; subst heq; exact ha
    simp only [exec, stops_false_of_ne a h.peng hng] at hex
    cases hst : step h a with
    | error e => rw [hst] at hex; simp at hex
    | ok h1 =>
      rw [hst] at hex
      simp only at hex
      have hc1 : h1.peng c = some r := (exec_star c r [a] h h1 (by simpa using ha) hc
        (by simp [exec, stops_false_of_ne a h.peng hng, hst])).1
      have hi := ih h1 h' has hc1 hex
      cases hw : nWrite a with
      | none =>
        have hn1 := step_prec_n h h1 a hw hnf hst r
        simp only [nWrites, List.filterMap_cons, hw]
        rw [hi, hn1]
        rfl
      | some v =>
        cases a with
        | writeN s y v' =>
          simp only [nWrite, Option.some.injEq] at hw
          subst hw
          have hy : y = c := ha
          subst hy
          simp only [step, hc] at hst
          cases hst
          simp only [nWrites, List.filterMap_cons, nWrite, List.getLast?_cons]
          rw [hi]
          simp only [nWrites]
          cases (List.filterMap nWrite as).getLast? with
          | some v2 => simp
          | none => simp [upd]
        | setPeng s x y => simp [nWrite] at hw
        | fresh x i => simp [nWrite] at hw
        | setTaux s x y => simp [nWrite] at hw
        | copyG s t y => simp [nWrite] at hw
        | setCod x y => simp [nWrite] at hw
        | setSubject x y => simp [nWrite] at hw
        | morphoError x => simp [nWrite] at hw
        | guardHas o => simp [nWrite] at hw
        | crash c => simp [nWrite] at hw

/-! ### runs with several sources -/

theorem exec_append (a b : List Act) (hg : NoGuard a) : ∀ (h h' : Heap), exec h (a ++ b) = .ok h' →
    ∃ st, exec h a = .ok st ∧ exec st b = .ok h' := by
  induction a with
  | nil => intro h h' hex; exact ⟨h, rfl, hex⟩
  | cons x xs ih =>
    intro h h' hex
    have hx : ∀ o, x ≠ .guardHas o := hg x List.mem_cons_self
    have hxs : NoGuard xs := fun y hy => hg y (List.mem_cons_of_mem _ hy)
    simp only [List.cons_append, exec, stops_false_of_ne x h.peng hx] at hex ⊢
    cases hst : step h x with
    | error e => rw [hst] at hex; simp at hex
    | ok h1 =>
      rw [hst] at hex
      simp only at hex ⊢
      exact ih hxs h1 h' hex

theorem exec_append_ok (a b : List Act) (hg : NoGuard a) (h st h' : Heap) (h1 : exec h a = .ok st)
    (h2 : exec st b = .ok h') : exec h (a ++ b) = .ok h' := by
  induction a generalizing h with
  | nil => simp only [exec] at h1; cases h1; exact h2
  | cons x xs ih =>
    have hx : ∀ o, x ≠ .guardHas o := hg x List.mem_cons_self
    have hxs : NoGuard xs := fun y hy => hg y (List.mem_cons_of_mem _ hy)
    simp only [List.cons_append, exec, stops_false_of_ne x h.peng hx] at h1 ⊢
    cases hst : step h x with
    | error e => rw [hst] at h1; simp at h1
    | ok hh =>
      rw [hst] at h1
      simp only at h1 ⊢
      exact ih hxs hh h1

/-- a slot that no assignment of the run targets keeps its content -/
theorem exec_peng_notTarget (x : Nat) : ∀ (acts : List Act) (h h' : Heap), x ∉ pengTargets acts →
    exec h acts = .ok h' → h'.peng x = h.peng x := by
  intro acts
  induction acts with
  | nil => intro h h' _ hex; simp only [exec] at hex; cases hex; rfl
  | cons a as ih =>
    intro h h' hx hex
    simp only [exec] at hex
    split at hex
    · cases hex; rfl
    · cases hst : step h a with
      | error e => rw [hst] at hex; simp at hex
      | ok h1 =>
        rw [hst] at hex
        simp only at hex
        have hxs : x ∉ pengTargets as := by
          intro hm
          apply hx
          simp only [pengTargets, List.filterMap_cons]
          split
          · exact hm
          · exact List.mem_cons_of_mem _ hm
        rw [ih h1 h' hxs hex]
        cases hpt : pengTarget a with
        | none => rw [step_peng_of_noTarget h h1 a hpt hst]
        | some y =>
          have hxy : x ≠ y := by
            intro heq
            apply hx
            simp only [pengTargets, List.filterMap_cons, hpt, heq]
            exact List.mem_cons_self
          cases a with
          | setPeng s x' y' =>
            simp only [pengTarget, Option.some.injEq] at hpt
            subst hpt
            rcases step_setPeng h h1 s x' y' hst with ⟨r', _, h1eq⟩ | ⟨_, _, h1eq⟩
            · subst h1eq; simp [upd, hxy]
            · subst h1eq; rfl
          | fresh x' i =>
            simp only [pengTarget, Option.some.injEq] at hpt
            subst hpt
            simp only [step] at hst
            split at hst
            · cases hst; rfl
            · cases hst; simp [upd, hxy]
          | setTaux s x y => simp [pengTarget] at hpt
          | writeN s y v => simp [pengTarget] at hpt
          | copyG s t y => simp [pengTarget] at hpt
          | setCod x y => simp [pengTarget] at hpt
          | setSubject x y => simp [pengTarget] at hpt
          | morphoError x => simp [pengTarget] at hpt
          | guardHas o => simp [pengTarget] at hpt
          | crash c => simp [pengTarget] at hpt

/-- **last writer.**  If the last assignment that targets `x` is `x.peng = y.peng`, executed in a state where `y`
    holds the record `r`, then `x` holds `r` at the end. -/
theorem exec_last_writer (A B : List Act) (s : Bool) (x y r : Nat) (h h' : Heap) (hA : NoGuard A)
    (hmid : ∀ st, exec h A = .ok st → st.peng y = some r) (hB : x ∉ pengTargets B)
    (hex : exec h (A ++ .setPeng s x y :: B) = .ok h') : h'.peng x = some r := by
  obtain ⟨st, h1, h2⟩ := exec_append A _ hA h h' hex
  have hy := hmid st h1
  simp only [exec, Act.stops] at h2
  simp only [step, hy] at h2
  have := exec_peng_notTarget x B _ h' hB (by simpa using h2)
  rw [this]
  simp [upd]

end Pyrealb.Agree
