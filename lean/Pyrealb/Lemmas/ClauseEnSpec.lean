import Pyrealb.Lemmas.ClauseEnFin
/-! Declarative reading of C04 (DESIGN §5, "F"): the verb group the property prescribes, independent of the control
    flow of `affixHopping`; and the extraction of the verb group from a token list. -/
namespace Pyrealb.ClauseEn

/-- the modal auxiliary of a modality (English grammar, not read from the rules file) -/
def specModal : Mod → VLemma
  | .poss => .can | .perm => .may | .nece => .shall | .obli => .must | .will => .will

def Tense.isFuture : Tense → Bool | .f | .c => true | _ => false

/-- tense carried by the first element -/
def Tense.finForm : Tense → VForm | .p | .f => .p | .ps | .c => .ps

/-- `aux(ty,t)`: [modal | will] ++ [have] ++ [be (progressive)] ++ [be (passive)], each with the affix it imposes on
    its successor -/
def specAux (t : Tense) (ty : Typ) : List (VLemma × VForm) :=
  (match ty.mod with
   | some m => [(specModal m, .b)]
   | none => if t.isFuture then [(.will, .b)] else [])
  ++ (if ty.perf then [(.have, .pp)] else [])
  ++ (if ty.prog then [(.be, .pr)] else [])
  ++ (if ty.pas then [(.be, .pp)] else [])

/-- a lexical verb: not be, have or a modal (DESIGN §6, fixed reading) -/
def VLemma.lexical : VLemma → Bool
  | .other | .do_ => true
  | _ => false

/-- questioned in the sense of do-support: an interrogative other than subject questions and tags -/
def Typ.questioned (ty : Typ) : Bool :=
  match ty.int with
  | none | some .wos | some .was | some .tag => false
  | some _ => true

def doSupport (v : VLemma) (t : Tense) (ty : Typ) : Bool :=
  (specAux t ty).isEmpty && v.lexical && (ty.neg || ty.questioned)

def specChain (v : VLemma) (t : Tense) (ty : Typ) : List (VLemma × VForm) :=
  if doSupport v t ty then [(.do_, .b)] else specAux t ty

/-- the prescribed verb group: (lemma, form, whose agreement): the first element finite and agreeing with the clause
    subject, every other element the affix of its predecessor -/
def specGroup (v : VLemma) (t : Tense) (ty : Typ) : List (VLemma × VForm × AgrRef) :=
  let ch := specChain v t ty
  let lemmas := ch.map (·.1) ++ [v]
  let forms := t.finForm :: ch.map (·.2)
  let refs := AgrRef.shared :: ch.map (fun _ => AgrRef.fixed Agr.dflt)
  lemmas.zip (forms.zip refs)

/-- the verb group of a token list: the verb tokens in order; `cannot` is `can` + present + not -/
def vgroup : List Tok → List (VLemma × VForm × AgrRef)
  | [] => []
  | .verb l f r :: rest => (l, f, r) :: vgroup rest
  | .cannot :: rest => (.can, .p, .shared) :: vgroup rest
  | _ :: rest => vgroup rest

/-- positions of `not` among the verb-group words (`cannot` contains its own) -/
def notCount : List Tok → Nat
  | [] => 0
  | .not_ :: r => notCount r + 1
  | .cannot :: r => notCount r + 1
  | _ :: r => notCount r

/-- the words `affixHopping` returns for a clause verb -/
def words (v : VLemma) (t : Tense) (ty : Typ) : List Tok := affixHopping v (AT.ofTense t) ty .shared

end Pyrealb.ClauseEn
