import Pyrealb.Model.ClauseEn
/-! Finite enumeration of the flag space of the English clause model, so that `decide` can run over
    "every verb class, every tense, every flag combination". -/
namespace Pyrealb.ClauseEn

def Tense.all : List Tense := [.p, .ps, .f, .c]
def Mod.allOpt : List (Option Mod) := [none, some .poss, some .perm, some .nece, some .obli, some .will]
def Int.all : List Int := [.yon, .wos, .wod, .woi, .was, .wad, .wai, .whe, .why, .whn, .how, .muc, .tag]
def Int.allOpt : List (Option Int) := none :: Int.all.map some
def boolAll : List Bool := [false, true]

theorem VLemma.mem_all (v : VLemma) : v ∈ VLemma.all := by cases v <;> decide
theorem Tense.mem_all (t : Tense) : t ∈ Tense.all := by cases t <;> decide
theorem Mod.mem_allOpt (m : Option Mod) : m ∈ Mod.allOpt := by
  cases m with
  | none => decide
  | some m => cases m <;> decide
theorem Int.mem_all (i : Int) : i ∈ Int.all := by cases i <;> decide
theorem Int.mem_allOpt (i : Option Int) : i ∈ Int.allOpt := by
  cases i with
  | none => decide
  | some i => cases i <;> decide
theorem mem_boolAll (b : Bool) : b ∈ boolAll := by cases b <;> decide

/-- the flags `affixHopping` reads (contr and exc are not among them) -/
def Typ.verbFlags : List Typ :=
  boolAll.flatMap fun neg => boolAll.flatMap fun pas => boolAll.flatMap fun perf => boolAll.flatMap fun prog =>
    Mod.allOpt.flatMap fun m => Int.allOpt.map fun i =>
      { neg := neg, pas := pas, perf := perf, prog := prog, mod := m, int := i }

/-- `ty` with `contr` and `exc` cleared -/
def Typ.core (ty : Typ) : Typ := { ty with contr := false, exc := false }

theorem Typ.core_mem (ty : Typ) : ty.core ∈ Typ.verbFlags := by
  obtain ⟨neg, pas, perf, prog, contr, exc, m, i⟩ := ty
  simp only [Typ.verbFlags, Typ.core, List.mem_flatMap, List.mem_map]
  exact ⟨neg, mem_boolAll _, pas, mem_boolAll _, perf, mem_boolAll _, prog, mem_boolAll _, m, Mod.mem_allOpt _, i,
    Int.mem_allOpt _, rfl⟩

theorem auxChain_core (v : VLemma) (t : AT) (ty : Typ) : auxChain v t ty.core = auxChain v t ty := rfl
theorem affixHopping_core (v : VLemma) (t : AT) (ty : Typ) (r : AgrRef) :
    affixHopping v t ty.core r = affixHopping v t ty r := rfl

/-- a statement about every verb class, tense and flag combination follows from its check on the finite lists -/
theorem forall_verb_flags {P : VLemma → Tense → Typ → Prop}
    (hcore : ∀ v t ty, P v t ty.core → P v t ty)
    (h : ∀ v ∈ VLemma.all, ∀ t ∈ Tense.all, ∀ ty ∈ Typ.verbFlags, P v t ty) :
    ∀ v t ty, P v t ty :=
  fun v t ty => hcore v t ty (h v (VLemma.mem_all v) t (Tense.mem_all t) ty.core (Typ.core_mem ty))

end Pyrealb.ClauseEn
