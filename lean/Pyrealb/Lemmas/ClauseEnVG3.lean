import Pyrealb.Lemmas.ClauseEnVG
/-! Finiteness of the first element only, and do-support: `decide` over every verb class, tense and flag combination. -/
namespace Pyrealb.ClauseEn

def VForm.isFinite : VForm → Bool | .p | .ps => true | _ => false

/-- lemma and form of the verb-group elements -/
def vgroupLF (l : List Tok) : List (VLemma × VForm) := (vgroup l).map (fun x => (x.1, x.2.1))

def specLF (v : VLemma) (t : Tense) (ty : Typ) : List (VLemma × VForm) := (specGroup v t ty).map (fun x => (x.1, x.2.1))

/-- the first element carries the tense of the clause, no other element is finite -/
def firstFiniteOnly (t : Tense) (g : List (VLemma × VForm)) : Bool :=
  match g with
  | [] => false
  | (_, f) :: rest => f == t.finForm && rest.all (fun x => !x.2.isFinite)

/-- do-support: the auxiliary `do` followed by a bare form -/
def usesDo (g : List (VLemma × VForm)) : Bool :=
  match g with
  | (.do_, _) :: (_, .b) :: _ => true
  | _ => false

set_option maxRecDepth 100000 in
theorem finite_do_fin : ∀ v ∈ VLemma.all, ∀ t ∈ Tense.all, ∀ ty ∈ Typ.verbFlags3,
    (firstFiniteOnly t (vgroupLF (words v t ty)) = true ∧
     (Irregular v t ty = false ↔ usesDo (vgroupLF (words v t ty)) = doSupport v t ty) ∧
     usesDo (specLF v t ty) = doSupport v t ty) := by
  decide +kernel

theorem first_finite_only (v : VLemma) (t : Tense) (ty : Typ) : firstFiniteOnly t (vgroupLF (words v t ty)) = true :=
  forall_of_norm (P := fun v t ty => firstFiniteOnly t (vgroupLF (words v t ty)) = true)
    (fun v t ty h => by rw [words_norm] at h; exact h)
    (fun v hv t ht ty hty => (finite_do_fin v hv t ht ty hty).1) v t ty

theorem usesDo_words (v : VLemma) (t : Tense) (ty : Typ) :
    Irregular v t ty = false ↔ usesDo (vgroupLF (words v t ty)) = doSupport v t ty :=
  forall_of_norm (P := fun v t ty => Irregular v t ty = false ↔ usesDo (vgroupLF (words v t ty)) = doSupport v t ty)
    (fun v t ty h => by rw [words_norm, Irregular_norm, doSupport_norm] at h; exact h)
    (fun v hv t ht ty hty => (finite_do_fin v hv t ht ty hty).2.1) v t ty

theorem usesDo_spec (v : VLemma) (t : Tense) (ty : Typ) : usesDo (specLF v t ty) = doSupport v t ty :=
  forall_of_norm (P := fun v t ty => usesDo (specLF v t ty) = doSupport v t ty)
    (fun v t ty h => by unfold specLF at h ⊢; rw [specGroup_norm, doSupport_norm] at h; exact h)
    (fun v hv t ht ty hty => (finite_do_fin v hv t ht ty hty).2.2) v t ty

end Pyrealb.ClauseEn
