import Pyrealb.Lemmas.ElisionFix
/-! The French pass does not raise on well-formed tokens, and it keeps tokens well-formed. -/
namespace Pyrealb.Elision
open Pyrealb Pyrealb.Gen.Elision

/-- the tokens an iteration may produce from `t`: `t` itself or `t` with another realization -/
def SameBut (t h : Tok) : Prop := h = t ∨ ∃ x, h = t.setReal x

theorem SameBut.wf {t h} (hs : SameBut t h) (w : tokWF t = true) : tokWF h = true := by
  cases hs with
  | inl e => rw [e]; exact w
  | inr e =>
    obtain ⟨x, rfl⟩ := e
    simp only [tokWF, Bool.and_eq_true] at w ⊢
    exact ⟨⟨rfl, w.1.2⟩, w.2⟩

theorem stepFr_total (t1 t2 : Tok) (t3 : Option Tok) (w1 : tokWF t1 = true) (w2 : tokWF t2 = true)
    (w3 : ∀ t, t3 = some t → tokWF t = true) :
    stepFr t1 t2 t3 = .ok .keep ∨ (∃ a, stepFr t1 t2 t3 = .ok (.one a) ∧ SameBut t1 a) ∨
      ∃ a b, stepFr t1 t2 t3 = .ok (.two a b) ∧ SameBut t1 a ∧ SameBut t2 b := by
  rw [stepFr_of_views t1 t2 t3 w1 w2]
  cases hf1 : t1.fr with
  | false => exact Or.inl rfl
  | true =>
  simp only [Bool.not_true, Bool.false_eq_true, if_false]
  rcases Option.eq_none_or_eq_some (view .fr t1) with hv1 | ⟨v1, hv1⟩
  · rw [hv1]; exact Or.inl rfl
  rcases Option.eq_none_or_eq_some (view .fr t2) with hv2 | ⟨v2, hv2⟩
  · rw [hv1, hv2]; exact Or.inl rfl
  rw [hv1, hv2]
  unfold stepFrCore
  dsimp only
  split
  · exact Or.inr (Or.inl ⟨_, rfl, Or.inr ⟨_, rfl⟩⟩)
  · split
    · rename_i c2
      split
      · exact Or.inr (Or.inl ⟨_, rfl, Or.inr ⟨_, rfl⟩⟩)
      · split
        · simp only [Bool.and_eq_true] at c2
          obtain ⟨r, hr, _⟩ := euphForm_some v1.w c2.1.1.2
          rw [hr]
          exact Or.inr (Or.inl ⟨_, rfl, Or.inr ⟨_, rfl⟩⟩)
        · exact Or.inl rfl
    · split
      · exact Or.inl rfl
      · have contractCase : ∀ c : Str, ∃ a b, (Except.ok (ActFr.two (t1.setReal (v1.rebuild c)) (t2.setReal (v2.pre ++ strip v2.rest)))
            : Except Crash ActFr) = .ok (.two a b) ∧ SameBut t1 a ∧ SameBut t2 b :=
          fun c => ⟨_, _, rfl, Or.inr ⟨_, rfl⟩, Or.inr ⟨_, rfl⟩⟩
        split
        · cases t3 with
          | none => exact Or.inr (Or.inr (contractCase _))
          | some t =>
            obtain ⟨⟨x3, hx3⟩, hc3, hR3⟩ := tokWF_spec t (w3 t rfl)
            simp only [hx3]
            rw [elidableNext_ok x3 t.hR (by rw [hR3]; exact hc3)]
            cases isOkTrue (elidableNext x3 t.hR) with
            | false => exact Or.inr (Or.inr (contractCase _))
            | true => exact Or.inr (Or.inr ⟨_, _, rfl, Or.inl rfl, Or.inr ⟨_, rfl⟩⟩)
        · exact Or.inr (Or.inr (contractCase _))

theorem wf_cons (t : Tok) (l : List Tok) (h : tokWF t = true) (hl : TokWF l) : TokWF (t :: l) := by
  intro x hx
  simp only [List.mem_cons] at hx
  cases hx with
  | inl e => rw [e]; exact h
  | inr e => exact hl x e

/-- the French pass never raises on well-formed tokens (since /repo commit 5847d2f) and keeps them well-formed -/
theorem goFr_total : ∀ (n : Nat) (toks : List Tok) (pl : Bool), toks.length ≤ n → TokWF toks →
    ∃ out, goFr pl toks = .ok out ∧ TokWF out := by
  intro n
  induction n with
  | zero =>
    intro toks pl hlen hwf
    have : toks = [] := List.length_eq_zero_iff.mp (Nat.le_zero.mp hlen)
    subst this
    exact ⟨[], rfl, hwf⟩
  | succ n ih =>
    intro toks pl hlen hwf
    match toks, hlen, hwf with
    | [], _, hwf => exact ⟨[], rfl, hwf⟩
    | [t], _, hwf => exact ⟨[t], rfl, hwf⟩
    | t1 :: t2 :: rest, hlen, hwf =>
      have w1 : tokWF t1 = true := hwf t1 (by simp)
      have w2 : tokWF t2 = true := hwf t2 (by simp)
      have wfTail : TokWF (t2 :: rest) := fun t ht => hwf t (List.mem_cons_of_mem _ ht)
      have wfRest : TokWF rest := fun t ht => hwf t (List.mem_cons_of_mem _ (List.mem_cons_of_mem _ ht))
      have w3 : ∀ t, rest.head? = some t → tokWF t = true := by
        intro t ht
        apply wfRest
        cases rest with
        | nil => simp at ht
        | cons x r => simp at ht; simp [ht]
      have len1 : (t2 :: rest).length ≤ n := by simp at hlen ⊢; omega
      have len2 : rest.length ≤ n := by simp at hlen ⊢; omega
      obtain ⟨l, hgo1, hf1⟩ := ih (t2 :: rest) t1.lier len1 wfTail
      obtain ⟨l3, hgo3, hf3⟩ := ih rest t2.lier len2 wfRest
      cases pl with
      | true => exact ⟨t1 :: l, by simp [goFr, hgo1], wf_cons _ _ w1 hf1⟩
      | false =>
        rcases stepFr_total t1 t2 rest.head? w1 w2 w3 with h | ⟨a, h, ha⟩ | ⟨a, b, h, ha, hb⟩
        · exact ⟨t1 :: l, by simp [goFr, h, hgo1], wf_cons _ _ w1 hf1⟩
        · exact ⟨a :: l, by simp [goFr, h, hgo1], wf_cons _ _ (ha.wf w1) hf1⟩
        · exact ⟨a :: b :: l3, by simp [goFr, h, hgo3], wf_cons _ _ (ha.wf w1) (wf_cons _ _ (hb.wf w2) hf3)⟩

end Pyrealb.Elision
