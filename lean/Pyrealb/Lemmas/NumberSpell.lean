import Pyrealb.Lemmas.NumberWordsSplit
import Pyrealb.Lemmas.NumberFinite
/-! The unbounded part of C16: evaluation of the words of `grouper` by induction over the list of triplets. -/
namespace Pyrealb.Number
open Pyrealb Pyrealb.NumberSpec Pyrealb.Gen.NumberWords Pyrealb.Number.Finite

/-! ### the evaluator against concatenation and against the running total -/

theorem evalFrom_append (V : Vocab) (st : St) (a b : List Str) :
    evalFrom V st (a ++ b) = (evalFrom V st a).bind (fun st' => evalFrom V st' b) := by
  induction a generalizing st with
  | nil => simp [evalFrom]
  | cons w ws ih =>
    simp only [List.cons_append, evalFrom]
    cases classify V w with
    | none => simp
    | some m =>
      cases h : step st m with
      | none => simp [h]
      | some st' => simp [h, ih]

theorem step_shift (c T T' : Nat) (m : Mean) :
    step (c, T + T') m = (step (c, T) m).map (fun st => (st.1, st.2 + T')) := by
  cases m <;> simp [step] <;> omega

/-- the total of the closed groups is only ever added to -/
theorem evalFrom_shift (V : Vocab) (c T T' : Nat) (ws : List Str) :
    evalFrom V (c, T + T') ws = (evalFrom V (c, T) ws).map (fun st => (st.1, st.2 + T')) := by
  induction ws generalizing c T with
  | nil => simp [evalFrom]
  | cons w ws ih =>
    simp only [evalFrom]
    cases classify V w with
    | none => simp
    | some m =>
      simp only [Option.bind_some]
      rw [step_shift]
      cases h : step (c, T) m with
      | none => simp
      | some st' =>
        obtain ⟨c', T''⟩ := st'
        simp [ih]

/-! ### value of a list of triplets -/

def value : List Nat → Nat
  | [] => 0
  | t :: ts => t * 1000 ^ ts.length + value ts

theorem value_tousZero (ts : List Nat) (h : tousZero ts = true) : value ts = 0 := by
  induction ts with
  | nil => rfl
  | cons t ts ih =>
    simp only [tousZero, Bool.and_eq_true, beq_iff_eq] at h
    simp [value, h.1, ih h.2]

/-- the indices of the scale table (`uM[l-2]`) that `grouper` reads -/
def scalesNeeded : List Nat → List Nat
  | [] => []
  | [_] => []
  | h :: t1 :: rest => (if h = 0 then [] else [rest.length]) ++ scalesNeeded (t1 :: rest)

/-! ### finite facts used by the induction (all `decide +kernel` on the generated tables) -/

/-- entry `k` of the scale table exists; its "sing" form evaluates to 1000^(k+1); its "plur" form is one word
    that the numeral system reads as 1000^(k+1) -/
def scaleOK (V : Vocab) (ℓ : Lang) (k : Nat) : Bool :=
  match (scaleTable ℓ)[k]? with
  | none => false
  | some (sing, plur) =>
    evalFrom V (0, 0) (words sing) == some (0, 1000 ^ (k + 1)) &&
    (match words plur with
     | [w] => classify V w == some (.scale (k + 1))
     | _ => false)

def minusWord (ℓ : Lang) : Str := pick ℓ minusEn moinsFr

/-- the separators of `grouper` are one space; the sign word is one word read as `minus`, followed by a space -/
def sepsOK (V : Vocab) (ℓ : Lang) : Bool :=
  grpSep1 == [' '] && grpSep2 == [' '] && grpEmpty == [] &&
  (match words (minusWord ℓ) with
   | [w] => classify V w == some .minus
   | _ => false) &&
  (minusWord ℓ).getLast? == some ' '

/-- the finite facts about the generated tables that the induction needs, for the numeral system `V` -/
structure Facts (V : Vocab) (ℓ : Lang) : Prop where
  triplet : ∀ t : Fin 1000, tripletOK V ℓ t.val = true
  seps : sepsOK V ℓ = true

theorem triplet_eval {V : Vocab} {ℓ : Lang} (F : Facts V ℓ) (t : Nat) (ht : t < 1000) (T : Nat) :
    ∃ w, centaines ℓ t = .ok w ∧ evalFrom V (0, T) (words w) = some (t, T) ∧ words w ≠ [] := by
  have h : tripletOK V ℓ t = true := F.triplet ⟨t, ht⟩
  unfold tripletOK at h
  cases hc : centaines ℓ t with
  | error e => simp [hc] at h
  | ok w =>
    simp only [hc, Bool.and_eq_true, beq_iff_eq, Bool.not_eq_true', List.isEmpty_eq_false_iff] at h
    refine ⟨w, rfl, ?_, h.2⟩
    have := evalFrom_shift V 0 0 T (words w)
    simpa [h.1] using this

/-! ### the induction over the triplets -/

theorem grouper_eval {V : Vocab} {ℓ : Lang} (F : Facts V ℓ) : ∀ (ts : List Nat), ts ≠ [] → (∀ t ∈ ts, t < 1000) →
    (∀ k ∈ scalesNeeded ts, scaleOK V ℓ k = true) → ∀ T : Nat,
    ∃ w c T', grouper ℓ ts = .ok w ∧ evalFrom V (0, T) (words w) = some (c, T') ∧ c + T' = T + value ts
      ∧ words w ≠ []
  | [], hne, _, _, _ => absurd rfl hne
  | [h], _, hlt, _, T => by
    obtain ⟨w, hw, he, hn⟩ := triplet_eval F h (hlt h (by simp)) T
    exact ⟨w, h, T, by simpa [grouper] using hw, he, by simp [value]; omega, hn⟩
  | h :: t1 :: rest, _, hlt, hs, T => by
    have hseps := F.seps
    simp only [sepsOK, Bool.and_eq_true, beq_iff_eq] at hseps
    obtain ⟨⟨⟨⟨hs1, hs2⟩, hs3⟩, _⟩, _⟩ := hseps
    have hlt' : ∀ t ∈ t1 :: rest, t < 1000 := fun t ht => hlt t (by simp [ht])
    by_cases h0 : h = 0
    · -- a zero triplet is skipped
      have hs' : ∀ k ∈ scalesNeeded (t1 :: rest), scaleOK V ℓ k = true := by
        intro k hk; apply hs; simp [scalesNeeded, h0, hk]
      obtain ⟨w, c, T', hw, he, hv, hn⟩ := grouper_eval F (t1 :: rest) (by simp) hlt' hs' T
      refine ⟨w, c, T', ?_, he, ?_, hn⟩
      · simp [grouper, h0, hw]
      · simp [value, h0] at hv ⊢; omega
    · have hk : scaleOK V ℓ rest.length = true := by apply hs; simp [scalesNeeded, h0]
      have hs' : ∀ k ∈ scalesNeeded (t1 :: rest), scaleOK V ℓ k = true := by
        intro k hk; apply hs; simp [scalesNeeded, h0, hk]
      unfold scaleOK at hk
      cases hsc : (scaleTable ℓ)[rest.length]? with
      | none => simp [hsc] at hk
      | some sc =>
        obtain ⟨sing, plur⟩ := sc
        simp only [hsc, Bool.and_eq_true, beq_iff_eq] at hk
        obtain ⟨hsing, hplur⟩ := hk
        -- the first group evaluates to (0, T + h * 1000^(k+1))
        have hfirst : ∃ first, (if h = 1 then (pure sing : Except Crash Str)
              else (centaines ℓ h).map (fun w => w ++ grpSep1 ++ plur)) = .ok first ∧
            evalFrom V (0, T) (words first) = some (0, T + h * 1000 ^ (rest.length + 1)) ∧
            words first ≠ [] := by
          by_cases h1 : h = 1
          · refine ⟨sing, by simp [h1, pure, Except.pure], ?_, ?_⟩
            · have := evalFrom_shift V 0 0 T (words sing)
              simp only [hsing, Nat.zero_add, Option.map_some] at this
              rw [this, h1]; simp; omega
            · intro hnil
              rw [hnil] at hsing
              simp only [evalFrom, Option.some.injEq, Prod.mk.injEq, true_and] at hsing
              have : 0 < 1000 ^ (rest.length + 1) := Nat.pow_pos (by decide)
              omega
          · obtain ⟨w, hw, he, _⟩ := triplet_eval F h (hlt h (by simp)) T
            cases hp : words plur with
            | nil => simp [hp] at hplur
            | cons pw r =>
              cases r with
              | cons _ _ => simp [hp] at hplur
              | nil =>
                simp only [hp, beq_iff_eq] at hplur
                refine ⟨w ++ grpSep1 ++ plur, by simp [h1, hw, Except.map], ?_, ?_⟩
                · rw [hs1, List.append_assoc, List.singleton_append, words_append_sep _ _ ' ' (by decide),
                    evalFrom_append, he, hp]
                  simp [evalFrom, hplur, step, h0]
                · rw [hs1, List.append_assoc, List.singleton_append, words_append_sep _ _ ' ' (by decide), hp]
                  simp
        obtain ⟨first, hf, hfe, hfn⟩ := hfirst
        by_cases hz : tousZero (t1 :: rest) = true
        · refine ⟨first ++ grpSep2 ++ grpEmpty, 0, T + h * 1000 ^ (rest.length + 1), ?_, ?_, ?_, ?_⟩
          · simp only [grouper, h0, if_false, idx, hsc]
            rw [hf]; simp [hz, pure, Except.pure]
          · rw [hs2, hs3, List.append_nil, words_append_spaces _ _ (by simp; decide)]
            exact hfe
          · have hv := value_tousZero _ hz
            simp only [value, List.length_cons] at hv ⊢; omega
          · rw [hs2, hs3, List.append_nil, words_append_spaces _ _ (by simp; decide)]
            exact hfn
        · obtain ⟨w, c, T', hw, he, hv, _⟩ :=
            grouper_eval F (t1 :: rest) (by simp) hlt' hs' (T + h * 1000 ^ (rest.length + 1))
          refine ⟨first ++ grpSep2 ++ w, c, T', ?_, ?_, ?_, ?_⟩
          · simp only [grouper, h0, if_false, idx, hsc]
            rw [hf]; simp [hz, hw, pure, Except.pure]
          · rw [hs2, List.append_assoc, List.singleton_append, words_append_sep _ _ ' ' (by decide),
              evalFrom_append, hfe]
            simpa using he
          · simp only [value, List.length_cons] at hv ⊢; omega
          · rw [hs2, List.append_assoc, List.singleton_append, words_append_sep _ _ ' ' (by decide)]
            simp [hfn]

/-! ### `splitS` -/

theorem value_append_single (ts : List Nat) (x : Nat) : value (ts ++ [x]) = value ts * 1000 + x := by
  induction ts with
  | nil => simp [value]
  | cons t ts ih =>
    simp only [List.cons_append, value, ih, List.length_append, List.length_singleton, Nat.pow_succ]
    rw [Nat.add_mul, Nat.mul_assoc]; omega

theorem splitSAux_spec : ∀ (f n : Nat), n ≤ f →
    splitSAux f n ≠ [] ∧ (∀ t ∈ splitSAux f n, t < 1000) ∧ value (splitSAux f n) = n ∧
    (∀ L, 1 ≤ L → n < 1000 ^ L → (splitSAux f n).length ≤ L) := by
  intro f
  induction f with
  | zero =>
    intro n hn
    have : n = 0 := by omega
    subst this
    refine ⟨by simp [splitSAux], by simp [splitSAux], by simp [splitSAux, value], ?_⟩
    intro L hL _; simp [splitSAux]; omega
  | succ f ih =>
    intro n hn
    by_cases hlt : n < 1000
    · refine ⟨by simp [splitSAux, hlt], by simp [splitSAux, hlt], by simp [splitSAux, hlt, value], ?_⟩
      intro L hL _; simp [splitSAux, hlt]; omega
    · have hdiv : n / 1000 ≤ f := by omega
      obtain ⟨h1, h2, h3, h4⟩ := ih (n / 1000) hdiv
      simp only [splitSAux, hlt, if_false]
      refine ⟨by simp, ?_, ?_, ?_⟩
      · intro t ht
        rcases List.mem_append.mp ht with ht | ht
        · exact h2 t ht
        · simp at ht; omega
      · rw [value_append_single, h3]; omega
      · intro L hL hn'
        cases L with
        | zero => omega
        | succ L =>
          cases L with
          | zero => simp at hn'; omega
          | succ L =>
            have : n / 1000 < 1000 ^ (L + 1) := by
              rw [Nat.div_lt_iff_lt_mul (by decide)]
              rw [Nat.pow_succ] at hn'; exact hn'
            have := h4 (L + 1) (by omega) this
            simp; omega

theorem scalesNeeded_lt : ∀ (ts : List Nat), ∀ k ∈ scalesNeeded ts, k + 2 ≤ ts.length
  | [], k, hk => by simp [scalesNeeded] at hk
  | [_], k, hk => by simp [scalesNeeded] at hk
  | h :: t1 :: rest, k, hk => by
    simp only [scalesNeeded, List.mem_append] at hk
    rcases hk with hk | hk
    · by_cases h0 : h = 0
      · simp [h0] at hk
      · simp [h0] at hk; subst hk; simp
    · have := scalesNeeded_lt (t1 :: rest) k hk
      simp at this ⊢; omega

/-! ### the whole function -/

/-- if every scale word that the spelling of `n` uses is one the numeral system knows, the spelling exists and
    denotes `n` -/
theorem spell_eval_core {V : Vocab} {ℓ : Lang} (F : Facts V ℓ) (n : Int)
    (hs : ∀ k ∈ scalesNeeded (splitS n.natAbs), scaleOK V ℓ k = true) :
    ∃ w, enToutesLettres ℓ n = .ok w ∧ evalV V w = some n := by
  obtain ⟨hne, hlt, hval, _⟩ := splitSAux_spec n.natAbs n.natAbs (Nat.le_refl _)
  obtain ⟨w0, c, T', hw, he, hv, hn⟩ := grouper_eval F (splitS n.natAbs) hne hlt hs 0
  have hv' : c + T' = n.natAbs := by
    have : value (splitS n.natAbs) = n.natAbs := hval
    omega
  have hseps := F.seps
  simp only [sepsOK, Bool.and_eq_true, beq_iff_eq] at hseps
  obtain ⟨⟨_, hmw⟩, hml⟩ := hseps
  -- the words of the spelling of |n| evaluate to |n| and do not start with the sign word
  have hnat : evalNat V (words w0) = some n.natAbs := by
    cases hws : words w0 with
    | nil => exact absurd hws hn
    | cons a r => simp [evalNat, ← hws, he, hv']
  have hhead : ∀ a r, words w0 = a :: r → classify V a ≠ some .minus := by
    intro a r hws hcl
    rw [hws] at he
    simp [evalFrom, hcl, step] at he
  unfold enToutesLettres
  simp only [hw]
  refine ⟨_, rfl, ?_⟩
  unfold evalV
  rw [words_strip]
  by_cases hneg : n < 0
  · simp only [hneg, if_true]
    -- minus ++ w0 : the sign word, a space, then the spelling
    obtain ⟨m', hm⟩ := List.getLast?_eq_some_iff.mp hml
    have hwm : words m' = words (minusWord ℓ) := by
      rw [hm, words_append_spaces _ _ (by simp; decide)]
    change (match words (minusWord ℓ ++ w0) with | [] => none | w :: ws => _) = _
    rw [hm, List.append_assoc, List.singleton_append, words_append_sep _ _ ' ' (by decide), hwm]
    cases hmm : words (minusWord ℓ) with
    | nil => simp [hmm] at hmw
    | cons mw r =>
      cases r with
      | cons _ _ => simp [hmm] at hmw
      | nil =>
        simp only [hmm, beq_iff_eq] at hmw
        simp only [List.singleton_append, hmw, if_true, hnat, Option.map_some, Int.ofNat_eq_natCast]
        congr 1; omega
  · simp only [hneg, if_false]
    cases hws : words w0 with
    | nil => exact absurd hws hn
    | cons a r =>
      have := hhead a r hws
      simp only [this, if_false]
      rw [← hws, hnat]
      simp only [Option.map_some, Int.ofNat_eq_natCast]
      congr 1; omega

end Pyrealb.Number
