import Pyrealb.Lemmas.ClauseFrNesting
import Pyrealb.Lemmas.ClauseFrPlain
/-! From the clause specification to the list handed to `doPronounPlacement` (constituent notation): the FIRST verb of
    the VP carries `neg2` (and `lier`), every other verb is an infinitive or a participle without negation — through
    `processTyp`, `pronominalize`, and the conjugation. -/
namespace Pyrealb.ClauseFr
open Pyrealb
open Pyrealb.Gen.ClauseFr

/-- a verb element behind the first one: no negation, not hyphen-linked, infinitive or participle -/
def TailOk : El → Prop
  | .v y => y.neg2 = none ∧ y.lier = false ∧ (y.t = .b ∨ y.t = .pp)
  | _ => True

/-- the VP starts with a verb whose `neg2` is `w` and `lier` is `b`; the other verbs are `TailOk` -/
def VPI (w : Option Str) (b : Bool) (vp : List El) : Prop :=
  ∃ x r, vp = .v x :: r ∧ x.neg2 = w ∧ x.lier = b ∧ ∀ e ∈ r, TailOk e

theorem tailOk_nonV (e : El) (h : e.isV = false) : TailOk e := by
  cases e <;> simp_all [TailOk, El.isV]

theorem mem_pyInsert {α} (k : Nat) (a e : α) (l : List α) (h : e ∈ pyInsert k a l) : e = a ∨ e ∈ l := by
  induction k generalizing l with
  | zero => simpa [pyInsert] using h
  | succ k ih =>
    cases l with
    | nil => simp [pyInsert] at h; exact Or.inl h
    | cons x r =>
      simp only [pyInsert, List.mem_cons] at h
      rcases h with rfl | h
      · exact Or.inr List.mem_cons_self
      · rcases ih r h with h | h
        · exact Or.inl h
        · exact Or.inr (List.mem_cons_of_mem _ h)

theorem compEl_tailOk (cs : List Comp) : ∀ e ∈ cs.map compEl, TailOk e := by
  intro e he
  obtain ⟨c, _, rfl⟩ := List.mem_map.mp he
  cases c <;> simp [compEl, TailOk]

theorem vpi_elems (sp : Spec) : VPI none false (phraseElems sp).2 :=
  ⟨_, _, rfl, by simp [Spec.verbT, mkV], by simp [Spec.verbT, mkV], compEl_tailOk sp.comps⟩

/-- passive, swap: the first verb keeps `neg2`/`lier`, nothing but non-verbs is added behind it -/
theorem passiveSwap_vpi (sel rest : List El) (v : VT) (hr : ∀ e ∈ rest, TailOk e) :
    ∃ v' rest', (passiveSwap sel (.v v :: rest)).2.2.1 = .v v' :: rest' ∧ v'.neg2 = v.neg2 ∧ v'.lier = v.lier ∧
      v'.t = v.t ∧ ∀ e ∈ rest', TailOk e := by
  unfold passiveSwap
  rw [firstIdx_cons_false El.isNPorPro (.v v) rest rfl]
  have hins : ∀ k (a : El), a.isV = false → ∀ l : List El, (∀ e ∈ l, TailOk e) → ∀ e ∈ pyInsert k a l, TailOk e := by
    intro k a ha l hl e he
    rcases mem_pyInsert k a e l he with rfl | h
    · exact tailOk_nonV _ ha
    · exact hl e h
  have herase : ∀ i, ∀ e ∈ rest.eraseIdx i, TailOk e := fun i e he => hr e (List.mem_of_mem_eraseIdx he)
  cases ho : firstIdx El.isNPorPro rest with
  | some oi =>
    obtain ⟨e, he, hpe⟩ := firstIdx_getElem El.isNPorPro rest oi ho
    simp only [Option.map_some, List.eraseIdx_cons_succ, List.getElem?_cons_succ, he]
    cases e with
    | pro p =>
      simp only [Nat.add_eq_zero_iff, Nat.succ_ne_zero, and_false, if_false]
      split
      · rename_i s _
        exact ⟨v, pyInsert oi (.pp par s.inner false) (rest.eraseIdx oi), by simp [pyInsert], rfl, rfl, rfl,
               hins _ _ rfl _ (herase oi)⟩
      · exact ⟨v, rest.eraseIdx oi, rfl, rfl, rfl, rfl, herase oi⟩
    | np a =>
      split
      · rename_i s _
        exact ⟨v, pyInsert oi (.pp par s.inner false) (rest.eraseIdx oi), by simp [pyInsert], rfl, rfl, rfl,
               hins _ _ rfl _ (herase oi)⟩
      · exact ⟨v, rest.eraseIdx oi, rfl, rfl, rfl, rfl, herase oi⟩
    | _ => simp [El.isNPorPro] at hpe
  | none =>
    simp only [Option.map_none]
    split
    · simp only [firstIdx, El.isV, if_true, List.getElem?_cons_zero, List.set_cons_zero, Nat.zero_add, pyInsert]
      refine ⟨_, _, rfl, rfl, rfl, rfl, ?_⟩
      intro e he
      rcases List.mem_cons.mp he with rfl | he
      · trivial
      · exact hr e he
    · exact ⟨v, rest, rfl, rfl, rfl, rfl, hr⟩

theorem passiveAux_vpi (ns : Option El) (wo : Bool) (v : VT) (rest l : List El) (hr : ∀ e ∈ rest, TailOk e)
    (hn : v.neg2 = none) (hl : v.lier = false) (h : passiveAux ns wo (.v v :: rest) = .ok l) : VPI none false l := by
  unfold passiveAux at h
  simp only [auxLex_avoir, auxLex_etre, bind, Except.bind, firstIdx, El.isV, if_true, List.getElem?_cons_zero,
    List.eraseIdx_cons_zero, pyInsert, pure, Except.pure, Except.ok.injEq] at h
  subst h
  refine ⟨_, _, rfl, ?_, ?_, ?_⟩
  · by_cases h2 : v.t = .ip <;> cases ns <;> simp [h2, hn]
  · by_cases h2 : v.t = .ip <;> cases ns <;> simp [h2, hl]
  · intro e he
    rcases List.mem_cons.mp he with rfl | he
    · cases ns <;> simp [TailOk, mkV]
    · exact hr e he

theorem stagePas_vpi (sp : Spec) (s s' : List El × List El) (hc : VPI none false s.2) (h : stagePas sp s = .ok s') :
    VPI none false s'.2 := by
  unfold stagePas at h
  cases hp : sp.typ.pas with
  | false =>
    simp only [hp, Bool.false_eq_true, if_false, pure, Except.pure, Except.ok.injEq] at h
    subst h; exact hc
  | true =>
    simp only [hp, if_true] at h
    unfold passivatePhrase at h
    split at h
    · simp only [pure, Except.pure, Except.ok.injEq] at h
      subst h; exact hc
    · obtain ⟨x, r, hs, hn, hl, hr⟩ := hc
      simp only [bind, Except.bind, pure, Except.pure] at h
      obtain ⟨v', rest', hsw, hn', hl', _, hr'⟩ := passiveSwap_vpi s.1 r x hr
      rw [hs, hsw] at h
      split at h
      · cases h
      · rename_i l hl2
        simp only [Except.ok.injEq] at h
        rw [← h]
        exact passiveAux_vpi _ _ v' rest' l hr' (by rw [hn', hn]) (by rw [hl', hl]) hl2

theorem stageProg_vpi (sp : Spec) (s s' : List El × List El) (hc : VPI none false s.2) (h : stageProg sp s = .ok s') :
    VPI none false s'.2 := by
  unfold stageProg at h
  split at h
  · obtain ⟨x, r, hs, hn, hl, hr⟩ := hc
    rw [hs] at h
    cases hp : progPhrase (El.v x :: r) with
    | error e => simp [hp, Except.map] at h
    | ok l =>
      simp only [hp, Except.map, Except.ok.injEq] at h
      subst h
      unfold progPhrase at hp
      simp only [firstIdx, El.isV, if_true, List.getElem?_cons_zero, bind, Except.bind] at hp
      cases ha : auxLex progAux with
      | error e => simp [ha] at hp
      | ok lx =>
        simp only [ha, List.eraseIdx_cons_zero, prosBefore, List.take_zero, List.reverse_nil, prosBefore.go, Nat.sub_zero,
          Nat.zero_add, pyInsert, pure, Except.pure] at hp
        split at hp
        · simp only [Except.ok.injEq] at hp
          subst hp
          refine ⟨_, _, rfl, by simp [VT.setLemma, hn], by simp [VT.setLemma, hl], ?_⟩
          intro e he
          simp only [List.mem_cons] at he
          rcases he with rfl | rfl | rfl | he
          · trivial
          · trivial
          · simp [TailOk, mkV]
          · exact hr e he
        · rename_i hlen
          simp [pyInsert] at hlen
  · simp only [pure, Except.pure, Except.ok.injEq] at h
    subst h; exact hc

theorem stageMod_vpi (sp : Spec) (s s' : List El × List El) (hc : VPI none false s.2) (h : stageMod sp s = .ok s') :
    VPI none false s'.2 := by
  unfold stageMod at h
  split at h
  · rename_i m _
    split at h
    · obtain ⟨x, r, hs, hn, hl, hr⟩ := hc
      rw [hs] at h
      cases hp : modPhrase m (El.v x :: r) with
      | error e => simp [hp, Except.map] at h
      | ok l =>
        simp only [hp, Except.map, Except.ok.injEq] at h
        subst h
        unfold modPhrase at hp
        simp only [firstIdx, El.isV, if_true, List.getElem?_cons_zero, bind, Except.bind] at hp
        -- the modality verb is looked up (or the lemma is kept when `mod` has no entry)
        have key : ∀ v1 : VT, v1.neg2 = none → v1.lier = false →
            (if 0 + 1 ≤ ((El.v x :: r).set 0 (El.v { v1 with isMod := true, isProg := false })).length then
              (Except.ok (pyInsert (0 + 1) (El.v { mkV x.lex .b ({ v1 with isMod := true, isProg := false } : VT).epe
                  ({ v1 with isMod := true, isProg := false } : VT).en .m with
                  ope := some ({ v1 with isMod := true, isProg := false } : VT).epe,
                  on := some ({ v1 with isMod := true, isProg := false } : VT).en, isProg := v1.isProg })
                ((El.v x :: r).set 0 (El.v { v1 with isMod := true, isProg := false }))) : Except Crash (List El))
             else Except.ok ((El.v x :: r).set 0 (El.v { v1 with isMod := true, isProg := false }))) = .ok l →
            VPI none false l := by
          intro v1 h1 h2 hh
          simp only [List.set_cons_zero, List.length_cons, Nat.zero_add, Nat.le_add_left, if_true, pyInsert,
            Except.ok.injEq] at hh
          subst hh
          refine ⟨_, _, rfl, by simp [h1], by simp [h2], ?_⟩
          intro e he
          rcases List.mem_cons.mp he with rfl | he
          · simp [TailOk, mkV]
          · exact hr e he
        cases hm : modalLemma m with
        | none =>
          simp only [hm, pure, Except.pure, prosBefore, List.take_zero, List.reverse_nil, prosBefore.go, ne_eq,
            not_true_eq_false, if_false] at hp
          exact key x hn hl hp
        | some ml =>
          simp only [hm] at hp
          cases ha : auxLex ml with
          | error e => simp [ha] at hp
          | ok lx =>
            simp only [ha, pure, Except.pure, prosBefore, List.take_zero, List.reverse_nil, prosBefore.go, ne_eq,
              not_true_eq_false, if_false] at hp
            exact key { x.setLemma lx with cod := none } (by simp [VT.setLemma, hn]) (by simp [VT.setLemma, hl]) hp
    · simp only [pure, Except.pure, Except.ok.injEq] at h
      subst h; exact hc
  · simp only [pure, Except.pure, Except.ok.injEq] at h
    subst h; exact hc

theorem stageNeg_vpi (sp : Spec) (s : List El × List El) (hvp : s.1.any El.isVP = true) (hc : VPI none false s.2) :
    VPI (sp.typ.neg.map NegV.word2) false (stageNeg sp s).2 := by
  unfold stageNeg
  obtain ⟨x, r, hs, hn, hl, hr⟩ := hc
  cases hneg : sp.typ.neg with
  | none => exact ⟨x, r, hs, by simpa using hn, hl, hr⟩
  | some nv =>
    simp only [hvp, if_true, Option.map_some]
    exact ⟨{ x with neg2 := some nv.word2 }, r, by simp [negPhrase, hs, firstIdx, El.isV], rfl, hl, hr⟩

/-! ### `pronominalize` touches no field of a verb that the conjugation or the placement reads (only `cod`) -/

/-- what the rest of the pipeline reads of a verb element: `neg2`, `lier`, tense, `isMod`, `isProg` -/
def esig : El → Option (Option Str × Bool × Tense × Bool × Bool)
  | .v x => some (x.neg2, x.lier, x.t, x.isMod, x.isProg)
  | _ => none

theorem set_esig (l : List El) (j : Nat) (e e' : El) (h : l[j]? = some e) (hs : esig e' = esig e) :
    (l.set j e').map esig = l.map esig := by
  induction l generalizing j with
  | nil => rfl
  | cons a r ih =>
    cases j with
    | zero => simp only [List.getElem?_cons_zero, Option.some.injEq] at h; subst h; simp [hs]
    | succ k => simp only [List.getElem?_cons_succ] at h; simp [ih k h]

theorem pronominalizeVP_go_esig (fuel i : Nat) (l : List El) :
    (pronominalizeVP.go fuel i l).map esig = l.map esig := by
  induction fuel generalizing i l with
  | zero => rfl
  | succ f ih =>
    unfold pronominalizeVP.go
    cases hi : l[i]? with
    | none => rfl
    | some e =>
      cases e with
      | np a =>
        simp only
        split
        · split
          · rename_i idxV _
            rw [ih]
            have h1 : (l.set i (El.pro (tonicProOf a.g a.n Cas.acc))).map esig = l.map esig :=
              set_esig l i _ _ hi rfl
            split
            · rename_i x hx
              exact (set_esig _ idxV (El.v x) (El.v { x with cod := some (a.g, a.n) }) hx rfl).trans h1
            · exact h1
          · rw [ih]; exact set_esig l i _ _ hi rfl
        · exact ih _ _
      | pp prep inner flag =>
        cases flag with
        | false => simp only; exact ih _ _
        | true =>
          simp only
          rw [ih]
          apply set_esig l i _ _ hi
          split <;> (try split) <;> (try split) <;> (try rfl) <;> (cases inner <;> rfl)
      | _ => simp only; exact ih _ _

theorem pronominalizeVP_esig (l : List El) : (pronominalizeVP l).map esig = l.map esig :=
  pronominalizeVP_go_esig _ _ l

/-- `VPI` only looks at `esig` -/
theorem vpi_of_esig (w : Option Str) (b : Bool) (l l' : List El) (h : l'.map esig = l.map esig) (hc : VPI w b l) :
    VPI w b l' := by
  obtain ⟨x, r, hs, hn, hl, hr⟩ := hc
  subst hs
  cases l' with
  | nil => simp at h
  | cons e' r' =>
    simp only [List.map_cons, List.cons.injEq] at h
    obtain ⟨h0, hrest⟩ := h
    cases e' with
    | v x' =>
      simp only [esig, Option.some.injEq, Prod.mk.injEq] at h0
      refine ⟨x', r', rfl, by rw [h0.1, hn], by rw [h0.2.1, hl], ?_⟩
      -- element-wise: same signature, so TailOk transfers
      intro e he
      obtain ⟨k, hk⟩ := List.getElem?_of_mem he
      have hk2 : (r'.map esig)[k]? = some (esig e) := by simp [hk]
      rw [hrest] at hk2
      simp only [List.getElem?_map, Option.map_eq_some_iff] at hk2
      obtain ⟨e0, he0, hsig⟩ := hk2
      have := hr e0 (List.mem_of_getElem? he0)
      cases e <;> cases e0 <;> simp_all [esig, TailOk]
    | _ => simp [esig] at h0

/-! ### conjugation: the first token of the first verb takes over `neg2` and `lier`, every other token is clean -/

/-- a token behind the first one: a verb carries neither a negation nor a hyphen -/
def TokTailOk : Tok → Prop
  | .v y _ => y.neg2 = none ∧ y.lier = false
  | _ => True

/-- how the first token `y` of a conjugated verb `x` relates to it: the verb itself in a simple tense, the auxiliary
    (never a modality / progressive flag carrier) in a compound tense -/
def HeadRel (x y : VT) : Prop :=
  (x.t.auxTense = none ∧ y.t = x.t ∧ y.isMod = x.isMod ∧ y.isProg = x.isProg) ∨
  (∃ ta, x.t.auxTense = some ta ∧ y.t = ta ∧ y.isMod = false ∧ y.isProg = false)

theorem conj_head (x : VT) (refl : Bool) (np : Option Tok) (r : List Tok × Bool)
    (hnp : ∀ p, np = some p → TokTailOk p) (h : conjugate x refl np = .ok r) :
    ∃ hd tl, r.1 = hd :: tl ∧ (∀ t ∈ tl, TokTailOk t) ∧
      ((∃ l c, hd = .qv l c) ∨ ∃ y f, hd = .v y f ∧ y.neg2 = x.neg2 ∧ y.lier = x.lier ∧ HeadRel x y) := by
  rcases conjugate_cases x refl np r h with rfl | ⟨hta, cr, rfl⟩ | ⟨ta, aux, ra, form, hta, rfl, hat, ham, hap, _⟩
  · exact ⟨_, [], rfl, by simp, Or.inl ⟨_, _, rfl⟩⟩
  · refine ⟨_, [], rfl, by simp, ?_⟩
    cases cr
    · exact Or.inr ⟨x, _, rfl, rfl, rfl, Or.inl ⟨hta, rfl, rfl, rfl⟩⟩
    · exact Or.inl ⟨_, _, rfl⟩
  · have hme : TokTailOk (.v { x with neg2 := none, lier := false } form) := ⟨rfl, rfl⟩
    have hhead : (∃ l c, tokOfConj { aux with neg2 := x.neg2, lier := x.lier } ra = .qv l c) ∨
        ∃ y f, tokOfConj { aux with neg2 := x.neg2, lier := x.lier } ra = .v y f ∧ y.neg2 = x.neg2 ∧ y.lier = x.lier ∧
          HeadRel x y := by
      cases ra
      · exact Or.inr ⟨_, _, rfl, rfl, rfl, Or.inr ⟨ta, hta, hat, ham, hap⟩⟩
      · exact Or.inl ⟨_, _, rfl⟩
    simp only [compoundToks]
    split
    · cases np with
      | some p =>
        refine ⟨_, [p, _], rfl, ?_, hhead⟩
        intro t ht
        simp only [List.mem_cons, List.not_mem_nil, or_false] at ht
        rcases ht with rfl | rfl
        · exact hnp _ rfl
        · exact hme
      | none =>
        exact ⟨_, [_], rfl, by intro t ht; simp at ht; subst ht; exact hme, hhead⟩
    · exact ⟨_, [_], rfl, by intro t ht; simp at ht; subst ht; exact hme, hhead⟩

theorem conj_clean (x : VT) (refl : Bool) (np : Option Tok) (r : List Tok × Bool)
    (hn : x.neg2 = none) (hl : x.lier = false) (h : conjugate x refl np = .ok r) :
    (∀ t ∈ r.1, TokTailOk t) ∧ r.2 = false := by
  rcases conjugate_cases x refl np r h with rfl | ⟨_, cr, rfl⟩ | ⟨ta, aux, ra, form, _, rfl, _⟩
  · exact ⟨(by intro t ht; simp at ht; subst ht; trivial), rfl⟩
  · refine ⟨?_, rfl⟩
    intro t ht; simp at ht; subst ht
    cases cr
    · exact ⟨hn, hl⟩
    · trivial
  · have hcv : compoundToks x aux ra form np =
        ([tokOfConj { aux with neg2 := x.neg2, lier := x.lier } ra, .v { x with neg2 := none, lier := false } form], false) := by
      simp [compoundToks, hl]
    rw [hcv]
    refine ⟨?_, rfl⟩
    intro t ht
    simp only [List.mem_cons, List.not_mem_nil, or_false] at ht
    rcases ht with rfl | rfl
    · cases ra
      · exact ⟨hn, hl⟩
      · trivial
    · exact ⟨rfl, rfl⟩

theorem elToks_clean (e : El) (h : e.isV = false) : ∀ t ∈ e.toks, TokTailOk t := by
  intro t ht
  cases e with
  | v x => simp [El.isV] at h
  | np a => simp [El.toks] at ht; rcases ht with rfl | rfl <;> trivial
  | pp prep inner flag =>
    simp only [El.toks, List.mem_cons] at ht
    rcases ht with rfl | ht
    · trivial
    · cases inner <;> simp [Inner.toks, proTok] at ht
      · rcases ht with rfl | rfl <;> trivial
      · subst ht; trivial
  | pro p => simp [El.toks, proTok] at ht; subst ht; trivial
  | q l => simp [El.toks] at ht; subst ht; trivial
  | pt l => simp [El.toks] at ht; subst ht; trivial
  | vp => simp [El.toks] at ht

/-- unfolding of `realVPToks` on a verb followed by anything -/
theorem realVPToks_v (refl : Bool) (x : VT) (tail : List El) :
    realVPToks refl (.v x :: tail) =
      (match tail with
       | .pro p :: rest => do
         let r ← conjugate x refl (some (proTok p))
         if r.2 then do
           let more ← realVPToks refl rest
           pure (r.1 ++ more)
         else do
           let more ← realVPToks refl (.pro p :: rest)
           pure (r.1 ++ more)
       | _ => do
         let r ← conjugate x refl none
         let more ← realVPToks refl tail
         pure (r.1 ++ more)) := by
  cases tail with
  | nil => simp [realVPToks]
  | cons e rest => cases e <;> simp [realVPToks]

theorem realVPToks_nonV (refl : Bool) (e : El) (tail : List El) (h : e.isV = false) :
    realVPToks refl (e :: tail) = (realVPToks refl tail >>= fun more => pure (e.toks ++ more)) := by
  cases e <;> simp_all [realVPToks, El.isV]

/-- the tokens of elements whose verbs are all clean are clean -/
theorem realVPToks_clean (refl : Bool) (l : List El) (ts : List Tok) (hl : ∀ e ∈ l, TailOk e)
    (h : realVPToks refl l = .ok ts) : ∀ t ∈ ts, TokTailOk t := by
  induction l generalizing ts with
  | nil => simp [realVPToks] at h; subst h; simp
  | cons e tail ih =>
    have htail : ∀ e' ∈ tail, TailOk e' := fun e' he' => hl e' (List.mem_cons_of_mem _ he')
    by_cases hv : e.isV = true
    · cases e with
      | v x =>
        have hx := hl (.v x) List.mem_cons_self
        simp only [TailOk] at hx
        rw [realVPToks_v] at h
        split at h
        · rename_i p rest
          obtain ⟨r, hr, h⟩ := bindE_ok _ _ _ h
          have hc := conj_clean x refl _ r hx.1 hx.2.1 hr
          simp only [hc.2, Bool.false_eq_true, if_false] at h
          obtain ⟨more, hm, h⟩ := bindE_ok _ _ _ h
          simp only [pure, Except.pure, Except.ok.injEq] at h
          subst h
          intro t ht
          rcases List.mem_append.mp ht with ht | ht
          · exact hc.1 t ht
          · exact ih more htail hm t ht
        · obtain ⟨r, hr, h⟩ := bindE_ok _ _ _ h
          have hc := conj_clean x refl _ r hx.1 hx.2.1 hr
          obtain ⟨more, hm, h⟩ := bindE_ok _ _ _ h
          simp only [pure, Except.pure, Except.ok.injEq] at h
          subst h
          intro t ht
          rcases List.mem_append.mp ht with ht | ht
          · exact hc.1 t ht
          · exact ih more htail hm t ht
      | _ => simp [El.isV] at hv
    · have hv' : e.isV = false := by cases h' : e.isV <;> simp_all
      rw [realVPToks_nonV refl e tail hv'] at h
      obtain ⟨more, hm, h⟩ := bindE_ok _ _ _ h
      simp only [pure, Except.pure, Except.ok.injEq] at h
      subst h
      intro t ht
      rcases List.mem_append.mp ht with ht | ht
      · exact elToks_clean e hv' t ht
      · exact ih more htail hm t ht

/-- the list handed to `doPronounPlacement`: its first token is the first token of the first verb -/
def TKI (w : Option Str) (b : Bool) (x : VT) (toks : List Tok) : Prop :=
  ∃ hd tl, toks = hd :: tl ∧ (∀ t ∈ tl, TokTailOk t) ∧
    ((∃ l c, hd = .qv l c) ∨ ∃ y f, hd = .v y f ∧ y.neg2 = w ∧ y.lier = b ∧ HeadRel x y)

theorem realVPToks_head (refl : Bool) (x : VT) (r : List El) (ts : List Tok) (hr : ∀ e ∈ r, TailOk e)
    (h : realVPToks refl (.v x :: r) = .ok ts) : TKI x.neg2 x.lier x ts := by
  rw [realVPToks_v] at h
  split at h
  · rename_i p rest
    obtain ⟨cr, hcr, h⟩ := bindE_ok _ _ _ h
    obtain ⟨hd, tl, hcv, htl, hhd⟩ := conj_head x refl _ cr (by intro q hq; cases hq; trivial) hcr
    have hrest : ∀ e ∈ rest, TailOk e := fun e he => hr e (List.mem_cons_of_mem _ he)
    split at h
    · obtain ⟨more, hm, h⟩ := bindE_ok _ _ _ h
      simp only [pure, Except.pure, Except.ok.injEq] at h
      subst h
      refine ⟨hd, tl ++ more, by rw [hcv]; rfl, ?_, hhd⟩
      intro t ht
      rcases List.mem_append.mp ht with ht | ht
      · exact htl t ht
      · exact realVPToks_clean refl rest more hrest hm t ht
    · obtain ⟨more, hm, h⟩ := bindE_ok _ _ _ h
      simp only [pure, Except.pure, Except.ok.injEq] at h
      subst h
      refine ⟨hd, tl ++ more, by rw [hcv]; rfl, ?_, hhd⟩
      intro t ht
      rcases List.mem_append.mp ht with ht | ht
      · exact htl t ht
      · exact realVPToks_clean refl _ more hr hm t ht
  · obtain ⟨cr, hcr, h⟩ := bindE_ok _ _ _ h
    obtain ⟨hd, tl, hcv, htl, hhd⟩ := conj_head x refl none cr (by intro q hq; cases hq) hcr
    obtain ⟨more, hm, h⟩ := bindE_ok _ _ _ h
    simp only [pure, Except.pure, Except.ok.injEq] at h
    subst h
    refine ⟨hd, tl ++ more, by rw [hcv]; rfl, ?_, hhd⟩
    intro t ht
    rcases List.mem_append.mp ht with ht | ht
    · exact htl t ht
    · exact realVPToks_clean refl r more hr hm t ht

/-! ### the S level: what precedes the VP is never a verb -/

/-- the S is `pre ++ [VP]` where `pre` holds neither a verb nor a VP -/
def SelShape (sel : List El) : Prop :=
  ∃ pre, sel = pre ++ [.vp] ∧ ∀ e ∈ pre, e.isV = false ∧ e.isVP = false

theorem selShape_elems (sp : Spec) : SelShape (phraseElems sp).1 := by
  unfold phraseElems
  cases hs : sp.subj with
  | none => exact ⟨[], by simp, by simp⟩
  | some s =>
    cases s with
    | pro vm pe n g => exact ⟨[.pro (SubjA.proT vm pe n g)], by simp, by simp [El.isV, El.isVP]⟩
    | np a =>
      by_cases ha : a.pro = true
      · exact ⟨[.pro (tonicProOf a.g a.n .nom)], by simp [ha], by simp [El.isV, El.isVP]⟩
      · exact ⟨[.np a], by simp [ha], by simp [El.isV, El.isVP]⟩

theorem selShape_passiveSwap (sel vp : List El) (h : SelShape sel) : SelShape (passiveSwap sel vp).2.1 := by
  obtain ⟨pre, rfl, hpre⟩ := h
  -- the subject (first element, if it is a noun phrase or a pronoun) leaves the S
  have hsel1 : ∃ pre1, (match pre ++ [El.vp] with
      | .np a :: r => ((some (El.np a), r) : Option El × List El)
      | .pro p :: r => (some (.pro (passivePronounSubject p)), r)
      | _ => (none, pre ++ [El.vp])).2 = pre1 ++ [.vp] ∧ ∀ e ∈ pre1, e.isV = false ∧ e.isVP = false := by
    cases pre with
    | nil => exact ⟨[], rfl, by simp⟩
    | cons a r =>
      have hr : ∀ e ∈ r, e.isV = false ∧ e.isVP = false := fun e he => hpre e (List.mem_cons_of_mem _ he)
      cases a with
      | np a => exact ⟨r, rfl, hr⟩
      | pro p => exact ⟨r, rfl, hr⟩
      | _ => exact ⟨_ :: r, rfl, hpre⟩
  obtain ⟨pre1, h1, hp1⟩ := hsel1
  -- the new subject (a noun phrase or a pronoun), if any, is put in front
  have hfront : ∃ o : List El, (passiveSwap (pre ++ [El.vp]) vp).2.1 = o ++ (match pre ++ [El.vp] with
      | .np a :: r => ((some (El.np a), r) : Option El × List El)
      | .pro p :: r => (some (.pro (passivePronounSubject p)), r)
      | _ => (none, pre ++ [El.vp])).2 ∧ ∀ e ∈ o, e.isV = false ∧ e.isVP = false := by
    unfold passiveSwap
    simp only
    split
    · refine ⟨[_], rfl, ?_⟩
      intro e he
      simp only [List.mem_singleton] at he
      subst he
      split <;> (try split) <;> simp [El.isV, El.isVP]
    · split
      · refine ⟨[_], rfl, ?_⟩
        intro e he
        simp only [List.mem_singleton] at he
        subst he
        simp [El.isV, El.isVP]
      · exact ⟨[], rfl, by simp⟩
  obtain ⟨o, ho, hoo⟩ := hfront
  refine ⟨o ++ pre1, by rw [ho, h1, List.append_assoc], ?_⟩
  intro e he
  rcases List.mem_append.mp he with he | he
  · exact hoo e he
  · exact hp1 e he

theorem stagePas_selShape (sp : Spec) (s s' : List El × List El) (hc : SelShape s.1) (h : stagePas sp s = .ok s') :
    SelShape s'.1 := by
  unfold stagePas at h
  split at h
  · unfold passivatePhrase at h
    split at h
    · simp only [pure, Except.pure, Except.ok.injEq] at h; subst h; exact hc
    · simp only [bind, Except.bind, pure, Except.pure] at h
      split at h
      · cases h
      · simp only [Except.ok.injEq] at h
        rw [← h]
        exact selShape_passiveSwap _ _ hc
  · simp only [pure, Except.pure, Except.ok.injEq] at h; subst h; exact hc

theorem stageProg_fst (sp : Spec) (s s' : List El × List El) (h : stageProg sp s = .ok s') : s'.1 = s.1 := by
  unfold stageProg at h
  split at h
  · cases hp : progPhrase s.2 with
    | error e => simp [hp, Except.map] at h
    | ok l => simp only [hp, Except.map, Except.ok.injEq] at h; subst h; rfl
  · simp only [pure, Except.pure, Except.ok.injEq] at h; subst h; rfl

theorem stageMod_fst (sp : Spec) (s s' : List El × List El) (h : stageMod sp s = .ok s') : s'.1 = s.1 := by
  unfold stageMod at h
  split at h
  · split at h
    · rename_i m _ _
      cases hp : modPhrase m s.2 with
      | error e => simp [hp, Except.map] at h
      | ok l => simp only [hp, Except.map, Except.ok.injEq] at h; subst h; rfl
    · simp only [pure, Except.pure, Except.ok.injEq] at h; subst h; rfl
  · simp only [pure, Except.pure, Except.ok.injEq] at h; subst h; rfl

theorem stageNeg_fst (sp : Spec) (s : List El × List El) : (stageNeg sp s).1 = s.1 := by
  unfold stageNeg
  split
  · split <;> rfl
  · rfl

theorem selShape_hasVP (sel : List El) (h : SelShape sel) : sel.any El.isVP = true := by
  obtain ⟨pre, rfl, _⟩ := h
  simp [El.isVP]

/-- **what `processTyp` hands to the realization** (no interrogative): the S is `pre ++ [VP]` without a verb in `pre`,
    the first element of the VP is a verb that carries the negation, every other verb of the VP is a clean infinitive
    or participle -/
theorem phraseTyped_inv (sp : Spec) (sel vp : List El) (e : Str) (hint : sp.typ.int = none)
    (h : phraseTyped sp = .ok (sel, vp, e)) :
    SelShape sel ∧ VPI (sp.typ.neg.map NegV.word2) false vp ∧ e = [] := by
  unfold phraseTyped at h
  obtain ⟨s1, h1, h⟩ := bindE_ok _ _ _ h
  obtain ⟨s2, h2, h⟩ := bindE_ok _ _ _ h
  obtain ⟨s3, h3, h⟩ := bindE_ok _ _ _ h
  simp only [hint, pure, Except.pure, Except.ok.injEq, Prod.mk.injEq] at h
  have hs1 := stagePas_selShape sp _ s1 (selShape_elems sp) h1
  have hv1 := stagePas_vpi sp _ s1 (vpi_elems sp) h1
  have hv2 := stageProg_vpi sp _ s2 hv1 h2
  have hv3 := stageMod_vpi sp _ s3 hv2 h3
  have hf2 := stageProg_fst sp _ s2 h2
  have hf3 := stageMod_fst sp _ s3 h3
  have hs3 : SelShape s3.1 := by rw [hf3, hf2]; exact hs1
  refine ⟨?_, ?_, h.2.2.symm⟩
  · rw [← h.1, stageNeg_fst]; exact hs3
  · rw [← h.2.1]; exact stageNeg_vpi sp s3 (selShape_hasVP _ hs3) hv3

/-! ### `removeEmpty` is a filter as soon as something is kept -/

theorem removeEmptyAux_filter (k : Nat) (l : List Tok) (h : 0 < k ∨ ∃ t ∈ l, t.form.isEmpty = false) :
    removeEmptyAux k l = l.filter (fun t => !t.form.isEmpty) := by
  induction l generalizing k with
  | nil => rfl
  | cons a r ih =>
    unfold removeEmptyAux
    cases ha : a.form.isEmpty with
    | true =>
      have hr : 0 < k ∨ ∃ t ∈ r, t.form.isEmpty = false := by
        rcases h with h | ⟨t, ht, hte⟩
        · exact Or.inl h
        · rcases List.mem_cons.mp ht with rfl | ht
          · rw [ha] at hte; cases hte
          · exact Or.inr ⟨t, ht, hte⟩
      have hcond : k + r.length + 1 > 1 := by
        rcases hr with h | ⟨t, ht, _⟩
        · omega
        · have := List.length_pos_of_mem ht; omega
      simp [hcond, ha, ih k hr]
    | false =>
      simp [ha, ih (k + 1) (Or.inl (Nat.succ_pos k))]

theorem removeEmpty_filter (l : List Tok) (h : ∃ t ∈ l, t.form.isEmpty = false) :
    removeEmpty l = l.filter (fun t => !t.form.isEmpty) :=
  removeEmptyAux_filter 0 l (Or.inr h)

theorem elToks_noV (e : El) (h : e.isV = false) : ∀ t ∈ e.toks, t.isV = false := by
  intro t ht
  cases e with
  | v x => simp [El.isV] at h
  | np a => simp [El.toks] at ht; rcases ht with rfl | rfl <;> rfl
  | pp prep inner flag =>
    simp only [El.toks, List.mem_cons] at ht
    rcases ht with rfl | ht
    · rfl
    · cases inner <;> simp [Inner.toks, proTok] at ht
      · rcases ht with rfl | rfl <;> rfl
      · subst ht; rfl
  | pro p => simp [El.toks, proTok] at ht; subst ht; rfl
  | q l => simp [El.toks] at ht; subst ht; rfl
  | pt l => simp [El.toks] at ht; subst ht; rfl
  | vp => simp [El.toks] at ht

theorem flatMap_selToks (pre : List El) (placed : List Tok) (hpre : ∀ e ∈ pre, e.isVP = false) :
    (pre ++ [El.vp]).flatMap (selToks placed) = pre.flatMap El.toks ++ placed := by
  induction pre with
  | nil => simp [selToks]
  | cons a r ih =>
    have ha := hpre a List.mem_cons_self
    have hr := ih (fun e he => hpre e (List.mem_cons_of_mem _ he))
    simp only [List.cons_append, List.flatMap_cons, hr, List.append_assoc]
    cases a <;> simp_all [selToks, El.isVP]

end Pyrealb.ClauseFr
