import Pyrealb.Lemmas.HeapHist
/-! # A structural sufficient condition for link confluence: the "headed" phrases VP, PP, AP, AdvP

Their link run only copies the record(s) of the head into the phrase: `plan` is `[]`, `[setPeng false p hd]` (PP, AP, AdvP)
or `[setPeng false p hd, setTaux false p hd]` (VP), where `hd` is the first child of the head kinds, or the first child.
If the head `H` of the FINAL child list has an agreement record (and a tense record for a VP) — e.g. it is a V, an A —
then, whatever the earlier heads were (children inserted in any order, in front or behind), the earlier runs wrote only
`p.peng` / `p.taux`, the final run writes them again from the untouched records of `H`: the hypotheses `cover` and `stable`
of `link_confluent_partial` hold. -/
namespace Pyrealb.Heap
open Pyrealb

/-- the plan of a headed phrase `p` (`wt`: with the tense record, i.e. a VP) whose current head is `hd` -/
def headedPlan (wt : Bool) (p hd : Nat) : List Act :=
  if wt then [.setPeng false p hd, .setTaux false p hd] else [.setPeng false p hd]

def Headed (wt : Bool) (p : Nat) (Q : List Act) : Prop := Q = [] ∨ ∃ hd, hd ≠ p ∧ Q = headedPlan wt p hd

/-- the constant writes of `headedPlan` in the state `q` -/
def headedW (wt : Bool) (q : Ptr) (p hd : Nat) : List Wr :=
  (match q.peng hd with | some r => [Wr.peng p r] | none => []) ++
  (if wt then (match q.taux hd with | some r => [Wr.taux p r] | none => []) else [])

theorem compile_headed (wt : Bool) (q : Ptr) (p hd : Nat) :
    compile q {} (headedPlan wt p hd) = some (headedW wt q p hd, none) := by
  cases wt with
  | false =>
    simp only [headedPlan, headedW, Bool.false_eq_true, if_false, compile, REnv.origin, List.lookup]
    cases hp : q.peng hd <;> simp [hp]
  | true =>
    simp only [headedPlan, headedW, if_true, compile, REnv.origin, REnv.originT, List.lookup]
    cases hp : q.peng hd <;> cases ht : q.taux hd <;> simp [hp, ht, REnv.originT, List.lookup]

theorem locs_headedW (wt : Bool) (q : Ptr) (p hd : Nat) :
    ∀ l ∈ locs (headedW wt q p hd), l = Loc.peng p ∨ (wt = true ∧ l = Loc.taux p) := by
  intro l hl
  simp only [headedW, locs, List.map_append, List.mem_append] at hl
  rcases hl with hl | hl
  · cases hp : q.peng hd with
    | none => simp [hp] at hl
    | some r => simp [hp, Wr.loc] at hl; exact Or.inl hl
  · cases wt with
    | false => simp at hl
    | true =>
      cases ht : q.taux hd with
      | none => simp [ht] at hl
      | some r => simp [ht, Wr.loc] at hl; exact Or.inr ⟨rfl, hl⟩

/-- writes to the two slots of `p` leave the slots of every other node as they were -/
theorem applyW_other (q : Ptr) (W : List Wr) (p : Nat) (hW : ∀ l ∈ locs W, l = Loc.peng p ∨ l = Loc.taux p) (x : Nat)
    (hx : x ≠ p) : (applyW q W).peng x = q.peng x ∧ (applyW q W).taux x = q.taux x := by
  have f := applyW_frame q W
  constructor
  · apply f.peng x
    intro hm
    rcases hW _ hm with h | h
    · simp at h; exact hx h
    · simp at h
  · apply f.taux x
    intro hm
    rcases hW _ hm with h | h
    · simp at h
    · simp at h; exact hx h

/-- the earlier runs of a headed phrase write only its own two slots -/
theorem runW_headed (wt : Bool) (p : Nat) : ∀ (Ps : List (List Act)) (q : Ptr), (∀ Q ∈ Ps, Headed wt p Q) →
    ∃ W, runW q Ps = some W ∧ ∀ l ∈ locs W, l = Loc.peng p ∨ (wt = true ∧ l = Loc.taux p) := by
  intro Ps
  induction Ps with
  | nil => intro q _; exact ⟨[], rfl, by simp [locs]⟩
  | cons Q Qs ih =>
    intro q hQ
    have hrest : ∀ Q' ∈ Qs, Headed wt p Q' := fun Q' h' => hQ Q' (List.mem_cons_of_mem _ h')
    rcases hQ Q List.mem_cons_self with rfl | ⟨hd, _, rfl⟩
    · obtain ⟨W, hW, hl⟩ := ih q hrest
      refine ⟨W, ?_, hl⟩
      simp [runW, compile, applyW, hW]
    · obtain ⟨W, hW, hl⟩ := ih (applyW q (headedW wt q p hd)) hrest
      refine ⟨headedW wt q p hd ++ W, ?_, ?_⟩
      · simp only [runW, compile_headed, hW]
      · intro l hm
        simp only [locs, List.map_append, List.mem_append] at hm
        rcases hm with hm | hm
        · exact locs_headedW wt q p hd l hm
        · exact hl l hm

/-- **structural absorption for headed phrases**: when the head `H` of the final run has a record (and a tense record
    if the phrase is a VP), the final run alone determines the result, whatever heads the earlier runs saw -/
theorem headed_absorbed (wt : Bool) (q : Ptr) (p H : Nat) (Ps : List (List Act)) (hPs : ∀ Q ∈ Ps, Headed wt p Q)
    (hH : H ≠ p) (hp : (q.peng H).isSome) (ht : wt = true → (q.taux H).isSome) :
    runPlans q (Ps ++ [headedPlan wt p H]) = execP q (headedPlan wt p H) := by
  obtain ⟨W, hW, hl⟩ := runW_headed wt p Ps q hPs
  have hl2 : ∀ l ∈ locs W, l = Loc.peng p ∨ l = Loc.taux p := fun l hm => (hl l hm).imp id (·.2)
  have st := applyW_other q W p hl2 H hH
  apply runs_absorbed q Ps _ W (headedW wt q p H) hW (compile_headed wt q p H)
  · rw [compile_headed]
    simp only [headedW, st.1, st.2]
  · intro l hm
    obtain ⟨r, hr⟩ := Option.isSome_iff_exists.mp hp
    rcases hl l hm with rfl | ⟨hwt, rfl⟩
    · simp [headedW, locs, hr, Wr.loc]
    · obtain ⟨r', hr'⟩ := Option.isSome_iff_exists.mp (ht hwt)
      simp [headedW, locs, hr, hr', hwt, Wr.loc]

/-! ### the plans of VP, PP, AP, AdvP have this form -/

def headedKind : Kind → Bool
  | .VP | .PP | .AP | .AdvP => true
  | _ => false

theorem plan_headed (h : Heap) (p : Nat) (Q : List Act) (hk : headedKind (h.kind p) = true)
    (hself : ¬ p ∈ h.kids p) (hq : plan h p = some Q) : Headed (h.kind p == .VP) p Q := by
  have key : ∀ (i : Nat) (wt : Bool), (match (h.kids p)[i]? with
        | none => some []
        | some hd => some (headedPlan wt p hd)) = some Q → Headed wt p Q := by
    intro i wt hm
    cases hi : (h.kids p)[i]? with
    | none => rw [hi] at hm; simp only [Option.some.injEq] at hm; exact Or.inl hm.symm
    | some hd =>
      rw [hi] at hm
      simp only [Option.some.injEq] at hm
      refine Or.inr ⟨hd, ?_, hm.symm⟩
      intro e
      have hm2 : hd ∈ h.kids p := List.mem_of_getElem? hi
      rw [e] at hm2
      exact hself hm2
  have fin : ∀ (F : Plan), (if (h.kids p).isEmpty = true then some []
      else if ((h.kids p).any fun e => (h.kind e).isDep) = true then none else F) = some Q → Q = [] ∨ F = some Q := by
    intro F hF
    split at hF
    · simp only [Option.some.injEq] at hF; exact Or.inl hF.symm
    · split at hF
      · simp at hF
      · exact Or.inr hF
  cases hkp : h.kind p <;> simp [hkp, headedKind] at hk
  · -- AP
    simp only [plan, planPhrase, hkp, Kind.isPhrase, if_true] at hq
    rcases fin _ hq with rfl | hF
    · exact Or.inl rfl
    · simp only [planXP] at hF; exact key _ _ hF
  · -- AdvP
    simp only [plan, planPhrase, hkp, Kind.isPhrase, if_true] at hq
    rcases fin _ hq with rfl | hF
    · exact Or.inl rfl
    · simp only [planXP] at hF; exact key _ _ hF
  · -- VP
    simp only [plan, planPhrase, hkp, Kind.isPhrase, if_true] at hq
    rcases fin _ hq with rfl | hF
    · exact Or.inl rfl
    · simp only [planVP] at hF; exact key _ true hF
  · -- PP
    simp only [plan, planPhrase, hkp, Kind.isPhrase, if_true] at hq
    rcases fin _ hq with rfl | hF
    · exact Or.inl rfl
    · simp only [planXP] at hF; exact key _ _ hF

end Pyrealb.Heap
