import Pyrealb.Lemmas.JsonRoundtrip
set_option linter.unusedSimpArgs false
/-! Under a CANONICAL history, decoding the JSON form gives back the expression EXACTLY — state and history — hence the
    same source again (C12, cross clause "same source after a JSON round trip"). -/
namespace Pyrealb.Expr
open Pyrealb

/-! ### exact form of the decoded constituent: its history is the canonical one of its props -/

def Expr.upd (e : Expr) (ps : List (Str × PVal)) (hs : List Call) : Expr :=
  e.setNode { e.node with props := ps, hist := hs }

abbrev Expr.hist (e : Expr) : List Call := e.node.hist

@[simp] theorem upd_props (e : Expr) (ps hs) : (e.upd ps hs).props = ps := by cases e <;> rfl
@[simp] theorem upd_hist (e : Expr) (ps hs) : (e.upd ps hs).hist = hs := by cases e <;> rfl
@[simp] theorem upd_kind (e : Expr) (ps hs) : (e.upd ps hs).kind = e.kind := by cases e <;> rfl
@[simp] theorem upd_lang (e : Expr) (ps hs) : (e.upd ps hs).lang = e.lang := by cases e <;> rfl
@[simp] theorem upd_upd (e : Expr) (ps hs ps' hs') : (e.upd ps hs).upd ps' hs' = e.upd ps' hs' := by cases e <;> rfl
theorem upd_self (e : Expr) : e.upd e.props e.hist = e := by cases e <;> rfl
theorem setProp_eq_upd (e : Expr) (k v) : e.setProp k v = e.upd (setKey k v e.props) e.hist := by cases e <;> rfl
theorem addHist_eq_upd (e : Expr) (c) : e.addHist c = e.upd e.props (e.hist ++ [c]) := by cases e <;> rfl

def tagCall (t : Str × List (Str × Atom)) : Call :=
  if t.2.isEmpty then .opt (s "tag") (.atom (.str t.1)) else .tag2 t.1 t.2

/-- the calls that `setJSONprops` makes for one entry of `props` (what they add to the history) -/
def entryCalls (kv : Str × PVal) : List Call :=
  if aliasKey kv.1 ∈ methodNames then
    match kv.2 with
    | .atom a => [.opt (aliasKey kv.1) (.atom a)]
    | .dict d => [.opt (aliasKey kv.1) (.dict d)]
    | .list as => as.map (fun a => .opt (aliasKey kv.1) (.atom a))
    | .tags ts => ts.map tagCall
  else []

def canonCalls : List (Str × PVal) → List Call
  | [] => []
  | kv :: r => entryCalls kv ++ canonCalls r

theorem exact_feature (key : Str) (sp : Spec) (a : Atom) (e : Expr) (hf : findSpec key = some sp)
    (hne : a ≠ .none) (hal : Allowed sp e.kind) (hl : Local sp e.kind)
    (hv : sp.valid.any (fun x => x.pyEq a) = true) :
    replayOne key (atomJ a) e = (e.upd (setKey sp.prop (.atom a) e.props) (e.hist ++ [.opt sp.name (.atom a)]), 0) := by
  rw [opt_feature key sp a e hf hne hal hl hv, setProp_eq_upd, addHist_eq_upd]
  simp

theorem exact_maje (b : Bool) (e : Expr) (hk : e.kind ∈ majeKinds) :
    replayOne (s "maje") (.bool b) e =
      (e.upd (setKey (s "maje") (.atom (.bool b)) e.props) (e.hist ++ [.opt (s "maje") (.atom (.bool b))]), 0) := by
  rw [opt_maje b e hk, setProp_eq_upd, addHist_eq_upd]
  simp

theorem exact_typ (d : List (Str × Atom)) (e : Expr) (hk : e.kind ∈ typKinds)
    (hd : ∀ kv ∈ d, TypItemOK (decide (e.lang = .fr)) kv) (hfresh : lookup (s "typ") e.props = none) :
    replayOne (s "typ") (dictJ d) e =
      (e.upd (setKey (s "typ") (.dict d) e.props) (e.hist ++ [.opt (s "typ") (.dict d)]), 0) := by
  have h1 := special_not_spec.2.1
  have h2 := special_not_list.2.1
  have h3 := special_sub.2.1
  have hl := typLoop_ok (decide (e.lang = .fr)) d d hd
  have hp : lookup (s "typ") e.node.props = none := hfresh
  have h4 : s "typ" ≠ s "tag" := by decide
  unfold replayOne
  simp [h3, dictJ, jArgs, jArg, jDict_dictJ, applyArgs, callMethod, h1, h2, h4, typM, hk, hl, hp, setProp_eq_upd, addHist_eq_upd]

theorem exact_dOpt (d d0 : List (Str × Atom)) (e : Expr) (hk : e.kind = s "DT" ∨ e.kind = s "NO")
    (h0 : lookup (s "dOpt") e.props = some (.dict d0))
    (hitems : ∀ kv ∈ d, DOptItemOK (decide (e.kind = s "DT")) kv)
    (hnd : (keys d).Nodup) (hpre : keys d0 = (keys d).take d0.length) :
    replayOne (s "dOpt") (dictJ d) e =
      (e.upd (setKey (s "dOpt") (.dict d) e.props) (e.hist ++ [.opt (s "dOpt") (.dict d)]), 0) := by
  have h1 := special_not_spec.2.2.1
  have h2 := special_not_list.2.2.1
  have h3 := special_sub.2.2.1
  have h4 : s "dOpt" ≠ s "tag" := by decide
  have h5 : s "dOpt" ≠ s "typ" := by decide
  have hg : getDOpt (e.addHist (.opt (s "dOpt") (.dict d))) = d0 := by
    rw [getDOpt_addHist]; unfold getDOpt; rw [h0]
  have hl := dOptLoop_ok (decide (e.kind = s "DT")) d d0 hitems
  have hfix := foldl_setKey_fix [] d0 d (by simpa using hnd) hpre
  simp only [List.nil_append] at hfix
  have hk' : (e.kind = s "DT" || e.kind = s "NO") = true := by rcases hk with h | h <;> simp [h]
  unfold replayOne
  simp [h3, dictJ, jArgs, jArg, jDict_dictJ, applyArgs, callMethod, h1, h2, h4, h5, dOptM, hk', hg, hl, hfix]
  rw [setProp_eq_upd, addHist_eq_upd]
  simp

theorem exact_list (k : Str) (hk : k ∈ listMethods) : ∀ (l : List Atom) (e : Expr), l ≠ [] →
    applyEach k (l.map atomJ) e =
      (e.upd (setKey k (.list (curList k e ++ l)) e.props) (e.hist ++ l.map (fun a => .opt k (.atom a))), 0)
  | [], _, h => absurd rfl h
  | [a], e, _ => by
    rw [List.map_cons, applyEach_cons_atom, apply_list_one k hk]
    simp [applyEach, listM_eq, setProp_eq_upd, addHist_eq_upd]
  | a :: b :: r, e, _ => by
    have ih := exact_list k hk (b :: r) (listM k a e).1 (by simp)
    have hc : curList k (listM k a e).1 = curList k e ++ [a] := by
      simp [listM_eq, curList, lookup_setKey]
    rw [List.map_cons, applyEach_cons_atom, apply_list_one k hk, ih, hc]
    simp [listM_eq, setProp_eq_upd, addHist_eq_upd, setKey_setKey]

theorem tagM_exact (nm : Str) (d : List (Str × Atom)) (e : Expr) :
    tagM (.str nm) (some d) e =
      (e.upd (setKey (s "tag") (.tags (curTags e ++ [(nm, d)])) e.props) (e.hist ++ [tagCall (nm, d)]), 0) := by
  unfold tagM tagCall
  by_cases h : d.isEmpty <;> simp [h, setProp_eq_upd, addHist_eq_upd]

theorem exact_tag : ∀ (l : List (Str × List (Str × Atom))) (e : Expr), l ≠ [] →
    applyEach (s "tag") (l.map tagJ) e =
      (e.upd (setKey (s "tag") (.tags (curTags e ++ l)) e.props) (e.hist ++ l.map tagCall), 0)
  | [], _, h => absurd rfl h
  | [(nm, d)], e, _ => by
    rw [List.map_cons, applyEach_cons_tag, apply_tag_one, tagM_exact]
    simp [applyEach]
  | (nm, d) :: t2 :: r, e, _ => by
    have ih := exact_tag (t2 :: r) (tagM (.str nm) (some d) e).1 (by simp)
    have hc : curTags (tagM (.str nm) (some d) e).1 = curTags e ++ [(nm, d)] := by
      simp [tagM_exact, curTags, lookup_setKey]
    rw [List.map_cons, applyEach_cons_tag, apply_tag_one, ih, hc]
    simp [tagM_exact, setKey_setKey]


theorem name_of_findSpec {key : Str} {sp : Spec} (h : findSpec key = some sp) : sp.name = key := by
  unfold findSpec at h
  have := List.find?_some h
  simpa using this

theorem setProps_replays_exact {kind : Str} {lang : Lang} {P l : List (Str × PVal)} (h : Replays kind lang P l) :
    ∀ (e : Expr) (pre : List (Str × PVal)), e.kind = kind → e.lang = lang → e.props = pre ++ P →
      (keys (pre ++ l)).Nodup →
      (setProps (l.map encProp) e).1 = e.upd (pre ++ l) (e.hist ++ canonCalls l) := by
  induction h with
  | nil => intro e pre _ _ hp _; simp at hp; simp [setProps, canonCalls, ← hp, upd_self]
  | ctorSkip k v P l hk _ ih =>
    intro e pre hkind hlang hp hd
    have h3 := ih e (pre ++ [(k, v)]) hkind hlang (by simpa using hp) (nodup_shift hd)
    have hs := opt_skipped (aliasKey k) (pvalJ v) e hk
    rw [List.map_cons, encProp, setProps_cons_fst, hs, h3]
    simp [canonCalls, entryCalls, hk]
  | ctorSet k v0 a sp P l hf hprop hne hal hl hv _ ih =>
    intro e pre hkind hlang hp hd
    have hnm := not_mem_keys_pre hd
    have hr := exact_feature (aliasKey k) sp a e hf hne (hkind ▸ hal) (hkind ▸ hl) hv
    have hm := mem_methodNames_of_findSpec hf
    have hn := name_of_findSpec hf
    have h3 := ih (e.upd (setKey sp.prop (.atom a) e.props) (e.hist ++ [.opt sp.name (.atom a)])) (pre ++ [(k, .atom a)])
      (by simpa using hkind) (by simpa using hlang) (by simp [hp, hprop, setKey_pre_cons hnm]) (nodup_shift hd)
    rw [List.map_cons, encProp, setProps_cons_fst]
    simp only [pvalJ]
    rw [hr, h3]
    simp [canonCalls, entryCalls, hm, hn]
  | ctorDOpt d0 d P l hk hitems hnd hpre _ ih =>
    intro e pre hkind hlang hp hd
    have hnm := not_mem_keys_pre hd
    have hr := exact_dOpt d d0 e (hkind ▸ hk) (by rw [hp]; exact lookup_pre_cons hnm) (by rw [hkind]; exact hitems) hnd hpre
    have h3 := ih (e.upd (setKey (s "dOpt") (.dict d) e.props) (e.hist ++ [.opt (s "dOpt") (.dict d)]))
      (pre ++ [(s "dOpt", .dict d)]) (by simpa using hkind) (by simpa using hlang)
      (by simp [hp, setKey_pre_cons hnm]) (nodup_shift hd)
    rw [List.map_cons, encProp, setProps_cons_fst]
    simp only [pvalJ, alias_special.2.2.1]
    rw [hr, h3]
    simp [canonCalls, entryCalls, alias_special.2.2.1, special_sub.2.2.1]
  | feature k a sp l hf hprop hne hal hl hv _ ih =>
    intro e pre hkind hlang hp hd
    have hnm := not_mem_keys_pre hd
    have hr := exact_feature (aliasKey k) sp a e hf hne (hkind ▸ hal) (hkind ▸ hl) hv
    have hm := mem_methodNames_of_findSpec hf
    have hn := name_of_findSpec hf
    simp at hp
    have h3 := ih (e.upd (setKey sp.prop (.atom a) e.props) (e.hist ++ [.opt sp.name (.atom a)])) (pre ++ [(k, .atom a)])
      (by simpa using hkind) (by simpa using hlang) (by simp [hp, hprop, setKey_of_not_mem k _ pre hnm]) (nodup_shift hd)
    rw [List.map_cons, encProp, setProps_cons_fst]
    simp only [pvalJ]
    rw [hr, h3]
    simp [canonCalls, entryCalls, hm, hn]
  | maje b l hk _ ih =>
    intro e pre hkind hlang hp hd
    have hnm := not_mem_keys_pre hd
    have hr := exact_maje b e (hkind ▸ hk)
    simp at hp
    have h3 := ih (e.upd (setKey (s "maje") (.atom (.bool b)) e.props) (e.hist ++ [.opt (s "maje") (.atom (.bool b))]))
      (pre ++ [(s "maje", .atom (.bool b))]) (by simpa using hkind) (by simpa using hlang)
      (by simp [hp, setKey_of_not_mem _ _ pre hnm]) (nodup_shift hd)
    rw [List.map_cons, encProp, setProps_cons_fst]
    simp only [pvalJ, atomJ, alias_special.2.2.2]
    rw [hr, h3]
    simp [canonCalls, entryCalls, alias_special.2.2.2, special_sub.2.2.2]
  | list k as l hk hne _ ih =>
    intro e pre hkind hlang hp hd
    have hnm := not_mem_keys_pre hd
    simp at hp
    have hr := exact_list k hk as e hne
    have hcur : curList k e = [] := by
      unfold curList; rw [hp, lookup_none_of_not_mem k pre hnm]
    have hm := listMethods_sub k hk
    have h3 := ih (e.upd (setKey k (.list (curList k e ++ as)) e.props) (e.hist ++ as.map (fun a => .opt k (.atom a))))
      (pre ++ [(k, .list as)]) (by simpa using hkind) (by simpa using hlang)
      (by simp [hcur, hp, setKey_of_not_mem k _ pre hnm]) (nodup_shift hd)
    rw [List.map_cons, encProp, setProps_cons_fst]
    simp only [pvalJ, alias_list k hk, replayOne, List.contains_iff_mem, hm, if_true]
    rw [hr, h3]
    simp [canonCalls, entryCalls, alias_list k hk, hm]
  | tag ts l hne _ ih =>
    intro e pre hkind hlang hp hd
    have hnm := not_mem_keys_pre hd
    simp at hp
    have hr := exact_tag ts e hne
    have hcur : curTags e = [] := by
      unfold curTags; rw [hp, lookup_none_of_not_mem _ pre hnm]
    have hm := special_sub.1
    have h3 := ih (e.upd (setKey (s "tag") (.tags (curTags e ++ ts)) e.props) (e.hist ++ ts.map tagCall))
      (pre ++ [(s "tag", .tags ts)]) (by simpa using hkind) (by simpa using hlang)
      (by simp [hcur, hp, setKey_of_not_mem _ _ pre hnm]) (nodup_shift hd)
    rw [List.map_cons, encProp, setProps_cons_fst]
    have : pvalJ (.tags ts) = .arr (ts.map tagJ) := rfl
    simp only [this, alias_special.1, replayOne, List.contains_iff_mem, hm, if_true]
    rw [hr, h3]
    simp [canonCalls, entryCalls, alias_special.1, hm]
  | typ d l hk hitems _ ih =>
    intro e pre hkind hlang hp hd
    have hnm := not_mem_keys_pre hd
    simp at hp
    have hr := exact_typ d e (hkind ▸ hk) (by rw [hlang]; exact hitems) (by rw [hp]; exact lookup_none_of_not_mem _ pre hnm)
    have h3 := ih (e.upd (setKey (s "typ") (.dict d) e.props) (e.hist ++ [.opt (s "typ") (.dict d)]))
      (pre ++ [(s "typ", .dict d)]) (by simpa using hkind) (by simpa using hlang)
      (by simp [hp, setKey_of_not_mem _ _ pre hnm]) (nodup_shift hd)
    rw [List.map_cons, encProp, setProps_cons_fst]
    simp only [pvalJ, alias_special.2.1]
    rw [hr, h3]
    simp [canonCalls, entryCalls, alias_special.2.1, special_sub.2.1]


theorem setJSONprops_exact {kind : Str} {lang : Lang} {P props : List (Str × PVal)} (e0 : Expr)
    (kv : List (Str × JVal)) (hkv : lookup (s "props") kv = lookup (s "props") (propsJ props))
    (hr : Replays kind lang P props) (hk : e0.kind = kind) (hl : e0.lang = lang) (hp : e0.props = P)
    (hnd : (keys props).Nodup) :
    (setJSONprops kv e0).1 = e0.upd props (e0.hist ++ canonCalls props) := by
  unfold setJSONprops
  rw [hkv]
  unfold propsJ
  by_cases hemp : props = []
  · subst hemp
    cases hr
    simp [canonCalls, ← hp, upd_self]
  · have : props.isEmpty = false := by cases props <;> simp_all
    simp only [this]
    simp only [Bool.false_eq_true, if_false, lookup_cons', if_true]
    have := setProps_replays_exact hr e0 [] hk hl (by simpa using hp) (by simpa using hnd)
    have he : (fun kv : Str × PVal => (aliasKey kv.1, pvalJ kv.2)) = encProp := rfl
    rw [he]
    simpa using this

mutual
/-- `WFJ` and, in addition, a CANONICAL history at every constituent: the calls the constructor records followed by
    one group of calls per entry of `props`, in the order of `props` (no repeated, interleaved, propagated or
    constructor-implied option) -/
def CanonJ (env : Env) : Expr → Prop
  | .term n lemma info => n.kind ∈ jsonTermKinds ∧ (keys n.props).Nodup ∧
      ∃ P h, (mkTerm env n.lang n.kind lemma).1 = .term ⟨n.kind, n.lang, P, h⟩ lemma info ∧
        Replays n.kind n.lang P n.props ∧ n.hist = h ++ canonCalls n.props
  | .phr n es => n.kind ∈ jsonPhraseKinds ∧ (keys n.props).Nodup ∧ Replays n.kind n.lang [] n.props ∧
      n.hist = canonCalls n.props ∧ reorder n.lang es = es ∧ CanonJList env es
  | .dep n t ds => n.kind ∈ jsonDepKinds ∧ (keys n.props).Nodup ∧ Replays n.kind n.lang [] n.props ∧
      n.hist = canonCalls n.props ∧ CanonJ env t ∧ CanonJList env ds ∧ (∀ d ∈ ds, isDep d = true)
def CanonJList (env : Env) : List Expr → Prop
  | [] => True
  | e :: r => CanonJ env e ∧ CanonJList env r
end

mutual
theorem fromJ_toJSON_exact (env : Env) (cur : Lang) : ∀ (e : Expr) (fuel : Nat) (parent : Option Lang),
    CanonJ env e → e.height ≤ fuel → (fromJ env cur fuel parent (toJSON parent e)).1 = some e
  | .term n lemma info, fuel, parent, hw, hf => by
    obtain ⟨hk, hnd, P, h, hmk, hrep, hh⟩ := hw
    cases fuel with
    | zero => simp [Expr.height] at hf
    | succ fuel =>
      have hlang : langField parent ([(s "terminal", JVal.str n.kind), (s "lemma", atomJ lemma)] ++ langJ parent n.lang ++ propsJ n.props)
          = (some n.lang, 0) := by
        apply langField_of
        simp [lookup_append, lookup_propsJ, lookup_lang_langJ]
      have hsp := setJSONprops_exact (kind := n.kind) (lang := n.lang) (P := P) (props := n.props)
        (Expr.term ⟨n.kind, n.lang, P, h⟩ lemma info)
        ([(s "terminal", JVal.str n.kind), (s "lemma", atomJ lemma)] ++ langJ parent n.lang ++ propsJ n.props)
        (by simp [lookup_append, lookup_langJ]) hrep rfl rfl rfl hnd
      simp only [toJSON, fromJ, hlang]
      simp [lookup_append, lookup_langJ, lookup_propsJ, hk, decodeTerm, addMsgs, hmk]
      simp only [List.cons_append, List.nil_append, List.append_assoc] at hsp
      rw [hsp]
      simp [Expr.upd, Expr.setNode, Expr.node, Expr.hist, ← hh]
  | .phr n es, fuel, parent, hw, hf => by
    obtain ⟨hk, hnd, hrep, hh, hst, hes⟩ := hw
    cases fuel with
    | zero => simp [Expr.height] at hf
    | succ fuel =>
      have hf' : heightList es ≤ fuel := by simp [Expr.height] at hf; omega
      have hch := fromJList_toJSONList_exact env cur es fuel n.lang hes hf'
      have hlang : langField parent ([(s "phrase", JVal.str n.kind)] ++ langJ parent n.lang ++
            [(s "elements", JVal.arr (toJSONList n.lang es))] ++ propsJ n.props) = (some n.lang, 0) := by
        apply langField_of
        simp [lookup_append, lookup_propsJ, lookup_lang_langJ]
      have hsp := setJSONprops_exact (kind := n.kind) (lang := n.lang) (P := []) (props := n.props)
        (Expr.phr ⟨n.kind, n.lang, [], []⟩ es)
        ([(s "phrase", JVal.str n.kind)] ++ langJ parent n.lang ++
            [(s "elements", JVal.arr (toJSONList n.lang es))] ++ propsJ n.props)
        (by simp [lookup_append, lookup_langJ]) hrep rfl rfl rfl hnd
      simp only [fromJList] at hch
      simp only [toJSON, fromJ, hlang]
      simp [lookup_append, lookup_langJ, hk, finishPhr, addMsgs, mkPhr_eq, hch, hst]
      simp only [List.cons_append, List.nil_append, List.append_assoc] at hsp
      rw [hsp]
      simp [Expr.upd, Expr.setNode, Expr.node, Expr.hist, ← hh]
  | .dep n t ds, fuel, parent, hw, hf => by
    obtain ⟨hk, hnd, hrep, hh, ht, hds, hdd⟩ := hw
    cases fuel with
    | zero => simp [Expr.height] at hf
    | succ fuel =>
      have hf1 : t.height ≤ fuel := by simp [Expr.height] at hf; omega
      have hf2 : heightList ds ≤ fuel := by simp [Expr.height] at hf; omega
      have htdec := fromJ_toJSON_exact env cur t fuel (some n.lang) ht hf1
      have hch := fromJList_toJSONList_exact env cur ds fuel n.lang hds hf2
      obtain ⟨hfil, hlen⟩ := filter_isDep_all hdd
      have hlang : langField parent ([(s "dependent", JVal.str n.kind), (s "terminal", toJSON (some n.lang) t),
            (s "dependents", JVal.arr (toJSONList n.lang ds))] ++ propsJ n.props ++ langJ parent n.lang) = (some n.lang, 0) := by
        apply langField_of
        simp [lookup_append, lookup_propsJ, lookup_lang_langJ]
      have hsp := setJSONprops_exact (kind := n.kind) (lang := n.lang) (P := []) (props := n.props)
        (Expr.dep ⟨n.kind, n.lang, [], []⟩ t ds)
        ([(s "dependent", JVal.str n.kind), (s "terminal", toJSON (some n.lang) t),
            (s "dependents", JVal.arr (toJSONList n.lang ds))] ++ propsJ n.props ++ langJ parent n.lang)
        (by simp [lookup_append, lookup_langJ]) hrep rfl rfl rfl hnd
      have hsplit : fromJ env cur fuel (some n.lang) (toJSON (some n.lang) t) =
          (some t, (fromJ env cur fuel (some n.lang) (toJSON (some n.lang) t)).2) := by
        rw [← htdec]
      simp only [fromJList] at hch
      simp only [toJSON, fromJ, hlang]
      simp [lookup_append, lookup_langJ, lookup_propsJ, hk, finishDep, addMsgs, mkDep]
      rw [hsplit]
      simp [hch, hfil]
      simp only [List.cons_append, List.nil_append, List.append_assoc] at hsp
      rw [hsp]
      simp [Expr.upd, Expr.setNode, Expr.node, Expr.hist, ← hh]
theorem fromJList_toJSONList_exact (env : Env) (cur : Lang) : ∀ (es : List Expr) (fuel : Nat) (pl : Lang),
    CanonJList env es → heightList es ≤ fuel →
    (fromJList env cur fuel (some pl) (toJSONList pl es)).1 = es
  | [], fuel, pl, _, _ => by simp [toJSONList, fromJList, collect]
  | e :: r, fuel, pl, hw, hf => by
    obtain ⟨he, hr⟩ := hw
    have hf1 : e.height ≤ fuel := by simp [heightList] at hf; omega
    have hf2 : heightList r ≤ fuel := by simp [heightList] at hf; omega
    have h1 := fromJ_toJSON_exact env cur e fuel (some pl) he hf1
    have a2 := fromJList_toJSONList_exact env cur r fuel pl hr hf2
    simp only [fromJList] at a2
    simp [toJSONList, fromJList, collect, h1, a2]
end


end Pyrealb.Expr
