import Pyrealb.Lemmas.ElisionPass
/-! One iteration of the French loop is sound (under the side conditions of the window). -/
namespace Pyrealb.Elision
open Pyrealb Pyrealb.Gen.Elision

theorem fact_lowerPairs_wd : ∀ p ∈ lowerPairs, isWd .fr p.1 = true := by decide +kernel
theorem fact_vowel_wd : ∀ c ∈ 'h' :: vowelsFr, isWd .fr c = true := by decide +kernel

theorem list_lookup_mem {β} : ∀ (l : List (Char × β)) (a : Char) (b : β), l.lookup a = some b → (a, b) ∈ l := by
  intro l
  induction l with
  | nil => intro a b h; simp [List.lookup] at h
  | cons p r ih =>
    intro a b h
    obtain ⟨a', b'⟩ := p
    by_cases he : a = a'
    · subst he; simp [List.lookup] at h; simp [h]
    · have : (a == a') = false := by simpa using he
      simp only [List.lookup, this] at h
      exact List.mem_cons_of_mem _ (ih a b h)

/-- a character that `isElidableFr` accepts (vowel or h, any case) is a word character of `sepWordREC` -/
theorem wd_of_class (c : Char) (h : vowelsFr.contains (lowerC c) = true ∨ lowerC c = 'h') : isWd .fr c = true := by
  by_cases hu : c.isUpper = true
  · simp [isWd, isW, Char.isAlphanum, Char.isAlpha, hu]
  · cases hl : lowerPairs.lookup c with
    | some d => exact fact_lowerPairs_wd _ (list_lookup_mem _ _ _ hl)
    | none =>
      have e : lowerC c = c := by simp [lowerC, hu, hl]
      rw [e] at h
      apply fact_vowel_wd
      cases h with
      | inl h => exact List.mem_cons_of_mem _ (by simpa [List.contains_iff_mem] using h)
      | inr h => simp [h]

/-- the look-ahead tests the RAW realization: when it answers `True` the token has a first word with the same
    first letter -/
theorem view_of_raw (t : Tok) (x : Str) (hr : t.real = some x) (h : elidableNext x t.hR = .ok true) :
    ∃ v, view .fr t = some v ∧ (lower v.w).head? = (lower x).head? := by
  cases x with
  | nil => simp [elidableNext] at h
  | cons c cs =>
    have hcl : vowelsFr.contains (lowerC c) = true ∨ lowerC c = 'h' := by
      simp only [elidableNext, isVowelFr] at h
      by_cases hv : vowelsFr.contains (lowerC c) = true
      · exact Or.inl hv
      · by_cases hh : lowerC c = 'h'
        · exact Or.inr hh
        · simp_all
    have hw := wd_of_class c hcl
    have hlt : c ≠ '<' := by
      intro e; rw [e, isWd_lt] at hw; exact absurd hw (by decide)
    have hk : skipLen (isWd .fr) .out (c :: cs) = 0 := by simp [skipLen, hlt, hw]
    refine ⟨⟨[], c :: cs.takeWhile (isWd .fr), ((c :: cs).dropWhile (isWd .fr)).takeWhile (· != '\n')⟩, ?_, ?_⟩
    · simp [view, hr, sepWord, hk, List.takeWhile, hw]
    · simp [lower]

theorem elidedOf_def (w : Str) : w.dropLast ++ ['\''] = elidedOf w := rfl

/-- the look-ahead branch was taken -/
def AheadCase (t2 : Tok) (t3 : Option Tok) (b : Tok) : Prop :=
  ∃ v2 t x3, view .fr t2 = some v2 ∧ isElidableWord v2.w = true ∧
    b = t2.setReal (v2.rebuild (elidedOf v2.w)) ∧ t3 = some t ∧ t.real = some x3 ∧
    elidableNext x3 t.hR = .ok true

/-- what is known after an iteration that rewrote both tokens into `a`, `b` (`i += 2`) -/
def StepTwo (t1 t2 : Tok) (t3 : Option Tok) (a b : Tok) : Prop :=
  Rew t1 (some t2) a ∧ b.lier = t2.lier ∧ pairOKFr a b = true ∧ (view .fr b = none ∨ AheadCase t2 t3 b)

/-- what is known after an iteration that rewrote the first token only (`i += 1`): elision, euphony -/
def StepOne (t1 t2 : Tok) (a : Tok) : Prop :=
  Rew t1 (some t2) a ∧ pairOKFr a t2 = true ∧ ∃ va, view .fr a = some va ∧ ∀ c, contrFr va.w c = none

/-- `euphonieFrTable[w1.lower()]` exists for every word of `euphonieFrRE`, and the form written is a known one -/
theorem euphForm_some (w : Str) (h : isEuphonic w = true) : ∃ r, euphForm w = some r ∧ r ∈ euphResults := by
  have hm : lower w ∈ euphonicFr := by simpa [isEuphonic, List.contains_iff_mem] using h
  obtain ⟨v, hl, hv, hcv⟩ := fact_euph_total _ hm
  unfold euphForm
  rw [hl]
  simp only []
  by_cases hu : headUpper w = true
  · exact ⟨_, rfl, by rw [if_pos hu]; exact hcv⟩
  · exact ⟨_, rfl, by rw [if_neg hu]; exact hv⟩

theorem contr_none_of_result (v : Str) (hv : v ∈ euphResults) : ∀ c, contrFr v c = none := by
  intro c
  obtain ⟨_, g2, _, _, _, _, g7, _, _⟩ := fact_euph_values _ hv
  have hwd : ∀ x ∈ v, isWd .fr x = true := by simpa [List.all_eq_true] using g2
  cases hcf : contrFr v c with
  | none => rfl
  | some c' =>
    have tr := contrFr_triple _ _ _ (noPlus_of_wd _ hwd) hcf
    exact absurd rfl (g7 _ tr).1

theorem stepFr_sound_views (t1 t2 : Tok) (t3 : Option Tok) (v1 v2 : View) (w3 : ∀ t, t3 = some t → tokWF t = true)
    (hf1 : t1.fr = true) (hv1 : view .fr t1 = some v1) (hv2 : view .fr t2 = some v2)
    (hb : bwdPairFr t1 t2 = true) (ht : tameWinFr t1 t2 t3 = true) :
    (stepFrCore t1 t2 t3 v1 v2 (vowelOrMuteH v2.w t2) = .ok .keep ∧ pairOKFr t1 t2 = true) ∨
    (∃ a, stepFrCore t1 t2 t3 v1 v2 (vowelOrMuteH v2.w t2) = .ok (.one a) ∧ StepOne t1 t2 a) ∨
    (∃ a b, stepFrCore t1 t2 t3 v1 v2 (vowelOrMuteH v2.w t2) = .ok (.two a b) ∧ StepTwo t1 t2 t3 a b) := by
  have wd1 := (view_wd _ _ _ hv1).2
  have wd2 := (view_wd _ _ _ hv2).2
  simp only [tameWinFr, hv1, hv2, hf1, Bool.not_true, Bool.false_or, Bool.and_eq_true] at ht
  obtain ⟨⟨T5, T2⟩, _⟩ := ht
  simp only [bwdPairFr, hv1, hv2, hf1, Bool.not_true, Bool.false_or] at hb
  unfold stepFrCore
  simp only [elidedOf_def]
  -- the shape of `pairOKFr` on the two views
  have pOK : ∀ (a : Tok) (w' : Str), view .fr a = some ⟨v1.pre, w', v1.rest⟩ → a.sg = t1.sg →
      (noWords v1.rest = true → clausesFr w' t1.sg v2.w (vowelOrMuteH v2.w t2) (t2.ct == ['D']) t2.fr = true) →
      pairOKFr a t2 = true := by
    intro a w' hva hsg hcl
    simp only [pairOKFr, hva, hv2, hsg]
    cases hnw : noWords v1.rest with
    | false => simp
    | true => simp [hcl hnw]
  by_cases c1 : (vowelOrMuteH v2.w t2 && isElidableWord v1.w && noWords v1.rest) = true
  · -- elision
    simp only [c1, if_true]
    simp only [Bool.and_eq_true] at c1
    obtain ⟨⟨cV, cE⟩, cN⟩ := c1
    have hE := mem_EE_of_elidable _ cE
    have hva := view_setReal _ _ _ hv1 _ (elidedOf_ne_nil v1.w) (wd_elidedOf _ wd1)
    refine Or.inr (Or.inl ⟨_, rfl, Or.inr ⟨v1, _, hv1, rfl, Or.inl ⟨hE, rfl⟩⟩, ?_, _, hva, ?_⟩)
    · apply pOK _ _ hva rfl
      intro _; rw [cV]; exact clauses_after_elision _ _ _ _ _ hE wd1
    · intro c; exact contrFr_elided_first v1.w c hE wd1
  · simp only [c1, if_false, Bool.false_eq_true]
    by_cases c2 : (vowelOrMuteH v2.w t2 && isEuphonic v1.w && noWords v1.rest && t1.sg) = true
    · simp only [c2, if_true]
      simp only [Bool.and_eq_true] at c2
      obtain ⟨⟨⟨cV, cE⟩, cN⟩, cS⟩ := c2
      have hE := mem_EE_of_euphonic _ cE
      by_cases c3 : (ceMatch v1.w && ceVerb v2.w) = true
      · simp only [c3, if_true]
        have hva := view_setReal _ _ _ hv1 _ (elidedOf_ne_nil v1.w) (wd_elidedOf _ wd1)
        refine Or.inr (Or.inl ⟨_, rfl, Or.inr ⟨v1, _, hv1, rfl, Or.inl ⟨hE, rfl⟩⟩, ?_, _, hva, ?_⟩)
        · apply pOK _ _ hva rfl
          intro _; rw [cV]; exact clauses_after_elision _ _ _ _ _ hE wd1
        · intro c; exact contrFr_elided_first v1.w c hE wd1
      · simp only [c3, if_false, Bool.false_eq_true]
        by_cases c4 : euphExc v2.w = true
        · refine Or.inl ⟨by simp [c4], ?_⟩
          apply pOK _ _ hv1 rfl
          intro _; rw [cV]; exact clauses_euph_exc _ _ _ _ _ cE wd1 c4
        · have c4' : euphExc v2.w = false := by simpa using c4
          simp only [c4', Bool.not_false, if_true]
          obtain ⟨r, hr, hres⟩ := euphForm_some v1.w cE
          rw [hr]
          simp only []
          have g := fact_euph_values _ hres
          have hva := view_setReal _ _ _ hv1 r g.1 (by simpa [List.all_eq_true] using g.2.1)
          refine Or.inr (Or.inl ⟨_, rfl, Or.inr ⟨v1, _, hv1, rfl, Or.inr (Or.inl ⟨hE, hres⟩)⟩, ?_, _, hva, ?_⟩)
          · apply pOK _ _ hva rfl
            intro _; rw [cV]; exact clauses_after_euph _ _ _ _ _ hres c4'
          · exact contr_none_of_result r hres
    · simp only [c2, if_false, Bool.false_eq_true]
      -- no elision, no euphony: the pair is settled unless a contraction applies
      have noRule : (noWords v1.rest = true → t2.fr = true → contrFr v1.w v2.w = none) → pairOKFr t1 t2 = true := by
        intro hcn
        simp only [pairOKFr, hv1, hv2, hf1, Bool.not_true, Bool.false_or]
        cases hnw : noWords v1.rest with
        | false => rfl
        | true =>
          simp only [hnw, Bool.not_true, Bool.false_or] at hb ⊢
          apply clauses_of_no_rule _ _ _ _ _ _ _ _ (hcn hnw) hb T5
          · simpa [hnw] using c1
          · simpa [hnw, Bool.and_assoc] using c2
      by_cases c0 : (noWords v1.rest && t2.fr) = true
      · simp only [c0, if_true]
        simp only [Bool.and_eq_true] at c0
        obtain ⟨hnw, hf2⟩ := c0
        cases hcf : contrFr v1.w v2.w with
        | none =>
          exact Or.inl ⟨by simp, noRule (fun _ _ => hcf)⟩
        | some c =>
          simp only []
          have tr := contrFr_triple _ _ _ (noPlus_of_wd _ wd1) hcf
          have g := fact_triples _ tr
          have hvb : view .fr (t2.setReal (v2.pre ++ strip v2.rest)) = none := by
            simpa [hnw, hf2, hcf] using T2
          have contractCase : ∃ a b, (Except.ok (ActFr.two (t1.setReal (v1.rebuild c)) (t2.setReal (v2.pre ++ strip v2.rest)))
                : Except Crash ActFr) = .ok (.two a b) ∧ StepTwo t1 t2 t3 a b :=
            ⟨_, _, rfl, Or.inr ⟨v1, c, hv1, rfl, Or.inr (Or.inr ⟨t2, v2, rfl, hv2, hcf, hf1, hf2⟩)⟩, rfl,
              (view_none_pairOK _ hvb _).2, Or.inl hvb⟩
          by_cases c5 : (isElidableWord v2.w && t2.ct != ['D', 'T']) = true
          · simp only [c5, if_true]
            cases t3 with
            | none => simp only []; exact Or.inr (Or.inr contractCase)
            | some t =>
              simp only []
              obtain ⟨⟨x3, hx3⟩, hc3, hR3⟩ := tokWF_spec t (w3 t rfl)
              simp only [hx3]
              rw [elidableNext_ok x3 t.hR (by rw [hR3]; exact hc3)]
              cases hb3 : isOkTrue (elidableNext x3 t.hR) with
              | false => simp only []; exact Or.inr (Or.inr contractCase)
              | true =>
                simp only []
                simp only [Bool.and_eq_true] at c5
                have hE2 := mem_EE_of_elidable _ c5.1
                have hvb2 := view_setReal _ _ _ hv2 _ (elidedOf_ne_nil v2.w) (wd_elidedOf _ wd2)
                have hok3 : elidableNext x3 t.hR = .ok true := by
                  rw [elidableNext_ok x3 t.hR (by rw [hR3]; exact hc3), hb3]
                refine Or.inr (Or.inr ⟨_, _, rfl, Or.inl rfl, rfl, ?_, Or.inr ⟨v2, t, x3, hv2, c5.1, rfl, rfl, hx3, hok3⟩⟩)
                have V1 : vowelOrMuteH (elidedOf v2.w) (t2.setReal (v2.rebuild (elidedOf v2.w))) = false :=
                  vowelOrMuteH_elidedOf _ _ hE2
                have := clauses_ahead_first v1.w v2.w c t1.sg (t2.ct == ['D']) t2.fr hcf wd1 c5.1
                simp [pairOKFr, hv1, hvb2, hnw, V1, this]
          · simp only [c5, if_false, Bool.false_eq_true]
            exact Or.inr (Or.inr contractCase)
      · refine Or.inl ⟨by simp [c0], noRule ?_⟩
        intro hnw hf2
        simp [hnw, hf2] at c0

/-- soundness of one iteration -/
theorem stepFr_sound (t1 t2 : Tok) (t3 : Option Tok) (w1 : tokWF t1 = true) (w2 : tokWF t2 = true)
    (w3 : ∀ t, t3 = some t → tokWF t = true)
    (hb : bwdPairFr t1 t2 = true) (ht : tameWinFr t1 t2 t3 = true) :
    (stepFr t1 t2 t3 = .ok .keep ∧ pairOKFr t1 t2 = true) ∨
    (∃ a, stepFr t1 t2 t3 = .ok (.one a) ∧ StepOne t1 t2 a) ∨
    (∃ a b, stepFr t1 t2 t3 = .ok (.two a b) ∧ StepTwo t1 t2 t3 a b) := by
  rw [stepFr_of_views t1 t2 t3 w1 w2]
  cases hf1 : t1.fr with
  | false => exact Or.inl ⟨rfl, pairOK_not_fr _ _ hf1⟩
  | true =>
    simp only [Bool.not_true, Bool.false_eq_true, if_false]
    rcases Option.eq_none_or_eq_some (view .fr t1) with hv1 | ⟨v1, hv1⟩
    · rw [hv1]; exact Or.inl ⟨rfl, (view_none_pairOK t1 hv1 t2).1⟩
    · rcases Option.eq_none_or_eq_some (view .fr t2) with hv2 | ⟨v2, hv2⟩
      · rw [hv1, hv2]; exact Or.inl ⟨rfl, (view_none_pairOK t2 hv2 t1).2⟩
      · rw [hv1, hv2]
        exact stepFr_sound_views t1 t2 t3 v1 v2 w3 hf1 hv1 hv2 hb ht

end Pyrealb.Elision
