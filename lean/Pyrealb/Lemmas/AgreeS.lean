import Pyrealb.Lemmas.AgreeNP
/-! # The S / SP branch of `linkProperties` establishes the declarative agreement class of the clause (`sDeps`) -/
namespace Pyrealb.Agree
open Pyrealb Pyrealb.Heap

def sPre (h : Heap) (p : Nat) : List Act :=
  match sVerb h p with
  | some v => [.setTaux true p v]
  | none => []

def sImperative (h : Heap) (p : Nat) : Bool :=
  match sVerb h p with
  | some v => h.getProp v Heap.tKey == ipVal
  | none => false

/-- the subject chosen by the S/SP branch, with the assignment of `self.subject` -/
def sChosen (h : Heap) (p : Nat) : Option (Nat × List Act) :=
  let els := h.kids p
  match h.getIndex p subjKinds with
  | none => none
  | some iSubj =>
    match els[iSubj]? with
    | none => none
    | some subject0 =>
      if h.kind p = .SP && h.kind subject0 = .Pro then
        if shouldTryAnotherSubject h (h.node p).lang p (h.lemmaOf subject0) iSubj then
          match findIdxFrom (fun x => h.isA x subjKinds) (els.drop (iSubj + 1)) (iSubj + 1) with
          | some j =>
            match els[j]? with
            | some sj => some (sj, [.setSubject p (some sj)])
            | none => none
          | none => none
        else some (subject0, [.setSubject p (some subject0)])
      else some (subject0, [])

/-- what follows `self.peng = subject.peng` -/
def sBody (h : Heap) (p subject : Nat) : List Act :=
  let lang := (h.node p).lang
  let (lacts, vpv2) := linkPengWithSubject h p .VP .V subject subject
  let tail : List Act :=
    match vpv2 with
    | some v =>
      [.setTaux true p v] ++
        linkAttributes h lang v (h.getFromPath p [([.VP], false), ([.CP], false)]) subject subject
    | none =>
      let cvs : List Act :=
        (h.kids p).flatMap (fun cp =>
          if h.kind cp = .CP && cp != subject && (h.getConst cp [.VP]).isSome then
            (h.kids cp).flatMap (fun e =>
              if (h.kind e).isPhrase then
                let (la, v) := linkPengWithSubject h e .VP .V subject subject
                la ++ (match v with
                  | some v => linkAttributes h lang v (h.getFromPath e [([.CP], false)]) subject subject
                  | none => [])
              else [])
          else [])
      let cco : List Act :=
        match lang with
        | .en => []
        | .fr =>
          match h.getConst p [.CP], h.getConst p [.SP] with
          | some cp, some sp =>
            match h.getConst sp [.Pro] with
            | some sppro =>
              if h.lemmaOf sppro = s "que" then
                match h.getFromPath sp [([.VP], true), ([.V], false)] with
                | some v => [.setCod v cp]
                | none => []
              else []
            | none => []
          | _, _ => []
      cvs ++ cco
  lacts ++ tail

def planS' (h : Heap) (p : Nat) : Plan :=
  if sImperative h p then some (sPre h p)
  else match sChosen h p with
    | none => some (sPre h p ++ [.setSubject p none])
    | some (subject, sacts) =>
      some (sPre h p ++ [.setSubject p none] ++ sacts ++ [.guardHas subject, .setPeng true p subject] ++ sBody h p subject)

theorem planS_eq (h : Heap) (p : Nat) : planS h p = planS' h p := by
  unfold planS planS' sImperative sPre sChosen sBody sVerb subjKinds
  cases h.getFromPath p [([.VP], true), ([.V], false)] with
  | none =>
    simp only [Bool.false_eq_true, if_false, List.nil_append]
    cases h.getIndex p [.NP, .N, .CP, .Pro] with
    | none => rfl
    | some iSubj =>
      simp only []
      cases (h.kids p)[iSubj]? with
      | none => rfl
      | some s0 =>
        simp only []
        generalize (if (decide (h.kind p = Kind.SP) && decide (h.kind s0 = Kind.Pro)) = true then _ else _ :
          Option (Nat × List Act)) = C
        rcases C with _ | ⟨subject, sacts⟩
        · rfl
        · simp only [List.append_assoc]; rfl
  | some v =>
    simp only []
    split
    · rfl
    · cases h.getIndex p [.NP, .N, .CP, .Pro] with
      | none => rfl
      | some iSubj =>
        simp only []
        cases (h.kids p)[iSubj]? with
        | none => rfl
        | some s0 =>
          simp only []
          generalize (if (decide (h.kind p = Kind.SP) && decide (h.kind s0 = Kind.Pro)) = true then _ else _ :
            Option (Nat × List Act)) = C
          rcases C with _ | ⟨subject, sacts⟩
          · rfl
          · simp only [List.append_assoc]; rfl

theorem sSubject_eq (h : Heap) (p : Nat) :
    sSubject h p = if sImperative h p then none else (sChosen h p).map (·.1) := by
  unfold sSubject sImperative sChosen
  cases sVerb h p with
  | none =>
    simp only [Bool.false_eq_true, if_false]
    cases h.getIndex p subjKinds with
    | none => rfl
    | some i =>
      simp only []
      cases (h.kids p)[i]? with
      | none => rfl
      | some s0 =>
        simp only []
        by_cases c1 : (decide (h.kind p = Kind.SP) && decide (h.kind s0 = Kind.Pro)) = true
        · by_cases c2 : shouldTryAnotherSubject h (h.node p).lang p (h.lemmaOf s0) i = true
          · simp only [c1, c2, Bool.and_self, if_true]
            cases findIdxFrom (fun x => h.isA x subjKinds) (List.drop (i + 1) (h.kids p)) (i + 1) with
            | none => rfl
            | some j =>
              simp only []
              cases (h.kids p)[j]? <;> rfl
          · simp [c1, c2]
        · simp [c1]
  | some v =>
    simp only []
    split
    · rfl
    · cases h.getIndex p subjKinds with
      | none => rfl
      | some i =>
        simp only []
        cases (h.kids p)[i]? with
        | none => rfl
        | some s0 =>
          simp only []
          by_cases c1 : (decide (h.kind p = Kind.SP) && decide (h.kind s0 = Kind.Pro)) = true
          · by_cases c2 : shouldTryAnotherSubject h (h.node p).lang p (h.lemmaOf s0) i = true
            · simp only [c1, c2, Bool.and_self, if_true]
              cases findIdxFrom (fun x => h.isA x subjKinds) (List.drop (i + 1) (h.kids p)) (i + 1) with
              | none => rfl
              | some j =>
                simp only []
                cases (h.kids p)[j]? <;> rfl
            · simp [c1, c2]
          · simp [c1]

theorem sBody_star (h : Heap) (p subj : Nat) : ∀ a ∈ sBody h p subj, Star subj a := by
  intro a ha
  unfold sBody at ha
  have hs := lpws_star h p .VP .V subj subj
  generalize linkPengWithSubject h p .VP .V subj subj = res at ha hs
  obtain ⟨lacts, vpv2⟩ := res
  simp only [] at ha hs
  rcases List.mem_append.mp ha with ha | ha
  · exact (hs a ha).1
  · cases vpv2 with
    | some v =>
      simp only [List.cons_append, List.nil_append, List.mem_cons] at ha
      rcases ha with rfl | ha
      · simp [Star]
      · exact (linkAttributes_star _ _ _ _ _ _ a ha).1
    | none =>
      simp only [] at ha
      rcases List.mem_append.mp ha with ha | ha
      · obtain ⟨cp, _, hcp⟩ := List.mem_flatMap.mp ha
        split at hcp
        · obtain ⟨e, _, he⟩ := List.mem_flatMap.mp hcp
          split at he
          · have hs2 := lpws_star h e .VP .V subj subj
            generalize linkPengWithSubject h e .VP .V subj subj = res2 at he hs2
            obtain ⟨la, v2⟩ := res2
            simp only [] at he hs2
            rcases List.mem_append.mp he with he | he
            · exact (hs2 a he).1
            · cases v2 with
              | some w => exact (linkAttributes_star _ _ _ _ _ _ a he).1
              | none => simp at he
          · simp at he
        · simp at hcp
      · split at ha
        · simp at ha
        · split at ha
          · split at ha
            · split at ha
              · split at ha
                · simp only [List.mem_cons, List.not_mem_nil, or_false] at ha; subst ha; simp [Star]
                · simp at ha
              · simp at ha
            · simp at ha
          · simp at ha

theorem sBody_targets (h : Heap) (p subj : Nat) : ∀ d ∈ sDeps h p subj, d ∈ pengTargets (sBody h p subj) := by
  intro d hd
  unfold sDeps at hd
  unfold sBody
  have ht := lpws_targets h p .VP .V subj subj
  have hs := lpws_snd h p .VP .V subj subj
  have hn := lpws_fst_of_none h p .VP .V subj subj
  generalize linkPengWithSubject h p .VP .V subj subj = res at ht hs hn ⊢
  obtain ⟨lacts, vpv2⟩ := res
  simp only [] at ht hs hn hd ⊢
  cases hf : pwsFind h p .VP .V subj with
  | some lv =>
    obtain ⟨l, v⟩ := lv
    rw [hf] at hd hs
    simp only [Option.map_some] at hs hd
    subst hs
    simp only [pengTargets_append, List.mem_append]
    rcases List.mem_append.mp hd with hd | hd
    · left; rw [ht]; simp only [pwsTargets, hf]; exact hd
    · right; right
      exact linkAttributes_targets _ _ _ _ _ _ d hd
  | none =>
    rw [hf] at hd hs
    simp only [Option.map_none] at hs hd
    subst hs
    have := hn hf
    subst this
    simp only [List.nil_append, pengTargets_append, List.mem_append]
    left
    rw [pengTargets_flatMap]
    obtain ⟨cp, hcpm, hcp⟩ := List.mem_flatMap.mp hd
    refine List.mem_flatMap.mpr ⟨cp, hcpm, ?_⟩
    split at hcp
    · next hc =>
      rw [if_pos hc, pengTargets_flatMap]
      obtain ⟨e, hem, he⟩ := List.mem_flatMap.mp hcp
      refine List.mem_flatMap.mpr ⟨e, hem, ?_⟩
      split at he
      · next hph =>
        rw [if_pos hph]
        have ht2 := lpws_targets h e .VP .V subj subj
        have hs2 := lpws_snd h e .VP .V subj subj
        generalize linkPengWithSubject h e .VP .V subj subj = res2 at ht2 hs2 ⊢
        obtain ⟨la, v2⟩ := res2
        simp only [] at ht2 hs2 ⊢
        cases hf2 : pwsFind h e .VP .V subj with
        | none => rw [hf2] at he; simp at he
        | some lv =>
          obtain ⟨l2, w⟩ := lv
          rw [hf2] at he hs2
          simp only [Option.map_some] at hs2 he
          subst hs2
          simp only [pengTargets_append, List.mem_append]
          rcases List.mem_append.mp he with he | he
          · left; rw [ht2]; simp only [pwsTargets, hf2]; exact he
          · right; exact linkAttributes_targets _ _ _ _ _ _ d he
      · simp at he
    · simp at hcp

/-- **the S / SP branch of `linkProperties`**: the clause, and every node of the declarative agreement class of its
    subject, hold the subject's record `r` afterwards; any other slot is unchanged or holds `r`. -/
theorem planS_link (h : Heap) (p : Nat) (acts : List Act) (h' : Heap) (subj r : Nat)
    (hplan : planS h p = some acts) (hex : exec h acts = .ok h')
    (hs : sSubject h p = some subj) (hr : h.peng subj = some r) :
    h'.peng p = some r ∧ h'.peng subj = some r ∧ (∀ d ∈ sDeps h p subj, h'.peng d = some r) ∧
    (∀ x, h'.peng x = h.peng x ∨ h'.peng x = some r) := by
  rw [planS_eq] at hplan
  rw [sSubject_eq] at hs
  unfold planS' at hplan
  by_cases himp : sImperative h p = true
  · rw [if_pos himp] at hs; cases hs
  · rw [if_neg himp] at hs hplan
    cases hc : sChosen h p with
    | none => rw [hc] at hs; cases hs
    | some sc =>
      obtain ⟨subject, sacts⟩ := sc
      rw [hc] at hs hplan
      simp only [Option.map_some, Option.some.injEq] at hs hplan
      subst hs
      have hsacts : ∀ a ∈ sacts, Star subject a ∧ pengTarget a = none := by
        intro a ha
        unfold sChosen at hc
        simp only [] at hc
        cases hi : h.getIndex p subjKinds with
        | none => rw [hi] at hc; cases hc
        | some i =>
          rw [hi] at hc
          simp only [] at hc
          cases h0 : (h.kids p)[i]? with
          | none => rw [h0] at hc; cases hc
          | some s0 =>
            rw [h0] at hc
            simp only [] at hc
            split at hc
            · split at hc
              · split at hc
                · split at hc
                  · cases hc; simp only [List.mem_cons, List.not_mem_nil, or_false] at ha; subst ha; simp [Star, pengTarget]
                  · cases hc
                · cases hc
              · cases hc; simp only [List.mem_cons, List.not_mem_nil, or_false] at ha; subst ha; simp [Star, pengTarget]
            · cases hc; simp at ha
      have hpre : ∀ a ∈ sPre h p, Star subject a := by
        intro a ha
        unfold sPre at ha
        split at ha
        · simp only [List.mem_cons, List.not_mem_nil, or_false] at ha; subst ha; simp [Star]
        · simp at ha
      -- the run = a prefix without pointer writes, the test that the subject has a record, the star-shaped rest
      let A : List Act := sPre h p ++ [.setSubject p none] ++ sacts
      let B : List Act := .setPeng true p subject :: sBody h p subject
      have hacts : acts = A ++ .guardHas subject :: B := by
        rw [← hplan]; simp [A, B, List.append_assoc]
      have hAstar : ∀ a ∈ A, Star subject a := by
        intro a ha
        simp only [A, List.mem_append, List.mem_cons, List.not_mem_nil, or_false] at ha
        rcases ha with (ha | rfl) | ha
        · exact hpre a ha
        · simp [Star]
        · exact (hsacts a ha).1
      have hAng : NoGuard A := by
        intro a ha o heq
        have := hAstar a ha
        rw [heq] at this
        exact this
      have hBstar : ∀ a ∈ B, Star subject a := by
        intro a ha
        simp only [B, List.mem_cons] at ha
        rcases ha with rfl | ha
        · simp [Star]
        · exact sBody_star h p subject a ha
      rw [hacts] at hex
      obtain ⟨st, hexA, hexB⟩ := exec_append A _ hAng h h' hex
      obtain ⟨a1, _, a3⟩ := exec_star subject r A h st hAstar hr hexA
      simp only [exec, Act.stops, a1, Option.isNone_some, Bool.false_eq_true, if_false, step] at hexB
      obtain ⟨i1, i2, i3⟩ := exec_star subject r B st h' hBstar a1 hexB
      refine ⟨?_, i1, ?_, ?_⟩
      · apply i2
        simp [B, pengTargets, pengTarget]
      · intro d hd
        apply i2
        have := sBody_targets h p subject d hd
        simp only [B, pengTargets, List.filterMap_cons, pengTarget] at this ⊢
        exact List.mem_cons_of_mem _ this
      · intro x
        rcases i3 x with e | e
        · rcases a3 x with e2 | e2
          · left; rw [e, e2]
          · right; rw [e, e2]
        · right; exact e

end Pyrealb.Agree
