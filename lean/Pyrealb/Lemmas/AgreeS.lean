import Pyrealb.Lemmas.AgreeNP
/-! # The S / SP branch of `linkProperties` establishes the declarative agreement class of the clause (`sDeps`) -/
namespace Pyrealb.Agree
open Pyrealb Pyrealb.Heap

def sPre (h : Heap) (p : Nat) : List Act :=
  match sVerb h p with
  | some v => [.setTaux true p v]
  | none => []

def sImperative (h : Heap) (p : Nat) : Bool :=
  match sVerb h p with
  | some v => h.getProp v Heap.tKey == ipVal
  | none => false

/-- the subject chosen by the S/SP branch, with the assignment of `self.subject` -/
def sChosen (h : Heap) (p : Nat) : Option (Nat × List Act) :=
  let els := h.kids p
  match h.getIndex p subjKinds with
  | none => none
  | some iSubj =>
    match els[iSubj]? with
    | none => none
    | some subject0 =>
      if h.kind p = .SP && h.kind subject0 = .Pro then
        if shouldTryAnotherSubject h (h.node p).lang p (h.lemmaOf subject0) iSubj then
          match findIdxFrom (fun x => h.isA x subjKinds) (els.drop (iSubj + 1)) (iSubj + 1) with
          | some j =>
            match els[j]? with
            | some sj => some (sj, [.setSubject p (some sj)])
            | none => none
          | none => none
        else some (subject0, [.setSubject p (some subject0)])
      else some (subject0, [])

/-- what follows `self.peng = subject.peng` -/
def sBody (h : Heap) (p subject : Nat) : List Act :=
  let lang := (h.node p).lang
  let (lacts, vpv2) := linkPengWithSubject h p .VP .V subject subject
  let tail : List Act :=
    match vpv2 with
    | some v =>
      [.setTaux true p v] ++
        linkAttributes h lang v (h.getFromPath p [([.VP], false), ([.CP], false)]) subject subject
    | none =>
      let cvs : List Act :=
        match h.getFromPath p [([.CP], false), ([.VP], false)] with
        | none => []
        | some _ =>
          match h.getConst p [.CP] with
          | none => []
          | some cp => (h.kids cp).flatMap (fun e =>
              if (h.kind e).isPhrase then (linkPengWithSubject h e .VP .V subject subject).1 else [])
      let cco : List Act :=
        match lang with
        | .en => []
        | .fr =>
          match h.getConst p [.CP], h.getConst p [.SP] with
          | some cp, some sp =>
            match h.getConst sp [.Pro] with
            | some sppro =>
              if h.lemmaOf sppro = s "que" then
                match h.getFromPath sp [([.VP], true), ([.V], false)] with
                | some v => [.setCod v cp]
                | none => []
              else []
            | none => []
          | _, _ => []
      cvs ++ cco
  lacts ++ tail

def planS' (h : Heap) (p : Nat) : Plan :=
  if sImperative h p then some (sPre h p)
  else match sChosen h p with
    | none => some (sPre h p ++ [.setSubject p none])
    | some (subject, sacts) =>
      some (sPre h p ++ [.setSubject p none] ++ sacts ++ [.setPeng true p subject] ++ sBody h p subject)

theorem planS_eq (h : Heap) (p : Nat) : planS h p = planS' h p := by
  unfold planS planS' sImperative sPre sChosen sBody sVerb subjKinds
  cases h.getFromPath p [([.VP], true), ([.V], false)] with
  | none =>
    simp only [Bool.false_eq_true, if_false, List.nil_append]
    cases h.getIndex p [.NP, .N, .CP, .Pro] with
    | none => rfl
    | some iSubj =>
      simp only []
      cases (h.kids p)[iSubj]? with
      | none => rfl
      | some s0 =>
        simp only []
        generalize (if (decide (h.kind p = Kind.SP) && decide (h.kind s0 = Kind.Pro)) = true then _ else _ :
          Option (Nat × List Act)) = C
        rcases C with _ | ⟨subject, sacts⟩
        · rfl
        · simp only [List.append_assoc]; rfl
  | some v =>
    simp only []
    split
    · rfl
    · cases h.getIndex p [.NP, .N, .CP, .Pro] with
      | none => rfl
      | some iSubj =>
        simp only []
        cases (h.kids p)[iSubj]? with
        | none => rfl
        | some s0 =>
          simp only []
          generalize (if (decide (h.kind p = Kind.SP) && decide (h.kind s0 = Kind.Pro)) = true then _ else _ :
            Option (Nat × List Act)) = C
          rcases C with _ | ⟨subject, sacts⟩
          · rfl
          · simp only [List.append_assoc]; rfl

theorem sSubject_eq (h : Heap) (p : Nat) :
    sSubject h p = if sImperative h p then none else (sChosen h p).map (·.1) := by
  unfold sSubject sImperative sChosen
  cases sVerb h p with
  | none =>
    simp only [Bool.false_eq_true, if_false]
    cases h.getIndex p subjKinds with
    | none => rfl
    | some i =>
      simp only []
      cases (h.kids p)[i]? with
      | none => rfl
      | some s0 =>
        simp only []
        by_cases c1 : (decide (h.kind p = Kind.SP) && decide (h.kind s0 = Kind.Pro)) = true
        · by_cases c2 : shouldTryAnotherSubject h (h.node p).lang p (h.lemmaOf s0) i = true
          · simp only [c1, c2, Bool.and_self, if_true]
            cases findIdxFrom (fun x => h.isA x subjKinds) (List.drop (i + 1) (h.kids p)) (i + 1) with
            | none => rfl
            | some j =>
              simp only []
              cases (h.kids p)[j]? <;> rfl
          · simp [c1, c2]
        · simp [c1]
  | some v =>
    simp only []
    split
    · rfl
    · cases h.getIndex p subjKinds with
      | none => rfl
      | some i =>
        simp only []
        cases (h.kids p)[i]? with
        | none => rfl
        | some s0 =>
          simp only []
          by_cases c1 : (decide (h.kind p = Kind.SP) && decide (h.kind s0 = Kind.Pro)) = true
          · by_cases c2 : shouldTryAnotherSubject h (h.node p).lang p (h.lemmaOf s0) i = true
            · simp only [c1, c2, Bool.and_self, if_true]
              cases findIdxFrom (fun x => h.isA x subjKinds) (List.drop (i + 1) (h.kids p)) (i + 1) with
              | none => rfl
              | some j =>
                simp only []
                cases (h.kids p)[j]? <;> rfl
            · simp [c1, c2]
          · simp [c1]

theorem sBody_star (h : Heap) (p subj : Nat) : ∀ a ∈ sBody h p subj, Star subj a := by
  intro a ha
  unfold sBody at ha
  have hs := lpws_star h p .VP .V subj subj
  generalize linkPengWithSubject h p .VP .V subj subj = res at ha hs
  obtain ⟨lacts, vpv2⟩ := res
  simp only [] at ha hs
  rcases List.mem_append.mp ha with ha | ha
  · exact (hs a ha).1
  · cases vpv2 with
    | some v =>
      simp only [List.cons_append, List.nil_append, List.mem_cons] at ha
      rcases ha with rfl | ha
      · simp [Star]
      · exact (linkAttributes_star _ _ _ _ _ _ a ha).1
    | none =>
      simp only [] at ha
      rcases List.mem_append.mp ha with ha | ha
      · split at ha
        · simp at ha
        · split at ha
          · simp at ha
          · obtain ⟨e, _, he⟩ := List.mem_flatMap.mp ha
            split at he
            · exact (lpws_star _ _ _ _ _ _ a he).1
            · simp at he
      · split at ha
        · simp at ha
        · split at ha
          · split at ha
            · split at ha
              · split at ha
                · simp only [List.mem_cons, List.not_mem_nil, or_false] at ha; subst ha; simp [Star]
                · simp at ha
              · simp at ha
            · simp at ha
          · simp at ha

theorem sBody_targets (h : Heap) (p subj : Nat) : ∀ d ∈ sDeps h p subj, d ∈ pengTargets (sBody h p subj) := by
  intro d hd
  unfold sDeps at hd
  unfold sBody
  have ht := lpws_targets h p .VP .V subj subj
  have hs := lpws_snd h p .VP .V subj subj
  have hn := lpws_fst_of_none h p .VP .V subj subj
  generalize linkPengWithSubject h p .VP .V subj subj = res at ht hs hn ⊢
  obtain ⟨lacts, vpv2⟩ := res
  simp only [] at ht hs hn hd ⊢
  cases hf : pwsFind h p .VP .V subj with
  | some lv =>
    obtain ⟨l, v⟩ := lv
    rw [hf] at hd hs
    simp only [Option.map_some] at hs hd
    subst hs
    simp only [pengTargets_append, List.mem_append]
    rcases List.mem_append.mp hd with hd | hd
    · left; rw [ht]; simp only [pwsTargets, hf]; exact hd
    · right; right
      exact linkAttributes_targets _ _ _ _ _ _ d hd
  | none =>
    rw [hf] at hd hs
    simp only [Option.map_none] at hs hd
    subst hs
    have := hn hf
    subst this
    simp only [List.nil_append, pengTargets_append, List.mem_append]
    left
    cases h1 : h.getFromPath p [([.CP], false), ([.VP], false)] with
    | none => rw [h1] at hd; simp at hd
    | some x =>
      rw [h1] at hd
      simp only [] at hd ⊢
      cases h2 : h.getConst p [.CP] with
      | none => rw [h2] at hd; simp at hd
      | some cp =>
        rw [h2] at hd
        simp only [] at hd ⊢
        rw [pengTargets_flatMap]
        obtain ⟨e, hm, he⟩ := List.mem_flatMap.mp hd
        refine List.mem_flatMap.mpr ⟨e, hm, ?_⟩
        split at he
        · next hph => rw [if_pos hph, lpws_targets]; exact he
        · simp at he

/-- **the S / SP branch of `linkProperties`**: the clause, and every node of the declarative agreement class of its
    subject, hold the subject's record `r` afterwards; any other slot is unchanged or holds `r`. -/
theorem planS_link (h : Heap) (p : Nat) (acts : List Act) (h' : Heap) (subj r : Nat)
    (hplan : planS h p = some acts) (hex : exec h acts = .ok h')
    (hs : sSubject h p = some subj) (hr : h.peng subj = some r) :
    h'.peng p = some r ∧ h'.peng subj = some r ∧ (∀ d ∈ sDeps h p subj, h'.peng d = some r) ∧
    (∀ x, h'.peng x = h.peng x ∨ h'.peng x = some r) := by
  rw [planS_eq] at hplan
  rw [sSubject_eq] at hs
  unfold planS' at hplan
  by_cases himp : sImperative h p = true
  · rw [if_pos himp] at hs; cases hs
  · rw [if_neg himp] at hs hplan
    cases hc : sChosen h p with
    | none => rw [hc] at hs; cases hs
    | some sc =>
      obtain ⟨subject, sacts⟩ := sc
      rw [hc] at hs hplan
      simp only [Option.map_some, Option.some.injEq] at hs hplan
      subst hs
      have hsacts : ∀ a ∈ sacts, Star subject a ∧ pengTarget a = none := by
        intro a ha
        unfold sChosen at hc
        simp only [] at hc
        cases hi : h.getIndex p subjKinds with
        | none => rw [hi] at hc; cases hc
        | some i =>
          rw [hi] at hc
          simp only [] at hc
          cases h0 : (h.kids p)[i]? with
          | none => rw [h0] at hc; cases hc
          | some s0 =>
            rw [h0] at hc
            simp only [] at hc
            split at hc
            · split at hc
              · split at hc
                · split at hc
                  · cases hc; simp only [List.mem_cons, List.not_mem_nil, or_false] at ha; subst ha; simp [Star, pengTarget]
                  · cases hc
                · cases hc
              · cases hc; simp only [List.mem_cons, List.not_mem_nil, or_false] at ha; subst ha; simp [Star, pengTarget]
            · cases hc; simp at ha
      have hpre : ∀ a ∈ sPre h p, Star subject a := by
        intro a ha
        unfold sPre at ha
        split at ha
        · simp only [List.mem_cons, List.not_mem_nil, or_false] at ha; subst ha; simp [Star]
        · simp at ha
      have hstar : ∀ a ∈ acts, Star subject a := by
        intro a ha
        subst hplan
        simp only [List.mem_append, List.mem_cons, List.not_mem_nil, or_false] at ha
        rcases ha with (((ha | rfl) | ha) | rfl) | ha
        · exact hpre a ha
        · simp [Star]
        · exact (hsacts a ha).1
        · simp [Star]
        · exact sBody_star h p subject a ha
      obtain ⟨i1, i2, i3⟩ := exec_star subject r acts h h' hstar hr hex
      refine ⟨?_, i1, ?_, i3⟩
      · apply i2
        subst hplan
        rw [pengTargets_append, pengTargets_append]
        apply List.mem_append.mpr
        left
        apply List.mem_append.mpr
        right
        simp [pengTargets, pengTarget]
      · intro d hd
        apply i2
        subst hplan
        rw [pengTargets_append]
        exact List.mem_append.mpr (Or.inr (sBody_targets h p subject d hd))

end Pyrealb.Agree
