import Pyrealb.Model.DateTables
import Pyrealb.Lemmas.DateDec
import Pyrealb.Lemmas.DateCal
/-! When does `dateFormat` return?  Generic reduction of "no exception" to decidable facts about the tables. -/
namespace Pyrealb.Date

instance {p : Lang → Prop} [DecidablePred p] : Decidable (∀ l, p l) :=
  decidable_of_iff (p .en ∧ p .fr) ⟨fun h l => by cases l; exact h.1; exact h.2, fun h => ⟨h _, h _⟩⟩

def isOk {α} : Except Crash α → Bool
  | .ok _ => true
  | .error _ => false

theorem isOk_iff {α} (x : Except Crash α) : isOk x = true ↔ ∃ v, x = .ok v := by
  cases x <;> simp [isOk]

/-- seven weekday names, a name for each month number, two meridiem words if there are any -/
def WFText (r : DateRules) : Bool :=
  r.weekday.length == 7 && (List.range 12).all (fun i => (lookup (dec (i + 1)) r.month).isSome)
    && (match r.meridiem with
        | some l => decide (2 ≤ l.length)
        | none => true)

/-- the lambda of a placeholder returns (for a valid date-time): all do, except `[A]` without meridiem words -/
def phOK (r : DateRules) : Ph → Bool
  | .A => r.meridiem.isSome
  | _ => true

theorem getIdx_isOk (l : List Str) (i : Nat) (h : i < l.length) : isOk (getIdx l i) = true := by
  unfold getIdx; rw [List.getElem?_eq_getElem h]; rfl

theorem weekdayIdx_isOk (r : DateRules) (hwf : WFText r = true) (wd : Nat) :
    isOk (getIdx r.weekday ((wd + 1) % 7)) = true := by
  simp only [WFText, Bool.and_eq_true, beq_iff_eq] at hwf
  exact getIdx_isOk _ _ (by have := Nat.mod_lt (wd + 1) (by decide : 0 < 7); omega)

theorem value_isOk (r : DateRules) (hwf : WFText r = true) (dt : DateTime) (hv : dt.valid = true) (p : Ph) :
    isOk (value r dt p) = phOK r p := by
  have hw := hwf
  simp only [WFText, Bool.and_eq_true, beq_iff_eq, List.all_eq_true, List.mem_range] at hw
  simp only [DateTime.valid, Bool.and_eq_true, decide_eq_true_eq] at hv
  have hd := (valid_iff dt.toDate).mp hv.1.1.1
  cases p <;> simp only [value, phOK, isOk]
  case F =>
    have := hw.1.2 (dt.month - 1) (by omega)
    rw [show dt.month - 1 + 1 = dt.month by omega] at this
    unfold getKey
    cases h : lookup (dec dt.month) r.month with
    | none => rw [h] at this; cases this
    | some v => rfl
  case l => exact weekdayIdx_isOk r hwf _
  case A =>
    have h3 := hw.2
    cases hm : r.meridiem with
    | none => rfl
    | some l =>
      rw [hm] at h3
      simp only [decide_eq_true_eq] at h3
      exact getIdx_isOk _ _ (by split <;> omega)

/-- every bracketed key of the matches is a defined placeholder whose lambda returns -/
def keysOK (r : DateRules) (ms : List Match) : Bool :=
  ms.all (fun m => match m.key with
    | none => true
    | some k => match lookup k phTable with
      | some p => phOK r p
      | none => false)

theorem render_isOk (r : DateRules) (hwf : WFText r = true) (dt : DateTime) (hv : dt.valid = true)
    (ms : List Match) (res : Str) : isOk (render r dt ms res) = keysOK r ms := by
  induction ms generalizing res with
  | nil => rfl
  | cons m ms ih =>
    obtain ⟨pre, key⟩ := m
    cases key with
    | none => simp only [render, keysOK, List.all_cons, Bool.true_and]; exact ih _
    | some k =>
      simp only [render, keysOK, List.all_cons, getKey]
      cases hk : lookup k phTable with
      | none => simp [isOk]
      | some p =>
        simp only
        have hvok := value_isOk r hwf dt hv p
        cases hval : value r dt p with
        | error e => rw [hval] at hvok; simp only [isOk] at hvok; simp [isOk, ← hvok]
        | ok v =>
          rw [hval] at hvok; simp only [isOk] at hvok
          simp only [← hvok, Bool.true_and]
          exact ih _

/-- `interpret(key)` returns: decidable, independent of the instant -/
def cellOK (r : DateRules) (nat det : Bool) (key : Str) : Bool :=
  key == [] || (match selectFmt r nat det key with
                | .ok fmt => keysOK r (matchesOf fmt)
                | .error _ => false)

theorem interpret_isOk (r : DateRules) (hwf : WFText r = true) (dt : DateTime) (hv : dt.valid = true)
    (nat det : Bool) (key : Str) : isOk (interpret r dt nat det key) = cellOK r nat det key := by
  unfold interpret cellOK
  by_cases hk : key = []
  · simp [hk, isOk]
  · have hb : (key == []) = false := by simp [hk]
    simp only [hk, if_false, hb, Bool.false_or]
    cases selectFmt r nat det key with
    | error e => rfl
    | ok fmt => exact render_isOk r hwf dt hv _ _

/-- what the relative branch needs from the tables -/
def RelWF (r : DateRules) : Bool :=
  RelKeysWF r.relative && (lookup ['-'] r.relative).isSome && (lookup ['+'] r.relative).isSome

theorem relativeCore_isOk (r : DateRules) (hwf : WFText r = true) (hrel : RelWF r = true) (diff : Int) (wd : Nat) :
    isOk (relativeCore r diff wd) = true := by
  simp only [RelWF, Bool.and_eq_true] at hrel
  unfold relativeCore
  cases lookup (pyInt diff) r.relative with
  | some t =>
    simp only
    have := weekdayIdx_isOk r hwf wd
    cases h : getIdx r.weekday ((wd + 1) % 7) with
    | error e => rw [h] at this; cases this
    | ok w => rfl
  | none =>
    simp only [getKey]
    by_cases hd : diff < 0
    · simp only [hd, if_true]
      cases h : lookup ['-'] r.relative with
      | none => rw [h] at hrel; simp at hrel
      | some t => rfl
    · simp only [hd, if_false]
      cases h : lookup ['+'] r.relative with
      | none => rw [h] at hrel; simp at hrel
      | some t => rfl

theorem dateFormat_isOk (r : DateRules) (hwf : WFText r = true) (hrel : RelWF r = true) (dt : DateTime)
    (hv : dt.valid = true) (o : DOpts) (ref : Option Date) :
    isOk (dateFormat r dt o ref) =
      ((match ref with
        | some _ => true
        | none => cellOK r o.nat o.det (dateKey o)) && cellOK r o.nat o.det (timeKey dt o)) := by
  unfold dateFormat
  have ht := interpret_isOk r hwf dt hv o.nat o.det (timeKey dt o)
  cases ref with
  | some rd =>
    simp only [Bool.true_and]
    have h1 := relativeCore_isOk r hwf hrel ((toordinal dt.toDate : Int) - (toordinal rd : Int)) (weekday dt.toDate)
    unfold relative
    cases h : relativeCore r ((toordinal dt.toDate : Int) - (toordinal rd : Int)) (weekday dt.toDate) with
    | error e => rw [h] at h1; cases h1
    | ok x =>
      simp only
      cases h2 : interpret r dt o.nat o.det (timeKey dt o) with
      | error e => rw [h2] at ht; simp only [isOk] at ht; simp [isOk, ← ht]
      | ok y => rw [h2] at ht; simp only [isOk] at ht; simp [isOk, ← ht]
  | none =>
    simp only
    have hd := interpret_isOk r hwf dt hv o.nat o.det (dateKey o)
    cases h1 : interpret r dt o.nat o.det (dateKey o) with
    | error e => rw [h1] at hd; simp only [isOk] at hd; simp [isOk, ← hd]
    | ok x =>
      rw [h1] at hd; simp only [isOk] at hd
      simp only [← hd, Bool.true_and]
      cases h2 : interpret r dt o.nat o.det (timeKey dt o) with
      | error e => rw [h2] at ht; simp only [isOk] at ht; simp [isOk, ← ht]
      | ok y => rw [h2] at ht; simp only [isOk] at ht; simp [isOk, ← ht]

/-- `timeFields` after the natural-time simplification, as a function of finitely many classes -/
def timeKeyC (nat H Mi S mz sz h0 h12 : Bool) : Str :=
  let tf := joinSel ':' [(kHour, H), (kMinute, Mi), (kSecond, S)]
  if nat then
    if tf = kHMS then
      if mz ∧ sz then
        if h0 then k0h else if h12 then k12h else kHour
      else if sz then kHM else tf
    else if tf = kHM then
      if mz then kHour else tf
    else tf
  else tf

theorem timeKey_eq (dt : DateTime) (o : DOpts) :
    timeKey dt o = timeKeyC o.nat o.hour o.minute o.second (dt.minute == 0) (dt.second == 0) (dt.hour == 0) (dt.hour == 12) := by
  unfold timeKey timeKeyC timeKey0
  by_cases hm : dt.minute = 0 <;> by_cases hs : dt.second = 0 <;> by_cases h0 : dt.hour = 0 <;>
    by_cases h12 : dt.hour = 12 <;> simp [hm, hs, h0, h12]

end Pyrealb.Date
