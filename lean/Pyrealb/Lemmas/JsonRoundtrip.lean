import Pyrealb.Lemmas.JsonReplay
/-! The structural part of the C12 proofs: decoding the JSON form of an expression, by induction on the expression. -/
namespace Pyrealb.Expr
open Pyrealb

/-! ### the adjective re-ordering of `Phrase.add` only reads kinds and props: it commutes with `abs` -/

theorem map_eraseIdx' {α β} (f : α → β) : ∀ (l : List α) (i : Nat), (l.map f).eraseIdx i = (l.eraseIdx i).map f
  | [], _ => rfl
  | _ :: _, 0 => rfl
  | a :: l, i+1 => by simp [List.eraseIdx, map_eraseIdx' f l i]
theorem map_insertIdx' {α β} (f : α → β) (a : α) :
    ∀ (l : List α) (i : Nat), (l.map f).insertIdx i (f a) = (l.insertIdx i a).map f
  | l, 0 => by simp
  | [], i+1 => by simp
  | b :: l, i+1 => by simp [map_insertIdx' f a l i]

/-- `f` keeps the kind and the props of every constituent -/
def Keeps (f : Expr → Expr) : Prop := ∀ e, (f e).kind = e.kind ∧ (f e).props = e.props

theorem keeps_abs : Keeps Expr.abs := fun e => ⟨abs_kind e, abs_props e⟩

theorem idxN_map (f : Expr → Expr) (hf : Keeps f) (es : List Expr) : idxN (es.map f) = idxN es := by
  unfold idxN
  induction es with
  | nil => rfl
  | cons e r ih =>
    simp only [List.map_cons, List.findIdx?_cons, (hf e).1]
    split
    · rfl
    · rw [ih]

theorem adjPos_map (f : Expr → Expr) (hf : Keeps f) (lang : Lang) (e : Expr) : adjPos lang (f e) = adjPos lang e := by
  unfold adjPos; rw [(hf e).2]

theorem allAorN_map (f : Expr → Expr) (hf : Keeps f) (es : List Expr) (i j : Nat) :
    allAorN (es.map f) i j = allAorN es i j := by
  unfold allAorN
  simp only [← List.map_drop, ← List.map_take, List.all_map]
  congr 1
  funext e
  simp [(hf e).1]

theorem reorderStep_map (f : Expr → Expr) (hf : Keeps f) (lang : Lang) (es : List Expr) (i : Nat) :
    reorderStep lang (es.map f) i = (reorderStep lang es i).map f := by
  unfold reorderStep
  rw [List.getElem?_map]
  cases h : es[i]? with
  | none => simp
  | some e =>
    simp only [Option.map_some, (hf e).1, idxN_map f hf, adjPos_map f hf, allAorN_map f hf]
    split
    · cases hidx : idxN es with
      | none => simp
      | some idx =>
        simp only
        split
        · split
          · rw [map_eraseIdx', map_insertIdx']
          · rfl
        · rfl
    · rfl

theorem reorder_map (f : Expr → Expr) (hf : Keeps f) (lang : Lang) (es : List Expr) :
    reorder lang (es.map f) = (reorder lang es).map f := by
  unfold reorder
  rw [List.length_map]
  generalize List.range es.length = idxs
  induction idxs generalizing es with
  | nil => rfl
  | cons i r ih =>
    simp only [List.foldl_cons]
    rw [reorderStep_map f hf, ih]


/-! ### the keys of the JSON objects are distinct -/

@[simp] theorem key_terminal_lemma : (s "terminal" = s "lemma") = False := by decide
@[simp] theorem key_terminal_lang : (s "terminal" = s "lang") = False := by decide
@[simp] theorem key_terminal_props : (s "terminal" = s "props") = False := by decide
@[simp] theorem key_terminal_phrase : (s "terminal" = s "phrase") = False := by decide
@[simp] theorem key_terminal_elements : (s "terminal" = s "elements") = False := by decide
@[simp] theorem key_terminal_dependent : (s "terminal" = s "dependent") = False := by decide
@[simp] theorem key_terminal_dependents : (s "terminal" = s "dependents") = False := by decide
@[simp] theorem key_lemma_terminal : (s "lemma" = s "terminal") = False := by decide
@[simp] theorem key_lemma_lang : (s "lemma" = s "lang") = False := by decide
@[simp] theorem key_lemma_props : (s "lemma" = s "props") = False := by decide
@[simp] theorem key_lemma_phrase : (s "lemma" = s "phrase") = False := by decide
@[simp] theorem key_lemma_elements : (s "lemma" = s "elements") = False := by decide
@[simp] theorem key_lemma_dependent : (s "lemma" = s "dependent") = False := by decide
@[simp] theorem key_lemma_dependents : (s "lemma" = s "dependents") = False := by decide
@[simp] theorem key_lang_terminal : (s "lang" = s "terminal") = False := by decide
@[simp] theorem key_lang_lemma : (s "lang" = s "lemma") = False := by decide
@[simp] theorem key_lang_props : (s "lang" = s "props") = False := by decide
@[simp] theorem key_lang_phrase : (s "lang" = s "phrase") = False := by decide
@[simp] theorem key_lang_elements : (s "lang" = s "elements") = False := by decide
@[simp] theorem key_lang_dependent : (s "lang" = s "dependent") = False := by decide
@[simp] theorem key_lang_dependents : (s "lang" = s "dependents") = False := by decide
@[simp] theorem key_props_terminal : (s "props" = s "terminal") = False := by decide
@[simp] theorem key_props_lemma : (s "props" = s "lemma") = False := by decide
@[simp] theorem key_props_lang : (s "props" = s "lang") = False := by decide
@[simp] theorem key_props_phrase : (s "props" = s "phrase") = False := by decide
@[simp] theorem key_props_elements : (s "props" = s "elements") = False := by decide
@[simp] theorem key_props_dependent : (s "props" = s "dependent") = False := by decide
@[simp] theorem key_props_dependents : (s "props" = s "dependents") = False := by decide
@[simp] theorem key_phrase_terminal : (s "phrase" = s "terminal") = False := by decide
@[simp] theorem key_phrase_lemma : (s "phrase" = s "lemma") = False := by decide
@[simp] theorem key_phrase_lang : (s "phrase" = s "lang") = False := by decide
@[simp] theorem key_phrase_props : (s "phrase" = s "props") = False := by decide
@[simp] theorem key_phrase_elements : (s "phrase" = s "elements") = False := by decide
@[simp] theorem key_phrase_dependent : (s "phrase" = s "dependent") = False := by decide
@[simp] theorem key_phrase_dependents : (s "phrase" = s "dependents") = False := by decide
@[simp] theorem key_elements_terminal : (s "elements" = s "terminal") = False := by decide
@[simp] theorem key_elements_lemma : (s "elements" = s "lemma") = False := by decide
@[simp] theorem key_elements_lang : (s "elements" = s "lang") = False := by decide
@[simp] theorem key_elements_props : (s "elements" = s "props") = False := by decide
@[simp] theorem key_elements_phrase : (s "elements" = s "phrase") = False := by decide
@[simp] theorem key_elements_dependent : (s "elements" = s "dependent") = False := by decide
@[simp] theorem key_elements_dependents : (s "elements" = s "dependents") = False := by decide
@[simp] theorem key_dependent_terminal : (s "dependent" = s "terminal") = False := by decide
@[simp] theorem key_dependent_lemma : (s "dependent" = s "lemma") = False := by decide
@[simp] theorem key_dependent_lang : (s "dependent" = s "lang") = False := by decide
@[simp] theorem key_dependent_props : (s "dependent" = s "props") = False := by decide
@[simp] theorem key_dependent_phrase : (s "dependent" = s "phrase") = False := by decide
@[simp] theorem key_dependent_elements : (s "dependent" = s "elements") = False := by decide
@[simp] theorem key_dependent_dependents : (s "dependent" = s "dependents") = False := by decide
@[simp] theorem key_dependents_terminal : (s "dependents" = s "terminal") = False := by decide
@[simp] theorem key_dependents_lemma : (s "dependents" = s "lemma") = False := by decide
@[simp] theorem key_dependents_lang : (s "dependents" = s "lang") = False := by decide
@[simp] theorem key_dependents_props : (s "dependents" = s "props") = False := by decide
@[simp] theorem key_dependents_phrase : (s "dependents" = s "phrase") = False := by decide
@[simp] theorem key_dependents_elements : (s "dependents" = s "elements") = False := by decide
@[simp] theorem key_dependents_dependent : (s "dependents" = s "dependent") = False := by decide

theorem lookup_append {α} (k : Str) (a b : List (Str × α)) :
    lookup k (a ++ b) = (lookup k a).or (lookup k b) := by
  induction a with
  | nil => simp [lookup]
  | cons x r ih =>
    obtain ⟨k', v'⟩ := x
    by_cases hk : k' = k <;> simp [lookup, hk, ih]

@[simp] theorem lookup_cons' {α} (k k' : Str) (v : α) (r : List (Str × α)) :
    lookup k ((k', v) :: r) = if k' = k then some v else lookup k r := rfl
@[simp] theorem lookup_nil' {α} (k : Str) : lookup k ([] : List (Str × α)) = none := rfl

theorem lookup_langJ (k : Str) (p : Option Lang) (l : Lang) (h : (s "lang" = k) = False) : lookup k (langJ p l) = none := by
  unfold langJ; split <;> simp [h]
theorem lookup_propsJ (k : Str) (ps : List (Str × PVal)) (h : (s "props" = k) = False) : lookup k (propsJ ps) = none := by
  unfold propsJ; split <;> simp [h]

theorem langField_of (parent : Option Lang) (l : Lang) (kv : List (Str × JVal))
    (h : lookup (s "lang") kv = if parent = some l then none else some (.str l.code)) :
    langField parent kv = (some l, 0) := by
  unfold langField
  rw [h]
  by_cases hp : parent = some l
  · simp [hp]
  · simp only [hp, if_false]
    cases l
    · simp [Lang.code]
    · have : (s "fr" = s "en") = False := by decide
      simp [Lang.code, this]

theorem lookup_lang_langJ (p : Option Lang) (l : Lang) :
    lookup (s "lang") (langJ p l) = if p = some l then none else some (.str l.code) := by
  unfold langJ; split <;> simp

theorem dropLast_append_of_getLast? {α} : ∀ (l : List α) (c : α), l.getLast? = some c → l.dropLast ++ [c] = l
  | [], _, h => by simp at h
  | [a], c, h => by simp at h; simp [h]
  | a :: b :: r, c, h => by
    have : (b :: r).getLast? = some c := by simpa [List.getLast?_cons_cons] using h
    have ih := dropLast_append_of_getLast? (b :: r) c this
    simp only [List.dropLast_cons_cons, List.cons_append, ih]

theorem mkPhr_eq (kind : Str) (lang : Lang) (es : List Expr) :
    mkPhr kind lang es = (.phr ⟨kind, lang, [], []⟩ (reorder lang es), 0) := by
  unfold mkPhr
  cases h : es.getLast? with
  | none =>
    have : es = [] := by simpa using h
    subst this
    simp [reorder]
  | some c =>
    have := dropLast_append_of_getLast? es c h
    simp [addElems, this]

theorem setJSONprops_replays {kind : Str} {lang : Lang} {P props : List (Str × PVal)} (e0 : Expr)
    (kv : List (Str × JVal)) (hkv : lookup (s "props") kv = lookup (s "props") (propsJ props))
    (hr : Replays kind lang P props) (hk : e0.kind = kind) (hl : e0.lang = lang) (hp : e0.props = P)
    (hnd : (keys props).Nodup) :
    Upd e0 (setJSONprops kv e0).1 ∧ (setJSONprops kv e0).1.props = props := by
  unfold setJSONprops
  rw [hkv]
  unfold propsJ
  by_cases hemp : props = []
  · subst hemp
    cases hr
    simp [hp, Upd.refl]
  · have : props.isEmpty = false := by cases props <;> simp_all
    simp only [this]
    simp only [Bool.false_eq_true, if_false, lookup_cons', if_true]
    have := setProps_replays hr e0 [] hk hl (by simpa using hp) (by simpa using hnd)
    have he : (fun kv : Str × PVal => (aliasKey kv.1, pvalJ kv.2)) = encProp := rfl
    rw [he]
    simpa using this


mutual
def Expr.height : Expr → Nat
  | .term _ _ _ => 1
  | .phr _ es => heightList es + 1
  | .dep _ t ds => max t.height (heightList ds) + 1
def heightList : List Expr → Nat
  | [] => 0
  | e :: r => max e.height (heightList r)
end

mutual
/-- **the side conditions of the JSON round trip**, node by node: the constituent type is one `fromJSON` accepts;
    `props` is reproduced by re-applying its entries on the freshly constructed constituent (`Replays`, one
    constructor per option kind); a terminal is what its constructor builds from the lemma (normalised lemma, lexicon
    entry of its own language); the children of a phrase are in an order that `Phrase.add` leaves alone; the
    dependents of a dependent are dependents. -/
def WFJ (env : Env) : Expr → Prop
  | .term n lemma info => n.kind ∈ jsonTermKinds ∧ (keys n.props).Nodup ∧
      ∃ P h, (mkTerm env n.lang n.kind lemma).1 = .term ⟨n.kind, n.lang, P, h⟩ lemma info ∧ Replays n.kind n.lang P n.props
  | .phr n es => n.kind ∈ jsonPhraseKinds ∧ (keys n.props).Nodup ∧ Replays n.kind n.lang [] n.props ∧
      reorder n.lang es = es ∧ WFJList env es
  | .dep n t ds => n.kind ∈ jsonDepKinds ∧ (keys n.props).Nodup ∧ Replays n.kind n.lang [] n.props ∧
      WFJ env t ∧ WFJList env ds ∧ (∀ d ∈ ds, isDep d = true)
def WFJList (env : Env) : List Expr → Prop
  | [] => True
  | e :: r => WFJ env e ∧ WFJList env r
end

theorem isDep_abs (e : Expr) : isDep e.abs = isDep e := by cases e <;> rfl

theorem isDep_of_absList {a b : List Expr} (h : absList a = absList b) (hb : ∀ d ∈ b, isDep d = true) :
    ∀ d ∈ a, isDep d = true := by
  induction a generalizing b with
  | nil => simp
  | cons x r ih =>
    cases b with
    | nil => simp [absList] at h
    | cons y q =>
      simp only [absList, List.cons.injEq] at h
      intro d hd
      rcases List.mem_cons.mp hd with rfl | hd
      · rw [← isDep_abs, h.1, isDep_abs]; exact hb y (by simp)
      · exact ih h.2 (fun d hd => hb d (by simp [hd])) d hd

theorem filter_isDep_all {l : List Expr} (h : ∀ d ∈ l, isDep d = true) :
    l.filter isDep = l ∧ (l.filter (fun d => !isDep d)).length = 0 := by
  constructor
  · exact List.filter_eq_self.mpr h
  · simp only [List.length_eq_zero_iff, List.filter_eq_nil_iff]
    intro d hd; simp [h d hd]

theorem abs_of_upd_phr {n0 : Node} {es : List Expr} {r : Expr} (hu : Upd (.phr n0 es) r) :
    r.abs = .phr ⟨n0.kind, n0.lang, r.props, []⟩ (absList es) := by
  obtain ⟨ps, hs, rfl⟩ := hu
  rfl

theorem abs_of_upd_dep {n0 : Node} {t : Expr} {ds : List Expr} {r : Expr} (hu : Upd (.dep n0 t ds) r) :
    r.abs = .dep ⟨n0.kind, n0.lang, r.props, []⟩ t.abs (absList ds) := by
  obtain ⟨ps, hs, rfl⟩ := hu
  rfl

theorem abs_of_upd_term {n0 : Node} {l : Atom} {i : Option LexInfo} {r : Expr} (hu : Upd (.term n0 l i) r) :
    r.abs = .term ⟨n0.kind, n0.lang, r.props, []⟩ l i := by
  obtain ⟨ps, hs, rfl⟩ := hu
  rfl

mutual
theorem fromJ_toJSON (env : Env) (cur : Lang) : ∀ (e : Expr) (fuel : Nat) (parent : Option Lang),
    WFJ env e → e.height ≤ fuel →
    ∃ e', (fromJ env cur fuel parent (toJSON parent e)).1 = some e' ∧ e'.abs = e.abs
  | .term n lemma info, fuel, parent, hw, hf => by
    obtain ⟨hk, hnd, P, h, hmk, hrep⟩ := hw
    cases fuel with
    | zero => simp [Expr.height] at hf
    | succ fuel =>
      have hlang : langField parent ([(s "terminal", JVal.str n.kind), (s "lemma", atomJ lemma)] ++ langJ parent n.lang ++ propsJ n.props)
          = (some n.lang, 0) := by
        apply langField_of
        simp [lookup_append, lookup_propsJ, lookup_lang_langJ]
      have hsp := setJSONprops_replays (kind := n.kind) (lang := n.lang) (P := P) (props := n.props)
        (Expr.term ⟨n.kind, n.lang, P, h⟩ lemma info)
        ([(s "terminal", JVal.str n.kind), (s "lemma", atomJ lemma)] ++ langJ parent n.lang ++ propsJ n.props)
        (by simp [lookup_append, lookup_langJ]) hrep rfl rfl rfl hnd
      generalize hX : (setJSONprops _ _).1 = X at hsp
      refine ⟨X, ?_, ?_⟩
      · simp only [toJSON, fromJ, hlang]
        simp [lookup_append, lookup_langJ, lookup_propsJ, hk, decodeTerm, addMsgs, hmk]
        exact hX
      · rw [abs_of_upd_term hsp.1, hsp.2]
        simp [Expr.abs, Node.abs]
  | .phr n es, fuel, parent, hw, hf => by
    obtain ⟨hk, hnd, hrep, hst, hes⟩ := hw
    cases fuel with
    | zero => simp [Expr.height] at hf
    | succ fuel =>
      have hf' : heightList es ≤ fuel := by simp [Expr.height] at hf; omega
      have habs := fromJList_toJSONList env cur es fuel n.lang hes hf'
      have hlang : langField parent ([(s "phrase", JVal.str n.kind)] ++ langJ parent n.lang ++
            [(s "elements", JVal.arr (toJSONList n.lang es))] ++ propsJ n.props) = (some n.lang, 0) := by
        apply langField_of
        simp [lookup_append, lookup_propsJ, lookup_lang_langJ]
      have hsp := setJSONprops_replays (kind := n.kind) (lang := n.lang) (P := []) (props := n.props)
        (Expr.phr ⟨n.kind, n.lang, [], []⟩ (reorder n.lang (fromJList env cur fuel (some n.lang) (toJSONList n.lang es)).1))
        ([(s "phrase", JVal.str n.kind)] ++ langJ parent n.lang ++
            [(s "elements", JVal.arr (toJSONList n.lang es))] ++ propsJ n.props)
        (by simp [lookup_append, lookup_langJ]) hrep rfl rfl rfl hnd
      generalize hX : (setJSONprops _ _).1 = X at hsp
      refine ⟨X, ?_, ?_⟩
      · simp only [toJSON, fromJ, hlang]
        simp [lookup_append, lookup_langJ, hk, finishPhr, addMsgs, mkPhr_eq]
        simpa [fromJList] using hX
      · rw [abs_of_upd_phr hsp.1, hsp.2]
        have : absList (reorder n.lang (fromJList env cur fuel (some n.lang) (toJSONList n.lang es)).1) = absList es := by
          rw [absList_eq_map, ← reorder_map _ keeps_abs, ← absList_eq_map, habs, absList_eq_map,
            reorder_map _ keeps_abs, hst]
        simp [Expr.abs, Node.abs, this]
  | .dep n t ds, fuel, parent, hw, hf => by
    obtain ⟨hk, hnd, hrep, ht, hds, hdd⟩ := hw
    cases fuel with
    | zero => simp [Expr.height] at hf
    | succ fuel =>
      have hf1 : t.height ≤ fuel := by simp [Expr.height] at hf; omega
      have hf2 : heightList ds ≤ fuel := by simp [Expr.height] at hf; omega
      obtain ⟨t', htdec, htabs⟩ := fromJ_toJSON env cur t fuel (some n.lang) ht hf1
      have habs := fromJList_toJSONList env cur ds fuel n.lang hds hf2
      have hdd' := isDep_of_absList habs hdd
      obtain ⟨hfil, hlen⟩ := filter_isDep_all hdd'
      simp only [fromJList] at hfil hlen
      have hlang : langField parent ([(s "dependent", JVal.str n.kind), (s "terminal", toJSON (some n.lang) t),
            (s "dependents", JVal.arr (toJSONList n.lang ds))] ++ propsJ n.props ++ langJ parent n.lang) = (some n.lang, 0) := by
        apply langField_of
        simp [lookup_append, lookup_propsJ, lookup_lang_langJ]
      have hsp := setJSONprops_replays (kind := n.kind) (lang := n.lang) (P := []) (props := n.props)
        (Expr.dep ⟨n.kind, n.lang, [], []⟩ t' (fromJList env cur fuel (some n.lang) (toJSONList n.lang ds)).1)
        ([(s "dependent", JVal.str n.kind), (s "terminal", toJSON (some n.lang) t),
            (s "dependents", JVal.arr (toJSONList n.lang ds))] ++ propsJ n.props ++ langJ parent n.lang)
        (by simp [lookup_append, lookup_langJ]) hrep rfl rfl rfl hnd
      generalize hX : (setJSONprops _ _).1 = X at hsp
      refine ⟨X, ?_, ?_⟩
      · simp only [toJSON, fromJ, hlang]
        have hsplit : fromJ env cur fuel (some n.lang) (toJSON (some n.lang) t) =
            (some t', (fromJ env cur fuel (some n.lang) (toJSON (some n.lang) t)).2) := by
          rw [← htdec]
        simp [lookup_append, lookup_langJ, lookup_propsJ, hk, finishDep, addMsgs, mkDep, hfil, hlen]
        rw [hsplit]
        simp [hfil]
        simpa [fromJList] using hX
      · rw [abs_of_upd_dep hsp.1, hsp.2]
        simp [Expr.abs, Node.abs, htabs, habs]
theorem fromJList_toJSONList (env : Env) (cur : Lang) : ∀ (es : List Expr) (fuel : Nat) (pl : Lang),
    WFJList env es → heightList es ≤ fuel →
    absList (fromJList env cur fuel (some pl) (toJSONList pl es)).1 = absList es
  | [], fuel, pl, _, _ => by simp [toJSONList, fromJList, collect]
  | e :: r, fuel, pl, hw, hf => by
    obtain ⟨he, hr⟩ := hw
    have hf1 : e.height ≤ fuel := by simp [heightList] at hf; omega
    have hf2 : heightList r ≤ fuel := by simp [heightList] at hf; omega
    obtain ⟨e', h1, a1⟩ := fromJ_toJSON env cur e fuel (some pl) he hf1
    have a2 := fromJList_toJSONList env cur r fuel pl hr hf2
    simp only [fromJList] at a2
    simp [toJSONList, fromJList, collect, h1, absList, a1, a2]
end


/-! ### the decoded expression does not depend on the current language (when the root carries a `lang` field) -/

theorem langField_isSome (lang : Option Lang) (kv : List (Str × JVal))
    (h : lang.isSome = true ∨ (lookup (s "lang") kv).isSome = true) : (langField lang kv).1.isSome = true := by
  unfold langField
  cases hl : lookup (s "lang") kv with
  | none =>
    rcases h with h | h
    · simpa using h
    · simp [hl] at h
  | some v =>
    cases v <;> simp
    split <;> (try split) <;> simp

theorem fromJ_cur_indep (env : Env) (cur cur' : Lang) : ∀ (fuel : Nat) (lang : Option Lang) (j : JVal),
    (lang.isSome = true ∨ ∃ kv, j = .obj kv ∧ (lookup (s "lang") kv).isSome = true) →
    fromJ env cur fuel lang j = fromJ env cur' fuel lang j
  | 0, _, _, _ => by simp [fromJ]
  | fuel + 1, lang, .obj kv, h => by
    have hs : (langField lang kv).1.isSome = true := by
      apply langField_isSome
      rcases h with h | ⟨kv', hj, hl⟩
      · exact Or.inl h
      · cases hj; exact Or.inr hl
    obtain ⟨l0, hl0⟩ := Option.isSome_iff_exists.mp hs
    have ih1 := fun j => fromJ_cur_indep env cur cur' fuel (some l0) j (Or.inl rfl)
    have hfun : fromJ env cur fuel (some l0) = fromJ env cur' fuel (some l0) := funext ih1
    simp only [fromJ, hl0, Option.getD_some, hfun]
  | _ + 1, _, .null, _ => by simp [fromJ]
  | _ + 1, _, .bool _, _ => by simp [fromJ]
  | _ + 1, _, .int _, _ => by simp [fromJ]
  | _ + 1, _, .str _, _ => by simp [fromJ]
  | _ + 1, _, .arr _, _ => by simp [fromJ]
  | _ + 1, _, .dt .., _ => by simp [fromJ]

/-! ### `toJSON` reads the abstraction only -/

mutual
theorem toJSON_abs : ∀ (p : Option Lang) (e : Expr), toJSON p e.abs = toJSON p e
  | p, .term n l i => by simp [toJSON, Expr.abs, Node.abs]
  | p, .phr n es => by simp [toJSON, Expr.abs, Node.abs, toJSONList_abs n.lang es]
  | p, .dep n t ds => by simp [toJSON, Expr.abs, Node.abs, toJSON_abs (some n.lang) t, toJSONList_abs n.lang ds]
theorem toJSONList_abs : ∀ (pl : Lang) (es : List Expr), toJSONList pl (absList es) = toJSONList pl es
  | _, [] => rfl
  | pl, e :: r => by simp [toJSONList, absList, toJSON_abs (some pl) e, toJSONList_abs pl r]
end

theorem toJSON_congr_abs {a b : Expr} (h : a.abs = b.abs) (p : Option Lang) : toJSON p a = toJSON p b := by
  rw [← toJSON_abs p a, h, toJSON_abs]

/-! ### the fuel `fromJSON` starts with is enough -/

theorem depthObj_append (a b : List (Str × JVal)) : depthObj (a ++ b) = max (depthObj a) (depthObj b) := by
  induction a with
  | nil => simp [depthObj]
  | cons x r ih => obtain ⟨k, v⟩ := x; simp [depthObj, ih, Nat.max_assoc]

mutual
theorem height_le_depth : ∀ (p : Option Lang) (e : Expr), e.height ≤ (toJSON p e).depth
  | p, .term n l i => by simp [toJSON, Expr.height, JVal.depth]
  | p, .phr n es => by
    have := heightList_le_depth n.lang es
    simp only [toJSON, Expr.height, JVal.depth, depthObj_append, depthObj]
    omega
  | p, .dep n t ds => by
    have h1 := height_le_depth (some n.lang) t
    have h2 := heightList_le_depth n.lang ds
    simp only [toJSON, Expr.height, JVal.depth, depthObj_append, depthObj]
    omega
theorem heightList_le_depth : ∀ (pl : Lang) (es : List Expr), heightList es ≤ depthList (toJSONList pl es)
  | _, [] => by simp [heightList]
  | pl, e :: r => by
    have h1 := height_le_depth (some pl) e
    have h2 := heightList_le_depth pl r
    simp only [heightList, toJSONList, depthList]
    omega
end


end Pyrealb.Expr
