import Pyrealb.Lemmas.ClauseEnPh
/-! Dependency notation: the state after `passivate` + `processTyp_verb`, and the declarative linearisation. -/
namespace Pyrealb.ClauseEn

set_option linter.unusedSimpArgs false

def dSubj (a : ArgTok) : DNode := ⟨.subj, .arg a, false, false⟩
def dObj (a : ArgTok) : DNode := ⟨.comp, .arg a, false, false⟩
def dPP (pa : Str × ArgTok) : DNode := ⟨.comp, .pp pa.1 pa.2, false, false⟩
def dPre (t : Tok) : DNode := ⟨.pre, .word t, false, false⟩
def dIt : DNode := ⟨.pre, .arg .it, false, false⟩

/-- the clause after `Dependent.passivate` -/
structure DMid where
  subj : Option ArgTok           -- the `subj` dependent (the promoted object in a passive)
  dummy : Bool                   -- `*pre*(it)`: objectless passive
  obj : Option ArgTok
  pps : List (Str × ArgTok)
  by_ : Option (Str × ArgTok)    -- the by-phrase, appended LAST
  agr : Agr
  g : Gender

def midDep (sp : Spec) (pas : Bool) : DMid :=
  if pas then
    match sp.obj with
    | some (.np a) => ⟨some (.np a), false, none, ppArgs sp, some (s "by", argTokOfSubj sp.subj), ⟨.p3, a.n⟩, a.g⟩
    | some (.pro a) => ⟨some (.proNom a), false, none, ppArgs sp, some (s "by", argTokOfSubj sp.subj), ⟨a.pe, a.n⟩, a.g⟩
    | none => ⟨none, true, none, ppArgs sp, some (s "by", argTokOfSubj sp.subj), agrOfArg sp.subj, genderOfArg sp.subj⟩
  else ⟨some (argTokOfSubj sp.subj), false, sp.obj.map argTokOfObj, ppArgs sp, none, agrOfArg sp.subj, genderOfArg sp.subj⟩

def optL {α β} (f : α → β) : Option α → List β
  | some x => [f x]
  | none => []

/-- the dependents before the words are appended -/
def d0 (m : DMid) : List DNode :=
  optL dSubj m.subj ++ (optL dObj m.obj ++ (m.pps.map dPP ++ ((if m.dummy then [dIt] else []) ++ optL dPP m.by_)))

def dstOf (m : DMid) (init : List Tok) (last : Tok) : DState :=
  { term := .tok last, deps := d0 m ++ init.map dPre, agr := m.agr, g := m.g, termComma := false, warn := 0 }

theorem initDep_eq (sp : Spec) :
    initDep sp = { term := .v0,
                   deps := dSubj (argTokOfSubj sp.subj) :: (optL dObj (sp.obj.map argTokOfObj) ++ (ppArgs sp).map dPP),
                   agr := agrOfArg sp.subj, g := genderOfArg sp.subj } := by
  obtain ⟨subj, verb, t, obj, pps⟩ := sp
  cases obj <;> simp [initDep, optL, dSubj, dObj, dPP, ppArgs, List.map_map, Function.comp_def]

@[simp] theorem dPP_rel (pa : Str × ArgTok) : (dPP pa).rel = .comp := rfl
@[simp] theorem dPP_ct (pa : Str × ArgTok) : (dPP pa).head.ct = .P := rfl
@[simp] theorem dPP_isPre (pa : Str × ArgTok) : (dPP pa).isPre = false := rfl
@[simp] theorem dObj_isPre (a : ArgTok) : (dObj a).isPre = false := rfl
@[simp] theorem dSubj_isPre (a : ArgTok) : (dSubj a).isPre = true := rfl
@[simp] theorem dPre_isPre (t : Tok) : (dPre t).isPre = true := rfl
@[simp] theorem dIt_isPre : dIt.isPre = true := rfl
@[simp] theorem dPre_rel (t : Tok) : (dPre t).rel = .pre := rfl
@[simp] theorem dSubj_rel (a : ArgTok) : (dSubj a).rel = .subj := rfl
@[simp] theorem dObj_rel (a : ArgTok) : (dObj a).rel = .comp := rfl
@[simp] theorem dIt_rel : dIt.rel = .pre := rfl
@[simp] theorem dObj_head (a : ArgTok) : (dObj a).head = .arg a := rfl
@[simp] theorem dSubj_head (a : ArgTok) : (dSubj a).head = .arg a := rfl
@[simp] theorem dPre_head (t : Tok) : (dPre t).head = .word t := rfl
@[simp] theorem dhead_arg_ct (a : ArgTok) : (DHead.arg a).ct = a.ct := rfl
@[simp] theorem dhead_word_ct (t : Tok) : (DHead.word t).ct = t.ct := rfl

theorem findIdx_obj_pps (pl : List (Str × ArgTok)) :
    findIdx (fun d : DNode => d.rel == .comp && isNPPro d.head.ct) (pl.map dPP) = none :=
  findIdx_map_none _ _ _ (fun _ => rfl)

theorem findIdx_subj_pps (pl : List (Str × ArgTok)) :
    findIdx (fun d : DNode => d.rel == .subj) (pl.map dPP) = none :=
  findIdx_map_none _ _ _ (fun _ => rfl)

/-- passivation and affix hopping bring the dependency clause to the state `dstOf (midDep sp pas) init last` -/
theorem mid_state_dep (sp : Spec) (pas : Bool) (init : List Tok) (last : Tok) :
    processTypVerbDep (init ++ [last]) (if pas then passivateDep (initDep sp) else initDep sp)
      = dstOf (midDep sp pas) init last := by
  rw [initDep_eq]
  obtain ⟨subj, verb, t, obj, pps⟩ := sp
  cases pas
  · simp [processTypVerbDep, midDep, dstOf, d0, optL, dPre]
  · cases obj with
    | none =>
      cases subj <;>
      simp [passivateDep, processTypVerbDep, midDep, dstOf, d0, optL, findIdx, findIdx_obj_pps, argTokOfSubj, removeAt,
        dSubj, dIt, dPP, dPre]
    | some o =>
      cases o <;> cases subj <;>
      simp [passivateDep, processTypVerbDep, midDep, dstOf, d0, optL, findIdx, argTokOfSubj, argTokOfObj, removeAt,
        setAt, dSubj, dObj, dPP, dPre]

end Pyrealb.ClauseEn

namespace Pyrealb.ClauseEn
set_option linter.unusedSimpArgs false

/-! ### the two shapes of the dependency clause after passivation and affix hopping -/

/-- a `subj` dependent first, then the nominal object, then prepositional complements (the by-phrase LAST), then
    the `*pre*` words -/
def plainSt (sj : ArgTok) (obj : Option ArgTok) (ql : List (Str × ArgTok)) (init : List Tok) (last : Tok)
    (agr : Agr) (g : Gender) : DState :=
  { term := .tok last, deps := dSubj sj :: (optL dObj obj ++ (ql.map dPP ++ init.map dPre)), agr := agr, g := g,
    termComma := false, warn := 0 }

/-- objectless passive: no `subj` dependent; `*pre*(it)` stands after the prepositional complements -/
def dummySt (pps bl : List (Str × ArgTok)) (init : List Tok) (last : Tok) (agr : Agr) (g : Gender) : DState :=
  { term := .tok last, deps := pps.map dPP ++ (dIt :: (bl.map dPP ++ init.map dPre)), agr := agr, g := g,
    termComma := false, warn := 0 }

theorem dstOf_active (sp : Spec) (init : List Tok) (last : Tok) :
    dstOf (midDep sp false) init last
      = plainSt (argTokOfSubj sp.subj) (sp.obj.map argTokOfObj) (ppArgs sp) init last (agrOfArg sp.subj) (genderOfArg sp.subj) := by
  simp [dstOf, midDep, plainSt, d0, optL]

theorem dstOf_pas_np (sp : Spec) (a : NPArg) (h : sp.obj = some (.np a)) (init : List Tok) (last : Tok) :
    dstOf (midDep sp true) init last
      = plainSt (.np a) none (ppArgs sp ++ [(s "by", argTokOfSubj sp.subj)]) init last ⟨.p3, a.n⟩ a.g := by
  simp [dstOf, midDep, plainSt, d0, optL, h]

theorem dstOf_pas_pro (sp : Spec) (a : ProArg) (h : sp.obj = some (.pro a)) (init : List Tok) (last : Tok) :
    dstOf (midDep sp true) init last
      = plainSt (.proNom a) none (ppArgs sp ++ [(s "by", argTokOfSubj sp.subj)]) init last ⟨a.pe, a.n⟩ a.g := by
  simp [dstOf, midDep, plainSt, d0, optL, h]

theorem dstOf_pas_none (sp : Spec) (h : sp.obj = none) (init : List Tok) (last : Tok) :
    dstOf (midDep sp true) init last
      = dummySt (ppArgs sp) [(s "by", argTokOfSubj sp.subj)] init last (agrOfArg sp.subj) (genderOfArg sp.subj) := by
  simp [dstOf, midDep, dummySt, d0, optL, h]

/-! ### the declarative linearisation of the dependency notation -/

/-- the verb that stands alone (no `*pre*` word) and is `be` or `have`: the subject is put after it -/
def headAlone (ws : List Tok) : Bool :=
  match ws.head? with
  | some w => aloneDep w.lemmaName
  | none => false

/-- inversion in the dependency notation: the first `*pre*` word goes to the front when there is one; a lone
    `be`/`have` gets its subject after it; otherwise nothing moves -/
def frontD (sj : ArgTok) (ws : List Tok) (compl : List Tok) : List Tok :=
  if 2 ≤ ws.length then ws.take 1 ++ [.arg sj] ++ ws.drop 1 ++ compl
  else if headAlone ws then ws ++ [.arg sj] ++ compl
  else [.arg sj] ++ ws ++ compl

def lastIsFirst (ws : List Tok) : Bool :=
  match ws.getLast? with
  | some (.verb _ _ .shared) => true
  | some .cannot => true
  | _ => false

/-- the prepositional questions -/
def Int.isPPq : Int → Bool
  | .woi | .wai | .whe | .whn => true
  | _ => false

/-- prefix and remaining prepositional dependents of `woi/wai/whe/whn` in the dependency notation: EVERY prepositional
    dependent is looked at, the first whose preposition fits is removed (the constituent notation stops at the first
    prepositional phrase: `questionPPPh`) -/
def questionPPDep (i : Int) : List (Str × ArgTok) → Str × List (Str × ArgTok)
  | [] => (intPrefix i, [])
  | (p, a) :: r =>
    if prepQualifies i p then ((if i == .whe || i == .whn then intPrefix i else p ++ s " " ++ whomOrWhat i), r)
    else ((questionPPDep i r).1, (p, a) :: (questionPPDep i r).2)

/-- tokens of the clause proper, dependency notation, `subj` dependent present (always defined since `preposition_list`
    is shared with the dependency notation) -/
def linDepPlain (sj : ArgTok) (obj : Option ArgTok) (ql : List (Str × ArgTok)) (i : Option Int) (ws : List Tok) :
    Option (List Tok) :=
  match i with
  | none => some ([.arg sj] ++ ws ++ (objToks obj ++ ppToks ql))
  | some .tag => some (.q (intPrefix .tag) :: ([.arg sj] ++ ws ++ (objToks obj ++ ppToks ql)))
  | some .yon => some (frontD sj ws (objToks obj ++ ppToks ql))
  | some .how => some (.q (intPrefix .how) :: frontD sj ws (objToks obj ++ ppToks ql))
  | some .why => some (.q (intPrefix .why) :: frontD sj ws (objToks obj ++ ppToks ql))
  | some .muc => some (.q (intPrefix .muc) :: frontD sj ws (objToks obj ++ ppToks ql))
  | some .wos => some (.q (intPrefix .wos) :: (ws ++ (objToks obj ++ ppToks ql)))
  | some .was => some (.q (intPrefix .was) :: (ws ++ (objToks obj ++ ppToks ql)))
  | some .wod =>
    some (.q (if Gen.ClauseEn.depHumanObjectGetsIntValue && objHuman obj then s "whom" else intPrefix .wod)
      :: frontD sj ws (ppToks ql))
  | some .wad => some (.q (intPrefix .wad) :: frontD sj ws (ppToks ql))
  | some .woi => some (.q (questionPPDep .woi ql).1 :: frontD sj ws (objToks obj ++ ppToks (questionPPDep .woi ql).2))
  | some .wai => some (.q (questionPPDep .wai ql).1 :: frontD sj ws (objToks obj ++ ppToks (questionPPDep .wai ql).2))
  | some .whe => some (.q (questionPPDep .whe ql).1 :: frontD sj ws (objToks obj ++ ppToks (questionPPDep .whe ql).2))
  | some .whn => some (.q (questionPPDep .whn ql).1 :: frontD sj ws (objToks obj ++ ppToks (questionPPDep .whn ql).2))

/-- objectless passive in the dependency notation: `it` is a `*pre*` dependent, found first by `move_object`, so
    nothing is inverted; there is no `subj` dependent to remove -/
def linDepDummy (pps bl : List (Str × ArgTok)) (i : Option Int) (ws : List Tok) : Option (List Tok) :=
  let base := [Tok.arg .it] ++ ws ++ (ppToks pps ++ ppToks bl)
  let ppq (j : Int) : Option (List Tok) :=
    some (.q (questionPPDep j (pps ++ bl)).1 :: ([Tok.arg .it] ++ ws ++ ppToks (questionPPDep j (pps ++ bl)).2))
  match i with
  | none => some base
  | some .yon => some base
  | some .woi => ppq .woi
  | some .wai => ppq .wai
  | some .whe => ppq .whe
  | some .whn => ppq .whn
  | some j => some (.q (intPrefix j) :: base)

def agrDepPlain (agr : Agr) (i : Option Int) (ws : List Tok) : Agr :=
  match i with
  | some .wos | some .was => if lastIsFirst ws then ⟨.p3, .s⟩ else agr
  | _ => agr

end Pyrealb.ClauseEn
