import Pyrealb.Lemmas.AgreeNP
/-! # `Dependent.linkProperties` establishes the declarative goals (`depGoals`)

The assignments of a dependency node have several sources (the node itself, a subject dependent, the head terminal), so
the argument is "last writer": the last assignment that targets a node reads a source that nothing has re-pointed
before, and nothing targets the node afterwards — which is where the TREE hypothesis (`DepTree`) is used. -/
namespace Pyrealb.Agree
open Pyrealb Pyrealb.Heap

def stepActs (h : Heap) (p ht dep : Nat) : List Act := (planDepStep h p ht dep).getD []

theorem planDepLoop_eq (h : Heap) (p ht : Nat) : ∀ (deps : List Nat) (acts : List Act),
    planDepLoop h p ht deps = some acts →
    acts = deps.flatMap (stepActs h p ht) ∧ ∀ d ∈ deps, ∃ l, planDepStep h p ht d = some l := by
  intro deps
  induction deps with
  | nil => intro acts hl; simp [planDepLoop] at hl; subst hl; simp
  | cons d ds ih =>
    intro acts hl
    simp only [planDepLoop] at hl
    cases hs : planDepStep h p ht d with
    | none => rw [hs] at hl; simp at hl
    | some a =>
      rw [hs] at hl
      simp only [] at hl
      cases hr : planDepLoop h p ht ds with
      | none => rw [hr] at hl; simp at hl
      | some more =>
        rw [hr] at hl
        simp only [Option.some.injEq] at hl
        obtain ⟨e1, e2⟩ := ih more hr
        subst hl
        constructor
        · simp [List.flatMap_cons, stepActs, hs, ← e1]
        · intro x hx
          rcases List.mem_cons.mp hx with rfl | hx
          · exact ⟨a, hs⟩
          · exact e2 x hx

/-! ### the step of one dependent, piece by piece (`planDepStep_eq`: the same function) -/

def subjActs (h : Heap) (ht dep : Nat) : List Act :=
  if h.kind ht = .V then [.setPeng true ht dep] else []

def detActs (h : Heap) (p ht depTerm : Nat) : List Act :=
  if h.kind depTerm = .D then
    [.setPeng false depTerm p] ++
      (if (h.node p).lang = .en && h.lemmaOf depTerm = s "a" && h.getProp ht cntKey == .s (s "no")
       then [.morphoError depTerm] else [])
  else if h.kind depTerm = .NO then
    [.setPeng true depTerm ht, .writeN true depTerm (h.gramNumber depTerm)]
  else []

/-- French attribute of a copula: the assignment to the subject's record -/
def attrActs (h : Heap) (p ht depTerm : Nat) : List Act :=
  match (h.node p).lang with
  | .en => []
  | .fr =>
    if copulasFr.contains (h.lemmaOf ht) then
      match depFindIndex h p (fun d0 => h.kind d0 = .subj && termKindIs h d0 [.N, .Pro]) with
      | some iSubj =>
        match (h.kids p)[iSubj]? with
        | some sd => [.setPeng true depTerm sd]
        | none => []
      | none => []
    else []

/-- the `cod` bookkeeping of a French relative clause (no pointer to a record is written) -/
def codActs (h : Heap) (p ht dep depTerm : Nat) : List Act :=
  match (h.node p).lang with
  | .en => []
  | .fr =>
    [.setCod depTerm ht] ++
      (if h.lemmaOf depTerm = s "avoir" then
        match depFindIndex h dep (fun dI => h.kind dI = .comp && termKindIs h dI [.V] &&
             (match (h.node dI).term with | some t => h.getProp t Heap.tKey == ppVal | none => false)) with
        | some iVerb =>
          match (h.kids dep)[iVerb]? with
          | some dv => (match (h.node dv).term with | some t => [.setCod t ht] | none => [])
          | none => []
        | none => []
      else [])

def relVerbActs (h : Heap) (p ht dep depTerm : Nat) : List Act :=
  (match relIndex h p dep with
   | some i =>
     (match (h.kids dep)[i]? with
      | some dr => if h.kind dr = .subj then [.setPeng true depTerm p] else []
      | none => []) ++ codActs h p ht dep depTerm
   | none => []) ++
  (match (h.node p).lang with
   | .en => []
   | .fr => if h.getProp depTerm Heap.tKey == ppVal then [.setPeng true depTerm p] else [])

def modActs (h : Heap) (p ht dep depTerm : Nat) : Option (List Act) :=
  if h.kind depTerm = .A || isPP h depTerm then
    some ([.setPeng false depTerm p] ++ attrActs h p ht depTerm)
  else if h.kind depTerm = .V then some (relVerbActs h p ht dep depTerm)
  else if h.kind depTerm = .Pro &&
      (match (h.node p).lang with | .en => relPropagateEn | .fr => relPropagateFr).contains (h.lemmaOf depTerm) then none
  else some []

def coordActs (h : Heap) (p ht dep : Nat) : List Act :=
  match (h.kids dep).head? with
  | none => []
  | some firstDep =>
    if h.kind firstDep = .subj then [.setPeng true dep p]
    else if h.kind firstDep = .det then [.setPeng true dep ht]
    else if h.isA firstDep [.mod, .comp] && termKindIs h firstDep [.V, .A] then
      [.setPeng false dep ht] ++
        (h.kids dep).flatMap (fun dI =>
          [.setPeng false dI ht] ++
            (match (h.node dI).term with
             | some t => [.setPeng false t ht]
             | none => [.crash .attributeError]))
    else []

def planDepStep' (h : Heap) (p ht dep : Nat) : Option (List Act) :=
  match (h.node dep).term with
  | none => none
  | some depTerm =>
    match h.kind dep with
    | .subj => some (subjActs h ht dep)
    | .det => some (detActs h p ht depTerm)
    | .mod | .comp => modActs h p ht dep depTerm
    | .root => some []
    | .coord => some (coordActs h p ht dep)
    | _ => none

theorem planDepStep_eq (h : Heap) (p ht dep : Nat) : planDepStep h p ht dep = planDepStep' h p ht dep := by
  unfold planDepStep planDepStep' subjActs detActs modActs coordActs relVerbActs attrActs codActs relIndex
  cases (h.node dep).term with
  | none => rfl
  | some depTerm =>
    simp only []
    cases h.kind dep <;> simp only [] <;> (try rfl) <;> (repeat' split) <;> (try rfl) <;> simp_all


/-! ### what a step may write -/

/-- not a guard, and a pointer write targets a node of `T` -/
def OkT (T : List Nat) (a : Act) : Prop := (∀ o, a ≠ .guardHas o) ∧ ∀ x, pengTarget a = some x → x ∈ T

@[simp] theorem okT_setPeng (T : List Nat) (s : Bool) (x y : Nat) : OkT T (.setPeng s x y) ↔ x ∈ T := by
  simp [OkT, pengTarget]
@[simp] theorem okT_setCod (T : List Nat) (x y : Nat) : OkT T (.setCod x y) := by simp [OkT, pengTarget]
@[simp] theorem okT_writeN (T : List Nat) (s : Bool) (x : Nat) (v : Val) : OkT T (.writeN s x v) := by
  simp [OkT, pengTarget]
@[simp] theorem okT_morpho (T : List Nat) (x : Nat) : OkT T (.morphoError x) := by simp [OkT, pengTarget]
@[simp] theorem okT_crash (T : List Nat) (c : Crash) : OkT T (.crash c) := by simp [OkT, pengTarget]

theorem subjActs_ok (h : Heap) (ht dep : Nat) : ∀ a ∈ subjActs h ht dep, OkT [ht] a := by
  intro a ha
  unfold subjActs at ha
  split at ha <;> simp_all

theorem detActs_ok (h : Heap) (p ht depTerm : Nat) : ∀ a ∈ detActs h p ht depTerm, OkT [depTerm] a := by
  intro a ha
  unfold detActs at ha
  (repeat' split at ha) <;> simp_all
  all_goals (rcases ha with rfl | rfl) <;> simp

theorem attrActs_ok (h : Heap) (p ht depTerm : Nat) : ∀ a ∈ attrActs h p ht depTerm, OkT [depTerm] a := by
  intro a ha
  unfold attrActs at ha
  (repeat' split at ha) <;> simp_all

theorem codActs_ok (h : Heap) (p ht dep depTerm : Nat) (T : List Nat) : ∀ a ∈ codActs h p ht dep depTerm, OkT T a := by
  intro a ha
  unfold codActs at ha
  (repeat' split at ha) <;> simp_all
  all_goals (try (rcases ha with rfl | rfl)) <;> simp

theorem relVerbActs_ok (h : Heap) (p ht dep depTerm : Nat) :
    ∀ a ∈ relVerbActs h p ht dep depTerm, OkT [depTerm] a := by
  intro a ha
  unfold relVerbActs at ha
  rcases List.mem_append.mp ha with ha | ha
  · split at ha
    · rcases List.mem_append.mp ha with ha | ha
      · (repeat' split at ha) <;> simp_all
      · exact codActs_ok _ _ _ _ _ _ a ha
    · simp at ha
  · (repeat' split at ha) <;> simp_all

theorem modActs_ok (h : Heap) (p ht dep depTerm : Nat) (l : List Act) (hl : modActs h p ht dep depTerm = some l) :
    ∀ a ∈ l, OkT [depTerm] a := by
  intro a ha
  unfold modActs at hl
  split at hl
  · cases hl
    rcases List.mem_append.mp ha with ha | ha
    · simp_all
    · exact attrActs_ok _ _ _ _ a ha
  · split at hl
    · cases hl; exact relVerbActs_ok _ _ _ _ _ a ha
    · split at hl <;> split at hl <;> first | (cases hl; done) | (cases hl; simp at ha)

theorem coordActs_ok (h : Heap) (p ht dep : Nat) : ∀ a ∈ coordActs h p ht dep, OkT (depNodes h dep) a := by
  intro a ha
  unfold coordActs at ha
  split at ha
  · simp at ha
  · split at ha
    · simp_all [depNodes]
    · split at ha
      · simp_all [depNodes]
      · split at ha
        · rcases List.mem_append.mp ha with ha | ha
          · simp_all [depNodes]
          · obtain ⟨dI, hdI, hm⟩ := List.mem_flatMap.mp ha
            rcases List.mem_append.mp hm with hm | hm
            · simp only [List.mem_cons, List.not_mem_nil, or_false] at hm
              subst hm
              simp only [okT_setPeng, depNodes, List.mem_cons, List.mem_append, List.mem_flatMap]
              right; right
              exact ⟨dI, hdI, Or.inl rfl⟩
            · split at hm
              · next t hterm =>
                simp only [List.mem_cons, List.not_mem_nil, or_false] at hm
                subst hm
                simp only [okT_setPeng, depNodes, List.mem_cons, List.mem_append, List.mem_flatMap]
                right; right
                exact ⟨dI, hdI, Or.inr (by simp [hterm])⟩
              · simp_all
        · simp at ha

/-- what an assignment of the step for `dep` may be: never a guard or an allocation; a pointer write targets the head
    terminal (subject dependents only) or a node below `dep` -/
def StepOK (h : Heap) (ht dep : Nat) (a : Act) : Prop :=
  (∀ o, a ≠ .guardHas o) ∧
  (∀ x, pengTarget a = some x → (h.kind dep = .subj ∧ x = ht) ∨ (h.kind dep ≠ .subj ∧ x ∈ depNodes h dep))

theorem planDepStep_ok (h : Heap) (p ht dep : Nat) (l : List Act) (hl : planDepStep h p ht dep = some l) :
    ∀ a ∈ l, StepOK h ht dep a := by
  intro a ha
  rw [planDepStep_eq] at hl
  unfold planDepStep' at hl
  cases hterm : (h.node dep).term with
  | none => rw [hterm] at hl; simp at hl
  | some depTerm =>
    rw [hterm] at hl
    simp only [] at hl
    have hdT : depTerm ∈ depNodes h dep := by simp [depNodes, hterm]
    have lift : ∀ (T : List Nat), (∀ x ∈ T, x ∈ depNodes h dep) → h.kind dep ≠ .subj → OkT T a → StepOK h ht dep a := by
      intro T hT hns ⟨h1, h2⟩
      exact ⟨h1, fun x hx => Or.inr ⟨hns, hT x (h2 x hx)⟩⟩
    split at hl
    · next hk =>
      cases hl
      obtain ⟨h1, h2⟩ := subjActs_ok h ht dep a ha
      exact ⟨h1, fun x hx => Or.inl ⟨hk, by simpa using h2 x hx⟩⟩
    · next hk =>
      cases hl
      exact lift [depTerm] (by simpa using hdT) (by rw [hk]; simp) (detActs_ok h p ht depTerm a ha)
    · next hk =>
      exact lift [depTerm] (by simpa using hdT) (by rw [hk]; simp) (modActs_ok h p ht dep depTerm l hl a ha)
    · next hk =>
      exact lift [depTerm] (by simpa using hdT) (by rw [hk]; simp) (modActs_ok h p ht dep depTerm l hl a ha)
    · cases hl; simp at ha
    · next hk =>
      cases hl
      exact lift (depNodes h dep) (fun x hx => hx) (by rw [hk]; simp) (coordActs_ok h p ht dep a ha)
    · cases hl

/-! ### the goals of one dependent: the last writer of the node reads the goal's source -/

theorem attrActs_eq (h : Heap) (p ht depTerm : Nat) :
    attrActs h p ht depTerm = (match depAttrSubject h p ht with
      | some sd => [.setPeng true depTerm sd]
      | none => []) := by
  unfold attrActs depAttrSubject
  cases (h.node p).lang with
  | en => rfl
  | fr =>
    simp only []
    split
    · cases depFindIndex h p (fun d0 => h.kind d0 = .subj && termKindIs h d0 [.N, .Pro]) with
      | none => rfl
      | some i =>
        simp only []
    · rfl

theorem depAttrSubject_mem (h : Heap) (p ht sd : Nat) (hs : depAttrSubject h p ht = some sd) : sd ∈ h.kids p := by
  unfold depAttrSubject at hs
  cases hl : (h.node p).lang with
  | en => rw [hl] at hs; simp at hs
  | fr =>
    rw [hl] at hs
    simp only [] at hs
    split at hs
    · cases hi : depFindIndex h p (fun d0 => h.kind d0 = .subj && termKindIs h d0 [.N, .Pro]) with
      | none => rw [hi] at hs; simp at hs
      | some i =>
        rw [hi] at hs
        simp only [] at hs
        exact List.mem_of_getElem? hs
    · simp at hs

theorem codActs_noTarget (h : Heap) (p ht dep depTerm : Nat) : pengTargets (codActs h p ht dep depTerm) = [] := by
  simp only [pengTargets, List.filterMap_eq_nil_iff]
  intro a ha
  have := codActs_ok h p ht dep depTerm [] a ha
  cases hp : pengTarget a with
  | none => rfl
  | some x => exact absurd (this.2 x hp) (by simp)

/-- where the source of a goal may be: the node itself, or a subject dependent -/
def SrcOK (h : Heap) (p src : Nat) : Prop := src = p ∨ (src ∈ h.kids p ∧ h.kind src = .subj)

theorem goal_decomp (h : Heap) (p ht dep : Nat) (l : List Act) (hl : planDepStep h p ht dep = some l)
    (g : DepGoal) (hg : g ∈ depGoalsOf h p ht dep) :
    ∃ A0 B0 s, l = A0 ++ Act.setPeng s g.node g.src :: B0 ∧ g.node ∉ pengTargets B0 ∧
      (∀ x ∈ pengTargets A0, x = g.node) ∧ g.node ∈ depNodes h dep ∧ h.kind dep ≠ .subj ∧ SrcOK h p g.src := by
  rw [planDepStep_eq] at hl
  unfold planDepStep' at hl
  unfold depGoalsOf at hg
  cases hterm : (h.node dep).term with
  | none => rw [hterm] at hg; simp at hg
  | some depTerm =>
    rw [hterm] at hl hg
    simp only [] at hl hg
    have hdT : depTerm ∈ depNodes h dep := by simp [depNodes, hterm]
    have hdd : dep ∈ depNodes h dep := by simp [depNodes]
    -- the two branches for mod and comp are the same
    have modcase : h.kind dep ≠ .subj → modActs h p ht dep depTerm = some l →
        g ∈ (if (h.kind depTerm = .A || isPP h depTerm) = true then
              match depAttrSubject h p ht with
              | some sd => if h.kind sd = .subj then [⟨depTerm, sd⟩] else []
              | none => [⟨depTerm, p⟩]
            else if h.kind depTerm = .V then
              match relIndex h p dep with
              | some i =>
                match (h.kids dep)[i]? with
                | some dr => if h.kind dr = .subj then [⟨depTerm, p⟩] else []
                | none => []
              | none => []
            else ([] : List DepGoal)) →
        ∃ A0 B0 s, l = A0 ++ Act.setPeng s g.node g.src :: B0 ∧ g.node ∉ pengTargets B0 ∧
          (∀ x ∈ pengTargets A0, x = g.node) ∧ g.node ∈ depNodes h dep ∧ h.kind dep ≠ .subj ∧ SrcOK h p g.src := by
      intro hns hm hg'
      unfold modActs at hm
      by_cases hA : (h.kind depTerm = .A || isPP h depTerm) = true
      · rw [if_pos hA] at hm hg'
        cases hm
        rw [attrActs_eq]
        cases hsd : depAttrSubject h p ht with
        | none =>
          rw [hsd] at hg'
          simp only [List.mem_cons, List.not_mem_nil, or_false] at hg'
          subst hg'
          exact ⟨[], [], false, by simp, by simp [pengTargets], by simp [pengTargets], hdT, hns, Or.inl rfl⟩
        | some sd =>
          rw [hsd] at hg'
          simp only [] at hg'
          split at hg'
          · next hks =>
            simp only [List.mem_cons, List.not_mem_nil, or_false] at hg'
            subst hg'
            refine ⟨[.setPeng false depTerm p], [], true, by simp, by simp [pengTargets], ?_, hdT, hns,
              Or.inr ⟨depAttrSubject_mem h p ht sd hsd, hks⟩⟩
            intro x hx
            simpa [pengTargets, pengTarget] using hx
          · simp at hg'
      · rw [if_neg hA] at hm hg'
        by_cases hV : h.kind depTerm = .V
        · rw [if_pos hV] at hm hg'
          cases hm
          -- the terminal is not a past participle: the trailing French assignment is absent
          have hnpp : (h.getProp depTerm Heap.tKey == ppVal) = false := by
            have : isPP h depTerm = false := by
              simp only [Bool.or_eq_true, not_or] at hA
              simpa using hA.2
            simpa [isPP, hV] using this
          unfold relVerbActs
          cases hi : relIndex h p dep with
          | none => rw [hi] at hg'; simp at hg'
          | some i =>
            rw [hi] at hg'
            simp only [] at hg' ⊢
            cases hdr : (h.kids dep)[i]? with
            | none => rw [hdr] at hg'; simp at hg'
            | some dr =>
              rw [hdr] at hg'
              simp only [] at hg' ⊢
              split at hg'
              · next hks =>
                simp only [List.mem_cons, List.not_mem_nil, or_false] at hg'
                subst hg'
                rw [if_pos hks]
                refine ⟨[], codActs h p ht dep depTerm ++
                  (match (h.node p).lang with
                   | .en => []
                   | .fr => if (h.getProp depTerm Heap.tKey == ppVal) = true then [.setPeng true depTerm p] else []),
                  true, by simp, ?_, by simp [pengTargets], hdT, hns, Or.inl rfl⟩
                rw [pengTargets_append, codActs_noTarget]
                cases (h.node p).lang <;> simp [pengTargets, hnpp]
              · simp at hg'
        · rw [if_neg hV] at hg'
          simp at hg'
    split at hl
    · -- subj
      next hk => simp [hk] at hg
    · -- det
      next hk =>
      cases hl
      simp only [hk] at hg
      have hns : h.kind dep ≠ .subj := by rw [hk]; simp
      split at hg
      · next hD =>
        simp only [List.mem_cons, List.not_mem_nil, or_false] at hg
        subst hg
        unfold detActs
        rw [if_pos hD]
        refine ⟨[], _, false, by simp; rfl, ?_, by simp [pengTargets], hdT, hns, Or.inl rfl⟩
        split <;> simp [pengTargets, pengTarget]
      · simp at hg
    · next hk =>
      have hns : h.kind dep ≠ .subj := by rw [hk]; simp
      simp only [hk] at hg
      exact modcase hns hl hg
    · next hk =>
      have hns : h.kind dep ≠ .subj := by rw [hk]; simp
      simp only [hk] at hg
      exact modcase hns hl hg
    · next hk => simp [hk] at hg
    · -- coord
      next hk =>
      cases hl
      simp only [hk] at hg
      have hns : h.kind dep ≠ .subj := by rw [hk]; simp
      unfold coordActs
      cases hh : (h.kids dep).head? with
      | none => rw [hh] at hg; simp at hg
      | some firstDep =>
        rw [hh] at hg
        simp only [] at hg ⊢
        split at hg
        · next hfs =>
          simp only [List.mem_cons, List.not_mem_nil, or_false] at hg
          subst hg
          rw [if_pos hfs]
          exact ⟨[], [], true, by simp, by simp [pengTargets], by simp [pengTargets], hdd, hns, Or.inl rfl⟩
        · simp at hg
    · cases hl

/-! ### the whole run -/

theorem steps_noGuard (h : Heap) (p ht : Nat) (ds : List Nat)
    (hall : ∀ d ∈ ds, ∃ l, planDepStep h p ht d = some l) : NoGuard (ds.flatMap (stepActs h p ht)) := by
  intro a ha o
  obtain ⟨d, hd, had⟩ := List.mem_flatMap.mp ha
  obtain ⟨l, hl⟩ := hall d hd
  simp only [stepActs, hl, Option.getD_some] at had
  exact (planDepStep_ok h p ht d l hl a had).1 o

theorem steps_targets (h : Heap) (p ht : Nat) (ds : List Nat)
    (hall : ∀ d ∈ ds, ∃ l, planDepStep h p ht d = some l) (x : Nat)
    (hx : x ∈ pengTargets (ds.flatMap (stepActs h p ht))) :
    ∃ d ∈ ds, (h.kind d = .subj ∧ x = ht) ∨ (h.kind d ≠ .subj ∧ x ∈ depNodes h d) := by
  rw [pengTargets_flatMap] at hx
  obtain ⟨d, hd, hxd⟩ := List.mem_flatMap.mp hx
  obtain ⟨l, hl⟩ := hall d hd
  simp only [stepActs, hl, Option.getD_some, pengTargets, List.mem_filterMap] at hxd
  obtain ⟨a, ha, hta⟩ := hxd
  exact ⟨d, hd, (planDepStep_ok h p ht d l hl a ha).2 x hta⟩

theorem self_mem_depNodes (h : Heap) (d : Nat) : d ∈ depNodes h d := by simp [depNodes]

/-- a source (the node itself or a subject dependent) is never a target of the steps of `ds ⊆ kids p` -/
theorem src_not_target (h : Heap) (p ht : Nat) (tree : DepTree h p ht) (ds : List Nat) (hsub : ∀ d ∈ ds, d ∈ h.kids p)
    (hall : ∀ d ∈ ds, ∃ l, planDepStep h p ht d = some l) (src : Nat) (hs : SrcOK h p src) :
    src ∉ pengTargets (ds.flatMap (stepActs h p ht)) := by
  intro hx
  obtain ⟨d, hd, hc⟩ := steps_targets h p ht ds hall src hx
  have hdk := hsub d hd
  rcases hs with rfl | ⟨hsk, hss⟩
  · rcases hc with ⟨_, e⟩ | ⟨_, e⟩
    · exact tree.pNe e
    · exact tree.pOut d hdk e
  · rcases hc with ⟨_, e⟩ | ⟨hns, e⟩
    · subst e
      exact tree.hOut src hsk (self_mem_depNodes h src)
    · have hne : d ≠ src := by intro e'; subst e'; exact hns hss
      exact tree.disj d hdk src hsk hne src e (self_mem_depNodes h src)

theorem planDep_loop_of (h : Heap) (p ht : Nat) (acts : List Act) (hterm : (h.node p).term = some ht)
    (hnc : h.kind p ≠ .coord) (hne : h.kids p ≠ []) (hplan : planDep h p = some acts) :
    planDepLoop h p ht (h.kids p) = some acts := by
  unfold planDep at hplan
  simp only [] at hplan
  have he : (h.kids p).isEmpty = false := by
    cases hk : h.kids p with
    | nil => exact absurd hk hne
    | cons a b => rfl
  rw [he] at hplan
  simp only [Bool.false_eq_true, if_false] at hplan
  split at hplan
  · cases hplan
  · rw [hterm] at hplan
    simp only [] at hplan
    cases hl : planDepLoop h p ht (h.kids p) with
    | none => rw [hl] at hplan; simp at hplan
    | some l =>
      rw [hl] at hplan
      simp only [hnc, if_false, List.nil_append, Option.some.injEq] at hplan
      rw [hplan]

/-- **`Dependent.linkProperties`, goals with a stable source**: determiners, adjectives and participles (with the
    French attribute rule), verbs of subject relatives and coordinated subjects end up holding the record that their
    declared source held BEFORE the run — for every list of dependents that forms a tree. -/
theorem planDep_goals (h : Heap) (p ht : Nat) (acts : List Act) (h' : Heap)
    (hterm : (h.node p).term = some ht) (hnc : h.kind p ≠ .coord)
    (hplan : planDep h p = some acts) (hex : exec h acts = .ok h') (tree : DepTree h p ht) :
    ∀ g ∈ (h.kids p).flatMap (depGoalsOf h p ht), ∀ r, h.peng g.src = some r → h'.peng g.node = some r := by
  intro g hg r hr
  obtain ⟨dep, hdep, hgd⟩ := List.mem_flatMap.mp hg
  have hne : h.kids p ≠ [] := by intro e; rw [e] at hdep; simp at hdep
  have hloop := planDep_loop_of h p ht acts hterm hnc hne hplan
  obtain ⟨e1, e2⟩ := planDepLoop_eq h p ht (h.kids p) acts hloop
  obtain ⟨pre, post, hsplit⟩ := List.append_of_mem hdep
  obtain ⟨l, hl⟩ := e2 dep hdep
  obtain ⟨A0, B0, s, hld, hB0, hA0, hnode, hns, hsrc⟩ := goal_decomp h p ht dep l hl g hgd
  have hnd := tree.nodup
  rw [hsplit] at hnd
  obtain ⟨_, hnd2, hnd3⟩ := List.nodup_append.mp hnd
  have hdep_post : dep ∉ post := (List.nodup_cons.mp hnd2).1
  have hpre_sub : ∀ d ∈ pre, d ∈ h.kids p := by intro d hd; rw [hsplit]; exact List.mem_append_left _ hd
  have hpost_sub : ∀ d ∈ post, d ∈ h.kids p := by
    intro d hd; rw [hsplit]; exact List.mem_append_right _ (List.mem_cons_of_mem _ hd)
  have hall_pre : ∀ d ∈ pre, ∃ l, planDepStep h p ht d = some l := fun d hd => e2 d (hpre_sub d hd)
  have hall_post : ∀ d ∈ post, ∃ l, planDepStep h p ht d = some l := fun d hd => e2 d (hpost_sub d hd)
  -- the shape of the whole run
  have hacts : acts = (pre.flatMap (stepActs h p ht) ++ A0) ++
      Act.setPeng s g.node g.src :: (B0 ++ post.flatMap (stepActs h p ht)) := by
    rw [e1, hsplit]
    simp only [List.flatMap_append, List.flatMap_cons, stepActs, hl, Option.getD_some, hld, List.append_assoc,
      List.cons_append]
  rw [hacts] at hex
  have hA0sub : ∀ a ∈ A0, a ∈ l := by intro a ha; rw [hld]; exact List.mem_append_left _ ha
  apply exec_last_writer _ _ s g.node g.src r h h' _ _ _ hex
  · -- no guard before
    intro a ha o
    rcases List.mem_append.mp ha with ha | ha
    · exact steps_noGuard h p ht pre hall_pre a ha o
    · exact (planDepStep_ok h p ht dep l hl a (hA0sub a ha)).1 o
  · -- the source is untouched before
    intro st hst
    have hnt : g.src ∉ pengTargets (pre.flatMap (stepActs h p ht) ++ A0) := by
      rw [pengTargets_append]
      intro hm
      rcases List.mem_append.mp hm with hm | hm
      · exact src_not_target h p ht tree pre hpre_sub hall_pre g.src hsrc hm
      · have := hA0 g.src hm
        -- the source would be a node below `dep`
        rcases hsrc with e | ⟨hsk, hss⟩
        · rw [this] at e; rw [e] at hnode; exact tree.pOut dep hdep hnode
        · have hne2 : dep ≠ g.src := by intro e'; rw [e'] at hns; exact hns hss
          rw [← this] at hnode
          exact tree.disj dep hdep g.src hsk hne2 g.src hnode (self_mem_depNodes h g.src)
    rw [exec_peng_notTarget g.src _ h st hnt hst]
    exact hr
  · -- nothing targets the node afterwards
    rw [pengTargets_append]
    intro hm
    rcases List.mem_append.mp hm with hm | hm
    · exact hB0 hm
    · obtain ⟨d, hd, hc⟩ := steps_targets h p ht post hall_post g.node hm
      have hdk := hpost_sub d hd
      rcases hc with ⟨_, e⟩ | ⟨_, e⟩
      · rw [e] at hnode; exact tree.hOut dep hdep hnode
      · have hne2 : dep ≠ d := by intro e'; subst e'; exact hdep_post hd
        exact tree.disj dep hdep d hdk hne2 g.node hnode e

/-- splitting a list at the LAST element that satisfies `q` -/
theorem getLast_filter_split {α} (q : α → Bool) : ∀ (l : List α) (x : α), (l.filter q).getLast? = some x →
    ∃ pre post, l = pre ++ x :: post ∧ q x = true ∧ ∀ y ∈ post, q y = false := by
  intro l
  induction l with
  | nil => intro x hx; simp at hx
  | cons a l ih =>
    intro x hx
    rw [List.filter_cons] at hx
    cases hfl : (l.filter q).getLast? with
    | some y =>
      have hxy : x = y := by
        split at hx
        · rw [List.getLast?_cons, hfl] at hx; simpa using hx.symm
        · rw [hfl] at hx; simpa using hx.symm
      subst hxy
      obtain ⟨pre, post, e, hq, hp⟩ := ih x hfl
      exact ⟨a :: pre, post, by rw [e]; rfl, hq, hp⟩
    | none =>
      have hnil : l.filter q = [] := List.getLast?_eq_none_iff.mp hfl
      split at hx
      · next hqa =>
        rw [hnil] at hx
        simp at hx
        subst hx
        refine ⟨[], l, rfl, hqa, ?_⟩
        intro y hy
        have := List.filter_eq_nil_iff.mp hnil y hy
        simpa using this
      · rw [hnil] at hx; simp at hx

/-- **the verb of a dependency node takes the record of its LAST subject dependent** -/
theorem planDep_head (h : Heap) (p ht : Nat) (acts : List Act) (h' : Heap)
    (hterm : (h.node p).term = some ht) (hnc : h.kind p ≠ .coord) (hV : h.kind ht = .V)
    (hplan : planDep h p = some acts) (hex : exec h acts = .ok h') (tree : DepTree h p ht)
    (dl r : Nat) (hdl : (depSubjects h p).getLast? = some dl) (hr : h.peng dl = some r) :
    h'.peng ht = some r := by
  obtain ⟨pre, post, hsplit, hq, hpost⟩ := getLast_filter_split _ _ _ hdl
  have hks : h.kind dl = .subj := by simpa using hq
  have hdep : dl ∈ h.kids p := by rw [hsplit]; simp
  have hne : h.kids p ≠ [] := by intro e; rw [e] at hdep; simp at hdep
  have hloop := planDep_loop_of h p ht acts hterm hnc hne hplan
  obtain ⟨e1, e2⟩ := planDepLoop_eq h p ht (h.kids p) acts hloop
  have hpre_sub : ∀ d ∈ pre, d ∈ h.kids p := by intro d hd; rw [hsplit]; exact List.mem_append_left _ hd
  have hpost_sub : ∀ d ∈ post, d ∈ h.kids p := by
    intro d hd; rw [hsplit]; exact List.mem_append_right _ (List.mem_cons_of_mem _ hd)
  have hall_pre : ∀ d ∈ pre, ∃ l, planDepStep h p ht d = some l := fun d hd => e2 d (hpre_sub d hd)
  have hall_post : ∀ d ∈ post, ∃ l, planDepStep h p ht d = some l := fun d hd => e2 d (hpost_sub d hd)
  obtain ⟨tdl, htdl⟩ : ∃ t, (h.node dl).term = some t := by
    obtain ⟨l, hl⟩ := e2 dl hdep
    rw [planDepStep_eq] at hl
    unfold planDepStep' at hl
    cases ht' : (h.node dl).term with
    | none => rw [ht'] at hl; simp at hl
    | some t => exact ⟨t, rfl⟩
  have hstep : stepActs h p ht dl = [.setPeng true ht dl] := by
    simp only [stepActs, planDepStep_eq, planDepStep', htdl, hks, subjActs, hV, if_true, Option.getD_some]
  have hacts : acts = (pre.flatMap (stepActs h p ht) ++ []) ++
      Act.setPeng true ht dl :: ([] ++ post.flatMap (stepActs h p ht)) := by
    rw [e1, hsplit]
    simp only [List.flatMap_append, List.flatMap_cons, hstep, List.append_nil, List.nil_append, List.cons_append]
  rw [hacts] at hex
  apply exec_last_writer _ _ true ht dl r h h' _ _ _ hex
  · intro a ha o
    rw [List.append_nil] at ha
    exact steps_noGuard h p ht pre hall_pre a ha o
  · intro st hst
    rw [List.append_nil] at hst
    rw [exec_peng_notTarget dl _ h st
      (src_not_target h p ht tree pre hpre_sub hall_pre dl (Or.inr ⟨hdep, hks⟩)) hst]
    exact hr
  · rw [List.nil_append]
    intro hm
    obtain ⟨d, hd, hc⟩ := steps_targets h p ht post hall_post ht hm
    rcases hc with ⟨hsd, _⟩ | ⟨_, e⟩
    · have := hpost d hd
      simp [hsd] at this
    · exact tree.hOut d (hpost_sub d hd) e

end Pyrealb.Agree
