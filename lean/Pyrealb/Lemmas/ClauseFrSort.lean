import Pyrealb.Model.ClauseFrPlace
/-! Sorting and collecting lemmas for the French clitic placement (any list length).

* `sortBy` (the stable sort `pros.sort(key=…)` becomes once its key looks a string up) returns a sorted permutation
  and is the identity on a sorted list;
* `collect` (the scan of `doPronounPlacement` after the verb) pops clitic pronouns only, keeps the input order of
  what it pops and of what it leaves, and loses nothing. -/
namespace Pyrealb.ClauseFr
open Pyrealb

instance exceptDecEq {ε α} [DecidableEq ε] [DecidableEq α] : DecidableEq (Except ε α) := fun a b =>
  match a, b with
  | .ok x, .ok y => if h : x = y then isTrue (by rw [h]) else isFalse (by intro h'; cases h'; exact h rfl)
  | .error x, .error y => if h : x = y then isTrue (by rw [h]) else isFalse (by intro h'; cases h'; exact h rfl)
  | .ok _, .error _ => isFalse (by intro h; cases h)
  | .error _, .ok _ => isFalse (by intro h; cases h)

/-- non-decreasing for the key `k` -/
def SortedBy {α} (k : α → Nat) (l : List α) : Prop := l.Pairwise (fun a b => k a ≤ k b)

instance {α} (k : α → Nat) (l : List α) : Decidable (SortedBy k l) := by
  unfold SortedBy; infer_instance

theorem insertBy_perm {α} (k : α → Nat) (x : α) (l : List α) : (insertBy k x l).Perm (x :: l) := by
  induction l with
  | nil => simp [insertBy]
  | cons a r ih =>
    unfold insertBy
    split
    · exact List.Perm.refl _
    · exact (List.Perm.cons a ih).trans (List.Perm.swap x a r)

theorem sortBy_perm {α} (k : α → Nat) (l : List α) : (sortBy k l).Perm l := by
  induction l with
  | nil => simp [sortBy]
  | cons a r ih =>
    unfold sortBy
    exact (insertBy_perm k a (sortBy k r)).trans (List.Perm.cons a ih)

theorem insertBy_sorted {α} (k : α → Nat) (x : α) (l : List α) (h : SortedBy k l) : SortedBy k (insertBy k x l) := by
  induction l with
  | nil => simp [insertBy, SortedBy]
  | cons a r ih =>
    unfold insertBy
    have ha : ∀ b ∈ r, k a ≤ k b := (List.pairwise_cons.mp h).1
    have hr : SortedBy k r := (List.pairwise_cons.mp h).2
    split
    · rename_i hxa
      refine List.pairwise_cons.mpr ⟨?_, h⟩
      intro b hb
      rcases List.mem_cons.mp hb with rfl | hb
      · exact hxa
      · exact Nat.le_trans hxa (ha b hb)
    · rename_i hxa
      refine List.pairwise_cons.mpr ⟨?_, ih hr⟩
      intro b hb
      have hb' : b ∈ x :: r := (insertBy_perm k x r).subset hb
      rcases List.mem_cons.mp hb' with rfl | hb'
      · omega
      · exact ha b hb'

/-- **sort lemma**: the stable insertion sort returns a list sorted by the key, for any input in any order -/
theorem sortBy_sorted {α} (k : α → Nat) (l : List α) : SortedBy k (sortBy k l) := by
  induction l with
  | nil => simp [sortBy, SortedBy]
  | cons a r ih => unfold sortBy; exact insertBy_sorted k a _ ih

theorem insertBy_of_le {α} (k : α → Nat) (x : α) (l : List α) (h : ∀ b ∈ l, k x ≤ k b) : insertBy k x l = x :: l := by
  cases l with
  | nil => rfl
  | cons a r => simp [insertBy, h a (List.mem_cons_self)]

/-- a stable sort leaves a sorted list alone -/
theorem sortBy_of_sorted {α} (k : α → Nat) (l : List α) (h : SortedBy k l) : sortBy k l = l := by
  induction l with
  | nil => rfl
  | cons a r ih =>
    have ha : ∀ b ∈ r, k a ≤ k b := (List.pairwise_cons.mp h).1
    have hr : SortedBy k r := (List.pairwise_cons.mp h).2
    unfold sortBy
    rw [ih hr]
    exact insertBy_of_le k a r ha

/-! ### `collect` -/

/-- a pronoun that `doPronounPlacement` pops and puts back next to the verb -/
def Tok.isClitic : Tok → Bool
  | .pro x f => isCliticPro x f
  | _ => false

theorem collect_fst_clitic (l : List Tok) : ∀ c ∈ (collect l).1, c.isClitic = true := by
  fun_induction collect l <;> simp_all +zetaDelta [Tok.isClitic]

theorem collect_fst_sublist (l : List Tok) : (collect l).1.Sublist l := by
  fun_induction collect l <;> simp_all +zetaDelta
  all_goals first
    | exact List.Sublist.cons _ (by assumption)
    | exact List.Sublist.cons _ (List.Sublist.cons _ (by assumption))

theorem collect_snd_sublist (l : List Tok) : (collect l).2.Sublist l := by
  fun_induction collect l <;> simp_all +zetaDelta
  all_goals first
    | exact List.Sublist.cons _ (by assumption)

theorem collect_perm (l : List Tok) : ((collect l).1 ++ (collect l).2).Perm l := by
  fun_induction collect l <;> simp_all +zetaDelta
  all_goals first
    | exact (List.perm_middle).trans (List.Perm.cons _ (by assumption))
    | exact ((List.perm_middle).trans (List.Perm.cons _ ((List.perm_middle).trans (List.Perm.cons _ (by assumption)))))

end Pyrealb.ClauseFr
