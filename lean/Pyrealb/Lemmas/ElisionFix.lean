import Pyrealb.Lemmas.ElisionMain
/-! A settled list is a fixed point of the French pass. -/
namespace Pyrealb.Elision
open Pyrealb Pyrealb.Gen.Elision

theorem stepFr_fix (t1 t2 : Tok) (t3 : Option Tok) (w1 : tokWF t1 = true) (w2 : tokWF t2 = true)
    (hok : pairOKFr t1 t2 = true) :
    stepFr t1 t2 t3 = .ok .keep := by
  rw [stepFr_of_views t1 t2 t3 w1 w2]
  cases hf1 : t1.fr with
  | false => rfl
  | true =>
  simp only [Bool.not_true, Bool.false_eq_true, if_false]
  rcases Option.eq_none_or_eq_some (view .fr t1) with hv1 | ⟨v1, hv1⟩
  · rw [hv1]
  · rcases Option.eq_none_or_eq_some (view .fr t2) with hv2 | ⟨v2, hv2⟩
    · rw [hv1, hv2]
    · rw [hv1, hv2]
      simp only [pairOKFr, hv1, hv2, hf1, Bool.not_true, Bool.false_or] at hok
      simp only []
      unfold stepFrCore
      cases hnw : noWords v1.rest with
      | false => simp
      | true =>
        simp only [hnw, Bool.not_true, Bool.false_or, clausesFr, Bool.and_eq_true] at hok
        obtain ⟨⟨⟨⟨⟨F1, _⟩, F3⟩, _⟩, F4⟩, _⟩ := hok
        have hc : (if t2.fr = true then contrFr v1.w v2.w else none) = none := by
          cases hf2 : t2.fr with
          | false => simp
          | true =>
            cases h : contrFr v1.w v2.w with
            | none => simp
            | some c => simp [h, hf2] at F3
        cases hV : vowelOrMuteH v2.w t2 with
        | false => simp [hc]
        | true =>
          rw [hV] at F1 F4
          have hE : isElidableWord v1.w = false := by simpa using F1
          by_cases c2 : (isEuphonic v1.w && t1.sg) = true
          · simp only [Bool.and_eq_true] at c2
            have hexc : euphExc v2.w = true := by
              simp only [c2.1, c2.2, Bool.true_and, Bool.and_true] at F4
              simpa using F4
            have hcv : ceVerb v2.w = false := by
              apply fact_exc_not_ceverb
              simpa [euphExc, List.contains_iff_mem] using hexc
            simp [hE, c2.1, c2.2, hcv, hexc]
          · have : (isEuphonic v1.w && t1.sg) = false := by simpa using c2
            cases h1 : isEuphonic v1.w <;> cases h2 : t1.sg <;> simp_all

theorem settledFrom_tail (pl : Bool) (t : Tok) (r : List Tok) (h : settledFrom .fr pl (t :: r) = true) :
    settledFrom .fr t.lier r = true := by
  cases r with
  | nil => rfl
  | cons x r' =>
    simp only [settledFrom, Bool.and_eq_true] at h
    exact h.2

theorem goFr_fix : ∀ (n : Nat) (toks : List Tok) (pl : Bool), toks.length ≤ n → TokWF toks →
    settledFrom .fr pl toks = true → goFr pl toks = .ok toks := by
  intro n
  induction n with
  | zero =>
    intro toks pl hlen _ _
    have : toks = [] := List.length_eq_zero_iff.mp (Nat.le_zero.mp hlen)
    subst this; rfl
  | succ n ih =>
    intro toks pl hlen hwf hs
    match toks, hlen, hwf, hs with
    | [], _, _, _ => rfl
    | [t], _, _, _ => rfl
    | t1 :: t2 :: rest, hlen, hwf, hs =>
      have w1 : tokWF t1 = true := hwf t1 (by simp)
      have w2 : tokWF t2 = true := hwf t2 (by simp)
      have wfTail : TokWF (t2 :: rest) := fun t ht => hwf t (List.mem_cons_of_mem _ ht)
      have wfRest : TokWF rest := fun t ht => hwf t (List.mem_cons_of_mem _ (List.mem_cons_of_mem _ ht))
      have sTail := settledFrom_tail pl t1 (t2 :: rest) hs
      have sRest := settledFrom_tail t1.lier t2 rest sTail
      have len1 : (t2 :: rest).length ≤ n := by simp at hlen ⊢; omega
      have len2 : rest.length ≤ n := by simp at hlen ⊢; omega
      have g1 := ih (t2 :: rest) t1.lier len1 wfTail sTail
      have g2 := ih rest t2.lier len2 wfRest sRest
      cases pl with
      | true => simp [goFr, g1]
      | false =>
        simp only [settledFrom, pairOK, Bool.and_eq_true, Bool.or_eq_true] at hs
        have hok : pairOKFr t1 t2 = true := by
          cases hs.1 with
          | inl h => simp at h
          | inr h => exact h
        have h := stepFr_fix t1 t2 rest.head? w1 w2 hok
        simp [goFr, h, g1]

end Pyrealb.Elision
