import Pyrealb.Lemmas.ClauseEnBridge
import Pyrealb.Lemmas.ClauseEnVG4
/-! Word-order facts read off the declarative linearisations: inversion, dropped constituent, by-phrase. -/
namespace Pyrealb.ClauseEn
set_option linter.unusedSimpArgs false

/-- interrogatives that invert subject and first auxiliary -/
def Int.fronting : Int → Bool
  | .wos | .was | .tag => false
  | _ => true

theorem questioned_eq (ty : Typ) (i : Int) (h : ty.int = some i) : ty.questioned = i.fronting := by
  unfold Typ.questioned; rw [h]; cases i <;> rfl

/-- question word (none for yes/no), first word of the verb group, subject, the other words, the complements -/
def Fronted (i : Int) (ws : List Tok) (sj : ArgTok) (main : List Tok) : Prop :=
  ∃ pre rest, main = pre ++ (ws.take 1 ++ [.arg sj] ++ ws.drop 1 ++ rest) ∧
    ((i = .yon ∧ pre = []) ∨ (i ≠ .yon ∧ ∃ x, pre = [.q x]))

theorem Fronted_map (a : Agr) (i : Int) (ws : List Tok) (sj : ArgTok) (L : List Tok) (h : Fronted i ws sj L) :
    Fronted i (ws.map (Tok.resolve a)) sj (L.map (Tok.resolve a)) := by
  obtain ⟨pre, rest, hL, hp⟩ := h
  refine ⟨pre.map (Tok.resolve a), rest.map (Tok.resolve a), ?_, ?_⟩
  · subst hL; simp [List.map_append, List.map_take, List.map_drop, Tok.resolve]
  · rcases hp with ⟨h1, h2⟩ | ⟨h1, x, h2⟩
    · left; subst h2; exact ⟨h1, rfl⟩
    · right; subst h2; exact ⟨h1, x, rfl⟩

theorem Fronted_yon_head (ws : List Tok) (sj : ArgTok) (main : List Tok) (h : Fronted .yon ws sj main) (hne : ws ≠ []) :
    main.head? = ws.head? := by
  obtain ⟨pre, rest, hm, hp⟩ := h
  rcases hp with ⟨_, rfl⟩ | ⟨hne', _⟩
  · subst hm
    cases ws with
    | nil => exact absurd rfl hne
    | cons w r => simp
  · exact absurd rfl hne'

theorem linPh_fronted (m : Mid) (i : Int) (ws : List Tok) (hv : hasV ws = true) (hi : i.fronting = true) :
    Fronted i ws m.subj (linPh m (some i) ws) := by
  cases i <;> simp [Int.fronting] at hi <;> simp only [linPh, front, hv, if_true]
  case yon => exact ⟨[], _, rfl, Or.inl ⟨rfl, rfl⟩⟩
  all_goals exact ⟨[_], _, rfl, Or.inr ⟨by decide, _, rfl⟩⟩

theorem frontD_eq (sj : ArgTok) (ws compl : List Tok) (hc : 2 ≤ ws.length ∨ headAlone ws = true) :
    frontD sj ws compl = ws.take 1 ++ [.arg sj] ++ ws.drop 1 ++ compl := by
  unfold frontD
  by_cases h2 : 2 ≤ ws.length
  · simp [h2]
  · have ha : headAlone ws = true := by rcases hc with h | h; exact absurd h h2; exact h
    simp only [h2, if_false, ha, if_true]
    match ws, h2, ha with
    | [], _, ha => simp [headAlone] at ha
    | [w], _, _ => simp
    | _ :: _ :: _, h2, _ => simp at h2

theorem linDepPlain_fronted (sj : ArgTok) (obj : Option ArgTok) (ql : List (Str × ArgTok)) (i : Int) (ws L : List Tok)
    (hc : 2 ≤ ws.length ∨ headAlone ws = true) (hi : i.fronting = true)
    (hL : linDepPlain sj obj ql (some i) ws = some L) : Fronted i ws sj L := by
  cases i <;> simp [Int.fronting] at hi <;> simp only [linDepPlain, frontD_eq _ _ _ hc] at hL
  case yon => injection hL with hL; subst hL; exact ⟨[], _, rfl, Or.inl ⟨rfl, rfl⟩⟩
  all_goals (injection hL with hL; subst hL; exact ⟨[_], _, rfl, Or.inr ⟨by decide, _, rfl⟩⟩)

/-- a questioned clause always has a V among its words (`cannot` alone needs a non-questioned clause) -/
theorem hasV_of_questioned (sp : Spec) (ty : Typ) (hq : ty.questioned = true) : hasV (clauseWords sp ty) = true := by
  have hsh := words_shape sp.verb sp.t ty
  have hca := cannot_alone sp.verb sp.t ty
  change wordsShape (clauseWords sp ty) = true at hsh
  change clauseWords sp ty = [Tok.cannot] ↔ _ at hca
  generalize clauseWords sp ty = ws at hsh hca
  unfold wordsShape at hsh
  match ws, hsh, hca with
  | .verb _ _ _ :: _, _, _ => simp [hasV]
  | [.cannot], _, hca =>
    have := hca.mp rfl
    simp [cannotAlone, hq] at this
  | .cannot :: .verb _ _ _ :: _, _, _ => simp [hasV]
  | [], h, _ => simp at h
  | .cannot :: .cannot :: _, h, _ => simp at h
  | .cannot :: .not_ :: _, h, _ => simp at h
  | .cannot :: .to_ :: _, h, _ => simp [Tok.isWord] at h
  | .cannot :: .q _ :: _, h, _ => simp [Tok.isWord] at h
  | .cannot :: .prep _ :: _, h, _ => simp [Tok.isWord] at h
  | .cannot :: .arg _ :: _, h, _ => simp [Tok.isWord] at h
  | .not_ :: _, h, _ => simp at h
  | .to_ :: _, h, _ => simp at h
  | .q _ :: _, h, _ => simp [Tok.isWord] at h
  | .prep _ :: _, h, _ => simp [Tok.isWord] at h
  | .arg _ :: _, h, _ => simp [Tok.isWord] at h

end Pyrealb.ClauseEn

namespace Pyrealb.ClauseEn
set_option linter.unusedSimpArgs false

/-- the arguments (noun phrases and pronouns) of a token list, in order -/
def argsOf : List Tok → List ArgTok
  | [] => []
  | .arg a :: r => a :: argsOf r
  | _ :: r => argsOf r

theorem argsOf_append (l1 l2 : List Tok) : argsOf (l1 ++ l2) = argsOf l1 ++ argsOf l2 := by
  induction l1 with
  | nil => rfl
  | cons t r ih => cases t <;> simp [argsOf, ih]

theorem argsOf_map_resolve (a : Agr) (l : List Tok) : argsOf (l.map (Tok.resolve a)) = argsOf l := by
  induction l with
  | nil => rfl
  | cons t r ih =>
    cases t with
    | verb l f rf => cases rf <;> simp [argsOf, Tok.resolve, ih]
    | _ => simp [argsOf, Tok.resolve, ih]

theorem argsOf_words (ws : List Tok) (h : ws.all Tok.isWord = true) : argsOf ws = [] := by
  induction ws with
  | nil => rfl
  | cons t r ih =>
    simp only [List.all_cons, Bool.and_eq_true] at h
    cases t <;> simp_all [argsOf, Tok.isWord]

@[simp] theorem argsOf_objToks (o : Option ArgTok) : argsOf (objToks o) = o.toList := by cases o <;> rfl
@[simp] theorem argsOf_ppToks (pl : List (Str × ArgTok)) : argsOf (ppToks pl) = pl.map (·.2) := by
  induction pl with
  | nil => rfl
  | cons a r ih => simp [ppToks, argsOf, ih]
@[simp] theorem argsOf_q (x : Str) (l : List Tok) : argsOf (.q x :: l) = argsOf l := rfl
@[simp] theorem argsOf_arg (a : ArgTok) (l : List Tok) : argsOf (.arg a :: l) = a :: argsOf l := rfl
@[simp] theorem argsOf_nil : argsOf [] = [] := rfl

theorem argsOf_take_drop (ws : List Tok) (h : ws.all Tok.isWord = true) (k : Nat) :
    argsOf (ws.take k) = [] ∧ argsOf (ws.drop k) = [] := by
  constructor
  · apply argsOf_words
    rw [List.all_eq_true] at h ⊢
    exact fun x hx => h x (List.mem_of_mem_take hx)
  · apply argsOf_words
    rw [List.all_eq_true] at h ⊢
    exact fun x hx => h x (List.mem_of_mem_drop hx)

theorem argsOf_front (sj : ArgTok) (ws compl : List Tok) (h : ws.all Tok.isWord = true) :
    argsOf (front sj ws compl) = sj :: argsOf compl := by
  unfold front
  have ht : argsOf ws.tail = [] := by have := (argsOf_take_drop ws h 1).2; simpa using this
  split <;> simp [argsOf_append, argsOf_words ws h, (argsOf_take_drop ws h 1).1, ht]

theorem argsOf_frontD (sj : ArgTok) (ws compl : List Tok) (h : ws.all Tok.isWord = true) :
    argsOf (frontD sj ws compl) = sj :: argsOf compl := by
  unfold frontD
  have ht : argsOf ws.tail = [] := by have := (argsOf_take_drop ws h 1).2; simpa using this
  split
  · simp [argsOf_append, (argsOf_take_drop ws h 1).1, ht]
  · split <;> simp [argsOf_append, argsOf_words ws h]

/-- the arguments the clause has before any interrogative touches it -/
def fullArgs (sj : ArgTok) (obj : Option ArgTok) (pl : List (Str × ArgTok)) : List ArgTok :=
  sj :: (obj.toList ++ pl.map (·.2))

/-- the arguments of the constituent linearisation -/
theorem argsOf_linPh (m : Mid) (i : Option Int) (ws : List Tok) (h : ws.all Tok.isWord = true) :
    argsOf (linPh m i ws) =
      match i with
      | some .wos | some .was => m.obj.toList ++ m.pl.map (·.2)
      | some .wod | some .wad => m.subj :: m.pl.map (·.2)
      | some .woi => m.subj :: (m.obj.toList ++ (questionPPPh .woi m.pl).2.map (·.2))
      | some .wai => m.subj :: (m.obj.toList ++ (questionPPPh .wai m.pl).2.map (·.2))
      | some .whe => m.subj :: (m.obj.toList ++ (questionPPPh .whe m.pl).2.map (·.2))
      | some .whn => m.subj :: (m.obj.toList ++ (questionPPPh .whn m.pl).2.map (·.2))
      | _ => fullArgs m.subj m.obj m.pl := by
  cases i with
  | none => simp [linPh, argsOf_append, argsOf_words ws h, fullArgs]
  | some i =>
    cases i <;> simp [linPh, argsOf_append, argsOf_words ws h, argsOf_front _ _ _ h, fullArgs]

/-- the arguments of a dependency clause with a `subj` dependent, by interrogative -/
def argsPlain (sj : ArgTok) (obj : Option ArgTok) (ql : List (Str × ArgTok)) (i : Option Int) : List ArgTok :=
  match i with
  | some .wos | some .was => obj.toList ++ ql.map (·.2)
  | some .wod | some .wad => sj :: ql.map (·.2)
  | some .woi => fullArgs sj obj (questionPPDep .woi ql).2
  | some .wai => fullArgs sj obj (questionPPDep .wai ql).2
  | some .whe => fullArgs sj obj (questionPPDep .whe ql).2
  | some .whn => fullArgs sj obj (questionPPDep .whn ql).2
  | _ => fullArgs sj obj ql

theorem argsOf_linDepPlain (sj : ArgTok) (obj : Option ArgTok) (ql : List (Str × ArgTok)) (i : Option Int)
    (ws L : List Tok) (h : ws.all Tok.isWord = true) (hL : linDepPlain sj obj ql i ws = some L) :
    argsOf L = argsPlain sj obj ql i := by
  unfold argsPlain
  have fin : ∀ (X : List Tok) (R : List ArgTok), argsOf X = R → some X = some L → argsOf L = R := by
    intro X R hX e; injection e with e; subst e; exact hX
  cases i with
  | none => exact fin _ _ (by simp [argsOf_append, argsOf_words ws h, fullArgs]) hL
  | some i =>
    cases i <;> simp only [linDepPlain] at hL <;>
    exact fin _ _ (by simp [argsOf_append, argsOf_words ws h, argsOf_frontD _ _ _ h, fullArgs]) hL

/-- the arguments of an objectless passive in the dependency notation -/
def argsDummy (pps bl : List (Str × ArgTok)) (i : Option Int) : List ArgTok :=
  match i with
  | some .woi => .it :: (questionPPDep .woi (pps ++ bl)).2.map (·.2)
  | some .wai => .it :: (questionPPDep .wai (pps ++ bl)).2.map (·.2)
  | some .whe => .it :: (questionPPDep .whe (pps ++ bl)).2.map (·.2)
  | some .whn => .it :: (questionPPDep .whn (pps ++ bl)).2.map (·.2)
  | _ => .it :: (pps ++ bl).map (·.2)

theorem argsOf_linDepDummy (pps bl : List (Str × ArgTok)) (i : Option Int)
    (ws L : List Tok) (h : ws.all Tok.isWord = true) (hL : linDepDummy pps bl i ws = some L) :
    argsOf L = argsDummy pps bl i := by
  have fin : ∀ (X : List Tok) (R : List ArgTok), argsOf X = R → some X = some L → argsOf L = R := by
    intro X R hX e; injection e with e; subst e; exact hX
  unfold argsDummy
  cases i with
  | none => exact fin _ _ (by simp [argsOf_append, argsOf_words ws h]) hL
  | some i =>
    cases i <;> simp only [linDepDummy] at hL <;>
    exact fin _ _ (by simp [argsOf_append, argsOf_words ws h]) hL

end Pyrealb.ClauseEn

namespace Pyrealb.ClauseEn
set_option linter.unusedSimpArgs false

theorem front_split (sj : ArgTok) (ws compl : List Tok) : front sj ws compl = front sj ws [] ++ compl := by
  unfold front; split <;> simp

theorem frontD_split (sj : ArgTok) (ws compl : List Tok) : frontD sj ws compl = frontD sj ws [] ++ compl := by
  unfold frontD; split
  · simp
  · split <;> simp

theorem subj_mem_front (sj : ArgTok) (ws : List Tok) : Tok.arg sj ∈ front sj ws [] := by
  unfold front; split <;> simp

theorem subj_mem_frontD (sj : ArgTok) (ws : List Tok) : Tok.arg sj ∈ frontD sj ws [] := by
  unfold frontD; split
  · simp
  · split <;> simp

theorem ppToks_append (l1 l2 : List (Str × ArgTok)) : ppToks (l1 ++ l2) = ppToks l1 ++ ppToks l2 := by
  induction l1 with
  | nil => rfl
  | cons a r ih => simp [ppToks, ih]

/-- in the constituent linearisation the prepositional complements come last, and the subject before them -/
theorem linPh_pps_last (m : Mid) (i : Option Int) (ws : List Tok) (hi : ∀ j, i = some j → j.isPPq = false) :
    ∃ X, linPh m i ws = X ++ ppToks m.pl ∧ (i ≠ some .wos → i ≠ some .was → Tok.arg m.subj ∈ X) := by
  cases i with
  | none => exact ⟨[.arg m.subj] ++ ws ++ objToks m.obj, by simp [linPh], fun _ _ => by simp⟩
  | some i =>
    cases i
    case woi | wai | whe | whn => simp [Int.isPPq] at hi
    case wos => exact ⟨.q (intPrefix .wos) :: (ws ++ objToks m.obj), by simp [linPh], fun h _ => absurd rfl h⟩
    case was => exact ⟨.q (intPrefix .was) :: (ws ++ objToks m.obj), by simp [linPh], fun _ h => absurd rfl h⟩
    case yon =>
      exact ⟨front m.subj ws [] ++ objToks m.obj, by simp only [linPh]; rw [front_split]; simp,
        fun _ _ => List.mem_append_left _ (subj_mem_front _ _)⟩
    case tag =>
      exact ⟨.q (intPrefix .tag) :: ([.arg m.subj] ++ ws ++ objToks m.obj), by simp [linPh], fun _ _ => by simp⟩
    case wod =>
      exact ⟨.q (if Gen.ClauseEn.phraseHumanObjectGetsIntValue && objHuman m.obj then s "whom" else intPrefix .wod)
          :: front m.subj ws [], by simp only [linPh]; rw [front_split]; simp,
        fun _ _ => List.mem_cons_of_mem _ (subj_mem_front _ _)⟩
    case wad =>
      exact ⟨.q (intPrefix .wad) :: front m.subj ws [], by simp only [linPh]; rw [front_split]; simp,
        fun _ _ => List.mem_cons_of_mem _ (subj_mem_front _ _)⟩
    case how =>
      exact ⟨.q (intPrefix .how) :: (front m.subj ws [] ++ objToks m.obj), by simp only [linPh]; rw [front_split]; simp,
        fun _ _ => List.mem_cons_of_mem _ (List.mem_append_left _ (subj_mem_front _ _))⟩
    case why =>
      exact ⟨.q (intPrefix .why) :: (front m.subj ws [] ++ objToks m.obj), by simp only [linPh]; rw [front_split]; simp,
        fun _ _ => List.mem_cons_of_mem _ (List.mem_append_left _ (subj_mem_front _ _))⟩
    case muc =>
      exact ⟨.q (intPrefix .muc) :: (front m.subj ws [] ++ objToks m.obj), by simp only [linPh]; rw [front_split]; simp,
        fun _ _ => List.mem_cons_of_mem _ (List.mem_append_left _ (subj_mem_front _ _))⟩

theorem linDepPlain_pps_last (sj : ArgTok) (obj : Option ArgTok) (ql : List (Str × ArgTok)) (i : Option Int)
    (ws L : List Tok) (hi : ∀ j, i = some j → j.isPPq = false) (hL : linDepPlain sj obj ql i ws = some L) :
    ∃ X, L = X ++ ppToks ql ∧ (i ≠ some .wos → i ≠ some .was → Tok.arg sj ∈ X) := by
  cases i with
  | none =>
    simp only [linDepPlain] at hL; injection hL with hL; subst hL
    exact ⟨[.arg sj] ++ ws ++ objToks obj, by simp, fun _ _ => by simp⟩
  | some i =>
    cases i
    case woi | wai | whe | whn => simp [Int.isPPq] at hi
    case wos =>
      simp only [linDepPlain] at hL; injection hL with hL; subst hL
      exact ⟨.q (intPrefix .wos) :: (ws ++ objToks obj), by simp, fun h _ => absurd rfl h⟩
    case was =>
      simp only [linDepPlain] at hL; injection hL with hL; subst hL
      exact ⟨.q (intPrefix .was) :: (ws ++ objToks obj), by simp, fun _ h => absurd rfl h⟩
    case yon =>
      simp only [linDepPlain] at hL; injection hL with hL; subst hL
      exact ⟨frontD sj ws [] ++ objToks obj, by rw [frontD_split]; simp,
        fun _ _ => List.mem_append_left _ (subj_mem_frontD _ _)⟩
    case tag =>
      simp only [linDepPlain] at hL; injection hL with hL; subst hL
      exact ⟨.q (intPrefix .tag) :: ([.arg sj] ++ ws ++ objToks obj), by simp, fun _ _ => by simp⟩
    case wod =>
      simp only [linDepPlain] at hL; injection hL with hL; subst hL
      exact ⟨.q (if Gen.ClauseEn.depHumanObjectGetsIntValue && objHuman obj then s "whom" else intPrefix .wod)
          :: frontD sj ws [], by rw [frontD_split]; simp, fun _ _ => List.mem_cons_of_mem _ (subj_mem_frontD _ _)⟩
    case wad =>
      simp only [linDepPlain] at hL; injection hL with hL; subst hL
      exact ⟨.q (intPrefix .wad) :: frontD sj ws [], by rw [frontD_split]; simp,
        fun _ _ => List.mem_cons_of_mem _ (subj_mem_frontD _ _)⟩
    case how =>
      simp only [linDepPlain] at hL; injection hL with hL; subst hL
      exact ⟨.q (intPrefix .how) :: (frontD sj ws [] ++ objToks obj), by rw [frontD_split]; simp,
        fun _ _ => List.mem_cons_of_mem _ (List.mem_append_left _ (subj_mem_frontD _ _))⟩
    case why =>
      simp only [linDepPlain] at hL; injection hL with hL; subst hL
      exact ⟨.q (intPrefix .why) :: (frontD sj ws [] ++ objToks obj), by rw [frontD_split]; simp,
        fun _ _ => List.mem_cons_of_mem _ (List.mem_append_left _ (subj_mem_frontD _ _))⟩
    case muc =>
      simp only [linDepPlain] at hL; injection hL with hL; subst hL
      exact ⟨.q (intPrefix .muc) :: (frontD sj ws [] ++ objToks obj), by rw [frontD_split]; simp,
        fun _ _ => List.mem_cons_of_mem _ (List.mem_append_left _ (subj_mem_frontD _ _))⟩

end Pyrealb.ClauseEn

namespace Pyrealb.ClauseEn
set_option linter.unusedSimpArgs false

/-- the prepositional complements (preposition, argument) of a token list, in order -/
def ppsOf : List Tok → List (Str × ArgTok)
  | .prep p :: .arg a :: r => (p, a) :: ppsOf r
  | _ :: r => ppsOf r
  | [] => []

theorem ppsOf_skip (t : Tok) (r : List Tok) (ht : ∀ p, t ≠ .prep p) : ppsOf (t :: r) = ppsOf r := by
  cases t <;> first | rfl | exact absurd rfl (ht _)

theorem ppsOf_words_append (ws r : List Tok) (h : ws.all Tok.isWord = true) : ppsOf (ws ++ r) = ppsOf r := by
  induction ws with
  | nil => rfl
  | cons t rest ih =>
    simp only [List.all_cons, Bool.and_eq_true] at h
    rw [List.cons_append, ppsOf_skip _ _ (by intro p e; rw [e] at h; simp [Tok.isWord] at h), ih h.2]

theorem ppsOf_take_drop (ws r : List Tok) (h : ws.all Tok.isWord = true) (k : Nat) :
    ppsOf (ws.take k ++ r) = ppsOf r ∧ ppsOf (ws.drop k ++ r) = ppsOf r := by
  rw [List.all_eq_true] at h
  exact ⟨ppsOf_words_append _ _ (List.all_eq_true.mpr fun x hx => h x (List.mem_of_mem_take hx)),
         ppsOf_words_append _ _ (List.all_eq_true.mpr fun x hx => h x (List.mem_of_mem_drop hx))⟩

@[simp] theorem ppsOf_arg (a : ArgTok) (r : List Tok) : ppsOf (.arg a :: r) = ppsOf r := rfl
@[simp] theorem ppsOf_q (x : Str) (r : List Tok) : ppsOf (.q x :: r) = ppsOf r := rfl
@[simp] theorem ppsOf_objToks (o : Option ArgTok) (r : List Tok) : ppsOf (objToks o ++ r) = ppsOf r := by
  cases o <;> rfl
@[simp] theorem ppsOf_ppToks (pl : List (Str × ArgTok)) : ppsOf (ppToks pl) = pl := by
  induction pl with
  | nil => rfl
  | cons a r ih => obtain ⟨p, x⟩ := a; simp [ppToks, ppsOf, ih]

theorem ppsOf_map_resolve (a : Agr) (l : List Tok) : ppsOf (l.map (Tok.resolve a)) = ppsOf l := by
  induction l using ppsOf.induct with
  | case1 p x r ih => simp [ppsOf, Tok.resolve, ih]
  | case2 t r hne ih =>
    have : ppsOf (t :: r) = ppsOf r := by
      cases t with
      | prep p =>
        cases r with
        | nil => rfl
        | cons t2 r2 => cases t2 <;> first | rfl | exact (hne _ _ _ rfl rfl).elim
      | _ => rfl
    rw [this, List.map_cons, ← ih]
    cases t with
    | prep p =>
      cases r with
      | nil => rfl
      | cons t2 r2 =>
        cases t2 with
        | arg x => exact (hne _ _ _ rfl rfl).elim
        | verb l f rf => cases rf <;> rfl
        | _ => rfl
    | verb l f rf => cases rf <;> rfl
    | _ => rfl
  | case3 => rfl

theorem ppsOf_front (sj : ArgTok) (ws compl : List Tok) (h : ws.all Tok.isWord = true) :
    ppsOf (front sj ws compl) = ppsOf compl := by
  unfold front
  split
  · rw [List.append_assoc, List.append_assoc, (ppsOf_take_drop ws _ h 1).1]
    simp only [List.cons_append, List.nil_append, ppsOf_arg]
    exact (ppsOf_take_drop ws _ h 1).2
  · simp only [List.cons_append, List.nil_append, ppsOf_arg, List.append_assoc]
    exact ppsOf_words_append ws _ h

theorem ppsOf_frontD (sj : ArgTok) (ws compl : List Tok) (h : ws.all Tok.isWord = true) :
    ppsOf (frontD sj ws compl) = ppsOf compl := by
  unfold frontD
  split
  · rw [List.append_assoc, List.append_assoc, (ppsOf_take_drop ws _ h 1).1]
    simp only [List.cons_append, List.nil_append, ppsOf_arg]
    exact (ppsOf_take_drop ws _ h 1).2
  · split
    · rw [List.append_assoc, ppsOf_words_append ws _ h]; simp
    · simp only [List.cons_append, List.nil_append, ppsOf_arg, List.append_assoc]
      exact ppsOf_words_append ws _ h

/-- the prepositional complements left by an interrogative -/
def ppsAfter (q : Int → List (Str × ArgTok) → Str × List (Str × ArgTok)) (i : Option Int) (pl : List (Str × ArgTok)) :
    List (Str × ArgTok) :=
  match i with
  | some .woi => (q .woi pl).2
  | some .wai => (q .wai pl).2
  | some .whe => (q .whe pl).2
  | some .whn => (q .whn pl).2
  | _ => pl

theorem ppsOf_linPh (m : Mid) (i : Option Int) (ws : List Tok) (h : ws.all Tok.isWord = true) :
    ppsOf (linPh m i ws) = ppsAfter questionPPPh i m.pl := by
  cases i with
  | none => simp [linPh, ppsAfter, ppsOf_words_append ws _ h]
  | some i => cases i <;> simp [linPh, ppsAfter, ppsOf_words_append ws _ h, ppsOf_front _ _ _ h]

theorem ppsOf_linDepPlain (sj : ArgTok) (obj : Option ArgTok) (ql : List (Str × ArgTok)) (i : Option Int)
    (ws L : List Tok) (h : ws.all Tok.isWord = true) (hL : linDepPlain sj obj ql i ws = some L) :
    ppsOf L = ppsAfter questionPPDep i ql := by
  have fin : ∀ (X : List Tok) (R : List (Str × ArgTok)), ppsOf X = R → some X = some L → ppsOf L = R := by
    intro X R hX e; injection e with e; subst e; exact hX
  cases i with
  | none => exact fin _ _ (by simp [ppsAfter, ppsOf_words_append ws _ h]) hL
  | some i =>
    cases i <;> simp only [linDepPlain] at hL <;>
    exact fin _ _ (by simp [ppsAfter, ppsOf_words_append ws _ h, ppsOf_frontD _ _ _ h]) hL

theorem ppsOf_linDepDummy (pps bl : List (Str × ArgTok)) (i : Option Int)
    (ws L : List Tok) (h : ws.all Tok.isWord = true) (hL : linDepDummy pps bl i ws = some L) :
    ppsOf L = ppsAfter questionPPDep i (pps ++ bl) := by
  have fin : ∀ (X : List Tok) (R : List (Str × ArgTok)), ppsOf X = R → some X = some L → ppsOf L = R := by
    intro X R hX e; injection e with e; subst e; exact hX
  cases i with
  | none => exact fin _ _ (by simp [ppsAfter, ppsOf_words_append ws _ h, ← ppToks_append]) hL
  | some i =>
    cases i <;> simp only [linDepDummy] at hL <;>
    exact fin _ _ (by simp [ppsAfter, ppsOf_words_append ws _ h, ← ppToks_append]) hL

end Pyrealb.ClauseEn
