import Pyrealb.Lemmas.ClauseFrPlain
import Pyrealb.Lemmas.ClauseFrPrefix
import Pyrealb.Lemmas.ClauseFrClause
import Pyrealb.Lemmas.ClauseFrRank
/-! The plain fragment WITH a negation: both notations hand `doPronounPlacement` the same verb and complement tokens —
    the constituent notation the list of the VP (the subject is put in front afterwards), the dependency notation the
    list of the whole clause; `place_prefix` closes the gap. -/
namespace Pyrealb.ClauseFr
open Pyrealb
open Pyrealb.Gen.ClauseFr

/-- no sentence-type flag but (possibly) a negation, an ordinary tense, nothing pronominalized -/
structure PlainN (sp : Spec) : Prop where
  pas : sp.typ.pas = false
  prog : sp.typ.prog = false
  refl : sp.typ.refl = false
  mod : sp.typ.mod = none
  int : sp.typ.int = none
  tense : sp.t ≠ .ip
  vpe : sp.vpe = none
  vn : sp.vn = none
  comps : ∀ c ∈ sp.comps, match c with
    | .dir a => a.pro = false
    | .pp _ a => a.pro = false
    | .cl _ => False
  subj : match sp.subj with
    | some (.np a) => a.pro = false
    | _ => True

/-- the verb terminal once `processTyp` has set the negation on it — the same object in both notations -/
def negVerb (sp : Spec) : VT :=
  match sp.typ.neg with
  | some nv => { plainVerb sp with neg2 := some nv.word2 }
  | none => plainVerb sp

theorem negVerb_lier (sp : Spec) : (negVerb sp).lier = false := by
  unfold negVerb; split <;> simp [plainVerb, Spec.verbT, mkV]

theorem compToks_noV (sp : Spec) : ∀ t ∈ compToks sp, t.isV = false := by
  intro t ht
  simp only [compToks, List.mem_flatMap] at ht
  obtain ⟨c, _, hc⟩ := ht
  cases c <;> simp at hc
  · rcases hc with rfl | rfl <;> rfl
  · rcases hc with rfl | rfl | rfl <;> rfl
  · subst hc; rfl

theorem subjToks_noV (sp : Spec) : ∀ t ∈ subjToks sp, t.isV = false := by
  intro t ht
  unfold subjToks at ht
  cases hs : sp.subj with
  | none => simp [hs] at ht
  | some s =>
    cases s with
    | pro vm pe n g => simp [hs, proTok] at ht; subst ht; rfl
    | np a => simp [hs] at ht; rcases ht with rfl | rfl <;> rfl

theorem compEl_toks2 (sp : Spec) : (sp.comps.map compEl).flatMap El.toks = compToks sp := compEl_toks sp.comps

/-- constituent notation: the VP places the pronouns of `verb tokens ++ complement tokens`, the S puts the subject in
    front and removes the empty realizations -/
theorem plainN_phrase (sp : Spec) (hp : PlainN sp) (cv : List Tok × Bool)
    (hcv : conjugate (negVerb sp) false none = .ok cv) (hne : ∀ t ∈ cv.1 ++ compToks sp, t.form ≠ []) :
    phraseToks sp = (placePronouns false (cv.1 ++ compToks sp)).map
      (fun placed => (removeEmpty (subjToks sp ++ placed), [])) := by
  have hlink : decide (sp.subj.isSome = true ∧ sp.t ≠ .ip) = sp.subj.isSome := by
    cases h : sp.subj.isSome <;> simp [h, hp.tense]
  have hcomps_plain : ∀ e ∈ (El.v (negVerb sp) :: sp.comps.map compEl), e.plain := by
    intro e he
    rcases List.mem_cons.mp he with rfl | he
    · trivial
    · obtain ⟨c, hc, rfl⟩ := List.mem_map.mp he
      have := hp.comps c hc
      cases c <;> simp_all [compEl, El.plain]
  have hcomps_kind : ∀ e ∈ sp.comps.map compEl, e.inertKind = true := by
    intro e he
    obtain ⟨c, hc, rfl⟩ := List.mem_map.mp he
    have := hp.comps c hc
    cases c <;> simp_all [compEl, El.inertKind]
  have hvp : (stageNeg sp ((phraseElems sp).1, (phraseElems sp).2)).2 = El.v (negVerb sp) :: sp.comps.map compEl := by
    unfold stageNeg negVerb
    cases hn : sp.typ.neg with
    | none => simp [phraseElems, hlink, plainVerb]
    | some nv =>
      have hvpany : (phraseElems sp).1.any El.isVP = true := by simp [phraseElems, El.isVP]
      simp only [hvpany, if_true]
      simp [phraseElems, negPhrase, firstIdx, El.isV, hlink, plainVerb]
  have h1 : stagePas sp (phraseElems sp) = .ok (phraseElems sp) := by simp [stagePas, hp.pas, pure, Except.pure]
  have h2 : stageProg sp (phraseElems sp) = .ok (phraseElems sp) := by simp [stageProg, hp.prog, pure, Except.pure]
  have h3 : stageMod sp (phraseElems sp) = .ok (phraseElems sp) := by simp [stageMod, hp.mod, pure, Except.pure]
  have hty : phraseTyped sp = .ok ((phraseElems sp).1, El.v (negVerb sp) :: sp.comps.map compEl, []) := by
    unfold phraseTyped
    simp only [h1, h2, h3, bind, Except.bind, hp.int, pure, Except.pure, stageNeg_fst]
    rw [show stageNeg sp (phraseElems sp) = stageNeg sp ((phraseElems sp).1, (phraseElems sp).2) from rfl, hvp]
  unfold phraseToks
  simp only [hty, bind, Except.bind, pure, Except.pure, hp.refl]
  unfold phraseReal
  rw [pronominalizeVP_id _ hcomps_plain, realVPToks_verb_first false _ _ hcomps_kind, hcv]
  simp only [Except.bind, bind, compEl_toks2]
  rw [removeEmpty_id _ hne]
  cases hpl : placePronouns false (cv.1 ++ compToks sp) with
  | error er => simp [Except.map]
  | ok placed =>
    simp only [Except.map, pure, Except.pure]
    -- the S level: subject tokens, then the VP
    have hsubj := hp.subj
    unfold subjToks phraseElems
    cases hsub : sp.subj with
    | none => simp [selToks]
    | some s =>
      cases s with
      | pro vm pe n g => simp [El.toks, selToks]
      | np a =>
        simp only [hsub] at hsubj
        simp [El.toks, hsubj, selToks]

/-- the tokens of one complement -/
def compTokList (c : Comp) : List Tok := match c with
  | .dir a => [.d a.id, .n a.id]
  | .pp prep a => [.p prep, .d a.id, .n a.id]
  | .cl p => [proTok p]

theorem compDep_toks2 (refl : Bool) (cs : List Comp)
    (h : ∀ c ∈ cs, match c with | .dir a => a.pro = false | .pp _ a => a.pro = false | .cl _ => False) :
    (cs.map compDep).mapM (Dep.toks refl) = .ok (cs.map compTokList) := compDep_toks refl cs h

theorem compTokList_flatten (sp : Spec) : (sp.comps.map compTokList).flatten = compToks sp := by
  show _ = sp.comps.flatMap compTokList
  simp [List.flatMap]

/-- dependency notation: `doPronounPlacement` runs on the flat list of the whole clause; the subject in front makes no
    difference (`place_prefix`) -/
theorem plainN_dep (sp : Spec) (hp : PlainN sp) (cv : List Tok × Bool)
    (hcv : conjugate (negVerb sp) false none = .ok cv) (hroot : rootIsVToks cv.1 = true)
    (hne : ∀ t ∈ subjToks sp ++ cv.1 ++ compToks sp, t.form ≠ []) :
    depToks sp = (placePronouns false (cv.1 ++ compToks sp)).map (fun placed => (subjToks sp ++ placed, [])) := by
  have hcv2 := conjugate_none_snd _ _ _ hcv
  have hpre : ∀ (d : Dep) (i : Int), Dep.isPre { d with pid := i } = Dep.isPre d := fun _ _ => rfl
  have hpost : ∀ (d : Dep) (i : Int), (fun d => !Dep.isPre d) { d with pid := i } = (fun d => !Dep.isPre d) d :=
    fun _ _ => rfl
  have hcompPre : (sp.comps.map compDep).filter Dep.isPre = [] := by
    rw [List.filter_eq_nil_iff]
    intro d hd
    obtain ⟨c, _, rfl⟩ := List.mem_map.mp hd
    cases c <;> simp [compDep, Dep.isPre]
  have hcompPost : (sp.comps.map compDep).filter (fun d => !Dep.isPre d) = sp.comps.map compDep := by
    rw [List.filter_eq_self]
    intro d hd
    obtain ⟨c, _, rfl⟩ := List.mem_map.mp hd
    cases c <;> simp [compDep, Dep.isPre]
  have hsubjpro : ∀ d ∈ subjDeps sp ++ sp.comps.map compDep, d.pro = false := by
    intro d hd
    rcases List.mem_append.mp hd with h | h
    · have := hp.subj
      unfold subjDeps at h
      cases hsub : sp.subj with
      | none => simp [hsub] at h
      | some s =>
        cases s with
        | pro vm pe n g => simp [hsub] at h; subst h; rfl
        | np a => simp [hsub] at h this; subst h; exact this
    · obtain ⟨c, hc, rfl⟩ := List.mem_map.mp h
      have := hp.comps c hc
      cases c <;> simp_all [compDep]
  have helems : depElems sp = (plainVerb sp, withPids 0 (subjDeps sp ++ sp.comps.map compDep)) := by
    unfold depElems
    simp only [pronominalizeDeps_id _ none (withPids_pro 0 _ hsubjpro)]
    rfl
  have hty : depTyped sp = .ok (negVerb sp, withPids 0 (subjDeps sp ++ sp.comps.map compDep), []) := by
    unfold depTyped depStagePas depStageProg depStageMod depStageNeg negVerb
    simp only [hp.pas, hp.prog, hp.mod, hp.int, helems, bind, Except.bind, pure, Except.pure, Bool.false_eq_true, if_false]
    cases sp.typ.neg <;> rfl
  unfold depToks
  simp only [hty, bind, Except.bind, pure, Except.pure, hp.refl]
  unfold depReal
  have hdc : ∀ a b : List Dep, depConsumed false a b = (a, b) := fun _ _ => rfl
  simp only [conjugate_nolier _ false _ (negVerb_lier sp), hcv, bind, Except.bind, hcv2, Bool.false_eq_true, if_false,
    Bool.false_and, hdc, hroot, if_true]
  rw [withPids_filter_toks false 0 _ Dep.isPre hpre, withPids_filter_toks false 0 _ (fun d => !Dep.isPre d) hpost]
  simp only [List.filter_append, hcompPre, hcompPost, List.append_nil]
  rw [List.mapM_append, compDep_toks2 false sp.comps hp.comps]
  have hfl := compTokList_flatten sp
  have hsubj := hp.subj
  have hsn := subjToks_noV sp
  revert hne hsn
  unfold subjToks subjDeps
  cases hsub : sp.subj with
  | none =>
    intro hne hsn
    simp only [List.filter_nil, List.mapM_nil, bind, Except.bind, pure, Except.pure, List.flatten_nil, List.nil_append,
      List.append_nil]
    rw [hfl, removeEmpty_id _ (by simpa using hne)]
    cases placePronouns false (cv.1 ++ compToks sp) <;> simp [Except.map]
  | some s =>
    cases s with
    | pro vm pe n g =>
      intro hne hsn
      simp only [List.filter_cons, Dep.isPre, decide_true, Bool.true_or, if_true, Bool.not_true, Bool.false_eq_true,
        if_false, List.filter_nil, List.nil_append, List.mapM_cons, List.mapM_nil, Dep.toks, bind, Except.bind, pure,
        Except.pure, List.flatten_cons, List.flatten_nil, List.append_nil]
      rw [hfl, removeEmpty_id _ (by simpa using hne), List.append_assoc, place_prefix false _ _ (by simpa using hsn)]
      cases placePronouns false (cv.1 ++ compToks sp) <;> simp [Except.map]
    | np a =>
      intro hne hsn
      simp only [List.filter_cons, Dep.isPre, decide_true, Bool.true_or, if_true, Bool.not_true, Bool.false_eq_true,
        if_false, List.filter_nil, List.nil_append, List.mapM_cons, List.mapM_nil, Dep.toks, bind, Except.bind, pure,
        Except.pure, List.flatten_cons, List.flatten_nil, List.append_nil]
      rw [hfl, removeEmpty_id _ (by simpa using hne), List.append_assoc, place_prefix false _ _ (by simpa using hsn)]
      cases placePronouns false (cv.1 ++ compToks sp) <;> simp [Except.map]

/-! ### what `doPronounPlacement` returns holds no empty realization -/

theorem placedAt_mem (post : List Tok) (y : VT) (f : Str) (isR : Bool) (pg : Option VT) (t : Tok)
    (ht : t ∈ placedAt [] post y f isR pg) :
    t = .adv ne ∨ (∃ w, y.neg2 = some w ∧ t = .q w) ∨ (isR = true ∧ ∃ z, t = reflPro z) ∨ (∃ x', t = .v x' f) ∨ t ∈ post := by
  have hpros : t ∈ prosOf y isR pg (collect post).1 →
      t = .adv ne ∨ (∃ w, y.neg2 = some w ∧ t = .q w) ∨ (isR = true ∧ ∃ z, t = reflPro z) ∨ (∃ x', t = .v x' f) ∨ t ∈ post := by
    intro h
    unfold prosOf at h
    rw [sortPros_mem] at h
    unfold prosRaw at h
    rcases List.mem_append.mp h with h | h
    · rcases List.mem_append.mp h with h | h
      · cases hn : y.neg2 with
        | none => simp [hn] at h
        | some w =>
          simp only [hn] at h
          split at h
          · simp at h
            rcases h with rfl | rfl
            · exact Or.inl rfl
            · exact Or.inr (Or.inl ⟨w, rfl, rfl⟩)
          · simp at h; subst h; exact Or.inl rfl
      · split at h
        · rename_i hc
          simp at h; subst h
          exact Or.inr (Or.inr (Or.inl ⟨hc.1, _, rfl⟩))
        · cases h
    · exact Or.inr (Or.inr (Or.inr (Or.inr ((collect_fst_sublist post).subset h))))
  have hafter : t ∈ (match y.neg2 with
      | some w => if y.t = Tense.b then (collect post).2 else pyInsert (if y.lier then 1 else 0) (Tok.q w) (collect post).2
      | none => (collect post).2) →
      t = .adv ne ∨ (∃ w, y.neg2 = some w ∧ t = .q w) ∨ (isR = true ∧ ∃ z, t = reflPro z) ∨ (∃ x', t = .v x' f) ∨ t ∈ post := by
    intro h
    cases hn : y.neg2 with
    | none =>
      simp only [hn] at h
      exact Or.inr (Or.inr (Or.inr (Or.inr ((collect_snd_sublist post).subset h))))
    | some w =>
      simp only [hn] at h
      split at h
      · exact Or.inr (Or.inr (Or.inr (Or.inr ((collect_snd_sublist post).subset h))))
      · rcases mem_pyInsert _ _ _ _ h with rfl | h
        · exact Or.inr (Or.inl ⟨w, rfl, rfl⟩)
        · exact Or.inr (Or.inr (Or.inr (Or.inr ((collect_snd_sublist post).subset h))))
  unfold placedAt at ht
  simp only [] at ht
  split at ht
  · simp only [List.nil_append, List.append_assoc, List.mem_append, List.mem_singleton] at ht
    rcases ht with rfl | ht | ht
    · exact Or.inr (Or.inr (Or.inr (Or.inl ⟨_, rfl⟩)))
    · exact hpros ht
    · exact hafter ht
  · simp only [List.nil_append, List.append_assoc, List.mem_append, List.mem_singleton] at ht
    rcases ht with ht | rfl | ht
    · exact hpros ht
    · exact Or.inr (Or.inr (Or.inr (Or.inl ⟨_, rfl⟩)))
    · exact hafter ht

/-- the first token of a conjugated verb that is neither an auxiliary-flag carrier, nor hyphen-linked, nor essentially
    reflexive: it takes over the negation, it is not reflexive either, and what follows it is clean -/
theorem conj_plain_head (x : VT) (hm : x.isMod = false) (hp : x.isProg = false) (hl : x.lier = false)
    (hr : x.pat ≠ some [reflStr]) (r : List Tok × Bool) (h : conjugate x false none = .ok r)
    (y : VT) (f : Str) (tl : List Tok) (hh : r.1 = .v y f :: tl) :
    y.neg2 = x.neg2 ∧ y.isMod = false ∧ y.isProg = false ∧ isReflexive y false = .ok false ∧
      (∀ t ∈ tl, TokTailOk t) := by
  rcases conjugate_cases x false none r h with rfl | ⟨_, cr, rfl⟩ | ⟨ta, aux, ra, form, _, rfl, _, ham, hap, hpat⟩
  · cases hh
  · cases cr with
    | form f' =>
      simp only [tokOfConj, List.cons.injEq, Tok.v.injEq] at hh
      obtain ⟨⟨rfl, rfl⟩, rfl⟩ := hh
      exact ⟨rfl, hm, hp, isRefl_false _ hr, by simp⟩
    | morpho => simp [tokOfConj] at hh
  · have hcv : compoundToks x aux ra form none =
        ([tokOfConj { aux with neg2 := x.neg2, lier := x.lier } ra, .v { x with neg2 := none, lier := false } form], false) := by
      simp [compoundToks, hl]
    rw [hcv] at hh
    cases ra with
    | form fa =>
      simp only [tokOfConj, List.cons.injEq, Tok.v.injEq] at hh
      obtain ⟨⟨rfl, rfl⟩, rfl⟩ := hh
      have hap' : aux.pat ≠ some [reflStr] := by
        intro hc
        have := hpat hc
        rw [isRefl_false x hr] at this
        cases this
      refine ⟨rfl, ham, hap, isRefl_false _ (by simpa using hap'), ?_⟩
      intro t ht
      simp only [List.mem_singleton] at ht
      subst ht
      exact ⟨rfl, rfl⟩
    | morpho => simp [tokOfConj] at hh

/-- `doPronounPlacement` on `verb tokens ++ complement tokens` of the fragment succeeds and returns no empty
    realization -/
theorem place_plain_forms (y : VT) (f : Str) (post : List Tok) (hm : y.isMod = false) (hp : y.isProg = false)
    (hrf : isReflexive y false = .ok false) (hpost : ∀ t ∈ post, match t with | .v z _ => z.neg2 = none | _ => True)
    (hf : f ≠ []) (hw : ∀ w, y.neg2 = some w → w ≠ []) (hne : ∀ t ∈ post, t.form ≠ []) :
    ∃ placed, placePronouns false (.v y f :: post) = .ok placed ∧ ∀ t ∈ placed, t.form ≠ [] := by
  have hna : NoAuxNeg ([] ++ Tok.v y f :: post) := by
    intro t ht
    simp only [List.nil_append, List.mem_cons] at ht
    rcases ht with rfl | ht
    · exact Or.inr ⟨hm, hp⟩
    · have := hpost t ht
      cases t <;> simp_all
  have hcl := place_first_verb false [] post y f (by intro t ht; cases ht) hp hm hna
  simp only [List.nil_append] at hcl
  rw [hcl, hrf]
  refine ⟨_, rfl, ?_⟩
  intro t ht
  rcases placedAt_mem post y f false _ t ht with rfl | ⟨w, hyw, rfl⟩ | ⟨hc, _⟩ | ⟨x', rfl⟩ | ht
  · decide
  · exact hw w hyw
  · cases hc
  · exact hf
  · exact hne t ht

end Pyrealb.ClauseFr
