import Pyrealb.Model.ExprSource
/-! Helper lemmas for C12: association lists (`lookup`, `setKey`), the abstraction `abs`, keys of the JSON objects. -/
namespace Pyrealb.Expr
open Pyrealb

/-! ### the abstraction that determines realization: the tree with its option STATE, call HISTORY erased -/

def Node.abs (n : Node) : Node := { n with hist := [] }

mutual
def Expr.abs : Expr → Expr
  | .term n l i => .term n.abs l i
  | .phr n es => .phr n.abs (absList es)
  | .dep n t ds => .dep n.abs t.abs (absList ds)
def absList : List Expr → List Expr
  | [] => []
  | e :: r => e.abs :: absList r
end

theorem absList_eq_map (es : List Expr) : absList es = es.map Expr.abs := by
  induction es with
  | nil => simp [absList]
  | cons e r ih => simp [absList, ih]

@[simp] theorem abs_kind (e : Expr) : e.abs.kind = e.kind := by
  cases e <;> simp [Expr.abs, Expr.kind, Expr.node, Node.abs]
@[simp] theorem abs_props (e : Expr) : e.abs.props = e.props := by
  cases e <;> simp [Expr.abs, Expr.props, Expr.node, Node.abs]
@[simp] theorem abs_lang (e : Expr) : e.abs.lang = e.lang := by
  cases e <;> simp [Expr.abs, Expr.lang, Expr.node, Node.abs]

/-! ### association lists -/

theorem lookup_append_left {α} (k : Str) (a b : List (Str × α)) (v : α) (h : lookup k a = some v) :
    lookup k (a ++ b) = some v := by
  induction a with
  | nil => simp [lookup] at h
  | cons x r ih =>
    obtain ⟨k', v'⟩ := x
    by_cases hk : k' = k
    · simp [lookup, hk] at h ⊢; exact h
    · simp [lookup, hk] at h ⊢; exact ih h

theorem lookup_append_right {α} (k : Str) (a b : List (Str × α)) (h : lookup k a = none) :
    lookup k (a ++ b) = lookup k b := by
  induction a with
  | nil => simp
  | cons x r ih =>
    obtain ⟨k', v'⟩ := x
    by_cases hk : k' = k
    · simp [lookup, hk] at h
    · simp [lookup, hk] at h ⊢; exact ih h

def keys {α} (l : List (Str × α)) : List Str := l.map (·.1)

theorem lookup_none_of_not_mem {α} (k : Str) (l : List (Str × α)) (h : k ∉ keys l) : lookup k l = none := by
  induction l with
  | nil => simp [lookup]
  | cons x r ih =>
    obtain ⟨k', v'⟩ := x
    simp [keys] at h
    have h1 : k' ≠ k := fun e => h.1 e.symm
    simp [lookup, h1]
    apply ih
    simpa [keys] using h.2

/-- `d[k] = v` on a dictionary without the key appends -/
theorem setKey_of_not_mem {α} (k : Str) (v : α) (l : List (Str × α)) (h : k ∉ keys l) : setKey k v l = l ++ [(k, v)] := by
  induction l with
  | nil => simp [setKey]
  | cons x r ih =>
    obtain ⟨k', v'⟩ := x
    simp [keys] at h
    have h1 : k' ≠ k := fun e => h.1 e.symm
    simp [setKey, h1]
    apply ih
    simpa [keys] using h.2

/-- `d[k] = v` when `d[k]` is already `v` -/
theorem setKey_same {α} (k : Str) (v : α) (l : List (Str × α)) (h : lookup k l = some v) : setKey k v l = l := by
  induction l with
  | nil => simp [lookup] at h
  | cons x r ih =>
    obtain ⟨k', v'⟩ := x
    by_cases hk : k' = k
    · simp [lookup, hk] at h; simp [setKey, hk, h]
    · simp [lookup, hk] at h; simp [setKey, hk]; exact ih h

theorem lookup_setKey {α} (k : Str) (v : α) (l : List (Str × α)) : lookup k (setKey k v l) = some v := by
  induction l with
  | nil => simp [setKey, lookup]
  | cons x r ih =>
    obtain ⟨k', v'⟩ := x
    by_cases hk : k' = k
    · simp [setKey, hk, lookup]
    · simp [setKey, hk, lookup, ih]

theorem lookup_mem_of_nodup {α} (k : Str) (v : α) (l : List (Str × α)) (hd : (keys l).Nodup) (hm : (k, v) ∈ l) :
    lookup k l = some v := by
  induction l with
  | nil => simp at hm
  | cons x r ih =>
    obtain ⟨k', v'⟩ := x
    simp [keys] at hd
    rcases List.mem_cons.mp hm with h | h
    · cases h; simp [lookup]
    · have : k' ≠ k := by
        intro e; subst e
        exact hd.1 v h
      simp [lookup, this]
      apply ih _ h
      simpa [keys] using hd.2

end Pyrealb.Expr
