import Pyrealb.Lemmas.ClauseFrClause
/-! `Phrase.processInt` (constituent notation) keeps what `processTyp` established: the S is still `pre ++ [VP]`, the VP
    still starts with the verb that carries the negation (now possibly hyphen-linked to the inverted subject pronoun),
    the other verbs are clean, and the chain of verbs is unchanged. -/
namespace Pyrealb.ClauseFr
open Pyrealb
open Pyrealb.Gen.ClauseFr

/-- what `PhraseFr.move_object` can return -/
theorem moveObjectPhrase_cases (int : Str) (sel vp sel' vp' : List El)
    (h : moveObjectPhrase int sel vp = .ok (sel', vp')) :
    (sel' = sel ∨ ∃ si, firstIdx isSubjEl sel = some si ∧ (sel' = pyInsert si (.q estCeQue) sel ∨ sel' = sel.eraseIdx si)) ∧
    (vp' = vp ∨ ∃ vi x pro, firstIdx El.isV vp = some vi ∧ vp[vi]? = some (.v x) ∧
      vp' = pyInsert (vi + 1) (.pro pro) (vp.set vi (.v { x with lier := true }))) := by
  unfold moveObjectPhrase at h
  split at h
  · cases h; exact ⟨Or.inl rfl, Or.inl rfl⟩
  · rename_i si hsi
    simp only [] at h
    repeat' (split at h)
    all_goals (try (cases h; done))
    all_goals (simp only [Except.ok.injEq, Prod.mk.injEq] at h)
    all_goals (obtain ⟨h1, h2⟩ := h)
    all_goals (subst h1 h2)
    all_goals first
      | exact ⟨Or.inl rfl, Or.inl rfl⟩
      | exact ⟨Or.inr ⟨si, hsi, Or.inl rfl⟩, Or.inl rfl⟩
      | exact ⟨Or.inr ⟨si, hsi, Or.inr rfl⟩, Or.inl rfl⟩
      | exact ⟨Or.inl rfl, Or.inr ⟨_, _, _, ‹_›, ‹_›, rfl⟩⟩
      | exact ⟨Or.inr ⟨si, hsi, Or.inr rfl⟩, Or.inr ⟨_, _, _, ‹_›, ‹_›, rfl⟩⟩

/-! ### the VP -/

/-- the VP starts with the verb that carries `w`, the other verbs are clean, and the verbs are `c` -/
def VC (w : Option Str) (c : List (Str × Tense)) (vp : List El) : Prop := (∃ b, VPI w b vp) ∧ verbChain vp = c

theorem firstIdx_v_zero (x : VT) (r : List El) : firstIdx El.isV (.v x :: r) = some 0 := by simp [firstIdx, El.isV]

theorem vc_erase (w : Option Str) (c : List (Str × Tense)) (p : El → Bool) (hp : ∀ e, p e = true → e.isV = false)
    (vp : List El) (i : Nat) (hi : firstIdx p vp = some i) (h : VC w c vp) : VC w c (vp.eraseIdx i) := by
  obtain ⟨⟨b, x, r, rfl, hn, hl, hr⟩, hc⟩ := h
  obtain ⟨e, he, hpe⟩ := firstIdx_getElem p _ i hi
  have hev := hp e hpe
  cases i with
  | zero => simp at he; subst he; simp [El.isV] at hev
  | succ j =>
    refine ⟨⟨b, x, r.eraseIdx j, rfl, hn, hl, fun e' he' => hr e' (List.mem_of_mem_eraseIdx he')⟩, ?_⟩
    rw [← hc]
    exact verbChain_eraseIdx (.v x :: r) (j + 1) (by intro e' he'; rw [he] at he'; cases he'; exact hev)

theorem vc_wosFix (w : Option Str) (c : List (Str × Tense)) (vp : List El) (h : VC w c vp) : VC w c (wosFix vp) := by
  obtain ⟨⟨b, x, r, rfl, hn, hl, hr⟩, hc⟩ := h
  unfold wosFix
  simp only [firstIdx_v_zero, List.getElem?_cons_zero]
  split
  · exact ⟨⟨b, { x with pe := 3 }, r, rfl, hn, hl, hr⟩, by rw [← hc]; rfl⟩
  · exact ⟨⟨b, x, r, rfl, hn, hl, hr⟩, hc⟩

theorem vc_moved (w : Option Str) (c : List (Str × Tense)) (vp vp' : List El) (h : VC w c vp)
    (hv : vp' = vp ∨ ∃ vi x pro, firstIdx El.isV vp = some vi ∧ vp[vi]? = some (.v x) ∧
      vp' = pyInsert (vi + 1) (.pro pro) (vp.set vi (.v { x with lier := true }))) : VC w c vp' := by
  rcases hv with rfl | ⟨vi, x, pro, hvi, hx, rfl⟩
  · exact h
  · obtain ⟨⟨b, x0, r, rfl, hn, hl, hr⟩, hc⟩ := h
    rw [firstIdx_v_zero] at hvi
    cases hvi
    simp only [List.getElem?_cons_zero, Option.some.injEq, El.v.injEq] at hx
    subst hx
    refine ⟨⟨true, { x0 with lier := true }, .pro pro :: r, ?_, hn, rfl, ?_⟩, ?_⟩
    · simp [pyInsert]
    · intro e he
      rcases List.mem_cons.mp he with rfl | he
      · trivial
      · exact hr e he
    · rw [← hc]
      simp [pyInsert, verbChain]

/-! ### the S -/

theorem firstIdx_append_lt {α} (p : α → Bool) (pre : List α) (a : α) (i : Nat) (ha : p a = false)
    (h : firstIdx p (pre ++ [a]) = some i) : i < pre.length := by
  induction pre generalizing i with
  | nil => simp [firstIdx, ha] at h
  | cons b r ih =>
    simp only [List.cons_append, firstIdx] at h
    split at h
    · cases h; simp
    · cases hr : firstIdx p (r ++ [a]) with
      | none => simp [hr] at h
      | some j =>
        simp only [hr, Option.map_some, Option.some.injEq] at h
        subst h
        have := ih j hr
        simp; omega

theorem selShape_subj (sel : List El) (si : Nat) (q : El) (hq : q.isV = false ∧ q.isVP = false) (h : SelShape sel)
    (hsi : firstIdx isSubjEl sel = some si) : SelShape (pyInsert si q sel) ∧ SelShape (sel.eraseIdx si) := by
  obtain ⟨pre, rfl, hpre⟩ := h
  have hlt := firstIdx_append_lt isSubjEl pre .vp si rfl hsi
  refine ⟨⟨pre.take si ++ q :: pre.drop si, ?_, ?_⟩, ⟨pre.eraseIdx si, ?_, ?_⟩⟩
  · rw [pyInsert_split, List.take_append_of_le_length (by omega), List.drop_append_of_le_length (by omega)]
    simp
  · intro e he
    rcases List.mem_append.mp he with he | he
    · exact hpre e (List.mem_of_mem_take he)
    · rcases List.mem_cons.mp he with rfl | he
      · exact hq
      · exact hpre e (List.mem_of_mem_drop he)
  · exact List.eraseIdx_append_of_lt_length hlt _
  · intro e he
    exact hpre e (List.mem_of_mem_eraseIdx he)

theorem selShape_cons (sel : List El) (q : El) (hq : q.isV = false ∧ q.isVP = false) (h : SelShape sel) :
    SelShape (q :: sel) := by
  obtain ⟨pre, rfl, hpre⟩ := h
  refine ⟨q :: pre, rfl, ?_⟩
  intro e he
  rcases List.mem_cons.mp he with rfl | he
  · exact hq
  · exact hpre e he

/-- `PhraseFr.move_object` keeps the shape of the S and of the VP -/
theorem moveObjectPhrase_inv (int : Str) (w : Option Str) (c : List (Str × Tense)) (sel vp sel' vp' : List El)
    (hs : SelShape sel) (hv : VC w c vp) (h : moveObjectPhrase int sel vp = .ok (sel', vp')) :
    SelShape sel' ∧ VC w c vp' := by
  obtain ⟨h1, h2⟩ := moveObjectPhrase_cases int sel vp sel' vp' h
  refine ⟨?_, vc_moved w c vp vp' hv h2⟩
  rcases h1 with rfl | ⟨si, hsi, rfl | rfl⟩
  · exact hs
  · exact (selShape_subj sel si _ ⟨rfl, rfl⟩ hs hsi).1
  · exact (selShape_subj sel si (.q []) ⟨rfl, rfl⟩ hs hsi).2

theorem isPP_nonV (e : El) (h : e.isPP = true) : e.isV = false := by cases e <;> simp_all [El.isPP, El.isV]
theorem isNPorPro_nonV (e : El) (h : e.isNPorPro = true) : e.isV = false := by
  cases e <;> simp_all [El.isNPorPro, El.isV]

theorem processIntPhraseCore_inv (int dflt : Str) (w : Option Str) (c : List (Str × Tense)) (sel vp : List El)
    (r : List El × List El × Str × Bool × Str) (hs : SelShape sel) (hv : VC w c vp)
    (hsubj : intGroupSubj.contains int = true → ∃ si, firstIdx isSubjEl sel = some si)
    (h : processIntPhraseCore int dflt sel vp = .ok r) : SelShape r.1 ∧ VC w c r.2.1 := by
  unfold processIntPhraseCore at h
  simp only [] at h
  split at h
  · obtain ⟨m, hm, h⟩ := bindE_ok _ _ _ h
    simp only [pure, Except.pure, Except.ok.injEq] at h
    subst h
    exact moveObjectPhrase_inv int w c sel vp m.1 m.2 hs hv hm
  · split at h
    · rename_i hsj
      obtain ⟨si, hsi⟩ := hsubj hsj
      split at h
      · simp only [pure, Except.pure, Except.ok.injEq] at h; subst h; exact ⟨hs, hv⟩
      · simp only [hsi] at h
        split at h
        · simp only [pure, Except.pure, Except.ok.injEq] at h; subst h
          exact ⟨(selShape_subj sel si (.q []) ⟨rfl, rfl⟩ hs hsi).2, vc_wosFix w c vp hv⟩
        · simp only [pure, Except.pure, Except.ok.injEq] at h; subst h; exact ⟨hs, hv⟩
    · split at h
      · obtain ⟨m, hm, h⟩ := bindE_ok _ _ _ h
        simp only [pure, Except.pure, Except.ok.injEq] at h
        subst h
        refine moveObjectPhrase_inv int w c sel _ m.1 m.2 hs ?_ hm
        have ha : VC w c (match firstIdx El.isNPorPro vp with
            | some i => vp.eraseIdx i
            | none => vp) := by
          split
          · rename_i i hi
            exact vc_erase w c _ isNPorPro_nonV vp i hi hv
          · exact hv
        split
        · split
          · rename_i j hj
            split
            · split
              · exact vc_erase w c _ isPP_nonV _ j hj ha
              · exact ha
            · exact ha
          · exact ha
        · exact hv
      · split at h
        · obtain ⟨m, hm, h⟩ := bindE_ok _ _ _ h
          simp only [pure, Except.pure, Except.ok.injEq] at h
          subst h
          refine moveObjectPhrase_inv int w c sel _ m.1 m.2 hs ?_ hm
          split
          · split
            · rename_i j hj
              split
              · repeat' split
                all_goals first
                  | exact hv
                  | exact vc_erase w c _ isPP_nonV vp j hj hv
              · exact hv
            · exact hv
          · exact hv
        · split at h <;>
          · simp only [pure, Except.pure, Except.ok.injEq] at h; subst h; exact ⟨hs, hv⟩

/-- **`Phrase.processInt`** keeps the shape of the S (`pre ++ [VP]`, the prefix and « par » in front), the first verb
    with its negation, the clean other verbs and the chain of verbs -/
theorem processIntPhrase_inv (int : Str) (w : Option Str) (c : List (Str × Tense)) (sel vp sel' vp' : List El) (e : Str)
    (hs : SelShape sel) (hv : VC w c vp)
    (hsubj : intGroupSubj.contains int = true → ∃ si, firstIdx isSubjEl sel = some si)
    (h : processIntPhrase int sel vp = .ok (sel', vp', e)) : SelShape sel' ∧ VC w c vp' := by
  unfold processIntPhrase at h
  obtain ⟨dflt, _, h⟩ := bindE_ok _ _ _ h
  obtain ⟨r, hr, h⟩ := bindE_ok _ _ _ h
  obtain ⟨c1, c2⟩ := processIntPhraseCore_inv int dflt w c sel vp r hs hv hsubj hr
  simp only [pure, Except.pure, Except.ok.injEq, Prod.mk.injEq] at h
  obtain ⟨rfl, rfl, _⟩ := h
  refine ⟨?_, c2⟩
  split
  · apply selShape_cons _ _ ⟨rfl, rfl⟩
    split
    · exact selShape_cons _ _ ⟨rfl, rfl⟩ c1
    · exact selShape_cons _ _ ⟨rfl, rfl⟩ c1
  · exact selShape_cons _ _ ⟨rfl, rfl⟩ c1

/-- `wos` / `was` delete the subject of the S; without one (`subjIdx = -1 < vbIdx`) they delete the LAST element, the
    VP itself. The clause-level statements leave that case out: a subject is given, and the clause is not also passive -/
def IntOk (sp : Spec) : Prop :=
  ∀ i, sp.typ.int = some i → intGroupSubj.contains i = true → sp.typ.pas = false ∧ sp.subj.isSome = true

theorem phraseElems_subj (sp : Spec) (h : sp.subj.isSome = true) : firstIdx isSubjEl (phraseElems sp).1 = some 0 := by
  unfold phraseElems
  cases hs : sp.subj with
  | none => simp [hs] at h
  | some s =>
    cases s with
    | pro vm pe n g => simp [firstIdx, isSubjEl]
    | np a => by_cases ha : a.pro = true <;> simp [firstIdx, isSubjEl, ha]

theorem stagePas_off (sp : Spec) (s s' : List El × List El) (hp : sp.typ.pas = false) (h : stagePas sp s = .ok s') :
    s' = s := by
  unfold stagePas at h
  simp only [hp, Bool.false_eq_true, if_false, pure, Except.pure, Except.ok.injEq] at h
  exact h.symm

/-- **what `processTyp` hands to the realization**, with or without an interrogative -/
theorem phraseTyped_inv_any (sp : Spec) (sel vp : List El) (e : Str) (hok : IntOk sp)
    (h : phraseTyped sp = .ok (sel, vp, e)) :
    SelShape sel ∧ ∃ b, VPI (sp.typ.neg.map NegV.word2) b vp := by
  cases hint : sp.typ.int with
  | none =>
    obtain ⟨a, b, _⟩ := phraseTyped_inv sp sel vp e hint h
    exact ⟨a, false, b⟩
  | some i =>
    unfold phraseTyped at h
    obtain ⟨s1, h1, h⟩ := bindE_ok _ _ _ h
    obtain ⟨s2, h2, h⟩ := bindE_ok _ _ _ h
    obtain ⟨s3, h3, h⟩ := bindE_ok _ _ _ h
    simp only [hint] at h
    have hs1 := stagePas_selShape sp _ s1 (selShape_elems sp) h1
    have hv1 := stagePas_vpi sp _ s1 (vpi_elems sp) h1
    have hv2 := stageProg_vpi sp _ s2 hv1 h2
    have hv3 := stageMod_vpi sp _ s3 hv2 h3
    have hf2 := stageProg_fst sp _ s2 h2
    have hf3 := stageMod_fst sp _ s3 h3
    have hs3 : SelShape s3.1 := by rw [hf3, hf2]; exact hs1
    have hs4 : SelShape (stageNeg sp s3).1 := by rw [stageNeg_fst]; exact hs3
    have hv4 := stageNeg_vpi sp s3 (selShape_hasVP _ hs3) hv3
    have hsubj : intGroupSubj.contains i = true → ∃ si, firstIdx isSubjEl (stageNeg sp s3).1 = some si := by
      intro hi
      obtain ⟨hp, hsome⟩ := hok i hint hi
      have e1 := stagePas_off sp _ s1 hp h1
      rw [stageNeg_fst, hf3, hf2, e1]
      exact ⟨0, phraseElems_subj sp hsome⟩
    obtain ⟨c1, ⟨b, c2⟩, _⟩ := processIntPhrase_inv i _ (verbChain (stageNeg sp s3).2) _ _ sel vp e hs4 ⟨⟨false, hv4⟩, rfl⟩ hsubj h
    exact ⟨c1, b, c2⟩

end Pyrealb.ClauseFr
