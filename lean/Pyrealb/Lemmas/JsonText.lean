import Pyrealb.Lemmas.JsonRoundtrip
set_option linter.unusedSimpArgs false
/-! `json.loads ∘ json.dumps` is the identity on the value shapes that occur (C12, JSON text route):
    the printer `printJ` and the reader `readJ` of `Model/Json`, by induction on the value. -/
namespace Pyrealb.Expr
open Pyrealb

/-! ### strings -/

theorem hexVal_hexDigit : ∀ n : Fin 16, hexVal (hexDigit n.val) = some n.val := by decide

theorem hexVal_hexDigit' (n : Nat) (h : n < 16) : hexVal (hexDigit n) = some n := hexVal_hexDigit ⟨n, h⟩

theorem readJStr_cons (c : Char) (r : Str) : readJStr (c :: r) =
    if c = '"' then some ([], r)
    else if c = '\\' then
      match r with
      | [] => none
      | e :: r1 =>
        if e = 'u' then
          match r1 with
          | a :: b :: c :: d :: r2 =>
            match hexVal a, hexVal b, hexVal c, hexVal d, readJStr r2 with
            | some a, some b, some c, some d, some (x, rest) =>
              some (Char.ofNat (((a * 16 + b) * 16 + c) * 16 + d) :: x, rest)
            | _, _, _, _, _ => none
          | _ => none
        else
          match unescJ e, readJStr r1 with
          | some ch, some (x, rest) => some (ch :: x, rest)
          | _, _ => none
    else if c.toNat < 32 then none
    else match readJStr r with
      | some (x, rest) => some (c :: x, rest)
      | none => none := by
  rw [readJStr.eq_def]
  rfl

theorem readJStr_esc (x rest : Str) : readJStr (escJ x ++ '"' :: rest) = some (x, rest) := by
  induction x with
  | nil => simp [escJ, readJStr_cons]
  | cons c r ih =>
    simp only [escJ, escJChar]
    by_cases h1 : c = '"'
    · subst h1; simp [readJStr_cons, unescJ, ih]
    · by_cases h2 : c = '\\'
      · subst h2; simp [readJStr_cons, unescJ, ih]
      · by_cases h3 : c = '\n'
        · subst h3; simp [readJStr_cons, unescJ, ih]
        · by_cases h4 : c = '\r'
          · subst h4; simp [readJStr_cons, unescJ, ih]
          · by_cases h5 : c = '\t'
            · subst h5; simp [readJStr_cons, unescJ, ih]
            · by_cases h6 : c.toNat = 8
              · have : c = Char.ofNat 8 := by rw [← h6]; simp
                simp [h1, h2, h3, h4, h5, h6, readJStr_cons, unescJ, ih, this]
              · by_cases h7 : c.toNat = 12
                · have : c = Char.ofNat 12 := by rw [← h7]; simp
                  simp [h1, h2, h3, h4, h5, h6, h7, readJStr_cons, unescJ, ih, this]
                · by_cases h8 : c.toNat < 32
                  · have ha : c.toNat / 16 < 16 := by omega
                    have hb : c.toNat % 16 < 16 := by omega
                    have hz : hexVal '0' = some 0 := by decide
                    have hc : Char.ofNat (c.toNat / 16 * 16 + c.toNat % 16) = c := by
                      have : c.toNat / 16 * 16 + c.toNat % 16 = c.toNat := by omega
                      rw [this]; simp
                    simp [h1, h2, h3, h4, h5, h6, h7, h8, readJStr_cons, hexVal_hexDigit' _ ha, hexVal_hexDigit' _ hb, hz, ih, hc]
                  · simp [h1, h2, h3, h4, h5, h6, h7, h8, readJStr_cons, ih]

/-! ### integers -/

theorem natDigits_eq (n : Nat) : natDigits n =
    if n < 10 then [Char.ofNat (48 + n)] else natDigits (n / 10) ++ [Char.ofNat (48 + n % 10)] := by
  rw [natDigits]
  split <;> rfl

theorem digit_facts : ∀ k : Fin 10, isDigit (Char.ofNat (48 + k.val)) = true ∧ digitVal (Char.ofNat (48 + k.val)) = k.val := by
  decide

theorem natDigits_all (n : Nat) : (natDigits n).all isDigit = true := by
  induction n using Nat.strongRecOn with
  | _ n ih =>
    rw [natDigits_eq]
    split
    · rename_i h; simp [(digit_facts ⟨n, h⟩).1]
    · rename_i h
      have h1 := ih (n / 10) (by omega)
      have h2 := (digit_facts ⟨n % 10, by omega⟩).1
      simp only [List.all_append, h1, List.all_cons, List.all_nil, Bool.and_true, Bool.true_and]
      exact h2

theorem natOfDigits_append (a : Str) (c : Char) : natOfDigits (a ++ [c]) = natOfDigits a * 10 + digitVal c := by
  simp [natOfDigits, List.foldl_append]

theorem natOfDigits_natDigits (n : Nat) : natOfDigits (natDigits n) = n := by
  induction n using Nat.strongRecOn with
  | _ n ih =>
    rw [natDigits_eq]
    split
    · rename_i h
      have := (digit_facts ⟨n, h⟩).2
      simp only at this
      simp [natOfDigits, this]
    · rename_i h
      have h1 := ih (n / 10) (by omega)
      have h2 := (digit_facts ⟨n % 10, by omega⟩).2
      simp only at h2
      rw [natOfDigits_append, h1, h2]
      omega

theorem natDigits_ne_nil (n : Nat) : natDigits n ≠ [] := by
  rw [natDigits_eq]; split <;> simp

/-- the text that follows does not start with a digit -/
def NoDigitHead (rest : Str) : Prop := ∀ c r, rest = c :: r → isDigit c = false

theorem readNat_append (ds rest : Str) (hd : ds.all isDigit = true) (hr : NoDigitHead rest) :
    readNat (ds ++ rest) = (natOfDigits ds, rest) := by
  unfold readNat
  induction ds with
  | nil =>
    cases rest with
    | nil => simp [natOfDigits]
    | cons c r => simp [hr c r rfl, natOfDigits]
  | cons d r ih =>
    simp only [List.all_cons, Bool.and_eq_true] at hd
    have ih' := ih hd.2
    simp only [List.cons_append, List.takeWhile_cons, hd.1, List.dropWhile_cons, if_true]
    simp only [Prod.mk.injEq] at ih' ⊢
    constructor
    · have h1 := ih'.1
      simp only [natOfDigits, List.foldl_cons] at h1 ⊢
      -- foldl with a different start: both sides are foldl over the same list from the same accumulator
      have : ∀ (l1 l2 : Str) (a : Nat), l1 = l2 → List.foldl (fun acc c => acc * 10 + digitVal c) a l1 =
          List.foldl (fun acc c => acc * 10 + digitVal c) a l2 := fun _ _ _ h => by rw [h]
      apply this
      -- takeWhile (r ++ rest) = r
      clear this h1 ih' ih
      induction r with
      | nil =>
        cases rest with
        | nil => rfl
        | cons c q => simp [hr c q rfl]
      | cons e q ihq =>
        simp only [List.all_cons, Bool.and_eq_true] at hd
        simp [hd.2.1, ihq ⟨hd.1, hd.2.2⟩]
    · exact ih'.2

/-! ### values -/

mutual
/-- the fuel the reader needs -/
def JVal.need : JVal → Nat
  | .arr l => needList l + 1
  | .obj kv => needObj kv + 1
  | _ => 1
def needList : List JVal → Nat
  | [] => 0
  | v :: r => max v.need (needList r) + 1
def needObj : List (Str × JVal) → Nat
  | [] => 0
  | (_, v) :: r => max v.need (needObj r) + 1
end

theorem s_null : s "null" = ['n', 'u', 'l', 'l'] := by decide
theorem s_true : s "true" = ['t', 'r', 'u', 'e'] := by decide
theorem s_false : s "false" = ['f', 'a', 'l', 's', 'e'] := by decide
theorem s_comma : s ", " = [',', ' '] := by decide
theorem s_colon : s ": " = [':', ' '] := by decide

theorem digit_ne (c : Char) (h : isDigit c = true) :
    c ≠ '"' ∧ c ≠ '[' ∧ c ≠ '{' ∧ c ≠ '-' ∧ c ≠ ' ' := by
  refine ⟨?_, ?_, ?_, ?_, ?_⟩ <;> (intro he; subst he; exact absurd h (by decide))

theorem readJV_space (fuel : Nat) (x : Str) : readJV fuel (' ' :: x) = readJV fuel x := by
  cases fuel with
  | zero => simp [readJV]
  | succ f => simp [readJV, skipWs]

theorem readJItems_space (fuel : Nat) (x : Str) : readJItems fuel (' ' :: x) = readJItems fuel x := by
  cases fuel with
  | zero => simp [readJItems]
  | succ f => simp [readJItems, readJV_space]

theorem readJMembers_space (fuel : Nat) (x : Str) : readJMembers fuel (' ' :: x) = readJMembers fuel x := by
  cases fuel with
  | zero => simp [readJMembers]
  | succ f => simp [readJMembers, skipWs]

theorem noDigit_cons (c : Char) (r : Str) (h : isDigit c = false) : NoDigitHead (c :: r) := by
  intro c' r' he; cases he; exact h

theorem skipWs_cons (c : Char) (r : Str) (h : c ≠ ' ') : skipWs (c :: r) = c :: r := by
  unfold skipWs
  split
  · rename_i heq; cases heq; exact absurd rfl h
  · rfl

theorem intStr_read (i : Int) (fuel : Nat) (rest : Str) (hr : NoDigitHead rest) :
    readJV (fuel + 1) (intStr i ++ rest) = some (.int i, rest) := by
  cases i with
  | ofNat n =>
    have hall := natDigits_all n
    have hne := natDigits_ne_nil n
    have hrd := readNat_append (natDigits n) rest hall hr
    simp only [intStr]
    cases hd : natDigits n with
    | nil => exact absurd hd hne
    | cons c r =>
      rw [hd] at hall hrd
      have hc : isDigit c = true := by simp only [List.all_cons, Bool.and_eq_true] at hall; exact hall.1
      obtain ⟨h1, h2, h3, h4, h5⟩ := digit_ne c hc
      simp only [readJV, List.cons_append, skipWs_cons c _ h5, h1, h2, h3, h4, hc, if_true, if_false]
      simp only [List.cons_append] at hrd
      rw [hrd, ← hd, natOfDigits_natDigits]
      rfl
  | negSucc n =>
    have hall := natDigits_all (n + 1)
    have hne := natDigits_ne_nil (n + 1)
    have hrd := readNat_append (natDigits (n + 1)) rest hall hr
    simp only [intStr]
    cases hd : natDigits (n + 1) with
    | nil => exact absurd hd hne
    | cons c r =>
      rw [hd] at hall hrd
      have hc : isDigit c = true := by simp only [List.all_cons, Bool.and_eq_true] at hall; exact hall.1
      have hm : ('-' : Char) ≠ ' ' := by decide
      have m1 : ('-' : Char) ≠ '"' := by decide
      have m2 : ('-' : Char) ≠ '[' := by decide
      have m3 : ('-' : Char) ≠ '{' := by decide
      simp only [readJV, List.cons_append, skipWs_cons '-' _ hm, m1, m2, m3, hc, if_true, if_false]
      simp only [List.cons_append] at hrd
      rw [hrd, ← hd, natOfDigits_natDigits]
      simp [Int.negSucc_eq]


theorem keyword_facts :
    (('n' : Char) ≠ ' ' ∧ ('n' : Char) ≠ '"' ∧ ('n' : Char) ≠ '[' ∧ ('n' : Char) ≠ '{' ∧ ('n' : Char) ≠ '-' ∧ isDigit 'n' = false) ∧
    (('t' : Char) ≠ ' ' ∧ ('t' : Char) ≠ '"' ∧ ('t' : Char) ≠ '[' ∧ ('t' : Char) ≠ '{' ∧ ('t' : Char) ≠ '-' ∧ isDigit 't' = false) ∧
    (('f' : Char) ≠ ' ' ∧ ('f' : Char) ≠ '"' ∧ ('f' : Char) ≠ '[' ∧ ('f' : Char) ≠ '{' ∧ ('f' : Char) ≠ '-' ∧ isDigit 'f' = false) := by
  decide

theorem sw_null (rest : Str) : startsWith ('n' :: 'u' :: 'l' :: 'l' :: rest) ['n', 'u', 'l', 'l'] = true := by
  simp [startsWith]
theorem sw_true (rest : Str) : startsWith ('t' :: 'r' :: 'u' :: 'e' :: rest) ['t', 'r', 'u', 'e'] = true := by
  simp [startsWith]
theorem sw_true_null (rest : Str) : startsWith ('t' :: 'r' :: 'u' :: 'e' :: rest) (s "null") = false := by
  simp [startsWith, s_null]
theorem sw_false (rest : Str) : startsWith ('f' :: 'a' :: 'l' :: 's' :: 'e' :: rest) ['f', 'a', 'l', 's', 'e'] = true := by
  simp [startsWith]
theorem sw_false_null (rest : Str) : startsWith ('f' :: 'a' :: 'l' :: 's' :: 'e' :: rest) (s "null") = false := by
  simp [startsWith, s_null]
theorem sw_false_true (rest : Str) : startsWith ('f' :: 'a' :: 'l' :: 's' :: 'e' :: rest) (s "true") = false := by
  simp [startsWith, s_true]

/-- the first character of a printed value is not a space and not a closing bracket -/
theorem printJ_head (v : JVal) (tl : Str) : ∃ c r, printJ v ++ tl = c :: r ∧ c ≠ ' ' ∧ c ≠ ']' ∧ c ≠ '}' := by
  cases v with
  | null => exact ⟨'n', 'u' :: 'l' :: 'l' :: tl, by simp [printJ, s_null], by decide, by decide, by decide⟩
  | bool b => cases b
              · exact ⟨'f', 'a' :: 'l' :: 's' :: 'e' :: tl, by simp [printJ, s_false], by decide, by decide, by decide⟩
              · exact ⟨'t', 'r' :: 'u' :: 'e' :: tl, by simp [printJ, s_true], by decide, by decide, by decide⟩
  | int i =>
    cases i with
    | ofNat n =>
      have hall := natDigits_all n
      cases hd : natDigits n with
      | nil => exact absurd hd (natDigits_ne_nil n)
      | cons c r =>
        rw [hd] at hall
        have hc : isDigit c = true := by simp only [List.all_cons, Bool.and_eq_true] at hall; exact hall.1
        refine ⟨c, r ++ tl, by simp [printJ, intStr, hd], (digit_ne c hc).2.2.2.2, ?_, ?_⟩ <;>
          (intro he; subst he; exact absurd hc (by decide))
    | negSucc n => exact ⟨'-', natDigits (n + 1) ++ tl, by simp [printJ, intStr], by decide, by decide, by decide⟩
  | str x => exact ⟨'"', escJ x ++ '"' :: tl, by simp [printJ, quoteJ], by decide, by decide, by decide⟩
  | arr l => exact ⟨'[', printJList l ++ ']' :: tl, by simp [printJ], by decide, by decide, by decide⟩
  | obj kv => exact ⟨'{', printJObj kv ++ '}' :: tl, by simp [printJ], by decide, by decide, by decide⟩
  | dt y mo d h mi sec =>
    have : s "<datetime>" = '<' :: s "datetime>" := by decide
    exact ⟨'<', s "datetime>" ++ tl, by simp [printJ, this], by decide, by decide, by decide⟩

theorem printJList_head (v : JVal) (r : List JVal) (tl : Str) :
    skipWs (printJList (v :: r) ++ tl) = printJList (v :: r) ++ tl ∧ ∀ r', printJList (v :: r) ++ tl ≠ ']' :: r' := by
  have : ∃ tl', printJList (v :: r) ++ tl = printJ v ++ tl' := by
    cases r with
    | nil => exact ⟨tl, by simp [printJList]⟩
    | cons w q => exact ⟨s ", " ++ (printJList (w :: q) ++ tl), by simp [printJList, List.append_assoc]⟩
  obtain ⟨tl', htl⟩ := this
  obtain ⟨c, q, hq, h1, h2, _⟩ := printJ_head v tl'
  rw [htl, hq]
  exact ⟨skipWs_cons c q h1, fun r' he => by cases he; exact h2 rfl⟩

theorem printJObj_head (m : Str × JVal) (r : List (Str × JVal)) (tl : Str) :
    skipWs (printJObj (m :: r) ++ tl) = printJObj (m :: r) ++ tl ∧ ∀ r', printJObj (m :: r) ++ tl ≠ '}' :: r' := by
  obtain ⟨k, v⟩ := m
  have : ∃ q, printJObj ((k, v) :: r) ++ tl = '"' :: q := by
    cases r with
    | nil => exact ⟨escJ k ++ '"' :: (s ": " ++ (printJ v ++ tl)), by simp [printJObj, quoteJ]⟩
    | cons w q => exact ⟨escJ k ++ '"' :: (s ": " ++ (printJ v ++ (s ", " ++ (printJObj (w :: q) ++ tl)))),
        by simp [printJObj, quoteJ]⟩
  obtain ⟨q, hq⟩ := this
  rw [hq]
  exact ⟨skipWs_cons '"' q (by decide), fun r' he => by cases he⟩

mutual
theorem readJV_print : ∀ (v : JVal) (fuel : Nat) (rest : Str), v.serializable = true → v.need ≤ fuel →
    NoDigitHead rest → readJV fuel (printJ v ++ rest) = some (v, rest)
  | .null, fuel, rest, _, hf, _ => by
    cases fuel with
    | zero => simp [JVal.need] at hf
    | succ f =>
      obtain ⟨⟨a1, a2, a3, a4, a5, a6⟩, _, _⟩ := keyword_facts
      simp [printJ, s_null, readJV, skipWs_cons 'n' _ a1, a2, a3, a4, a5, a6, sw_null]
  | .bool true, fuel, rest, _, hf, _ => by
    cases fuel with
    | zero => simp [JVal.need] at hf
    | succ f =>
      obtain ⟨_, ⟨a1, a2, a3, a4, a5, a6⟩, _⟩ := keyword_facts
      simp [printJ, s_true, readJV, skipWs_cons 't' _ a1, a2, a3, a4, a5, a6, sw_true, sw_true_null]
  | .bool false, fuel, rest, _, hf, _ => by
    cases fuel with
    | zero => simp [JVal.need] at hf
    | succ f =>
      obtain ⟨_, _, ⟨a1, a2, a3, a4, a5, a6⟩⟩ := keyword_facts
      simp [printJ, s_false, readJV, skipWs_cons 'f' _ a1, a2, a3, a4, a5, a6, sw_false, sw_false_null, sw_false_true]
  | .int i, fuel, rest, _, hf, hr => by
    cases fuel with
    | zero => simp [JVal.need] at hf
    | succ f => simpa [printJ] using intStr_read i f rest hr
  | .str x, fuel, rest, _, hf, _ => by
    cases fuel with
    | zero => simp [JVal.need] at hf
    | succ f =>
      have q1 : ('"' : Char) ≠ ' ' := by decide
      simp [printJ, quoteJ, readJV, skipWs_cons '"' _ q1, readJStr_esc]
  | .dt .., _, _, hs, _, _ => by simp [JVal.serializable] at hs
  | .arr l, fuel, rest, hs, hf, _ => by
    cases fuel with
    | zero => simp [JVal.need] at hf
    | succ f =>
      have q1 : ('[' : Char) ≠ ' ' := by decide
      have q2 : ('[' : Char) ≠ '"' := by decide
      cases l with
      | nil => simp [printJ, printJList, readJV, skipWs_cons '[' _ q1, q2, skipWs]
      | cons v r =>
        have hne : v :: r ≠ [] := by simp
        have hf' : needList (v :: r) ≤ f := by simp [JVal.need] at hf; omega
        have hs' : serializableList (v :: r) = true := by simpa [JVal.serializable] using hs
        have h := readJItems_print (v :: r) f rest hne hs' hf'
        have hsk : ∀ tl, skipWs (printJList (v :: r) ++ tl) = printJList (v :: r) ++ tl ∧
            ∀ r', printJList (v :: r) ++ tl ≠ ']' :: r' := printJList_head v r
        obtain ⟨hsk1, hsk2⟩ := hsk (']' :: rest)
        simp only [printJ, List.cons_append, readJV, skipWs_cons '[' _ q1, q2, if_true, if_false, List.append_assoc]
        simp only [List.nil_append, hsk1]
        first
          | simp [h]
          | (split
             · rename_i r' heq; exact absurd heq (hsk2 r')
             · simp [h])
  | .obj kv, fuel, rest, hs, hf, _ => by
    cases fuel with
    | zero => simp [JVal.need] at hf
    | succ f =>
      have q1 : ('{' : Char) ≠ ' ' := by decide
      have q2 : ('{' : Char) ≠ '"' := by decide
      have q3 : ('{' : Char) ≠ '[' := by decide
      cases kv with
      | nil => simp [printJ, printJObj, readJV, skipWs_cons '{' _ q1, q2, q3, skipWs]
      | cons m r =>
        have hne : m :: r ≠ [] := by simp
        have hf' : needObj (m :: r) ≤ f := by simp [JVal.need] at hf; omega
        have hs' : serializableObj (m :: r) = true := by simpa [JVal.serializable] using hs
        have h := readJMembers_print (m :: r) f rest hne hs' hf'
        obtain ⟨hsk1, hsk2⟩ := printJObj_head m r ('}' :: rest)
        simp only [printJ, List.cons_append, readJV, skipWs_cons '{' _ q1, q2, q3, if_true, if_false, List.append_assoc]
        simp only [List.nil_append, hsk1]
        first
          | simp [h]
          | (split
             · rename_i r' heq; exact absurd heq (hsk2 r')
             · simp [h])
theorem readJItems_print : ∀ (l : List JVal) (fuel : Nat) (rest : Str), l ≠ [] → serializableList l = true →
    needList l ≤ fuel → readJItems fuel (printJList l ++ ']' :: rest) = some (l, rest)
  | [], _, _, h, _, _ => absurd rfl h
  | [v], fuel, rest, _, hs, hf => by
    cases fuel with
    | zero => simp [needList] at hf
    | succ f =>
      have hv : v.serializable = true := by simpa [serializableList] using hs
      have hn : v.need ≤ f := by simp [needList] at hf; omega
      have h := readJV_print v f (']' :: rest) hv hn (noDigit_cons _ _ (by decide))
      have q1 : (']' : Char) ≠ ' ' := by decide
      have q2 : (']' : Char) ≠ ',' := by decide
      simp [printJList, readJItems, h, skipWs_cons ']' _ q1, q2]
  | v :: w :: r, fuel, rest, _, hs, hf => by
    cases fuel with
    | zero => simp [needList] at hf
    | succ f =>
      have hv : v.serializable = true := by simp [serializableList] at hs; exact hs.1
      have hs' : serializableList (w :: r) = true := by simp [serializableList] at hs ⊢; exact hs.2
      have hn : v.need ≤ f := by simp [needList] at hf; omega
      have hn' : needList (w :: r) ≤ f := by simp [needList] at hf ⊢; omega
      have h := readJV_print v f (',' :: ' ' :: (printJList (w :: r) ++ ']' :: rest)) hv hn (noDigit_cons _ _ (by decide))
      have h2 := readJItems_print (w :: r) f rest (by simp) hs' hn'
      have q1 : (',' : Char) ≠ ' ' := by decide
      simp only [printJList, s_comma, List.append_assoc, List.cons_append, List.nil_append]
      simp [readJItems, h, skipWs_cons ',' _ q1, readJItems_space, h2]
theorem readJMembers_print : ∀ (kv : List (Str × JVal)) (fuel : Nat) (rest : Str), kv ≠ [] → serializableObj kv = true →
    needObj kv ≤ fuel → readJMembers fuel (printJObj kv ++ '}' :: rest) = some (kv, rest)
  | [], _, _, h, _, _ => absurd rfl h
  | [(k, v)], fuel, rest, _, hs, hf => by
    cases fuel with
    | zero => simp [needObj] at hf
    | succ f =>
      have hv : v.serializable = true := by simpa [serializableObj] using hs
      have hn : v.need ≤ f := by simp [needObj] at hf; omega
      have h := readJV_print v f ('}' :: rest) hv hn (noDigit_cons _ _ (by decide))
      have q0 : ('"' : Char) ≠ ' ' := by decide
      have q1 : ('}' : Char) ≠ ' ' := by decide
      have q2 : ('}' : Char) ≠ ',' := by decide
      have q3 : (':' : Char) ≠ ' ' := by decide
      simp only [printJObj, quoteJ, s_colon, List.append_assoc, List.cons_append, List.nil_append]
      simp [readJMembers, skipWs_cons '"' _ q0, readJStr_esc, skipWs_cons ':' _ q3, readJV_space, h,
        skipWs_cons '}' _ q1, q2]
  | (k, v) :: m :: r, fuel, rest, _, hs, hf => by
    cases fuel with
    | zero => simp [needObj] at hf
    | succ f =>
      have hv : v.serializable = true := by simp [serializableObj] at hs; exact hs.1
      have hs' : serializableObj (m :: r) = true := by simp [serializableObj] at hs ⊢; exact hs.2
      have hn : v.need ≤ f := by simp [needObj] at hf; omega
      have hn' : needObj (m :: r) ≤ f := by simp [needObj] at hf ⊢; omega
      have h := readJV_print v f (',' :: ' ' :: (printJObj (m :: r) ++ '}' :: rest)) hv hn (noDigit_cons _ _ (by decide))
      have h2 := readJMembers_print (m :: r) f rest (by simp) hs' hn'
      have q0 : ('"' : Char) ≠ ' ' := by decide
      have q1 : (',' : Char) ≠ ' ' := by decide
      have q3 : (':' : Char) ≠ ' ' := by decide
      simp only [printJObj, quoteJ, s_colon, s_comma, List.append_assoc, List.cons_append, List.nil_append]
      simp [readJMembers, skipWs_cons '"' _ q0, readJStr_esc, skipWs_cons ':' _ q3, readJV_space, h,
        skipWs_cons ',' _ q1, readJMembers_space, h2]
end


/-! ### the fuel `readJ` starts with is enough -/

theorem len_datetime : (s "<datetime>").length = 10 := by decide

mutual
theorem need_le : ∀ v : JVal, v.need ≤ (printJ v).length
  | .null => by simp [JVal.need, printJ, s_null]
  | .bool true => by simp [JVal.need, printJ, s_true]
  | .bool false => by simp [JVal.need, printJ, s_false]
  | .int i => by
    cases i with
    | ofNat n =>
      have := natDigits_ne_nil n
      cases h : natDigits n with
      | nil => exact absurd h this
      | cons c r => simp [JVal.need, printJ, intStr, h]
    | negSucc n => simp [JVal.need, printJ, intStr]
  | .str x => by simp [JVal.need, printJ, quoteJ]
  | .dt .. => by simp [JVal.need, printJ, len_datetime]
  | .arr l => by
    have := needList_le l
    simp [JVal.need, printJ]
    omega
  | .obj kv => by
    have := needObj_le kv
    simp [JVal.need, printJ]
    omega
theorem needList_le : ∀ l : List JVal, needList l ≤ (printJList l).length + 1
  | [] => by simp [needList]
  | [v] => by
    have := need_le v
    simp [needList, printJList]
    omega
  | v :: w :: r => by
    have h1 := need_le v
    have h2 := needList_le (w :: r)
    simp only [needList, printJList, List.length_append, s_comma, List.length_cons, List.length_nil] at h2 ⊢
    omega
theorem needObj_le : ∀ kv : List (Str × JVal), needObj kv ≤ (printJObj kv).length + 1
  | [] => by simp [needObj]
  | [(k, v)] => by
    have := need_le v
    simp [needObj, printJObj]
    omega
  | (k, v) :: m :: r => by
    have h1 := need_le v
    have h2 := needObj_le (m :: r)
    simp only [needObj, printJObj, List.length_append, s_comma, s_colon, List.length_cons, List.length_nil] at h2 ⊢
    omega
end

/-- **`json.loads(json.dumps(j)) == j`** for every structure without a `datetime` (strings: every code point) -/
theorem readJ_printJ (v : JVal) (hs : v.serializable = true) : readJ (printJ v) = some v := by
  unfold readJ
  have h := readJV_print v ((printJ v).length + 1) [] hs (by have := need_le v; omega) (by intro c r he; cases he)
  simp only [List.append_nil] at h
  rw [h]
  simp [skipWs]

end Pyrealb.Expr
