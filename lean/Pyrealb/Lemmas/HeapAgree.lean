import Pyrealb.Lemmas.HeapCloneOps
/-! # Read-locality: what an operation does inside a closed set `A` depends only on the content of `A`

`Agree A h g`: the stores `h` and `g` have the same nodes `A` (fields, pointers) and the same contents in the records these
nodes point to; everything else (other trees, the warning counter, the allocation counters) may differ.  For `A` closed in
`h`: the link plan of a node of `A` is the same in both stores (`plan_agree`: the whole of `Model/HeapLink` only navigates
along the references of the object graph), and every operation on `A` leads to stores that agree on `A` again. -/
namespace Pyrealb.Heap
open Pyrealb

structure Agree (A : List Nat) (h g : Heap) : Prop where
  n : g.n = h.n
  node : ∀ x ∈ A, g.node x = h.node x
  peng : ∀ x ∈ A, g.peng x = h.peng x
  taux : ∀ x ∈ A, g.taux x = h.taux x
  cod : ∀ x ∈ A, g.cod x = h.cod x
  subject : ∀ x ∈ A, g.subject x = h.subject x
  prec : ∀ r, RecOf h A r → g.prec r = h.prec r
  trec : ∀ r, TRecOf h A r → g.trec r = h.trec r

theorem Agree.refl (A : List Nat) (h : Heap) : Agree A h h :=
  ⟨rfl, fun _ _ => rfl, fun _ _ => rfl, fun _ _ => rfl, fun _ _ => rfl, fun _ _ => rfl, fun _ _ => rfl, fun _ _ => rfl⟩

section
variable {A : List Nat} {h g : Heap} (cl : Closed h A) (ag : Agree A h g)
include cl ag

theorem kind_ag {x : Nat} (hx : x ∈ A) : g.kind x = h.kind x := by simp [Heap.kind, ag.node x hx]
theorem kids_ag {x : Nat} (hx : x ∈ A) : g.kids x = h.kids x := by simp [Heap.kids, ag.node x hx]
theorem isA_ag {x : Nat} (hx : x ∈ A) (ks : List Kind) : g.isA x ks = h.isA x ks := by
  simp [Heap.isA, kind_ag cl ag hx]
theorem lemmaOf_ag {x : Nat} (hx : x ∈ A) : g.lemmaOf x = h.lemmaOf x := by simp [Heap.lemmaOf, ag.node x hx]
theorem parentOf_ag {x : Nat} (hx : x ∈ A) : g.parentOf x = h.parentOf x := by simp [Heap.parentOf, ag.node x hx]
theorem hasProp_ag {x : Nat} (hx : x ∈ A) (k : Str) : g.hasProp x k = h.hasProp x k := by
  simp [Heap.hasProp, ag.node x hx]
theorem gramNumber_ag {x : Nat} (hx : x ∈ A) : g.gramNumber x = h.gramNumber x := by
  simp [Heap.gramNumber, ag.node x hx]

theorem getProp_ag {x : Nat} (hx : x ∈ A) (k : Str) : g.getProp x k = h.getProp x k := by
  unfold Heap.getProp
  rw [ag.node x hx, ag.peng x hx, ag.taux x hx]
  cases lookup k (h.node x).props with
  | some v => rfl
  | none =>
    simp only
    split
    · cases hq : h.peng x with
      | none => rfl
      | some r => simp only; rw [ag.prec r ⟨x, hx, hq⟩]
    · split
      · cases hq : h.taux x with
        | none => rfl
        | some r => simp only; rw [ag.trec r ⟨x, hx, hq⟩]
      · rfl

theorem isPP_ag {x : Nat} (hx : x ∈ A) : isPP g x = isPP h x := by
  simp [isPP, kind_ag cl ag hx, getProp_ag cl ag hx]

theorem mem_of_kid {p y : Nat} (hp : p ∈ A) (hy : y ∈ h.kids p) : y ∈ A := kids_sub A h p cl hp y hy
theorem mem_of_kid? {p y i : Nat} (hp : p ∈ A) (hy : (h.kids p)[i]? = some y) : y ∈ A :=
  kids_sub A h p cl hp y (List.mem_of_getElem? hy)
theorem mem_of_parent {x y : Nat} (hx : x ∈ A) (hy : h.parentOf x = some y) : y ∈ A :=
  parent_sub A h x cl hx y (by simp [Heap.parentOf] at hy; simp [hy])
theorem mem_of_term {x y : Nat} (hx : x ∈ A) (hy : (h.node x).term = some y) : y ∈ A :=
  term_sub A h x cl hx y (by simp [hy])

omit cl ag in
theorem findIdxFrom_congr (p q : Nat → Bool) : ∀ (l : List Nat) (i : Nat), (∀ x ∈ l, p x = q x) →
    findIdxFrom p l i = findIdxFrom q l i := by
  intro l
  induction l with
  | nil => intro i _; rfl
  | cons a t ih =>
    intro i hl
    simp only [findIdxFrom, hl a List.mem_cons_self]
    rw [ih (i + 1) (fun x hx => hl x (List.mem_cons_of_mem _ hx))]

theorem getIndex_ag {p : Nat} (hp : p ∈ A) (ks : List Kind) (start : Nat) :
    g.getIndex p ks start = h.getIndex p ks start := by
  unfold Heap.getIndex
  rw [kids_ag cl ag hp]
  apply findIdxFrom_congr
  intro x hx
  exact isA_ag cl ag (mem_of_kid cl ag hp (List.mem_of_mem_drop hx)) ks

theorem getConst_ag {x : Nat} (hx : x ∈ A) (ks : List Kind) : g.getConst x ks = h.getConst x ks := by
  unfold Heap.getConst
  rw [kind_ag cl ag hx, isA_ag cl ag hx, getIndex_ag cl ag hx, kids_ag cl ag hx]

theorem getConst_mem {x y : Nat} (hx : x ∈ A) {ks : List Kind} (hy : h.getConst x ks = some y) : y ∈ A := by
  unfold Heap.getConst at hy
  split at hy
  · split at hy
    · simp only [Option.some.injEq] at hy; subst hy; exact hx
    · simp at hy
  · split at hy
    · exact mem_of_kid? cl ag hx hy
    · simp at hy

theorem getFromPath_ag : ∀ (path : List (List Kind × Bool)) {x : Nat}, x ∈ A →
    g.getFromPath x path = h.getFromPath x path ∧ ∀ y, h.getFromPath x path = some y → y ∈ A := by
  intro path
  induction path with
  | nil => intro x hx; simp [Heap.getFromPath]; exact hx
  | cons pe rest ih =>
    intro x hx
    obtain ⟨ks, opt⟩ := pe
    simp only [Heap.getFromPath]
    rw [getConst_ag cl ag hx]
    cases hc : h.getConst x ks with
    | none =>
      simp only
      split
      · exact ih hx
      · simp
    | some c =>
      simp only
      exact ih (getConst_mem cl ag hx hc)

omit cl ag in
theorem append_congr' {β : Type} {a a' b b' : List β} (h1 : a = a') (h2 : b = b') : a ++ b = a' ++ b' := by
  rw [h1, h2]

omit cl ag in
theorem any_congr' {l : List Nat} {f f' : Nat → Bool} (hf : ∀ x ∈ l, f x = f' x) : l.any f = l.any f' := by
  induction l with
  | nil => rfl
  | cons a t ih =>
    simp only [List.any_cons, hf a List.mem_cons_self]
    rw [ih (fun x hx => hf x (List.mem_cons_of_mem _ hx))]

omit cl ag in
theorem flatMap_congr' {β : Type} {l : List Nat} {f f' : Nat → List β} (hf : ∀ x ∈ l, f x = f' x) :
    l.flatMap f = l.flatMap f' := by
  induction l with
  | nil => rfl
  | cons a t ih =>
    simp only [List.flatMap_cons, hf a List.mem_cons_self]
    rw [ih (fun x hx => hf x (List.mem_cons_of_mem _ hx))]

theorem linkPengWithSubject_ag {self subject : Nat} (hs : self ∈ A) (hsub : subject ∈ A) (phrase terminal : Kind)
    (dyn : Nat) :
    linkPengWithSubject g self phrase terminal subject dyn = linkPengWithSubject h self phrase terminal subject dyn := by
  unfold linkPengWithSubject
  rw [kind_ag cl ag hsub, ag.node subject hsub, (getFromPath_ag cl ag _ hs).1, (getFromPath_ag cl ag _ hs).1]
  split
  · rfl
  · cases hq : h.getFromPath self [([phrase], false), ([terminal], false)] with
    | none => rfl
    | some pt =>
      simp only
      rw [parentOf_ag cl ag ((getFromPath_ag cl ag _ hs).2 pt hq)]

theorem linkAttributes_ag (lang : Lang) {vpv subject : Nat} (hv : vpv ∈ A) (hsub : subject ∈ A) (vpcp : Option Nat)
    (hcp : ∀ c, vpcp = some c → c ∈ A) (dyn : Nat) :
    linkAttributes g lang vpv vpcp subject dyn = linkAttributes h lang vpv vpcp subject dyn := by
  unfold linkAttributes
  cases lang with
  | en => rfl
  | fr =>
    simp only
    rw [lemmaOf_ag cl ag hv]
    split
    · cases vpcp with
      | some cp =>
        simp only
        have hc := hcp cp rfl
        rw [kids_ag cl ag hc]
        apply flatMap_congr'
        intro e he
        have heA := mem_of_kid cl ag hc he
        rw [kind_ag cl ag heA, isPP_ag cl ag heA, linkPengWithSubject_ag cl ag heA hsub, getConst_ag cl ag heA]
        cases hq : h.getConst e [Kind.V] with
        | none => rfl
        | some v => simp only; rw [getProp_ag cl ag (getConst_mem cl ag heA hq)]
      | none =>
        simp only
        rw [parentOf_ag cl ag hv]
        cases hq : h.parentOf vpv with
        | none => rfl
        | some vp =>
          simp only
          have hvp := mem_of_parent cl ag hv hq
          rw [linkPengWithSubject_ag cl ag hvp hsub, kids_ag cl ag hvp]
          cases (linkPengWithSubject h vp Kind.AP Kind.A subject dyn).2 with
          | some _ => rfl
          | none =>
            simp only
            cases List.idxOf? vpv (h.kids vp) with
            | none => rfl
            | some i =>
              simp only
              congr 1
              apply flatMap_congr'
              intro e he
              rw [isPP_ag cl ag (mem_of_kid cl ag hvp (List.mem_of_mem_drop he))]
    · rfl

theorem linkDAV_ag (lang : Lang) (self : Nat) {e : Nat} (he : e ∈ A) : linkDAV g lang self e = linkDAV h lang self e := by
  unfold linkDAV
  rw [kind_ag cl ag he, lemmaOf_ag cl ag he, hasProp_ag cl ag he, isPP_ag cl ag he]

theorem npHeadIndex_ag {p : Nat} (hp : p ∈ A) : npHeadIndex g p = npHeadIndex h p := by
  unfold npHeadIndex
  simp only [kids_ag cl ag hp, getIndex_ag cl ag hp]
  cases hq : (h.kids p)[(h.getIndex p [Kind.NP, Kind.N]).getD 0]? with
  | none => rfl
  | some e0 =>
    simp only
    have he := mem_of_kid? cl ag hp hq
    rw [kind_ag cl ag he, getProp_ag cl ag he]
    split
    · have : findIdxFrom (fun x => g.kind x = Kind.N && g.getProp x possKey == Val.none)
          (List.drop ((h.getIndex p [Kind.NP, Kind.N]).getD 0 + 1) (h.kids p)) ((h.getIndex p [Kind.NP, Kind.N]).getD 0 + 1) =
        findIdxFrom (fun x => h.kind x = Kind.N && h.getProp x possKey == Val.none)
          (List.drop ((h.getIndex p [Kind.NP, Kind.N]).getD 0 + 1) (h.kids p)) ((h.getIndex p [Kind.NP, Kind.N]).getD 0 + 1) := by
        apply findIdxFrom_congr
        intro x hx
        have hxA := mem_of_kid cl ag hp (List.mem_of_mem_drop hx)
        rw [kind_ag cl ag hxA, getProp_ag cl ag hxA]
      rw [this]
    · rfl

theorem linkSubjObjSubordinate_ag (lang : Lang) {p pro v : Nat} (hp : p ∈ A) (hpro : pro ∈ A) (hv : v ∈ A)
    (subject : Option Nat) :
    linkSubjObjSubordinate g lang p pro v subject = linkSubjObjSubordinate h lang p pro v subject := by
  unfold linkSubjObjSubordinate
  have hpath := getFromPath_ag cl ag [([Kind.VP], false), ([Kind.CP], false)] hp
  rw [hpath.1, lemmaOf_ag cl ag hpro, lemmaOf_ag cl ag hv, parentOf_ag cl ag hv]
  have la : ∀ lg, linkAttributes g lg v (h.getFromPath p [([Kind.VP], false), ([Kind.CP], false)]) p p =
      linkAttributes h lg v (h.getFromPath p [([Kind.VP], false), ([Kind.CP], false)]) p p :=
    fun lg => linkAttributes_ag cl ag lg hv hp _ (fun c hc => hpath.2 c hc) p
  cases lang with
  | en => simp only [la]
  | fr =>
    simp only [la]
    cases hq : h.parentOf v with
    | none => rfl
    | some vp =>
      have hvp := mem_of_parent cl ag hv hq
      simp only
      rw [getIndex_ag cl ag hvp, kids_ag cl ag hvp]
      cases hi : h.getIndex vp [Kind.V] 0 with
      | none => rfl
      | some idx =>
        simp only
        cases hn : (h.kids vp)[idx + 1]? with
        | none => rfl
        | some nxt => simp only; rw [isPP_ag cl ag (mem_of_kid? cl ag hvp hn)]

omit cl ag in
theorem map_zipIdx_congr {β : Type} (l : List Nat) (f f' : Nat × Nat → β) (hf : ∀ x ∈ l, ∀ i, f (x, i) = f' (x, i)) :
    l.zipIdx.map f = l.zipIdx.map f' := by
  apply List.map_congr_left
  intro xi hxi
  obtain ⟨x, i⟩ := xi
  obtain ⟨_, hlt, hx⟩ := List.mem_zipIdx hxi
  exact hf x (hx ▸ List.getElem_mem _) i

theorem linkPengWithSubject_mem {self subject v : Nat} (hs : self ∈ A) (phrase terminal : Kind) (dyn : Nat)
    (hv : (linkPengWithSubject h self phrase terminal subject dyn).2 = some v) : v ∈ A := by
  unfold linkPengWithSubject at hv
  split at hv
  · simp at hv
  · cases hq : h.getFromPath self [([phrase], false), ([terminal], false)] with
    | some pt =>
      rw [hq] at hv
      simp only at hv
      have hpt := (getFromPath_ag cl ag _ hs).2 pt hq
      cases hpar : h.parentOf pt <;> rw [hpar] at hv <;> simp at hv <;> exact hv ▸ hpt
    | none =>
      rw [hq] at hv
      simp only at hv
      cases hq2 : h.getFromPath self [([terminal], false)] with
      | some pt =>
        rw [hq2] at hv
        simp at hv
        exact hv ▸ (getFromPath_ag cl ag _ hs).2 pt hq2
      | none => rw [hq2] at hv; simp at hv

theorem planVP_ag {p : Nat} (hp : p ∈ A) : planVP g p = planVP h p := by
  unfold planVP
  simp only [kids_ag cl ag hp, getIndex_ag cl ag hp]

theorem planXP_ag {p : Nat} (hp : p ∈ A) (tk : Kind) : planXP g p tk = planXP h p tk := by
  unfold planXP
  simp only [kids_ag cl ag hp, getIndex_ag cl ag hp, kind_ag cl ag hp]

theorem shouldTry_ag (lang : Lang) {p : Nat} (hp : p ∈ A) (lem : Str) (i : Nat) :
    shouldTryAnotherSubject g lang p lem i = shouldTryAnotherSubject h lang p lem i := by
  unfold shouldTryAnotherSubject
  have hany : ((g.kids p).drop (i + 1)).any (fun x => g.isA x [Kind.NP, Kind.N, Kind.CP, Kind.Pro]) =
      ((h.kids p).drop (i + 1)).any (fun x => h.isA x [Kind.NP, Kind.N, Kind.CP, Kind.Pro]) := by
    rw [kids_ag cl ag hp]
    apply any_congr'
    intro x hx
    rw [isA_ag cl ag (mem_of_kid cl ag hp (List.mem_of_mem_drop hx))]
  simp only [hany]
  cases lang with
  | en => rfl
  | fr =>
    simp only [kids_ag cl ag hp]
    cases hq : (h.kids p)[i - 1]? with
    | none => rfl
    | some e => simp only; rw [kind_ag cl ag (mem_of_kid? cl ag hp hq)]

theorem planNP_ag {p : Nat} (hp : p ∈ A) : planNP g p = planNP h p := by
  unfold planNP
  simp only [ag.node p hp, kids_ag cl ag hp, npHeadIndex_ag cl ag hp]
  cases hq : (h.kids p)[npHeadIndex h p]? with
  | none => rfl
  | some hd =>
    simp only
    have hhd := mem_of_kid? cl ag hp hq
    have hpath := getFromPath_ag cl ag [([Kind.S, Kind.SP], false), ([Kind.Pro], false)] hp
    apply congrArg Plan.cat
    refine append_congr' (append_congr' rfl ?_) (congrArg (fun r => [some r]) ?_)
    · apply map_zipIdx_congr
      intro e he i
      have heA := mem_of_kid cl ag hp he
      simp only [kind_ag cl ag heA, gramNumber_ag cl ag heA, isA_ag cl ag heA, linkDAV_ag cl ag _ p heA,
        lemmaOf_ag cl ag heA, getProp_ag cl ag hhd, kids_ag cl ag heA]
      have e1 : (h.kids e).flatMap (fun el => if g.isA el [Kind.A, Kind.NO] = true then [Act.setPeng true el p] else []) =
          (h.kids e).flatMap (fun el => if h.isA el [Kind.A, Kind.NO] = true then [Act.setPeng true el p] else []) := by
        apply flatMap_congr'
        intro el hel
        rw [isA_ag cl ag (mem_of_kid cl ag heA hel)]
      have e2 : (h.kids e).map (fun el => linkDAV g (h.node p).lang p el) =
          (h.kids e).map (fun el => linkDAV h (h.node p).lang p el) := by
        apply List.map_congr_left
        intro el hel
        rw [linkDAV_ag cl ag _ p (mem_of_kid cl ag heA hel)]
      rw [e1, e2]
    · rw [hpath.1]
      cases hpro : h.getFromPath p [([Kind.S, Kind.SP], false), ([Kind.Pro], false)] with
      | none => rfl
      | some pro =>
        simp only
        have hproA := hpath.2 pro hpro
        rw [parentOf_ag cl ag hproA]
        cases hsp : h.parentOf pro with
        | none => rfl
        | some sp =>
          simp only
          have hspA := mem_of_parent cl ag hproA hsp
          have hp2 := getFromPath_ag cl ag [([Kind.VP], false), ([Kind.V], false)] hspA
          rw [hp2.1, ag.subject sp hspA]
          cases hv : h.getFromPath sp [([Kind.VP], false), ([Kind.V], false)] with
          | none => rfl
          | some v => simp only; rw [linkSubjObjSubordinate_ag cl ag _ hp hproA (hp2.2 v hv)]

omit cl ag in
/-- the pieces of `planS` -/
def sVpv (h : Heap) (p : Nat) : Option Nat := h.getFromPath p [([.VP], true), ([.V], false)]
def sPreL (h : Heap) (p : Nat) : List Act := match sVpv h p with | some v => [.setTaux true p v] | none => []
def sImp (h : Heap) (p : Nat) : Bool := match sVpv h p with | some v => h.getProp v Heap.tKey == ipVal | none => false
def sKinds : List Kind := [.NP, .N, .CP, .Pro]

def sChoose (h : Heap) (p iSubj subject0 : Nat) : Option (Nat × List Act) :=
  if h.kind p = .SP && h.kind subject0 = .Pro then
    if shouldTryAnotherSubject h (h.node p).lang p (h.lemmaOf subject0) iSubj then
      match findIdxFrom (fun x => h.isA x sKinds) ((h.kids p).drop (iSubj + 1)) (iSubj + 1) with
      | some j =>
        match (h.kids p)[j]? with
        | some sj => some (sj, [.setSubject p (some sj)])
        | none => none
      | none => none
    else some (subject0, [.setSubject p (some subject0)])
  else some (subject0, [])

def sCvs (h : Heap) (p subject : Nat) : List Act :=
  (h.kids p).flatMap (fun cp =>
    if h.kind cp = .CP && cp != subject && (h.getConst cp [.VP]).isSome then
      (h.kids cp).flatMap (fun e =>
        if (h.kind e).isPhrase then
          (linkPengWithSubject h e .VP .V subject subject).1 ++
            (match (linkPengWithSubject h e .VP .V subject subject).2 with
            | some v => linkAttributes h (h.node p).lang v (h.getFromPath e [([.CP], false)]) subject subject
            | none => [])
        else [])
    else [])

def sCco (h : Heap) (p : Nat) : List Act :=
  match (h.node p).lang with
  | .en => []
  | .fr =>
    match h.getConst p [.CP], h.getConst p [.SP] with
    | some cp, some sp =>
      match h.getConst sp [.Pro] with
      | some sppro =>
        if h.lemmaOf sppro = s "que" then
          match h.getFromPath sp [([.VP], true), ([.V], false)] with
          | some v => [.setCod v cp]
          | none => []
        else []
      | none => []
    | _, _ => []

def sAfter (h : Heap) (p : Nat) (pre : List Act) : Option (Nat × List Act) → Plan
  | none => some pre
  | some (subject, sacts) =>
    some (pre ++ sacts ++ [.guardHas subject, .setPeng true p subject] ++
      (linkPengWithSubject h p .VP .V subject subject).1 ++
      (match (linkPengWithSubject h p .VP .V subject subject).2 with
       | some v => [.setTaux true p v] ++
           linkAttributes h (h.node p).lang v (h.getFromPath p [([.VP], false), ([.CP], false)]) subject subject
       | none => sCvs h p subject ++ sCco h p))

omit cl ag in
theorem planS_unfold (h : Heap) (p : Nat) :
    planS h p = (if sImp h p then some (sPreL h p)
      else match h.getIndex p sKinds with
        | none => some (sPreL h p ++ [.setSubject p none])
        | some iSubj =>
          match (h.kids p)[iSubj]? with
          | none => some (sPreL h p ++ [.setSubject p none])
          | some subject0 => sAfter h p (sPreL h p ++ [.setSubject p none]) (sChoose h p iSubj subject0)) := by
  rfl

theorem sVpv_ag {p : Nat} (hp : p ∈ A) : sVpv g p = sVpv h p ∧ ∀ v, sVpv h p = some v → v ∈ A :=
  getFromPath_ag cl ag _ hp

theorem sPreL_ag {p : Nat} (hp : p ∈ A) : sPreL g p = sPreL h p := by
  unfold sPreL; rw [(sVpv_ag cl ag hp).1]

theorem sImp_ag {p : Nat} (hp : p ∈ A) : sImp g p = sImp h p := by
  unfold sImp
  rw [(sVpv_ag cl ag hp).1]
  cases hv : sVpv h p with
  | none => rfl
  | some v => simp only; rw [getProp_ag cl ag ((sVpv_ag cl ag hp).2 v hv)]

theorem sChoose_ag {p s0 : Nat} (hp : p ∈ A) (hs0 : s0 ∈ A) (i : Nat) :
    sChoose g p i s0 = sChoose h p i s0 ∧ ∀ sub sa, sChoose h p i s0 = some (sub, sa) → sub ∈ A := by
  constructor
  · unfold sChoose
    rw [kind_ag cl ag hp, kind_ag cl ag hs0, ag.node p hp, lemmaOf_ag cl ag hs0, shouldTry_ag cl ag _ hp,
      kids_ag cl ag hp]
    have hfi : findIdxFrom (fun x => g.isA x sKinds) (List.drop (i + 1) (h.kids p)) (i + 1) =
        findIdxFrom (fun x => h.isA x sKinds) (List.drop (i + 1) (h.kids p)) (i + 1) := by
      apply findIdxFrom_congr
      intro x hx
      rw [isA_ag cl ag (mem_of_kid cl ag hp (List.mem_of_mem_drop hx))]
    rw [hfi]
  · intro sub sa hch
    unfold sChoose at hch
    split at hch
    · split at hch
      · split at hch
        · rename_i j _
          cases hj : (h.kids p)[j]? with
          | none => rw [hj] at hch; simp at hch
          | some sj => rw [hj] at hch; simp at hch; exact hch.1 ▸ mem_of_kid? cl ag hp hj
        · simp at hch
      · simp at hch; exact hch.1 ▸ hs0
    · simp at hch; exact hch.1 ▸ hs0

theorem sCvs_ag {p subject : Nat} (hp : p ∈ A) (hsub : subject ∈ A) : sCvs g p subject = sCvs h p subject := by
  unfold sCvs
  rw [kids_ag cl ag hp, ag.node p hp]
  apply flatMap_congr'
  intro cp hcp
  have hcpA := mem_of_kid cl ag hp hcp
  rw [kind_ag cl ag hcpA, getConst_ag cl ag hcpA, kids_ag cl ag hcpA]
  split
  · apply flatMap_congr'
    intro e he
    have heA := mem_of_kid cl ag hcpA he
    rw [kind_ag cl ag heA, linkPengWithSubject_ag cl ag heA hsub]
    split
    · congr 1
      cases hv : (linkPengWithSubject h e Kind.VP Kind.V subject subject).2 with
      | none => rfl
      | some v =>
        simp only
        have hpe := getFromPath_ag cl ag [([Kind.CP], false)] heA
        rw [hpe.1, linkAttributes_ag cl ag _ (linkPengWithSubject_mem cl ag heA _ _ _ hv) hsub _
          (fun c hc => hpe.2 c hc)]
    · rfl
  · rfl

theorem sCco_ag {p : Nat} (hp : p ∈ A) : sCco g p = sCco h p := by
  unfold sCco
  rw [ag.node p hp, getConst_ag cl ag hp, getConst_ag cl ag hp]
  cases (h.node p).lang with
  | en => rfl
  | fr =>
    simp only
    cases hc1 : h.getConst p [Kind.CP] with
    | none => rfl
    | some cp =>
      cases hc2 : h.getConst p [Kind.SP] with
      | none => rfl
      | some sp =>
        simp only
        have hspA := getConst_mem cl ag hp hc2
        rw [getConst_ag cl ag hspA]
        cases hc3 : h.getConst sp [Kind.Pro] with
        | none => rfl
        | some sppro =>
          simp only
          rw [lemmaOf_ag cl ag (getConst_mem cl ag hspA hc3),
            (getFromPath_ag cl ag [([Kind.VP], true), ([Kind.V], false)] hspA).1]

theorem sAfter_ag {p : Nat} (hp : p ∈ A) (pre : List Act) (ch : Option (Nat × List Act))
    (hch : ∀ sub sa, ch = some (sub, sa) → sub ∈ A) : sAfter g p pre ch = sAfter h p pre ch := by
  cases ch with
  | none => rfl
  | some pr =>
    obtain ⟨subject, sacts⟩ := pr
    have hsub := hch subject sacts rfl
    simp only [sAfter]
    have hpath2 := getFromPath_ag cl ag [([Kind.VP], false), ([Kind.CP], false)] hp
    rw [linkPengWithSubject_ag cl ag hp hsub, ag.node p hp, hpath2.1, sCvs_ag cl ag hp hsub, sCco_ag cl ag hp]
    cases hv : (linkPengWithSubject h p Kind.VP Kind.V subject subject).2 with
    | none => rfl
    | some v =>
      simp only
      rw [linkAttributes_ag cl ag _ (linkPengWithSubject_mem cl ag hp _ _ _ hv) hsub _ (fun c hc => hpath2.2 c hc)]

theorem planS_ag {p : Nat} (hp : p ∈ A) : planS g p = planS h p := by
  rw [planS_unfold, planS_unfold, sImp_ag cl ag hp, sPreL_ag cl ag hp, getIndex_ag cl ag hp, kids_ag cl ag hp]
  split
  · rfl
  · cases hi : h.getIndex p sKinds 0 with
    | none => rfl
    | some iSubj =>
      simp only
      cases hs0 : (h.kids p)[iSubj]? with
      | none => rfl
      | some subject0 =>
        simp only
        have hs0A := mem_of_kid? cl ag hp hs0
        have hc := sChoose_ag cl ag hp hs0A iSubj
        rw [hc.1, sAfter_ag cl ag hp _ _ hc.2]

theorem planPhrase_ag {p : Nat} (hp : p ∈ A) : planPhrase g p = planPhrase h p := by
  unfold planPhrase
  simp only [kids_ag cl ag hp, kind_ag cl ag hp, planNP_ag cl ag hp, planVP_ag cl ag hp, planXP_ag cl ag hp,
    planS_ag cl ag hp]
  have : (h.kids p).any (fun e => (g.kind e).isDep) = (h.kids p).any (fun e => (h.kind e).isDep) := by
    apply any_congr'
    intro e he
    rw [kind_ag cl ag (mem_of_kid cl ag hp he)]
  rw [this]

theorem termKindIs_ag {d : Nat} (hd : d ∈ A) (ks : List Kind) : termKindIs g d ks = termKindIs h d ks := by
  unfold termKindIs
  rw [ag.node d hd]
  cases ht : (h.node d).term with
  | none => rfl
  | some t => simp only; rw [isA_ag cl ag (mem_of_term cl ag hd ht)]

theorem termLemma_ag {d : Nat} (hd : d ∈ A) : termLemma g d = termLemma h d := by
  unfold termLemma
  rw [ag.node d hd]
  cases ht : (h.node d).term with
  | none => rfl
  | some t => simp only; rw [lemmaOf_ag cl ag (mem_of_term cl ag hd ht)]

theorem depFindIndex_ag {p : Nat} (hp : p ∈ A) (tg th : Nat → Bool) (ht : ∀ d ∈ A, tg d = th d) :
    depFindIndex g p tg = depFindIndex h p th := by
  unfold depFindIndex
  rw [kids_ag cl ag hp]
  apply findIdxFrom_congr
  intro d hd
  have hdA := mem_of_kid cl ag hp hd
  rw [kind_ag cl ag hdA, kids_ag cl ag hdA, ht d hdA]
  cases hh : (h.kids d).head? with
  | none => rfl
  | some d0 =>
    simp only
    rw [ht d0 (mem_of_kid cl ag hdA (List.mem_of_mem_head? hh))]

omit cl ag in
/-- the verb branch of a `mod`/`comp` dependent (Dependent.py:147-157), as in `planDepStep` -/
def depVerbActs (h : Heap) (lang : Lang) (p headTerm dep depTerm : Nat) : List Act :=
  let rels := match lang with | .en => relProsEn | .fr => relProsFr
  let iRel := depFindIndex h dep (fun dI => h.isA dI [.subj, .comp, .mod] && termKindIs h dI [.Pro] &&
                                             rels.contains (termLemma h dI))
  let a1 : List Act :=
    match iRel with
    | some i =>
      (match (h.kids dep)[i]? with
       | some dr => if h.kind dr = .subj then [.setPeng true depTerm p] else []
       | none => []) ++
      (match lang with
       | .en => []
       | .fr =>
         [.setCod depTerm headTerm] ++
           (if h.lemmaOf depTerm = s "avoir" then
             match depFindIndex h dep (fun dI => h.kind dI = .comp && termKindIs h dI [.V] &&
                  (match (h.node dI).term with | some t => h.getProp t Heap.tKey == ppVal | none => false)) with
             | some iVerb =>
               match (h.kids dep)[iVerb]? with
               | some dv => (match (h.node dv).term with | some t => [.setCod t headTerm] | none => [])
               | none => []
             | none => []
           else []))
    | none => []
  let a2 : List Act :=
    match lang with
    | .en => []
    | .fr => if h.getProp depTerm Heap.tKey == ppVal then [.setPeng true depTerm p] else []
  a1 ++ a2

omit cl ag in
/-- the attribute branch of a `mod`/`comp` dependent -/
def depAttrActs (h : Heap) (lang : Lang) (p headTerm depTerm : Nat) : List Act :=
  match lang with
  | .en => []
  | .fr =>
    if copulasFr.contains (h.lemmaOf headTerm) then
      match depFindIndex h p (fun d0 => h.kind d0 = .subj && termKindIs h d0 [.N, .Pro]) with
      | some iSubj =>
        match (h.kids p)[iSubj]? with
        | some sd => [.setPeng true depTerm sd]
        | none => []
      | none => []
    else []

omit cl ag in
/-- the `coord` branch -/
def depCoordActs (h : Heap) (p headTerm dep : Nat) : Option (List Act) :=
  match (h.kids dep).head? with
  | none => some ([])
  | some firstDep =>
    if h.kind firstDep = .subj then some ([.setPeng true dep p])
    else if h.kind firstDep = .det then some ([.setPeng true dep headTerm])
    else if h.isA firstDep [.mod, .comp] && termKindIs h firstDep [.V, .A] then
      some ([.setPeng false dep headTerm] ++
        (h.kids dep).flatMap (fun dI =>
          [.setPeng false dI headTerm] ++
            (match (h.node dI).term with
             | some t => [.setPeng false t headTerm]
             | none => [.crash .attributeError])))
    else some ([])

omit cl ag in
def depModActs (h : Heap) (p headTerm dep depTerm : Nat) : Option (List Act) :=
  let lang := (h.node p).lang
  if h.kind depTerm = .A || isPP h depTerm then
    some ([.setPeng false depTerm p] ++ depAttrActs h lang p headTerm depTerm)
  else if h.kind depTerm = .V then some (depVerbActs h lang p headTerm dep depTerm)
  else if h.kind depTerm = .Pro &&
      (match lang with | .en => relPropagateEn | .fr => relPropagateFr).contains (h.lemmaOf depTerm) then none
  else some ([])

omit cl ag in
theorem planDepStep_unfold (h : Heap) (p headTerm dep : Nat) :
    planDepStep h p headTerm dep =
      (match (h.node dep).term with
       | none => none
       | some depTerm =>
         match h.kind dep with
         | .subj => if h.kind headTerm = .V then some [.setPeng true headTerm dep] else some []
         | .det =>
           if h.kind depTerm = .D then
             some ([.setPeng false depTerm p] ++
               (if (h.node p).lang = .en && h.lemmaOf depTerm = s "a" && h.getProp headTerm cntKey == .s (s "no")
                then [.morphoError depTerm] else []))
           else if h.kind depTerm = .NO then
             some ([.setPeng true depTerm headTerm, .writeN true depTerm (h.gramNumber depTerm)])
           else some ([])
         | .mod | .comp => depModActs h p headTerm dep depTerm
         | .root => some ([])
         | .coord => depCoordActs h p headTerm dep
         | _ => none) := by
  rfl

theorem depVerbActs_ag (lang : Lang) {p headTerm dep depTerm : Nat} (hd : dep ∈ A) (hdt : depTerm ∈ A) :
    depVerbActs g lang p headTerm dep depTerm = depVerbActs h lang p headTerm dep depTerm := by
  unfold depVerbActs
  have f2 : ∀ rels : List Str, depFindIndex g dep (fun dI => g.isA dI [Kind.subj, Kind.comp, Kind.mod] &&
        termKindIs g dI [Kind.Pro] && rels.contains (termLemma g dI)) =
      depFindIndex h dep (fun dI => h.isA dI [Kind.subj, Kind.comp, Kind.mod] &&
        termKindIs h dI [Kind.Pro] && rels.contains (termLemma h dI)) :=
    fun rels => depFindIndex_ag cl ag hd _ _ (fun d hdA => by
      simp only [isA_ag cl ag hdA, termKindIs_ag cl ag hdA, termLemma_ag cl ag hdA])
  have f3 : depFindIndex g dep (fun dI => g.kind dI = Kind.comp && termKindIs g dI [Kind.V] &&
        (match (g.node dI).term with | some t => g.getProp t Heap.tKey == ppVal | none => false)) =
      depFindIndex h dep (fun dI => h.kind dI = Kind.comp && termKindIs h dI [Kind.V] &&
        (match (h.node dI).term with | some t => h.getProp t Heap.tKey == ppVal | none => false)) :=
    depFindIndex_ag cl ag hd _ _ (fun d hdA => by
      simp only [kind_ag cl ag hdA, termKindIs_ag cl ag hdA, ag.node d hdA]
      cases ht : (h.node d).term with
      | none => rfl
      | some t => simp only; rw [getProp_ag cl ag (mem_of_term cl ag hdA ht)])
  simp only [f2, f3, kids_ag cl ag hd, lemmaOf_ag cl ag hdt, getProp_ag cl ag hdt]
  congr 1
  cases depFindIndex h dep (fun dI => h.isA dI [Kind.subj, Kind.comp, Kind.mod] && termKindIs h dI [Kind.Pro] &&
      (match lang with | .en => relProsEn | .fr => relProsFr).contains (termLemma h dI)) with
  | none => rfl
  | some i =>
    simp only
    apply append_congr'
    · cases hq : (h.kids dep)[i]? with
      | none => rfl
      | some dr => simp only; rw [kind_ag cl ag (mem_of_kid? cl ag hd hq)]
    · cases lang with
      | en => rfl
      | fr =>
        simp only
        congr 1
        split
        · cases depFindIndex h dep (fun dI => h.kind dI = Kind.comp && termKindIs h dI [Kind.V] &&
              (match (h.node dI).term with | some t => h.getProp t Heap.tKey == ppVal | none => false)) with
          | none => rfl
          | some iVerb =>
            simp only
            cases hq : (h.kids dep)[iVerb]? with
            | none => rfl
            | some dv => simp only; rw [ag.node dv (mem_of_kid? cl ag hd hq)]
        · rfl

theorem depAttrActs_ag (lang : Lang) {p headTerm : Nat} (depTerm : Nat) (hp : p ∈ A) (hh : headTerm ∈ A) :
    depAttrActs g lang p headTerm depTerm = depAttrActs h lang p headTerm depTerm := by
  unfold depAttrActs
  have f1 : depFindIndex g p (fun d0 => g.kind d0 = Kind.subj && termKindIs g d0 [Kind.N, Kind.Pro]) =
      depFindIndex h p (fun d0 => h.kind d0 = Kind.subj && termKindIs h d0 [Kind.N, Kind.Pro]) :=
    depFindIndex_ag cl ag hp _ _ (fun d hdA => by simp only [kind_ag cl ag hdA, termKindIs_ag cl ag hdA])
  rw [f1, lemmaOf_ag cl ag hh, kids_ag cl ag hp]

theorem depCoordActs_ag {p headTerm dep : Nat} (hd : dep ∈ A) :
    depCoordActs g p headTerm dep = depCoordActs h p headTerm dep := by
  unfold depCoordActs
  rw [kids_ag cl ag hd]
  cases hhead : (h.kids dep).head? with
  | none => rfl
  | some firstDep =>
    have hfA := mem_of_kid cl ag hd (List.mem_of_mem_head? hhead)
    simp only [kind_ag cl ag hfA, isA_ag cl ag hfA, termKindIs_ag cl ag hfA]
    have e3 : (h.kids dep).flatMap (fun dI =>
          [Act.setPeng false dI headTerm] ++
            (match (g.node dI).term with
             | some t => [Act.setPeng false t headTerm]
             | none => [Act.crash Crash.attributeError])) =
        (h.kids dep).flatMap (fun dI =>
          [Act.setPeng false dI headTerm] ++
            (match (h.node dI).term with
             | some t => [Act.setPeng false t headTerm]
             | none => [Act.crash Crash.attributeError])) := by
      apply flatMap_congr'
      intro dI hdI
      rw [ag.node dI (mem_of_kid cl ag hd hdI)]
    rw [e3]

theorem depModActs_ag {p headTerm dep depTerm : Nat} (hp : p ∈ A) (hh : headTerm ∈ A) (hd : dep ∈ A)
    (hdt : depTerm ∈ A) : depModActs g p headTerm dep depTerm = depModActs h p headTerm dep depTerm := by
  unfold depModActs
  simp only [ag.node p hp, kind_ag cl ag hdt, isPP_ag cl ag hdt, lemmaOf_ag cl ag hdt,
    depAttrActs_ag cl ag _ depTerm hp hh, depVerbActs_ag cl ag _ hd hdt]

theorem planDepStep_ag {p headTerm dep : Nat} (hp : p ∈ A) (hh : headTerm ∈ A) (hd : dep ∈ A) :
    planDepStep g p headTerm dep = planDepStep h p headTerm dep := by
  rw [planDepStep_unfold, planDepStep_unfold, ag.node dep hd]
  cases hterm : (h.node dep).term with
  | none => rfl
  | some depTerm =>
    have hdt := mem_of_term cl ag hd hterm
    simp only [kind_ag cl ag hd, kind_ag cl ag hh, kind_ag cl ag hdt, lemmaOf_ag cl ag hdt, ag.node p hp,
      getProp_ag cl ag hh, gramNumber_ag cl ag hdt, depModActs_ag cl ag hp hh hd hdt, depCoordActs_ag cl ag hd]

theorem planDepLoop_ag {p headTerm : Nat} (hp : p ∈ A) (hh : headTerm ∈ A) :
    ∀ (l : List Nat), (∀ d ∈ l, d ∈ A) → planDepLoop g p headTerm l = planDepLoop h p headTerm l := by
  intro l
  induction l with
  | nil => intro _; rfl
  | cons d t ih =>
    intro hl
    simp only [planDepLoop]
    rw [planDepStep_ag cl ag hp hh (hl d List.mem_cons_self), ih (fun x hx => hl x (List.mem_cons_of_mem _ hx))]

theorem planDep_ag {p : Nat} (hp : p ∈ A) : planDep g p = planDep h p := by
  unfold planDep
  simp only [kids_ag cl ag hp, ag.node p hp, kind_ag cl ag hp]
  have : (h.kids p).any (fun d => !(g.kind d).isDep) = (h.kids p).any (fun d => !(h.kind d).isDep) := by
    apply any_congr'
    intro e he
    rw [kind_ag cl ag (mem_of_kid cl ag hp he)]
  rw [this]
  cases ht : (h.node p).term with
  | none => rfl
  | some headTerm =>
    simp only
    rw [planDepLoop_ag cl ag hp (mem_of_term cl ag hp ht) _ (fun d hd => mem_of_kid cl ag hp hd)]

/-- **read-locality of `linkProperties`**: the plan of a node of a closed set depends only on the content of the set -/
theorem plan_agree {p : Nat} (hp : p ∈ A) : plan g p = plan h p := by
  unfold plan
  rw [kind_ag cl ag hp, planPhrase_ag cl ag hp, planDep_ag cl ag hp]

end
end Pyrealb.Heap
