import Pyrealb.Lemmas.FormatTags
/-! An executable checker of balanced / properly nested tags and its soundness w.r.t. the grammar `Bal` (for C10). -/
namespace Pyrealb.Format

/-- what a complete tag `<buf>` does to the stack of open tag names; `none` = a closing tag that does not match -/
def tagAct (st : List Str) (buf : Str) : Option (List Str) :=
  match buf with
  | '/' :: n =>
    match st with
    | m :: r => if m = n then some r else none
    | [] => none
  | _ => some (buf.takeWhile (· ≠ ' ') :: st)

/-- scanner: `none` = outside a tag, `some buf` = inside `<…` with the characters read so far -/
def balRun : Option Str → List Str → Str → Bool
  | none, st, [] => st.isEmpty
  | some _, _, [] => false
  | none, st, c :: r =>
    if c = '<' then balRun (some []) st r else if c = '>' then false else balRun none st r
  | some buf, st, c :: r =>
    if c = '>' then
      match tagAct st buf with
      | some st' => balRun none st' r
      | none => false
    else balRun (some (buf ++ [c])) st r

/-- every opening tag is closed by a tag of the same name, innermost first, and nothing is left open -/
def balCheck (x : Str) : Bool := balRun none [] x

theorem balRun_text (x rest : Str) (st : List Str) (h : AngleFree x) :
    balRun none st (x ++ rest) = balRun none st rest := by
  induction x with
  | nil => rfl
  | cons c r ih =>
    obtain ⟨h1, h2, h3⟩ := h.tail
    simp only [List.cons_append, balRun, h1, h2, if_false]
    exact ih h3

theorem balRun_body (body rest buf : Str) (st : List Str) (h : '>' ∉ body) :
    balRun (some buf) st (body ++ '>' :: rest) =
      match tagAct st (buf ++ body) with
      | some st' => balRun none st' rest
      | none => false := by
  induction body generalizing buf with
  | nil => simp [balRun]
  | cons c r ih =>
    have hc : c ≠ '>' := fun e => h (by simp [e])
    have hr : '>' ∉ r := fun e => h (List.mem_cons_of_mem _ e)
    simp only [List.cons_append, balRun, hc, if_false]
    rw [ih _ hr]
    simp

theorem takeWhile_name (n A : Str) (hn : ' ' ∉ n) (hA : A = [] ∨ A.head? = some ' ') :
    (n ++ A).takeWhile (· ≠ ' ') = n := by
  induction n with
  | nil =>
    rcases hA with rfl | hA
    · rfl
    · cases A with
      | nil => rfl
      | cons a r => simp at hA; subst hA; simp [List.takeWhile]
  | cons c r ih =>
    have hc : c ≠ ' ' := fun e => hn (by simp [e])
    have hr : ' ' ∉ r := fun e => hn (List.mem_cons_of_mem _ e)
    rw [List.cons_append, List.takeWhile_cons_of_pos (by simpa using hc), ih hr]

theorem attrs_head (attrs : List (Str × Str)) :
    (attrs.map (fun kv => ' ' :: kv.1 ++ ['=', '"'] ++ kv.2 ++ ['"'])).flatten = [] ∨
    ((attrs.map (fun kv => ' ' :: kv.1 ++ ['=', '"'] ++ kv.2 ++ ['"'])).flatten).head? = some ' ' := by
  cases attrs with
  | nil => left; rfl
  | cons kv r => right; simp

theorem balRun_start (t : Str × List (Str × Str)) (h : TagOK t) (st : List Str) (rest : Str) :
    balRun none st (startTag t.1 t.2 ++ rest) = balRun none (t.1 :: st) rest := by
  obtain ⟨hne, haf, hat, hsp, hsl⟩ := h
  have e : startTag t.1 t.2 ++ rest =
      '<' :: ((t.1 ++ (t.2.map (fun kv => ' ' :: kv.1 ++ ['=', '"'] ++ kv.2 ++ ['"'])).flatten) ++ '>' :: rest) := by
    simp [startTag]
  rw [e]
  simp only [balRun, if_true]
  have hbody := (haf.append (attrs_angleFree t.2 hat)).2
  rw [balRun_body _ _ _ _ hbody]
  simp only [List.nil_append]
  have hta : tagAct st (t.1 ++ (t.2.map (fun kv => ' ' :: kv.1 ++ ['=', '"'] ++ kv.2 ++ ['"'])).flatten) =
      some (t.1 :: st) := by
    cases hn : t.1 with
    | nil => exact absurd hn hne
    | cons c r =>
      have hc : c ≠ '/' := by
        intro e; rw [hn] at hsl; simp [e] at hsl
      have := takeWhile_name t.1 _ hsp (attrs_head t.2)
      rw [hn] at this
      unfold tagAct
      simp only [List.cons_append]
      split
      · rename_i heq; injection heq with h1 _; exact absurd h1 hc
      · exact congrArg (fun z => some (z :: st)) this
  rw [hta]

theorem balRun_end (n : Str) (h : AngleFree n) (st : List Str) (rest : Str) :
    balRun none (n :: st) (endTag n ++ rest) = balRun none st rest := by
  have e : endTag n ++ rest = '<' :: (('/' :: n) ++ '>' :: rest) := by simp [endTag]
  rw [e]
  simp only [balRun, if_true]
  rw [balRun_body _ _ _ _ (AngleFree.cons (by decide) (by decide) h).2]
  simp [tagAct]

/-- well-nested texts leave the stack of open tags as they found it -/
theorem balRun_bal {x : Str} (h : Bal x) : ∀ (st : List Str) (rest : Str),
    balRun none st (x ++ rest) = balRun none st rest := by
  induction h with
  | text haf => intro st rest; exact balRun_text _ _ _ haf
  | @wrap t x ht _ ih =>
    intro st rest
    rw [List.append_assoc, List.append_assoc, balRun_start t ht, ih, balRun_end t.1 ht.2.1]
  | app _ _ ih1 ih2 =>
    intro st rest
    rw [List.append_assoc, ih1, ih2]

theorem balCheck_of_bal {x : Str} (h : Bal x) : balCheck x = true := by
  have := balRun_bal h [] []
  simpa [balCheck, balRun] using this

end Pyrealb.Format
