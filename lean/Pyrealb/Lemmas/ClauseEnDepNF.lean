import Pyrealb.Lemmas.ClauseEnDep
import Pyrealb.Lemmas.ClauseEnPhNF
/-! Normal form of `realizeDepW`: the tokens of the clause proper are the declarative linearisation. -/
namespace Pyrealb.ClauseEn
set_option linter.unusedSimpArgs false

/-- tokens (agreement resolved) of a list of dependents, the tag left out -/
def mainToks (a : Agr) (nodes : List DNode) : List Tok :=
  (((nodes.map grpOfNode).map (fun g => { g with toks := g.toks.map (Tok.resolve a) })).filter
      (fun g => g.kind != .tag)).flatMap (·.toks)

theorem mainToks_nil (a : Agr) : mainToks a [] = [] := rfl

theorem mainToks_append (a : Agr) (l1 l2 : List DNode) : mainToks a (l1 ++ l2) = mainToks a l1 ++ mainToks a l2 := by
  simp [mainToks, List.map_append, List.filter_append, List.flatMap_append]

theorem mainToks_cons (a : Agr) (d : DNode) (l : List DNode) : mainToks a (d :: l) = mainToks a [d] ++ mainToks a l := by
  rw [← mainToks_append]; rfl

theorem mainToks_pps (a : Agr) (ql : List (Str × ArgTok)) : mainToks a (ql.map dPP) = (ppToks ql).map (Tok.resolve a) := by
  induction ql with
  | nil => rfl
  | cons pa r ih =>
    rw [List.map_cons, mainToks_cons, ih]
    simp [mainToks, grpOfNode, dPP, ppToks, Tok.resolve]

theorem mainToks_pres (a : Agr) (ws : List Tok) : mainToks a (ws.map dPre) = ws.map (Tok.resolve a) := by
  induction ws with
  | nil => rfl
  | cons w r ih =>
    rw [List.map_cons, mainToks_cons, ih]
    simp [mainToks, grpOfNode, dPre]

theorem mainToks_subj (a : Agr) (x : ArgTok) (pp cm : Bool) :
    mainToks a [⟨.subj, .arg x, pp, cm⟩] = [.arg x] := by
  simp [mainToks, grpOfNode, Tok.resolve]

theorem mainToks_obj (a : Agr) (x : ArgTok) : mainToks a [dObj x] = [.arg x] := by
  simp [mainToks, grpOfNode, dObj, Tok.resolve]

theorem mainToks_it (a : Agr) : mainToks a [dIt] = [.arg .it] := by
  simp [mainToks, grpOfNode, dIt, Tok.resolve]

theorem mainToks_pre (a : Agr) (t : Tok) : mainToks a [dPre t] = [Tok.resolve a t] := by
  simp [mainToks, grpOfNode, dPre]

theorem mainToks_preq (a : Agr) (x : Str) : mainToks a [⟨.pre, .word (.q x), false, false⟩] = [.q x] := by
  simp [mainToks, grpOfNode, Tok.resolve]

theorem mainToks_preit (a : Agr) : mainToks a [⟨.pre, .arg .it, false, false⟩] = [.arg .it] := by
  simp [mainToks, grpOfNode, Tok.resolve]

theorem mainToks_tag (a : Agr) (ts : List Tok) (r : DRel) (pp cm : Bool) : mainToks a [⟨r, .tag ts, pp, cm⟩] = [] := by
  simp [mainToks, grpOfNode]

theorem mainToks_optObj (a : Agr) (o : Option ArgTok) : mainToks a (optL dObj o) = objToks o := by
  cases o <;> simp [optL, objToks, mainToks_obj, mainToks_nil]

/-- the tokens of the clause proper of a dependency state -/
theorem dep_main (a : Agr) (st : DState) (w : Nat) :
    ({ grps := (grpsDep st).map (fun g => { g with toks := g.toks.map (Tok.resolve a) }), warn := w, agr := a } : Out).main
      = mainToks a (st.deps.filter (·.isPre))
        ++ (match st.term with | .tok t => [Tok.resolve a t] | .v0 => [])
        ++ mainToks a (st.deps.filter (fun d => !d.isPre)) := by
  cases hterm : st.term <;>
  simp [Out.main, grpsDep, mainToks, hterm, List.map_append, List.filter_append, List.flatMap_append]

/-- putting a comma on a dependent changes no token and no position -/
theorem mainToks_setComma (a : Agr) (l : List DNode) (k : Nat) (p : DNode → Bool)
    (hp : ∀ d : DNode, p { d with comma := true } = p d) :
    mainToks a ((setAt l k { (l[k]?.getD default) with comma := true }).filter p) = mainToks a (l.filter p) := by
  induction l generalizing k with
  | nil => rfl
  | cons x r ih =>
    cases k with
    | zero =>
      simp only [setAt, List.getElem?_cons_zero, Option.getD_some, List.filter_cons, hp]
      split
      · rw [mainToks_cons, mainToks_cons a x]
        congr 1
        cases x with
        | mk rel head pp cm => cases head <;> simp [mainToks, grpOfNode]
      · rfl
    | succ k =>
      simp only [setAt, List.getElem?_cons_succ, List.filter_cons]
      split
      · rw [mainToks_cons, mainToks_cons a x (List.filter p r), ih]
      · exact ih k

theorem isPre_setComma (d : DNode) : ({ d with comma := true } : DNode).isPre = d.isPre := rfl
theorem notPre_setComma (d : DNode) : (!({ d with comma := true } : DNode).isPre) = !d.isPre := rfl

@[simp] theorem filter_pre_pps (ql : List (Str × ArgTok)) : (ql.map dPP).filter (·.isPre) = [] := by
  induction ql with
  | nil => rfl
  | cons x r ih => simp only [List.map_cons, List.filter_cons, dPP_isPre, ih]; rfl
@[simp] theorem filter_post_pps (ql : List (Str × ArgTok)) : (ql.map dPP).filter (fun d => !d.isPre) = ql.map dPP := by
  induction ql with
  | nil => rfl
  | cons x r ih => simp only [List.map_cons, List.filter_cons, dPP_isPre, ih]; rfl
@[simp] theorem filter_pre_words (ws : List Tok) : (ws.map dPre).filter (·.isPre) = ws.map dPre := by
  induction ws with
  | nil => rfl
  | cons x r ih => simp only [List.map_cons, List.filter_cons, dPre_isPre, ih]; rfl
@[simp] theorem filter_post_words (ws : List Tok) : (ws.map dPre).filter (fun d => !d.isPre) = [] := by
  induction ws with
  | nil => rfl
  | cons x r ih => simp only [List.map_cons, List.filter_cons, dPre_isPre, ih]; rfl
@[simp] theorem filter_pre_optObj (o : Option ArgTok) : (optL dObj o).filter (·.isPre) = [] := by
  cases o <;> simp [optL]
@[simp] theorem filter_post_optObj (o : Option ArgTok) : (optL dObj o).filter (fun d => !d.isPre) = optL dObj o := by
  cases o <;> simp [optL]

end Pyrealb.ClauseEn

namespace Pyrealb.ClauseEn
set_option linter.unusedSimpArgs false

/-- the rest of `Dependent.processTyp` + `real` once the verb has been replaced by its words -/
def finishDep (ty : Typ) (st2 : DState) : Except Crash Out := do
  let st3 ← match ty.int with
    | some i => processIntDep ty i st2
    | none => pure st2
  pure { grps := (grpsDep st3).map (fun g => { g with toks := g.toks.map (Tok.resolve st3.agr) }), warn := st3.warn,
         agr := st3.agr }

theorem realizeDepW_eq (sp : Spec) (ty : Typ) (init : List Tok) (last : Tok) :
    realizeDepW sp ty (init ++ [last]) = finishDep ty (dstOf (midDep sp ty.pas) init last) := by
  simp only [realizeDepW, mid_state_dep]
  rfl

@[simp] theorem isPre_mk (r : DRel) (h : DHead) (pp cm : Bool) :
    (DNode.mk r h pp cm).isPre = (!pp && (r == .subj || r == .pre)) := rfl

/-- the tag question changes neither the tokens of the clause proper, nor the terminal, nor the agreement record -/
theorem tag_preserves (a : Agr) (ty : Typ) (st : DState) :
    mainToks a ((tagQuestionDep ty st).deps.filter (·.isPre)) = mainToks a (st.deps.filter (·.isPre)) ∧
    mainToks a ((tagQuestionDep ty st).deps.filter (fun d => !d.isPre)) = mainToks a (st.deps.filter (fun d => !d.isPre)) ∧
    (tagQuestionDep ty st).term = st.term ∧ (tagQuestionDep ty st).agr = st.agr := by
  unfold tagQuestionDep
  simp only
  have h1 := fun l k => mainToks_setComma a l k (fun d => d.isPre) isPre_setComma
  have h2 := fun l k => mainToks_setComma a l k (fun d => !d.isPre) notPre_setComma
  split <;> (try split) <;>
  simp [List.filter_append, mainToks_append, mainToks_tag, mainToks_nil, h1, h2]

end Pyrealb.ClauseEn

namespace Pyrealb.ClauseEn
set_option linter.unusedSimpArgs false

/-- what the dependency pipeline must produce for a clause with a `subj` dependent -/
def DepPlainOK (ty : Typ) (sj : ArgTok) (obj : Option ArgTok) (ql : List (Str × ArgTok)) (init : List Tok) (last : Tok)
    (agr : Agr) (g : Gender) : Prop :=
  match linDepPlain sj obj ql ty.int (init ++ [last]) with
  | some L => ∃ out, finishDep ty (plainSt sj obj ql init last agr g) = .ok out ∧
      out.main = L.map (Tok.resolve out.agr) ∧ out.agr = agrDepPlain agr ty.int (init ++ [last])
  | none => finishDep ty (plainSt sj obj ql init last agr g) = .error .attributeError

theorem fi_pre_ql (ql : List (Str × ArgTok)) (n : DNode) (hn : n.rel = .pre) (R : List DNode) :
    findIdx (fun d : DNode => d.rel == .pre) (ql.map dPP ++ n :: R) = some ql.length := by
  rw [findIdx_append_of_none _ _ _ (by intro x hx; obtain ⟨y, _, rfl⟩ := List.mem_map.mp hx; rfl)]
  simp [findIdx, hn]

theorem fi_pre_ql_nil (ql : List (Str × ArgTok)) :
    findIdx (fun d : DNode => d.rel == .pre) (ql.map dPP) = none :=
  findIdx_map_none _ _ _ (fun _ => rfl)

theorem fi_subj_ql (ql : List (Str × ArgTok)) (R : List DNode) (hR : findIdx (fun d : DNode => d.rel == .subj) R = none) :
    findIdx (fun d : DNode => d.rel == .subj) (ql.map dPP ++ R) = none := by
  rw [findIdx_append_of_none _ _ _ (by intro x hx; obtain ⟨y, _, rfl⟩ := List.mem_map.mp hx; rfl), hR]; rfl

theorem fi_subj_words (ws : List Tok) : findIdx (fun d : DNode => d.rel == .subj) (ws.map dPre) = none :=
  findIdx_map_none _ _ _ (fun _ => rfl)

theorem fi_obj_ql_words (ql : List (Str × ArgTok)) (ws : List Tok) :
    findIdx (fun d : DNode => d.rel == .comp && isNPPro d.head.ct) (ql.map dPP ++ ws.map dPre) = none := by
  apply findIdx_none_of_forall
  intro x hx
  rcases List.mem_append.mp hx with h | h
  · obtain ⟨y, _, rfl⟩ := List.mem_map.mp h; rfl
  · obtain ⟨y, _, rfl⟩ := List.mem_map.mp h; rfl

theorem any_pp_words (ws : List Tok) (hw : ws.all Tok.isWord = true) :
    (ws.map dPre).any (fun d => (d.rel == .comp || d.rel == .mod) && d.head.ct == .P) = false := by
  rw [List.any_eq_false]
  intro x hx
  obtain ⟨y, _, rfl⟩ := List.mem_map.mp hx
  simp [dPre]

theorem findPPDep_words (i : Int) (ws : List Tok) (k : Nat) : findPPDep i (ws.map dPre) k = none := by
  induction ws generalizing k with
  | nil => rfl
  | cons w r ih => simp [findPPDep, dPre, ih]

theorem getD_words {α β} (f : α → β) (l : List α) (a : β) (R : List β) (d : β) :
    ((l.map f ++ a :: R)[l.length]?).getD d = a := by
  rw [getElem?_words]; rfl

end Pyrealb.ClauseEn
