import Pyrealb.Lemmas.HeapCloneFrame
import Pyrealb.Lemmas.HeapHist
/-! # The frame of every modelled operation

For a set `D` of nodes closed under the references of the object graph that contains the receiver (and the child, for
`add`): `linkProperties` runs, the re-linking of the ancestors, insertion and adjective re-ordering, `setProp` / option
methods, `typ` write only inside `D` and leave `D` closed. -/
namespace Pyrealb.Heap
open Pyrealb

/-- `Frame` together with the preservation of closedness -/
def Good (D : List Nat) (h h' : Heap) : Prop := Frame D h h' ∧ Closed h' D

theorem Good.trans {D : List Nat} {h0 h1 h2 : Heap} (a : Good D h0 h1) (b : Good D h1 h2) : Good D h0 h2 :=
  ⟨a.1.trans b.1, b.2⟩

/-! ### the closure is the least closed set -/

theorem closureLoop_sub (D : List Nat) (h : Heap) (cl : Closed h D) :
    ∀ (fuel : Nat) (S S' : List Nat), (∀ y ∈ S, y ∈ D) → closureLoop fuel h S = some S' → ∀ y ∈ S', y ∈ D := by
  intro fuel
  induction fuel with
  | zero =>
    intro S S' hS hr
    simp only [closureLoop] at hr
    split at hr
    · simp only [Option.some.injEq] at hr; subst hr; exact hS
    · simp at hr
  | succ f ih =>
    intro S S' hS hr
    simp only [closureLoop] at hr
    split at hr
    · simp only [Option.some.injEq] at hr; subst hr; exact hS
    · apply ih _ S' _ hr
      intro y hy
      rcases List.mem_append.mp hy with hy | hy
      · exact hS y hy
      · have := (List.mem_filter.mp hy).1
        obtain ⟨x, hx, hxy⟩ := List.mem_flatMap.mp this
        exact (cl x (hS x hx)).2 y hxy

theorem closure_spec (h : Heap) (x : Nat) (C : List Nat) (hc : closure h x = some C) :
    Closed h C ∧ x ∈ C ∧ C.Nodup ∧ ∀ D, Closed h D → x ∈ D → ∀ y ∈ C, y ∈ D := by
  unfold closure at hc
  cases hl : closureLoop h.n h [x] with
  | none => rw [hl] at hc; simp at hc
  | some S =>
    rw [hl] at hc
    simp only at hc
    split at hc
    · rename_i hcond
      simp only [Option.some.injEq] at hc
      subst hc
      simp only [Bool.and_eq_true] at hcond
      refine ⟨(closedB_iff _ _).mp hcond.1, by simpa using hcond.2, List.filter_sublist.nodup List.nodup_range, ?_⟩
      intro D cl hx y hy
      have hyS : y ∈ S := by simpa using (List.mem_filter.mp hy).2
      exact closureLoop_sub D h cl h.n [x] S (by simpa using hx) hl y hyS
    · simp at hc

/-! ### link runs -/

theorem linkR_good (D : List Nat) (h h' : Heap) (p : Nat) (cl : Closed h D) (hp : p ∈ D) (hr : linkR h p = .ok h') :
    Good D h h' := by
  obtain ⟨P, _, hloc, hx⟩ := linkR_local h p h' hr
  unfold planLocal at hloc
  cases hc : closure h p with
  | none => simp [hc] at hloc
  | some C =>
    simp only [hc, List.all_eq_true] at hloc
    obtain ⟨_, _, _, hmin⟩ := closure_spec h p C hc
    apply exec_frame D P h h' _ hx cl
    intro a ha y hy
    have := hloc a ha y hy
    exact hmin D cl hp y (by simpa using this)

theorem relinkUp_good (D : List Nat) : ∀ (fuel : Nat) (h h' : Heap) (x : Nat), Closed h D → x ∈ D →
    relinkUp fuel h x = .ok h' → Good D h h' := by
  intro fuel
  induction fuel with
  | zero => intro h h' x _ _ hr; simp [relinkUp] at hr
  | succ f ih =>
    intro h h' x cl hx hr
    simp only [relinkUp] at hr
    cases hpar : (h.node x).parent with
    | none => rw [hpar] at hr; simp only [R.ok.injEq] at hr; subst hr; exact ⟨Frame.refl _ _, cl⟩
    | some q =>
      rw [hpar] at hr
      simp only at hr
      have hq : q ∈ D := (cl x hx).2 q (by simp [nbrs, hpar])
      cases hl : linkR h q with
      | crash c => rw [hl] at hr; simp at hr
      | outside => rw [hl] at hr; simp at hr
      | ok h1 =>
        rw [hl] at hr
        have g1 := linkR_good D h h1 q cl hq hl
        exact g1.trans (ih h1 h' q g1.2 hq hr)

/-! ### structural updates -/

theorem closed_setNode (D : List Nat) (h : Heap) (x : Nat) (nd : Node) (cl : Closed h D)
    (hk : ∀ y ∈ nd.kids, y ∈ D) (ht : ∀ y ∈ nd.term.toList, y ∈ D) (hpa : ∀ y ∈ nd.parent.toList, y ∈ D) :
    Closed (h.setNode x nd) D := by
  intro z hz
  obtain ⟨h1, h2⟩ := cl z hz
  refine ⟨h1, ?_⟩
  intro w hw
  by_cases e : z = x
  · subst e
    simp only [nbrs, Heap.kids, Heap.setNode, upd_same, List.mem_append] at hw h2 ⊢
    rcases hw with ((((hw | hw) | hw) | hw) | hw)
    · exact hk w hw
    · exact ht w hw
    · exact hpa w hw
    · exact h2 w (Or.inl (Or.inr hw))
    · exact h2 w (Or.inr hw)
  · apply h2
    have : nbrs (h.setNode x nd) z = nbrs h z := by simp [nbrs, Heap.kids, Heap.setNode, upd, e]
    rwa [this] at hw

theorem kids_sub (D : List Nat) (h : Heap) (p : Nat) (cl : Closed h D) (hp : p ∈ D) : ∀ y ∈ h.kids p, y ∈ D := by
  intro y hy
  exact (cl p hp).2 y (by simp [nbrs, hy])

theorem term_sub (D : List Nat) (h : Heap) (p : Nat) (cl : Closed h D) (hp : p ∈ D) :
    ∀ y ∈ (h.node p).term.toList, y ∈ D := by
  intro y hy
  exact (cl p hp).2 y (by simp only [nbrs, List.mem_append]; exact Or.inl (Or.inl (Or.inl (Or.inr hy))))

theorem parent_sub (D : List Nat) (h : Heap) (p : Nat) (cl : Closed h D) (hp : p ∈ D) :
    ∀ y ∈ (h.node p).parent.toList, y ∈ D := by
  intro y hy
  exact (cl p hp).2 y (by simp only [nbrs, List.mem_append]; exact Or.inl (Or.inl (Or.inr hy)))

theorem setKids_good (D : List Nat) (h : Heap) (p : Nat) (l : List Nat) (cl : Closed h D) (hp : p ∈ D)
    (hl : ∀ y ∈ l, y ∈ D) : Good D h (setKids h p l) :=
  ⟨frame_setNode D h p _ hp, closed_setNode D h p _ cl hl (term_sub D h p cl hp) (parent_sub D h p cl hp)⟩

theorem setParent_good (D : List Nat) (h : Heap) (x : Nat) (q : Option Nat) (cl : Closed h D) (hx : x ∈ D)
    (hq : ∀ y ∈ q.toList, y ∈ D) : Good D h (setParent h x q) :=
  ⟨frame_setNode D h x _ hx, closed_setNode D h x _ cl (kids_sub D h x cl hx) (term_sub D h x cl hx) hq⟩

theorem warn_good (D : List Nat) (h : Heap) (k : Nat) (cl : Closed h D) : Good D h (h.warn k) := by
  refine ⟨frame_warn D h k, ?_⟩
  intro z hz
  obtain ⟨h1, h2⟩ := cl z hz
  exact ⟨h1, by simpa [nbrs, Heap.kids, Heap.warn] using h2⟩

theorem addElement_good (D : List Nat) (h : Heap) (p e : Nat) (pos : Option Int) (cl : Closed h D) (hp : p ∈ D)
    (he : e ∈ D) : Good D h (addElement h p e pos) := by
  unfold addElement
  have g1 := setParent_good D h e (some p) cl he (by simpa using hp)
  have hk1 : ∀ y ∈ (setParent h e (some p)).kids p, y ∈ D := kids_sub D _ p g1.2 hp
  cases pos with
  | none =>
    simp only
    exact g1.trans (setKids_good D _ p _ g1.2 hp (by
      intro y hy; rcases List.mem_append.mp hy with hy | hy
      · exact hk1 y hy
      · simp at hy; subst hy; exact he))
  | some i =>
    simp only
    split
    · exact g1.trans (setKids_good D _ p _ g1.2 hp (by
        intro y hy
        simp only [insertAt, List.mem_append, List.mem_cons] at hy
        rcases hy with hy | hy | hy
        · exact hk1 y (List.mem_of_mem_take hy)
        · subst hy; exact he
        · exact hk1 y (List.mem_of_mem_drop hy)))
    · exact g1.trans (warn_good D _ 1 g1.2)

theorem removeElement_good (D : List Nat) (h : Heap) (p i : Nat) (cl : Closed h D) (hp : p ∈ D) :
    Good D h (removeElement h p i).1 ∧ ∀ e, (removeElement h p i).2 = some e → e ∈ D := by
  simp only [removeElement]
  cases hg : (h.kids p)[i]? with
  | none => exact ⟨warn_good D h 1 cl, by simp⟩
  | some e =>
    have he : e ∈ D := kids_sub D h p cl hp e (List.mem_of_getElem? hg)
    have g1 := setKids_good D h p ((h.kids p).eraseIdx i) cl hp
      (fun y hy => kids_sub D h p cl hp y ((List.eraseIdx_sublist _ _).subset hy))
    exact ⟨g1.trans (setParent_good D _ e none g1.2 he (by simp)), by simp [he]⟩

theorem moveElement_good (D : List Nat) (h : Heap) (p i idx : Nat) (cl : Closed h D) (hp : p ∈ D) :
    Good D h (moveElement h p i idx) := by
  obtain ⟨g1, he⟩ := removeElement_good D h p i cl hp
  unfold moveElement
  cases hr : removeElement h p i with
  | mk h1 o =>
    rw [hr] at g1 he
    cases o with
    | none => exact g1
    | some e1 => exact g1.trans (addElement_good D h1 p e1 _ g1.2 hp (he e1 rfl))

theorem reorderStep_good (D : List Nat) (h : Heap) (p i : Nat) (cl : Closed h D) (hp : p ∈ D) :
    Good D h (reorderStep h p i) := by
  have r : Good D h h := ⟨Frame.refl _ _, cl⟩
  unfold reorderStep
  repeat' split
  all_goals (try dsimp only)
  all_goals (repeat' split)
  all_goals first
    | exact r
    | exact moveElement_good D h p i _ cl hp

theorem reorderLoop_good (D : List Nat) (p : Nat) (hp : p ∈ D) : ∀ (l : List Nat) (h : Heap), Closed h D →
    Good D h (reorderLoop h p l) := by
  intro l
  induction l with
  | nil => intro h cl; exact ⟨Frame.refl _ _, cl⟩
  | cons i is ih =>
    intro h cl
    have g1 := reorderStep_good D h p i cl hp
    exact g1.trans (ih _ g1.2)

theorem reorder_good (D : List Nat) (h : Heap) (p : Nat) (cl : Closed h D) (hp : p ∈ D) : Good D h (reorder h p) :=
  reorderLoop_good D p hp _ h cl

/-! ### `add` of a node -/

theorem phraseAdd1_good (D : List Nat) (h h' : Heap) (p e : Nat) (pos : Option Int) (cl : Closed h D) (hp : p ∈ D)
    (he : e ∈ D) (hr : phraseAdd1 h p e pos = .ok h') : Good D h h' := by
  unfold phraseAdd1 at hr
  have g0 := setParent_good D h e (some p) cl he (by simpa using hp)
  have g1 := g0.trans (addElement_good D _ p e pos g0.2 hp he)
  cases hl : linkR (addElement (setParent h e (some p)) p e pos) p with
  | crash c => rw [hl] at hr; simp at hr
  | outside => rw [hl] at hr; simp at hr
  | ok h2 =>
    rw [hl] at hr
    simp only at hr
    have g2 := g1.trans (linkR_good D _ h2 p g1.2 hp hl)
    cases hu : relinkUp (h2.n + 1) h2 p with
    | crash c => rw [hu] at hr; simp at hr
    | outside => rw [hu] at hr; simp at hr
    | ok h3 =>
      rw [hu] at hr
      simp only [R.ok.injEq] at hr
      subst hr
      have g3 := g2.trans (relinkUp_good D _ h2 h3 p g2.2 hp hu)
      exact g3.trans (reorder_good D h3 p g3.2 hp)

theorem depAddNode_good (D : List Nat) (h h' : Heap) (p d : Nat) (pos : Option Int) (cl : Closed h D) (hp : p ∈ D)
    (hd : d ∈ D) (hr : depAdd h p pos (.item (.node d)) = .ok h') : Good D h h' := by
  simp only [depAdd] at hr
  split at hr
  · have g1 := addElement_good D h p d pos cl hp hd
    cases hl : linkR (addElement h p d pos) p with
    | crash c => rw [hl] at hr; simp at hr
    | outside => rw [hl] at hr; simp at hr
    | ok h2 =>
      rw [hl] at hr
      simp only at hr
      have g2 := g1.trans (linkR_good D _ h2 p g1.2 hp hl)
      exact g2.trans (relinkUp_good D _ h2 h' p g2.2 hp hr)
  · simp only [R.ok.injEq] at hr; subst hr; exact warn_good D h 1 cl

/-! ### options and `typ` -/

theorem frame_prec (D : List Nat) (h : Heap) (r : Nat) (c : PRec) (hr : RecOf h D r) :
    Frame D h { h with prec := upd h.prec r c } := by
  refine ⟨rfl, fun _ _ => rfl, fun _ _ => rfl, fun _ _ => rfl, fun _ _ => rfl, fun _ _ => rfl, Nat.le_refl _, Nat.le_refl _,
          fun _ x => Or.inl x, fun _ x => x, ?_, fun _ _ => rfl⟩
  intro r' hn _
  have : r' ≠ r := fun e => hn (e ▸ hr)
  simp [upd, this]

theorem frame_trec (D : List Nat) (h : Heap) (r : Nat) (c : TRec) (hr : TRecOf h D r) :
    Frame D h { h with trec := upd h.trec r c } := by
  refine ⟨rfl, fun _ _ => rfl, fun _ _ => rfl, fun _ _ => rfl, fun _ _ => rfl, fun _ _ => rfl, Nat.le_refl _, Nat.le_refl _,
          fun _ x => Or.inl x, fun _ x => x, fun _ _ _ => rfl, ?_⟩
  intro r' hn
  have : r' ≠ r := fun e => hn (e ▸ hr)
  simp [upd, this]

theorem closed_same_graph (D : List Nat) (h t : Heap) (cl : Closed h D) (hn : t.n = h.n) (hnode : t.node = h.node)
    (hc : t.cod = h.cod) (hs : t.subject = h.subject) : Closed t D := by
  intro x hx
  obtain ⟨h1, h2⟩ := cl x hx
  refine ⟨by omega, ?_⟩
  rw [nbrs_congr h t x (by rw [hnode]) (by rw [hnode]) (by rw [hnode]) (by rw [hc]) (by rw [hs])]
  exact h2

theorem writePeng_good (D : List Nat) (h : Heap) (x : Nat) (k : Str) (v : Val) (cl : Closed h D) (hx : x ∈ D) :
    Good D h (h.writePeng x k v) := by
  unfold Heap.writePeng
  split
  · cases hq : h.peng x with
    | none => exact ⟨Frame.refl _ _, cl⟩
    | some r => exact ⟨frame_prec D h r _ ⟨x, hx, hq⟩, closed_same_graph D h _ cl rfl rfl rfl rfl⟩
  · exact ⟨Frame.refl _ _, cl⟩

theorem writeTaux_good (D : List Nat) (h : Heap) (x : Nat) (k : Str) (v : Val) (cl : Closed h D) (hx : x ∈ D) :
    Good D h (h.writeTaux x k v) := by
  unfold Heap.writeTaux
  split
  · cases hq : h.taux x with
    | none => exact ⟨Frame.refl _ _, cl⟩
    | some r => exact ⟨frame_trec D h r _ ⟨x, hx, hq⟩, closed_same_graph D h _ cl rfl rfl rfl rfl⟩
  · exact ⟨Frame.refl _ _, cl⟩

theorem setProp_good (D : List Nat) (h : Heap) (x : Nat) (k : Str) (v : Val) (cl : Closed h D) (hx : x ∈ D) :
    Good D h (h.setProp x k v) := by
  unfold Heap.setProp
  have g1 := writePeng_good D h x k v cl hx
  have g2 := g1.trans (writeTaux_good D _ x k v g1.2 hx)
  exact g2.trans ⟨frame_setNode D _ x _ hx,
    closed_setNode D _ x _ g2.2 (kids_sub D _ x g2.2 hx) (term_sub D _ x g2.2 hx) (parent_sub D _ x g2.2 hx)⟩

theorem typOp_good (D : List Nat) (h : Heap) (x : Nat) (arg : Typ.Arg) (cl : Closed h D) (hx : x ∈ D) :
    Good D h (typOp h x arg) := by
  unfold typOp
  have g1 : Good D h (h.setNode x { h.node x with typ := (Typ.typ (h.node x).lang (typReceiverOk (h.node x).kind) (h.node x).typ arg).stored }) :=
    ⟨frame_setNode D h x _ hx, closed_setNode D h x _ cl (kids_sub D h x cl hx) (term_sub D h x cl hx) (parent_sub D h x cl hx)⟩
  exact g1.trans (warn_good D _ _ g1.2)

theorem foldl_good (D : List Nat) (f : Heap → Nat → Heap) (l : List Nat)
    (hf : ∀ acc e, Closed acc D → e ∈ l → Good D acc (f acc e)) : ∀ (h : Heap), Closed h D → Good D h (l.foldl f h) := by
  induction l with
  | nil => intro h cl; exact ⟨Frame.refl _ _, cl⟩
  | cons e es ih =>
    intro h cl
    have g1 := hf h e cl List.mem_cons_self
    simp only [List.foldl_cons]
    exact g1.trans (ih (fun acc e' c m => hf acc e' c (List.mem_cons_of_mem _ m)) _ g1.2)

theorem optRun_good (D : List Nat) (sp : OptSpec) (val : Val) : ∀ (fuel : Nat) (h : Heap) (x : Nat), Closed h D → x ∈ D →
    Good D h (optRun sp val fuel h x) := by
  intro fuel
  induction fuel with
  | zero => intro h x cl _; exact ⟨Frame.refl _ _, cl⟩
  | succ f ih =>
    intro h x cl hx
    simp only [optRun]
    split
    · exact warn_good D h 1 cl
    · split
      · -- a CP: propagation to the elements
        have hk := kids_sub D h x cl hx
        apply foldl_good D _ (h.kids x) _ h cl
        intro acc e cacc he
        split
        · exact ih acc e cacc (hk e he)
        · exact ⟨Frame.refl _ _, cacc⟩
      · split
        · -- a coord: propagation to the terminals of the dependents
          have hk := kids_sub D h x cl hx
          apply foldl_good D _ (h.kids x) _ h cl
          intro acc d cacc hd
          cases ht : (acc.node d).term with
          | none => simp only; exact ⟨Frame.refl _ _, cacc⟩
          | some t =>
            simp only
            have htD : t ∈ D := term_sub D acc d cacc (hk d hd) t (by simp [ht])
            split
            · exact ih acc t cacc htD
            · exact ⟨Frame.refl _ _, cacc⟩
        · split
          · split
            · exact setProp_good D h x _ _ cl hx
            · split
              · split
                · have g1 := warn_good D h 1 cl
                  exact g1.trans (setProp_good D _ x _ _ g1.2 hx)
                · exact warn_good D h 1 cl
              · exact setProp_good D h x _ _ cl hx
          · exact warn_good D h 1 cl

end Pyrealb.Heap
