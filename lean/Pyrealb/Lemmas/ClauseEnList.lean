import Pyrealb.Lemmas.ClauseEnVG2
/-! List lemmas for the clause-level transformations (Python list operations on the children of S / VP / root). -/
namespace Pyrealb.ClauseEn

theorem findIdx_nil {α} (p : α → Bool) : findIdx p [] = none := rfl

theorem findIdx_cons_true {α} (p : α → Bool) (a : α) (r : List α) (h : p a = true) : findIdx p (a :: r) = some 0 := by
  simp [findIdx, h]

theorem findIdx_cons_false {α} (p : α → Bool) (a : α) (r : List α) (h : p a = false) :
    findIdx p (a :: r) = (findIdx p r).map (· + 1) := by
  simp [findIdx, h]

theorem findIdx_none_of_forall {α} (p : α → Bool) (l : List α) (h : ∀ x ∈ l, p x = false) : findIdx p l = none := by
  induction l with
  | nil => rfl
  | cons a r ih =>
    rw [findIdx_cons_false p a r (h a (by simp)), ih (fun x hx => h x (by simp [hx]))]
    rfl

theorem findIdx_map_none {α β} (p : β → Bool) (f : α → β) (l : List α) (h : ∀ x, p (f x) = false) :
    findIdx p (l.map f) = none :=
  findIdx_none_of_forall p _ (by intro y hy; obtain ⟨x, _, rfl⟩ := List.mem_map.mp hy; exact h x)

theorem findIdx_append_of_none {α} (p : α → Bool) (l1 l2 : List α) (h : ∀ x ∈ l1, p x = false) :
    findIdx p (l1 ++ l2) = (findIdx p l2).map (· + l1.length) := by
  induction l1 with
  | nil => cases h2 : findIdx p l2 <;> simp [h2]
  | cons a r ih =>
    rw [List.cons_append, findIdx_cons_false p a _ (h a (by simp)), ih (fun x hx => h x (by simp [hx]))]
    cases h2 : findIdx p l2 <;> simp [Nat.add_assoc]

theorem removeAt_zero {α} (a : α) (r : List α) : removeAt (a :: r) 0 = r := rfl

theorem removeAt_append_length {α} (l1 l2 : List α) (k : Nat) :
    removeAt (l1 ++ l2) (k + l1.length) = l1 ++ removeAt l2 k := by
  induction l1 with
  | nil => simp
  | cons a r ih => simp [removeAt, ← Nat.add_assoc, ih]

theorem getElem?_append_length {α} (l1 l2 : List α) (k : Nat) :
    (l1 ++ l2)[k + l1.length]? = l2[k]? := by
  induction l1 with
  | nil => simp
  | cons a r ih => simp [← Nat.add_assoc, ih]

theorem getD_append_length {α} (l1 l2 : List α) (k : Nat) (d : α) :
    (l1 ++ l2).getD (k + l1.length) d = l2.getD k d := by
  simp only [List.getD_eq_getElem?_getD, getElem?_append_length]

theorem flatVP_append (l1 l2 : List PNode) : flatVP (l1 ++ l2) = flatVP l1 ++ flatVP l2 := by
  induction l1 with
  | nil => rfl
  | cons a r ih => cases a <;> simp [flatVP, ih]

theorem flatVP_words (ws : List Tok) : flatVP (ws.map PNode.word) = ws := by
  induction ws with
  | nil => rfl
  | cons a r ih => simp [flatVP, ih]

/-- complements of the VP: an optional nominal object then prepositional phrases -/
def objNodes : Option ArgTok → List PNode
  | some x => [.arg x]
  | none => []

def ppNodes (pl : List (Str × ArgTok)) : List PNode := pl.map (fun pa => .pp pa.1 pa.2)

def objToks : Option ArgTok → List Tok
  | some x => [.arg x]
  | none => []

def ppToks : List (Str × ArgTok) → List Tok
  | [] => []
  | pa :: r => .prep pa.1 :: .arg pa.2 :: ppToks r

theorem flatVP_ppNodes (pl : List (Str × ArgTok)) : flatVP (ppNodes pl) = ppToks pl := by
  induction pl with
  | nil => rfl
  | cons a r ih => simp [ppNodes, flatVP, ppToks] at ih ⊢; exact ih

theorem flatVP_objNodes (o : Option ArgTok) : flatVP (objNodes o) = objToks o := by
  cases o <;> rfl

theorem ppNodes_ct (pl : List (Str × ArgTok)) : ∀ n ∈ ppNodes pl, n.ct = .PP := by
  intro n hn
  obtain ⟨x, _, rfl⟩ := List.mem_map.mp hn
  rfl

theorem words_ct (ws : List Tok) (h : ws.all Tok.isWord = true) :
    ∀ n ∈ ws.map PNode.word, n.ct = .V ∨ n.ct = .Q ∨ n.ct = .Adv ∨ n.ct = .P := by
  intro n hn
  obtain ⟨t, ht, rfl⟩ := List.mem_map.mp hn
  have := List.all_eq_true.mp h t ht
  cases t <;> simp_all [Tok.isWord, PNode.ct, Tok.ct]

end Pyrealb.ClauseEn
