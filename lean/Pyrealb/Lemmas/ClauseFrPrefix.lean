import Pyrealb.Lemmas.ClauseFrPlaceLemmas
/-! `doPronounPlacement` commutes with a verb-free prefix: the dependency notation runs it on the flat list of the whole
    clause, the constituent notation on the list of the VP only — the subject and the interrogative prefix in front
    make no difference (`clitic_agree` of C08). -/
namespace Pyrealb.ClauseFr
open Pyrealb

theorem negModProg_prefix (pre l : List Tok) (hpre : ∀ t ∈ pre, t.isV = false) :
    negModProg (pre ++ l) = (negModProg l).map (fun r => (pre ++ r.1, r.2 + pre.length)) := by
  induction pre with
  | nil => cases h : negModProg l <;> simp [h]
  | cons c r ih =>
    have hc := hpre c List.mem_cons_self
    have hr : ∀ t ∈ r, t.isV = false := fun t ht => hpre t (List.mem_cons_of_mem _ ht)
    have ih' := ih hr
    cases c with
    | v x f => simp [Tok.isV] at hc
    | _ =>
      simp only [List.cons_append, negModProg, ih']
      cases negModProg l <;> simp [Nat.add_assoc]

theorem findVerb_prefix (pg : Option VT) (pre l : List Tok) (hpre : ∀ t ∈ pre, t.isV = false) :
    findVerb pg (pre ++ l) = (findVerb pg l).map (fun r => { r with pre := pre ++ r.pre }) := by
  induction pre with
  | nil => cases h : findVerb pg l <;> simp [h]
  | cons c r ih =>
    have hc := hpre c List.mem_cons_self
    have hr : ∀ t ∈ r, t.isV = false := fun t ht => hpre t (List.mem_cons_of_mem _ ht)
    cases c with
    | v x f => simp [Tok.isV] at hc
    | _ =>
      simp only [List.cons_append, findVerb, ih hr]
      cases findVerb pg l <;> simp

/-- **clitic_agree**: placing the pronouns of `pre ++ l` is placing those of `l`, when nothing in `pre` is a verb -/
theorem place_prefix (refl : Bool) (pre l : List Tok) (hpre : ∀ t ∈ pre, t.isV = false) :
    placePronouns refl (pre ++ l) = (placePronouns refl l).map (fun out => pre ++ out) := by
  unfold placePronouns
  rw [negModProg_prefix pre l hpre]
  cases hl : negModProg l with
  | none =>
    simp only [Option.map_none, List.drop_zero, List.take_zero, List.nil_append]
    rw [findVerb_prefix none pre l hpre]
    cases hf : findVerb none l with
    | none => simp [Except.map]
    | some fd =>
      simp only [Option.map_some, bind, Except.bind]
      cases isReflexive fd.verb refl with
      | error e => simp [Except.map]
      | ok isR =>
        simp only [pure, Except.pure, Except.map]
        split <;> simp [List.append_assoc]
  | some p =>
    obtain ⟨cl1, iDeb⟩ := p
    simp only [Option.map_some]
    have hd : (pre ++ cl1).drop (iDeb + pre.length) = cl1.drop iDeb := by
      rw [Nat.add_comm, List.drop_append]
      simp [List.drop_of_length_le]
    have ht : (pre ++ cl1).take (iDeb + pre.length) = pre ++ cl1.take iDeb := by
      rw [Nat.add_comm, List.take_append]
      simp [List.take_of_length_le]
    rw [hd, ht]
    cases hf : findVerb none (cl1.drop iDeb) with
    | none => simp [Except.map]
    | some fd =>
      simp only [bind, Except.bind]
      cases isReflexive fd.verb refl with
      | error e => simp [Except.map]
      | ok isR =>
        simp only [pure, Except.pure, Except.map]
        split <;> simp [List.append_assoc]

end Pyrealb.ClauseFr
