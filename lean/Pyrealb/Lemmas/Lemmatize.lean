import Pyrealb.Model.LemmatizeWF
import Pyrealb.Lemmas.ConjWF
/-! Helper lemmas of the C18 theorems: membership in the expansion lists, the option lists the expansion builds
    read back by `vOpts`, and the conjugation models evaluated on one cell of a well-formed table. -/
namespace Pyrealb.Lemmatize
open Pyrealb Pyrealb.Conj

/-! ### association lists -/

theorem lookup_of_mem_nodup {α} {k : Str} {v : α} : ∀ {l : List (Str × α)},
    (k, v) ∈ l → (l.map (·.1)).Nodup → lookup k l = some v
  | [], h, _ => by cases h
  | (k', v') :: r, h, hn => by
    simp only [List.map_cons, List.nodup_cons] at hn
    by_cases hk : k' = k
    · subst hk
      rcases List.mem_cons.mp h with h | h
      · cases h; simp [lookup]
      · exact absurd (List.mem_map.mpr ⟨(k', v), h, rfl⟩) hn.1
    · rcases List.mem_cons.mp h with h | h
      · cases h; exact absurd rfl hk
      · simp only [lookup, hk, if_false]
        exact lookup_of_mem_nodup h hn.2

theorem ofCode_some {x : Str} {t : Tense} (h : Tense.ofCode? x = some t) : t.code = x := by
  unfold Tense.ofCode? at h
  have := List.find?_some h
  simpa using this

/-! ### `tenseRows` -/

theorem tenseRows_mem {lang : Decl.Lang} {lemma radical : Str} {frV : Option Verb} :
    ∀ {rows : List (Str × Row)} {l : List Pair}, tenseRows lang lemma radical frV rows = .ok l →
    ∀ p ∈ l, ∃ t row a, (t, row) ∈ rows ∧ tenseRow lang lemma radical frV t row = .ok a ∧ p ∈ a
  | [], l, h, p, hp => by
    simp only [tenseRows, Except.ok.injEq] at h
    subst h
    cases hp
  | (t, row) :: rest, l, h, p, hp => by
    unfold tenseRows at h
    split at h
    · cases h
    · rename_i a ha
      split at h
      · cases h
      · rename_i b hb
        simp only [Except.ok.injEq] at h
        subst h
        rcases List.mem_append.mp hp with hp | hp
        · exact ⟨t, row, a, List.mem_cons_self, ha, hp⟩
        · obtain ⟨t', row', a', hm, ha', hp'⟩ := tenseRows_mem hb p hp
          exact ⟨t', row', a', List.mem_cons_of_mem _ hm, ha', hp'⟩

/-! ### leading blanks -/

theorem strip_noLead {x : Str} (h : noLeadSpace x = true) : stripLeadingSpace x = x := by
  cases x with
  | nil => rfl
  | cons c r =>
    simp only [noLeadSpace, List.head?_cons, bne_iff_ne, ne_eq, Option.some.injEq] at h
    unfold stripLeadingSpace
    split
    · rename_i r' heq
      cases heq
      exact absurd rfl h
    · rfl

theorem noLead_stem_append {lemma x : Str} (k : Nat) (h1 : noLeadSpace lemma = true) (h2 : noLeadSpace x = true) :
    noLeadSpace (dropRight lemma k ++ x) = true := by
  unfold dropRight
  cases lemma with
  | nil => simpa using h2
  | cons c r =>
    cases hm : (c :: r).length - k with
    | zero => simpa using h2
    | succ m =>
      simp only [List.take_succ_cons, List.cons_append, noLeadSpace, List.head?_cons] at h1 ⊢
      exact h1

/-- the hypotheses on one verb entry -/
structure VerbOK (wf : Table → Bool) (rules : Rules) (v : Verb) (tb : Table) : Prop where
  tab : lookup v.tab rules = some tb
  wf : wf tb = true
  ending : endsWith v.lemma tb.ending = true
  nosp : noLeadSpace v.lemma = true

theorem cellsOK_str {tb : Table} {t : Str} {x : Str} (h : cellsNoLeadSpace tb = true)
    (hm : (t, Row.str x) ∈ tb.rows) : noLeadSpace x = true := by
  unfold cellsNoLeadSpace at h
  rw [List.all_eq_true] at h
  simpa [Conj.Row.cellsOK] using h _ hm

theorem cellsOK_list {tb : Table} {t : Str} {l : List (Option Str)} {i : Nat} {c : Str}
    (h : cellsNoLeadSpace tb = true) (hm : (t, Row.list l) ∈ tb.rows) (hc : l[i]? = some (some c)) :
    noLeadSpace c = true := by
  unfold cellsNoLeadSpace at h
  rw [List.all_eq_true] at h
  have := h _ hm
  simp only [Conj.Row.cellsOK, List.all_eq_true] at this
  have hmem : some c ∈ l := List.mem_of_getElem? hc
  simpa using this _ hmem

/-! ### English: one cell of a well-formed table -/

theorem surfaceEn_single (x : Str) (h : noLeadSpace x = true) :
    surfaceEn (ConjEn.EnOut.toks { pre := [], self := x, warns := 0 }) = x := by
  simp [surfaceEn, ConjEn.EnOut.toks, removeEmpty, detok, strip_noLead h]

theorem wfConjEn_elim {tb : Table} (h : wfConjEn tb = true) :
    wfTableEn tb = true ∧ cellsNoLeadSpace tb = true ∧ (tb.rows.map (·.1)).Nodup := by
  unfold wfConjEn keysNodup at h
  simp only [Bool.and_eq_true, decide_eq_true_eq] at h
  exact ⟨h.1.1, h.1.2, h.2⟩

/-- a string row: the same form at every person -/
theorem en_str_cell {rules : Rules} {env : ConjEn.EnEnv} {v : Verb} {tb : Table}
    (h : VerbOK wfConjEn rules v tb) {tt : Tense} {x : Str} (hrow : tb.row? tt.code = some (.str x))
    (pe : Person) (n : Num) :
    ConjEn.realize rules env v.lemma (some v) pe n tt = .ok ⟨dropRight v.lemma tb.ending.length ++ x, 0⟩ := by
  obtain ⟨hwf, hsp, hnd⟩ := wfConjEn_elim h.wf
  have R := wfTableEn_elim hwf
  have hx : noLeadSpace x = true := cellsOK_str hsp (lookup_mem (show lookup tt.code tb.rows = some (.str x) from hrow))
  have hform := noLead_stem_append tb.ending.length h.nosp hx
  have hhas : tb.hasRow tt.code = true := by simp [Table.hasRow, R.hasT, hrow]
  unfold ConjEn.realize ConjEn.conjugate
  rw [setLemma_wf h.tab h.ending]
  unfold ConjEn.conjugateWith
  simp only [h.tab, hhas, if_true, hrow]
  rcases R.row tt _ hrow with ⟨ht, _⟩ | ⟨ht, _⟩
  · rcases ht with rfl | rfl | rfl <;> simp [Row.concat, surfaceEn_single _ hform]
  · rcases ht with rfl | rfl <;> simp [surfaceEn_single _ hform]

/-- a six-cell row: the cell of the person and number -/
theorem en_list_cell {rules : Rules} {env : ConjEn.EnEnv} {v : Verb} {tb : Table}
    (h : VerbOK wfConjEn rules v tb) {tt : Tense} {l : List (Option Str)}
    (hrow : tb.row? tt.code = some (.list l)) (pe : Person) (n : Num) {c : Str}
    (hc : l[idx6 pe n]? = some (some c)) :
    ConjEn.realize rules env v.lemma (some v) pe n tt = .ok ⟨dropRight v.lemma tb.ending.length ++ c, 0⟩ := by
  obtain ⟨hwf, hsp, hnd⟩ := wfConjEn_elim h.wf
  have R := wfTableEn_elim hwf
  have hx : noLeadSpace c = true :=
    cellsOK_list hsp (lookup_mem (show lookup tt.code tb.rows = some (.list l) from hrow)) hc
  have hform := noLead_stem_append tb.ending.length h.nosp hx
  have hhas : tb.hasRow tt.code = true := by simp [Table.hasRow, R.hasT, hrow]
  unfold ConjEn.realize ConjEn.conjugate
  rw [setLemma_wf h.tab h.ending]
  unfold ConjEn.conjugateWith
  simp only [h.tab, hhas, if_true, hrow]
  rcases R.row tt _ hrow with ⟨_, x, hx⟩ | ⟨ht, _⟩
  · cases hx
  · rcases ht with rfl | rfl <;> simp [Row.at, hc, surfaceEn_single _ hform]

/-! ### the option lists of the expansion, read back -/

/-- person and number of index `i < 6` of a six-cell row -/
def pe6 (i : Nat) : Person := if i % 3 = 0 then .p1 else if i % 3 = 1 then .p2 else .p3
def n6 (i : Nat) : Num := if i ≥ 3 then .p else .s

theorem idx6_pe6 {i : Nat} (h : i < 6) : idx6 (pe6 i) (n6 i) = i := by
  have : i = 0 ∨ i = 1 ∨ i = 2 ∨ i = 3 ∨ i = 4 ∨ i = 5 := by omega
  rcases this with rfl | rfl | rfl | rfl | rfl | rfl <;> rfl

theorem vOpts_finite {lemma t : Str} {tt : Tense} (ht : Tense.ofCode? t = some tt) {i : Nat} (h : i < 6) :
    vOpts {} (finiteExp lemma t i).opts = some { t := tt, pe := pe6 i, n := n6 i } := by
  have hp : t = "p".toList → tt = .p := by
    intro hp; subst hp; cases ht; rfl
  have : i = 0 ∨ i = 1 ∨ i = 2 ∨ i = 3 ∨ i = 4 ∨ i = 5 := by omega
  have e1 : "p".toList = ['p'] := rfl
  rw [e1] at hp
  by_cases hpt : t = ['p']
  · have := hp hpt
    subst this
    subst hpt
    rcases this with rfl | rfl | rfl | rfl | rfl | rfl <;> rfl
  · rcases this with rfl | rfl | rfl | rfl | rfl | rfl <;>
      simp [finiteExp, expInit, Exp.opt, hpt, vOpts, vOpt, ht, pe6, n6, ovStr]

theorem sixLoop_mem {lemma radical t : Str} {cells : List (Option Str)} {p : Pair}
    (h : p ∈ sixLoop lemma radical t cells) :
    ∃ i c, i < 6 ∧ cells[i]? = some (some c) ∧ p = (radical ++ c, finiteExp lemma t i) := by
  unfold sixLoop at h
  obtain ⟨i, hi, hf⟩ := List.mem_filterMap.mp h
  have hi' : i < 6 := List.mem_range.mp hi
  cases hc : cells[i]? with
  | none => simp [hc] at hf
  | some o =>
    cases o with
    | none => simp [hc] at hf
    | some c =>
      simp only [hc, Option.some.injEq] at hf
      exact ⟨i, c, hi', hc, hf.symm⟩

theorem finiteExp_pos (lemma t : Str) (i : Nat) : (finiteExp lemma t i).pos = "V".toList := by
  by_cases h1 : t = ['p'] <;> by_cases h2 : i % 3 + 1 ≠ 3 <;> by_cases h3 : i ≥ 3 <;>
    simp [finiteExp, h1, h2, h3, expInit, Exp.opt]

theorem finiteExp_lemma (lemma t : Str) (i : Nat) : (finiteExp lemma t i).lemma = lemma := by
  by_cases h1 : t = ['p'] <;> by_cases h2 : i % 3 + 1 ≠ 3 <;> by_cases h3 : i ≥ 3 <;>
    simp [finiteExp, h1, h2, h3, expInit, Exp.opt]

theorem vOpts_strExp {t : Str} {tt : Tense} (ht : Tense.ofCode? t = some tt) (lemma : Str) :
    vOpts {} (if t ≠ "p".toList then (expInit "V".toList lemma).opt "t" (.str t) else expInit "V".toList lemma).opts
      = some { t := tt } := by
  have e1 : "p".toList = ['p'] := rfl
  rw [e1]
  by_cases hpt : t = ['p']
  · subst hpt; cases ht; rfl
  · simp [hpt, expInit, Exp.opt, vOpts, vOpt, ht]

/-- **English**: every pair of the expansion realizes to its form -/
theorem expandConj_en {env : Env} {v : Verb} {tb : Table} {frV : Option Verb} {l : List Pair} (lex : Decl.Lex)
    (hlang : env.lang = .en) (h : VerbOK wfConjEn env.conj v tb)
    (hl : expandConjugation .en env.conj v.lemma v.tab frV = .ok l) :
    ∀ p ∈ l, realizeExp env lex (some v) p.2 = .ok (p.1, 0) := by
  intro p hp
  obtain ⟨hwf, hsp, hnd⟩ := wfConjEn_elim h.wf
  have R := wfTableEn_elim hwf
  unfold expandConjugation at hl
  simp only [h.tab, h.ending, R.hasT, if_true] at hl
  obtain ⟨t, row, a, hm, ha, hpa⟩ := tenseRows_mem hl p hp
  have hrow : tb.row? t = some row := lookup_of_mem_nodup hm hnd
  -- the key is a tense code
  have hall := hwf
  unfold wfTableEn at hall
  simp only [Bool.and_eq_true, List.all_eq_true] at hall
  have hr := hall.2 _ hm
  cases hoc : Tense.ofCode? t with
  | none => simp [wfRowEn, hoc] at hr
  | some tt =>
    have hcode := ofCode_some hoc
    rw [← hcode] at hrow
    cases row with
    | null =>
      simp only [tenseRow, Except.ok.injEq] at ha
      subst ha; cases hpa
    | str x =>
      simp only [tenseRow, strBranch, Except.ok.injEq] at ha
      have hne : ¬ (t = "pp".toList ∧ Decl.Lang.en = Decl.Lang.fr ∧ dropRight v.lemma tb.ending.length ++ x ≠ "été".toList) := by
        rintro ⟨_, h2, _⟩; cases h2
      simp only [hne, if_false] at ha
      subst ha
      simp only [List.mem_singleton] at hpa
      subst hpa
      have hpos : (if t ≠ "p".toList then (expInit "V".toList v.lemma).opt "t" (.str t) else expInit "V".toList v.lemma).pos = "V".toList := by
        split <;> rfl
      have hlem : (if t ≠ "p".toList then (expInit "V".toList v.lemma).opt "t" (.str t) else expInit "V".toList v.lemma).lemma = v.lemma := by
        split <;> rfl
      unfold realizeExp
      simp only [hpos, if_true]
      unfold realizeV
      rw [hlem, vOpts_strExp hoc]
      simp only [hlang]
      rw [en_str_cell h hrow]
    | list cells =>
      rcases R.row tt _ hrow with ⟨_, x, hx⟩ | ⟨_, hx⟩
      · cases hx
      · rcases hx with ⟨x, hx⟩ | ⟨a1, a2, a3, a4, a5, a6, hx⟩
        · cases hx
        · cases hx
          simp only [tenseRow, List.length_cons, List.length_nil, if_true, Except.ok.injEq] at ha
          subst ha
          obtain ⟨i, c, hi, hc, rfl⟩ := sixLoop_mem hpa
          have hpos := finiteExp_pos v.lemma t i
          have hlem := finiteExp_lemma v.lemma t i
          unfold realizeExp
          simp only [hpos, if_true]
          unfold realizeV
          rw [hlem, vOpts_finite hoc hi]
          simp only [hlang]
          rw [en_list_cell h hrow (pe6 i) (n6 i) (by rw [idx6_pe6 hi]; exact hc)]

/-! ### French: one cell of a well-formed table -/

theorem wfConjFr_elim {tb : Table} (h : wfConjFr tb = true) :
    wfTableFr tb = true ∧ cellsNoLeadSpace tb = true ∧ (tb.rows.map (·.1)).Nodup ∧ ipOK tb = true := by
  unfold wfConjFr keysNodup at h
  simp only [Bool.and_eq_true, decide_eq_true_eq] at h
  exact ⟨h.1.1.1, h.1.1.2, h.1.2, h.2⟩

/-- the French verb terminal of a well-formed entry -/
def frVerbOf (v : Verb) (tb : Table) : ConjFr.FrVerb :=
  { st := { lemma := v.lemma, tab := some v.tab, stem := dropRight v.lemma tb.ending.length, warns := 0 }
    pat := v.pat, aux := v.aux.getD (s "av"), hAsp := v.hAsp }

theorem mkVerb_ok {rules : Rules} {v : Verb} {tb : Table} (h : VerbOK wfConjFr rules v tb) :
    ConjFr.mkVerb rules v.lemma (some v) none = frVerbOf v tb := by
  simp [ConjFr.mkVerb, frVerbOf, setLemma_wf h.tab h.ending]

/-- the verb's own token -/
def meTok (v : Verb) (form : Str) (lier : Bool := false) : Tok :=
  { real := form, isV := true, hAsp := v.hAsp, lier := lier }

/-- the tokens `conjugate` returns for a simple tense whose cell exists -/
def cellToks (env : ConjFr.FrEnv) (v : Verb) (o : VOpts) (form : Str) : List Tok :=
  if v.pat = some ConjFr.reflPat then
    match o.t with
    | .pp => [meTok v form]
    | .ip => [meTok v form true, { real := env.tonicPro o.pe o.n o.g, isPro := true }]
    | _ => [{ real := env.reflPro o.pe o.n o.g, isPro := true }, meTok v form]
  else [meTok v form]

theorem fr_conjugate_simple {rules : Rules} {env : ConjFr.FrEnv} {v : Verb} {tb : Table}
    (h : VerbOK wfConjFr rules v tb) (o : VOpts) (ht : ConjFr.tempsAux o.t = none) :
    ConjFr.conjugate rules env v.lemma (some v) none o.pe o.n o.g o.t =
      ConjFr.conjugateSimple rules env (frVerbOf v tb) o.pe o.n o.g o.t := by
  unfold ConjFr.conjugate
  rw [mkVerb_ok h]
  simp [frVerbOf, ht]

/-- finite tenses: the cell of the person and number -/
theorem fr_fin_cell {rules : Rules} {env : ConjFr.FrEnv} {v : Verb} {tb : Table}
    (h : VerbOK wfConjFr rules v tb) {tt : Tense} (htt : tt ∈ [Tense.p, .i, .f, .ps, .c, .s, .si])
    {cells : List (Option Str)} (hrow : tb.row? tt.code = some (.list cells)) (pe : Person) (n : Num) (g : Gender)
    {c : Str} (hc : cells[idx6 pe n]? = some (some c)) :
    ConjFr.conjugateSimple rules env (frVerbOf v tb) pe n g tt =
      .ok ⟨cellToks env v { t := tt, pe := pe, n := n, g := g } (dropRight v.lemma tb.ending.length ++ c), 0⟩ := by
  obtain ⟨hwf, _, _, _⟩ := wfConjFr_elim h.wf
  have R := wfTableFr_elim hwf
  have hhas : tb.hasRow tt.code = true := by simp [Table.hasRow, R.hasT, hrow]
  unfold ConjFr.conjugateSimple
  simp only [frVerbOf, h.tab, hhas, if_true, hrow]
  simp only [List.mem_cons, List.not_mem_nil, or_false] at htt
  by_cases hr : v.pat = some ConjFr.reflPat
  · rcases htt with rfl | rfl | rfl | rfl | rfl | rfl | rfl <;>
      simp [Row.at, hc, cellToks, hr, ConjFr.FrVerb.isReflexive, ConjFr.selfTok, meTok]
  · rcases htt with rfl | rfl | rfl | rfl | rfl | rfl | rfl <;>
      simp [Row.at, hc, cellToks, hr, ConjFr.FrVerb.isReflexive, ConjFr.selfTok, meTok]

/-- imperative: the cell of the person and number (the persons without an imperative have no cell: `ipOK`) -/
theorem fr_ip_cell {rules : Rules} {env : ConjFr.FrEnv} {v : Verb} {tb : Table}
    (h : VerbOK wfConjFr rules v tb)
    {cells : List (Option Str)} (hrow : tb.row? Tense.ip.code = some (.list cells)) {i : Nat} (hi : i < 6) (g : Gender)
    {c : Str} (hc : cells[i]? = some (some c)) :
    ConjFr.conjugateSimple rules env (frVerbOf v tb) (pe6 i) (n6 i) g .ip =
      .ok ⟨cellToks env v { t := .ip, pe := pe6 i, n := n6 i, g := g } (dropRight v.lemma tb.ending.length ++ c), 0⟩ := by
  obtain ⟨hwf, _, _, hip⟩ := wfConjFr_elim h.wf
  have R := wfTableFr_elim hwf
  have hhas : tb.hasRow Tense.ip.code = true := by simp [Table.hasRow, R.hasT, hrow]
  have hrow' : tb.row? "ip".toList = some (.list cells) := hrow
  unfold ipOK at hip
  simp only [hrow', Bool.and_eq_true, beq_iff_eq] at hip
  have hcases : i = 0 ∨ i = 1 ∨ i = 2 ∨ i = 3 ∨ i = 4 ∨ i = 5 := by omega
  unfold ConjFr.conjugateSimple
  simp only [frVerbOf, h.tab, hhas, if_true, hrow]
  by_cases hr : v.pat = some ConjFr.reflPat
  · rcases hcases with rfl | rfl | rfl | rfl | rfl | rfl
    · rw [hip.1.1] at hc; cases hc
    · simp [pe6, n6, Row.at, idx6, Person.toNat, hc, cellToks, hr, ConjFr.FrVerb.isReflexive, ConjFr.selfTok, meTok]
    · rw [hip.1.2] at hc; cases hc
    · simp [pe6, n6, Row.at, idx6, Person.toNat, hc, cellToks, hr, ConjFr.FrVerb.isReflexive, ConjFr.selfTok, meTok]
    · simp [pe6, n6, Row.at, idx6, Person.toNat, hc, cellToks, hr, ConjFr.FrVerb.isReflexive, ConjFr.selfTok, meTok]
    · rw [hip.2] at hc; cases hc
  · rcases hcases with rfl | rfl | rfl | rfl | rfl | rfl
    · rw [hip.1.1] at hc; cases hc
    · simp [pe6, n6, Row.at, idx6, Person.toNat, hc, cellToks, hr, ConjFr.FrVerb.isReflexive, ConjFr.selfTok, meTok]
    · rw [hip.1.2] at hc; cases hc
    · simp [pe6, n6, Row.at, idx6, Person.toNat, hc, cellToks, hr, ConjFr.FrVerb.isReflexive, ConjFr.selfTok, meTok]
    · simp [pe6, n6, Row.at, idx6, Person.toNat, hc, cellToks, hr, ConjFr.FrVerb.isReflexive, ConjFr.selfTok, meTok]
    · rw [hip.2] at hc; cases hc

/-- participle: the cell of the number and gender, unless the realizer's veto (intransitive with avoir) applies -/
theorem fr_pp_cell {rules : Rules} {env : ConjFr.FrEnv} {v : Verb} {tb : Table}
    (h : VerbOK wfConjFr rules v tb)
    {cells : List (Option Str)} (hrow : tb.row? Tense.pp.code = some (.list cells)) (pe : Person) (n : Num) (g : Gender)
    {c : Str} (hc : cells[ConjFr.idx4 n g]? = some (some c))
    (hveto : ¬ (ConjFr.idx4 n g > 0 ∧ v.pat = some ConjFr.intrPat ∧ v.aux.getD (s "av") = s "av")) :
    ConjFr.conjugateSimple rules env (frVerbOf v tb) pe n g .pp =
      .ok ⟨[meTok v (dropRight v.lemma tb.ending.length ++ c)], 0⟩ := by
  obtain ⟨hwf, _, _, _⟩ := wfConjFr_elim h.wf
  have R := wfTableFr_elim hwf
  have hhas : tb.hasRow Tense.pp.code = true := by simp [Table.hasRow, R.hasT, hrow]
  have hveto' : ¬ (ConjFr.idx4 n g > 0 ∧ (frVerbOf v tb).pat = some ConjFr.intrPat ∧ (frVerbOf v tb).aux = s "av") := hveto
  have htab : (frVerbOf v tb).st.tab = some v.tab := rfl
  unfold ConjFr.conjugateSimple
  simp only [htab, h.tab, hhas, if_true, hrow, Row.at, hc, hveto', if_false]
  simp [ConjFr.selfTok, meTok, frVerbOf]

/-- infinitive and present participle: a string row -/
theorem fr_str_cell {rules : Rules} {env : ConjFr.FrEnv} {v : Verb} {tb : Table}
    (h : VerbOK wfConjFr rules v tb) {tt : Tense} (htt : tt = .b ∨ tt = .pr)
    {x : Str} (hrow : tb.row? tt.code = some (.str x)) (pe : Person) (n : Num) (g : Gender) :
    ConjFr.conjugateSimple rules env (frVerbOf v tb) pe n g tt =
      .ok ⟨cellToks env v { t := tt, pe := pe, n := n, g := g } (dropRight v.lemma tb.ending.length ++ x), 0⟩ := by
  obtain ⟨hwf, _, _, _⟩ := wfConjFr_elim h.wf
  have R := wfTableFr_elim hwf
  have hhas : tb.hasRow tt.code = true := by simp [Table.hasRow, R.hasT, hrow]
  unfold ConjFr.conjugateSimple
  simp only [frVerbOf, h.tab, hhas, if_true, hrow]
  by_cases hr : v.pat = some ConjFr.reflPat
  · rcases htt with rfl | rfl <;>
      simp [Row.concat, cellToks, hr, ConjFr.FrVerb.isReflexive, ConjFr.selfTok, meTok]
  · rcases htt with rfl | rfl <;>
      simp [Row.concat, cellToks, hr, ConjFr.FrVerb.isReflexive, ConjFr.selfTok, meTok]

theorem wfRowFr_elim {t : Str} {tt : Tense} {r : Row} (hoc : Tense.ofCode? t = some tt) (h : wfRowFr t r = true) :
    (tt ∈ [Tense.p, .i, .f, .ps, .c, .s, .si, .ip] ∧ ∃ l, r = .list l ∧ l.length = 6) ∨
    (tt = .pp ∧ ∃ l, r = .list l ∧ l.length = 4) ∨
    (tt = .pr ∧ ((∃ x, r = .str x) ∨ r = .null)) ∨
    (tt = .b ∧ ∃ x, r = .str x) := by
  unfold wfRowFr at h
  rw [hoc] at h
  cases tt <;> simp only [Bool.or_eq_true] at h <;> first
    | exact Or.inl ⟨by simp, isListOf_elim h⟩
    | exact Or.inr (Or.inl ⟨rfl, isListOf_elim h⟩)
    | (refine Or.inr (Or.inr (Or.inl ⟨rfl, ?_⟩))
       rcases h with h | h
       · exact Or.inl (isStr_elim h)
       · exact Or.inr (isNull_elim h))
    | exact Or.inr (Or.inr (Or.inr ⟨rfl, isStr_elim h⟩))
    | cases h

theorem ppExp_pos (lemma : Str) (fem plu : Bool) : (ppExp lemma fem plu).pos = "V".toList := by
  cases fem <;> cases plu <;> rfl
theorem ppExp_lemma (lemma : Str) (fem plu : Bool) : (ppExp lemma fem plu).lemma = lemma := by
  cases fem <;> cases plu <;> rfl
theorem vOpts_ppExp (lemma : Str) (fem plu : Bool) :
    vOpts {} (ppExp lemma fem plu).opts =
      some { t := .pp, g := if fem then .f else .m, n := if plu then .p else .s } := by
  cases fem <;> cases plu <;> rfl

theorem ppGrid_idx {idx : Nat} {fem plu : Bool} (h : (idx, fem, plu) ∈ ppGrid) :
    ConjFr.idx4 (if plu then Num.p else Num.s) (if fem then Gender.f else Gender.m) = idx := by
  simp only [ppGrid, List.mem_cons, Prod.mk.injEq, List.not_mem_nil, or_false] at h
  rcases h with ⟨rfl, rfl, rfl⟩ | ⟨rfl, rfl, rfl⟩ | ⟨rfl, rfl, rfl⟩ | ⟨rfl, rfl, rfl⟩ <;> rfl

/-- what the French theorem says of one pair: the options read back, and the token list `conjugate` returns -/
def FrPairOK (env : Env) (v : Verb) (p : Pair) : Prop :=
  noLeadSpace p.1 = true ∧ p.2.pos = "V".toList ∧ p.2.lemma = v.lemma ∧
  ∃ o : VOpts, vOpts {} p.2.opts = some o ∧
    ConjFr.conjugate env.conj env.fr v.lemma (some v) none o.pe o.n o.g o.t = .ok ⟨cellToks env.fr v o p.1, 0⟩

theorem tempsAux_simple {tt : Tense} (h : tt ∈ [Tense.p, .i, .f, .ps, .c, .s, .si, .ip, .pp, .pr, .b]) :
    ConjFr.tempsAux tt = none := by
  simp only [List.mem_cons, List.not_mem_nil, or_false] at h
  rcases h with rfl | rfl | rfl | rfl | rfl | rfl | rfl | rfl | rfl | rfl | rfl <;> rfl

/-- **French**: every pair of the expansion, at the level of the token list returned by `conjugate` -/
theorem expandConj_fr_toks {env : Env} {v : Verb} {tb : Table} {l : List Pair}
    (h : VerbOK wfConjFr env.conj v tb)
    (hl : expandConjugation .fr env.conj v.lemma v.tab (some v) = .ok l) :
    ∀ p ∈ l, FrPairOK env v p := by
  intro p hp
  obtain ⟨hwf, hsp, hnd, hip⟩ := wfConjFr_elim h.wf
  have R := wfTableFr_elim hwf
  unfold expandConjugation at hl
  simp only [h.tab, h.ending, R.hasT, if_true] at hl
  obtain ⟨t, row, a, hm, ha, hpa⟩ := tenseRows_mem hl p hp
  have hrow : tb.row? t = some row := lookup_of_mem_nodup hm hnd
  have hall := hwf
  unfold wfTableFr at hall
  simp only [Bool.and_eq_true, List.all_eq_true] at hall
  have hr := hall.1.2 _ hm
  cases hoc : Tense.ofCode? t with
  | none => simp [wfRowFr, hoc] at hr
  | some tt =>
    have hcode := ofCode_some hoc
    rw [← hcode] at hrow
    rcases wfRowFr_elim hoc hr with ⟨htt, cells, rfl, hlen⟩ | ⟨rfl, cells, rfl, hlen⟩ | ⟨rfl, hx⟩ | ⟨rfl, x, rfl⟩
    · -- six cells
      simp only [tenseRow, hlen, if_true, Except.ok.injEq] at ha
      subst ha
      obtain ⟨i, c, hi, hc, rfl⟩ := sixLoop_mem hpa
      refine ⟨noLead_stem_append _ h.nosp (cellsOK_list hsp hm hc), finiteExp_pos _ _ _, finiteExp_lemma _ _ _, _, vOpts_finite hoc hi, ?_⟩
      have hta : ConjFr.tempsAux tt = none := tempsAux_simple (by
        simp only [List.mem_cons, List.not_mem_nil, or_false] at htt ⊢
        rcases htt with rfl | rfl | rfl | rfl | rfl | rfl | rfl | rfl <;> simp)
      rw [fr_conjugate_simple h { t := tt, pe := pe6 i, n := n6 i } hta]
      simp only [List.mem_cons, List.not_mem_nil, or_false] at htt
      by_cases hipt : tt = .ip
      · subst hipt
        exact fr_ip_cell h hrow hi .m hc
      · exact fr_fin_cell h (by
          simp only [List.mem_cons, List.not_mem_nil, or_false]
          rcases htt with rfl | rfl | rfl | rfl | rfl | rfl | rfl | rfl <;> simp at hipt ⊢) hrow (pe6 i) (n6 i) .m
          (by rw [idx6_pe6 hi]; exact hc)
    · -- participle: four cells
      simp only [tenseRow, hlen, fourBranch, Nat.reduceEqDiff, ↓reduceIte] at ha
      by_cases hintr : v.pat = some ["intr".toList] ∧ v.aux.getD "av".toList = "av".toList
      · simp only [hintr, and_self, if_true] at ha
        cases hc0 : cells[0]? with
        | none => simp [hc0] at ha
        | some o0 =>
          cases o0 with
          | none => simp [hc0] at ha
          | some c =>
            simp only [hc0, Except.ok.injEq] at ha
            subst ha
            simp only [List.mem_singleton] at hpa
            subst hpa
            refine ⟨noLead_stem_append _ h.nosp (cellsOK_list hsp hm hc0), rfl, rfl, { t := .pp }, rfl, ?_⟩
            rw [fr_conjugate_simple h { t := .pp } rfl]
            have := fr_pp_cell (env := env.fr) h hrow .p3 .s .m (c := c) (by simpa [ConjFr.idx4] using hc0)
              (by simp [ConjFr.idx4])
            simpa [cellToks] using this
      · simp only [hintr, if_false, Except.ok.injEq] at ha
        subst ha
        obtain ⟨⟨idx, fem, plu⟩, hg, hf⟩ := List.mem_filterMap.mp hpa
        cases hci : cells[idx]? with
        | none => simp [hci] at hf
        | some oc =>
          cases oc with
          | none => simp [hci] at hf
          | some c =>
            simp only [hci, Option.some.injEq] at hf
            subst hf
            refine ⟨noLead_stem_append _ h.nosp (cellsOK_list hsp hm hci), ppExp_pos _ _ _, ppExp_lemma _ _ _, _, vOpts_ppExp _ _ _, ?_⟩
            rw [fr_conjugate_simple h { t := .pp, g := if fem then .f else .m, n := if plu then .p else .s } rfl]
            have := fr_pp_cell (env := env.fr) h hrow .p3 (if plu then Num.p else Num.s) (if fem then Gender.f else Gender.m)
              (c := c) (by rw [ppGrid_idx hg]; exact hci)
              (by rintro ⟨_, h2, h3⟩; exact hintr ⟨h2, h3⟩)
            simpa [cellToks] using this
    · -- present participle: a string or null
      rcases hx with ⟨x, rfl⟩ | rfl
      · simp only [tenseRow, strBranch, Except.ok.injEq] at ha
        have hne : ¬ (t = "pp".toList ∧ True ∧ dropRight v.lemma tb.ending.length ++ x ≠ "été".toList) := by
          rintro ⟨h1, _, _⟩; rw [← hcode] at h1; cases h1
        simp only [hne, if_false] at ha
        subst ha
        simp only [List.mem_singleton] at hpa
        subst hpa
        refine ⟨noLead_stem_append _ h.nosp (cellsOK_str hsp hm), by split <;> rfl, by split <;> rfl, _, vOpts_strExp hoc _, ?_⟩
        rw [fr_conjugate_simple h { t := .pr } rfl]
        exact fr_str_cell h (Or.inr rfl) hrow .p3 .s .m
      · simp only [tenseRow, Except.ok.injEq] at ha
        subst ha; cases hpa
    · -- infinitive
      simp only [tenseRow, strBranch, Except.ok.injEq] at ha
      have hne : ¬ (t = "pp".toList ∧ True ∧ dropRight v.lemma tb.ending.length ++ x ≠ "été".toList) := by
        rintro ⟨h1, _, _⟩; rw [← hcode] at h1; cases h1
      simp only [hne, if_false] at ha
      subst ha
      simp only [List.mem_singleton] at hpa
      subst hpa
      refine ⟨noLead_stem_append _ h.nosp (cellsOK_str hsp hm), by split <;> rfl, by split <;> rfl, _, vOpts_strExp hoc _, ?_⟩
      rw [fr_conjugate_simple h { t := .b } rfl]
      exact fr_str_cell h (Or.inl rfl) hrow .p3 .s .m

theorem surfaceFr_single (a : Tok) (h : noLeadSpace a.real = true) : surfaceFr [a] = .ok a.real := by
  simp [surfaceFr, removeEmpty, detok, strip_noLead h, pure, Except.pure, bind, Except.bind]

/-- **French, not essentially reflexive**: every pair of the expansion realizes to its form -/
theorem expandConj_fr {env : Env} {v : Verb} {tb : Table} {l : List Pair} (lex : Decl.Lex)
    (hlang : env.lang = .fr) (h : VerbOK wfConjFr env.conj v tb) (hnr : v.pat ≠ some ConjFr.reflPat)
    (hl : expandConjugation .fr env.conj v.lemma v.tab (some v) = .ok l) :
    ∀ p ∈ l, realizeExp env lex (some v) p.2 = .ok (p.1, 0) := by
  intro p hp
  obtain ⟨hsp, hpos, hlem, o, ho, hc⟩ := expandConj_fr_toks h hl p hp
  unfold realizeExp
  simp only [hpos, if_true]
  unfold realizeV
  rw [hlem, ho]
  simp only [hlang]
  unfold ConjFr.realize
  rw [hc]
  simp only [cellToks, hnr, if_false]
  rw [surfaceFr_single _ (by simpa [meTok] using hsp)]
  rfl

/-- **French, essentially reflexive** (`pat == ["réfl"]`): the realization is the surface form of the token list
    reflexive pronoun + form (finite tenses, infinitive, present participle), form-`lier` + tonic pronoun
    (imperative), or the form alone (past participle) -/
theorem expandConj_fr_refl {env : Env} {v : Verb} {tb : Table} {l : List Pair} (lex : Decl.Lex)
    (hlang : env.lang = .fr) (h : VerbOK wfConjFr env.conj v tb)
    (hl : expandConjugation .fr env.conj v.lemma v.tab (some v) = .ok l) :
    ∀ p ∈ l, ∃ o : VOpts, vOpts {} p.2.opts = some o ∧
      realizeExp env lex (some v) p.2 =
        (match surfaceFr (cellToks env.fr v o p.1) with
         | .ok txt => .ok (txt, 0)
         | .error c => .error c) := by
  intro p hp
  obtain ⟨_, hpos, hlem, o, ho, hc⟩ := expandConj_fr_toks h hl p hp
  refine ⟨o, ho, ?_⟩
  unfold realizeExp
  simp only [hpos, if_true]
  unfold realizeV
  rw [hlem, ho]
  simp only [hlang]
  unfold ConjFr.realize
  rw [hc]
  cases hs : surfaceFr (cellToks env.fr v o p.1) <;> simp [hs]

/-! ### completeness of the conjugation expansion -/

/-- the non-null cells of a row with their index -/
def icells : Row → List (Nat × Str)
  | .null => []
  | .str x => [(0, x)]
  | .list l => (List.range l.length).filterMap (fun i => match l[i]? with
      | some (some c) => some (i, c)
      | _ => none)

theorem tenseRows_sub {lang : Decl.Lang} {lemma radical : Str} {frV : Option Verb} :
    ∀ {rows : List (Str × Row)} {l : List Pair}, tenseRows lang lemma radical frV rows = .ok l →
    ∀ t row, (t, row) ∈ rows → ∃ a, tenseRow lang lemma radical frV t row = .ok a ∧ ∀ p ∈ a, p ∈ l
  | [], l, h, t, row, hm => by cases hm
  | (t0, row0) :: rest, l, h, t, row, hm => by
    unfold tenseRows at h
    split at h
    · cases h
    · rename_i a ha
      split at h
      · cases h
      · rename_i b hb
        simp only [Except.ok.injEq] at h
        subst h
        rcases List.mem_cons.mp hm with hm | hm
        · cases hm
          exact ⟨a, ha, fun p hp => List.mem_append_left _ hp⟩
        · obtain ⟨a', ha', hsub⟩ := tenseRows_sub hb t row hm
          exact ⟨a', ha', fun p hp => List.mem_append_right _ (hsub p hp)⟩

theorem icells_list {l : List (Option Str)} {i : Nat} {c : Str} (h : (i, c) ∈ icells (.list l)) :
    i < l.length ∧ l[i]? = some (some c) := by
  unfold icells at h
  obtain ⟨j, hj, hf⟩ := List.mem_filterMap.mp h
  have hj' := List.mem_range.mp hj
  cases hc : l[j]? with
  | none => simp [hc] at hf
  | some o =>
    cases o with
    | none => simp [hc] at hf
    | some c' =>
      simp only [hc, Option.some.injEq, Prod.mk.injEq] at hf
      obtain ⟨rfl, rfl⟩ := hf
      exact ⟨hj', hc⟩

theorem sixLoop_has {lemma radical t : Str} {cells : List (Option Str)} {i : Nat} {c : Str} (hi : i < 6)
    (hc : cells[i]? = some (some c)) : (radical ++ c, finiteExp lemma t i) ∈ sixLoop lemma radical t cells := by
  unfold sixLoop
  exact List.mem_filterMap.mpr ⟨i, List.mem_range.mpr hi, by simp [hc]⟩

theorem ppGrid_has {i : Nat} (h : i < 4) : ∃ fem plu, (i, fem, plu) ∈ ppGrid := by
  have : i = 0 ∨ i = 1 ∨ i = 2 ∨ i = 3 := by omega
  rcases this with rfl | rfl | rfl | rfl
  · exact ⟨false, false, by simp [ppGrid]⟩
  · exact ⟨true, false, by simp [ppGrid]⟩
  · exact ⟨false, true, by simp [ppGrid]⟩
  · exact ⟨true, true, by simp [ppGrid]⟩

/-- one row of a table whose rows are strings, six-cell lists, or (participle) four-cell lists: every non-null
    cell is listed, except cells 1–3 of a four-cell row when the French lexicon says `pat == ["intr"]` and the
    auxiliary is avoir -/
theorem tenseRow_complete {lang : Decl.Lang} {lemma radical t : Str} {v : Verb} {row : Row} {a : List Pair}
    (hshape : (∃ x, row = .str x) ∨ row = .null ∨ ∃ l, row = .list l ∧ (l.length = 6 ∨ l.length = 4))
    (ha : tenseRow lang lemma radical (some v) t row = .ok a) {i : Nat} {c : Str} (hic : (i, c) ∈ icells row)
    (hx : (∃ l, row = .list l ∧ l.length = 4) → v.pat = some ["intr".toList] →
      v.aux.getD "av".toList = "av".toList → i = 0) :
    ∃ e, (radical ++ c, e) ∈ a := by
  rcases hshape with ⟨x, rfl⟩ | rfl | ⟨l, rfl, hlen⟩
  · simp only [icells, List.mem_singleton, Prod.mk.injEq] at hic
    obtain ⟨rfl, rfl⟩ := hic
    simp only [tenseRow, Except.ok.injEq] at ha
    subst ha
    unfold strBranch
    simp only []
    split
    · exact ⟨_, List.mem_cons_self⟩
    · exact ⟨_, List.mem_cons_self⟩
  · cases hic
  · obtain ⟨hil, hc⟩ := icells_list hic
    rcases hlen with h6 | h4
    · simp only [tenseRow, h6, if_true, Except.ok.injEq] at ha
      subst ha
      exact ⟨_, sixLoop_has (by omega) hc⟩
    · simp only [tenseRow, h4, fourBranch, Nat.reduceEqDiff, ↓reduceIte] at ha
      by_cases hintr : v.pat = some ["intr".toList] ∧ v.aux.getD "av".toList = "av".toList
      · have hi0 := hx ⟨l, rfl, h4⟩ hintr.1 hintr.2
        subst hi0
        simp only [hintr, and_self, if_true, hc, Except.ok.injEq] at ha
        subst ha
        exact ⟨_, List.mem_singleton.mpr rfl⟩
      · simp only [hintr, if_false, Except.ok.injEq] at ha
        subst ha
        obtain ⟨fem, plu, hg⟩ := ppGrid_has (show i < 4 by omega)
        exact ⟨ppExp lemma fem plu, List.mem_filterMap.mpr ⟨(i, fem, plu), hg, by simp [hc]⟩⟩

end Pyrealb.Lemmatize
