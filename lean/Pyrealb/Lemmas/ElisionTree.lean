import Pyrealb.Model.ElisionTree
import Pyrealb.Lemmas.ElisionTotal
/-! Tree-level lemmas for C06: the invariant of the abstract realization fold. -/
namespace Pyrealb.Elision
open Pyrealb Pyrealb.Gen.Elision

/-! ### `format` -/

theorem SameView.pairOK {t1 t1' t2 t2' : Tok} (h1 : SameView t1 t1') (h2 : SameView t2 t2') :
    pairOKFr t1' t2' = pairOKFr t1 t2 := by
  obtain ⟨_, _, s1, _, _, _, f1, m1⟩ := h1
  obtain ⟨c2, _, _, hw2, _, _, f2, m2⟩ := h2
  unfold pairOKFr
  cases hv1 : view .fr t1 <;> cases hv1' : view .fr t1' <;> simp only [hv1, hv1'] at m1 <;>
    cases hv2 : view .fr t2 <;> cases hv2' : view .fr t2' <;> simp only [hv2, hv2'] at m2 <;> try rfl
  rename_i v1 v1' v2 v2'
  simp only [m1.1, m1.2, m2.1, s1, c2, vowelOrMuteH, hw2, f1, f2]

theorem SameView.fresh {t t' : Tok} (h : SameView t t') : freshTok t' = freshTok t := by
  obtain ⟨_, _, _, _, _, _, _, m⟩ := h
  unfold freshTok
  cases hv : view .fr t <;> cases hv' : view .fr t' <;> simp only [hv, hv'] at m <;> try rfl
  simp only [m.1]

theorem SameView.wf {t t' : Tok} (h : SameView t t') (w : tokWF t = true) : tokWF t' = true := by
  obtain ⟨_, _, _, hw, hr, hs, _, _⟩ := h
  simp only [tokWF, hw, hr, hs] at w ⊢
  exact w

theorem all2_settled : ∀ (l l' : List Tok) (pl : Bool), All2 SameView l l' →
    settledFrom .fr pl l' = settledFrom .fr pl l := by
  intro l l' pl h
  induction h generalizing pl with
  | nil => rfl
  | cons hab hrest ih =>
    rename_i a b r r'
    cases hrest with
    | nil => rfl
    | cons hcd hrest' =>
      rename_i c d r2 r2'
      have := ih a.lier
      simp only [settledFrom, pairOK, hab.pairOK hcd, hab.2.1] at this ⊢
      rw [this]

theorem all2_wf : ∀ (l l' : List Tok), All2 SameView l l' → TokWF l → TokWF l' := by
  intro l l' h
  induction h with
  | nil => intro _ t ht; simp at ht
  | cons hab _ ih =>
    intro hwf t ht
    simp only [List.mem_cons] at ht
    cases ht with
    | inl e => rw [e]; exact hab.wf (hwf _ (by simp))
    | inr e => exact ih (fun t ht => hwf t (List.mem_cons_of_mem _ ht)) t e

theorem all2_last : ∀ (l l' : List Tok), All2 SameView l l' → LastFresh l → LastFresh l' := by
  intro l l' h
  induction h with
  | nil => intro _ t ht; simp at ht
  | cons hab hrest ih =>
    rename_i a b r r'
    intro hl t ht
    cases hrest with
    | nil =>
      have e : t = b := by simpa using ht.symm
      rw [e, hab.fresh]; exact hl a (by simp)
    | cons hcd hrest' =>
      rename_i c d r2 r2'
      apply ih (fun t' ht' => hl t' (by simpa [List.getLast?_cons_cons] using ht')) t
      simpa [List.getLast?_cons_cons] using ht

theorem format_inv (format : Nat → List Tok → List Tok) (hf : FormatOK format) (id : Nat) (l : List Tok)
    (h : InvOut l) : InvOut (format id l) := by
  obtain ⟨h1, h2, h3⟩ := h
  have a := hf id l
  refine ⟨all2_wf _ _ a h1, ?_, all2_last _ _ a h3⟩
  simp only [settled] at h2 ⊢
  rw [all2_settled _ _ false a]; exact h2

/-! ### concatenating settled sub-lists -/

theorem pairOK_bwd (t1 t2 : Tok) (h : pairOKFr t1 t2 = true) : bwdPairFr t1 t2 = true := by
  unfold pairOKFr at h
  unfold bwdPairFr
  rcases Option.eq_none_or_eq_some (view .fr t1) with hv1 | ⟨v1, hv1⟩
  · simp [hv1]
  rcases Option.eq_none_or_eq_some (view .fr t2) with hv2 | ⟨v2, hv2⟩
  · simp [hv1, hv2]
  simp only [hv1, hv2] at h ⊢
  cases hf : t1.fr with
  | false => simp
  | true =>
    cases hn : noWords v1.rest with
    | false => simp
    | true =>
      simp only [hf, hn, Bool.not_true, Bool.false_or, clausesFr, Bool.and_eq_true] at h ⊢
      exact ⟨h.1.1.1.1.2, h.2⟩

theorem settled_bwd : ∀ (l : List Tok) (pl : Bool), settledFrom .fr pl l = true → bwdFromFr pl l = true := by
  intro l
  induction l with
  | nil => intro _ _; rfl
  | cons a r ih =>
    intro pl h
    cases r with
    | nil => rfl
    | cons b r' =>
      simp only [settledFrom, pairOK, Bool.and_eq_true, Bool.or_eq_true] at h
      simp only [bwdFromFr, Bool.and_eq_true, Bool.or_eq_true]
      refine ⟨?_, ih a.lier h.2⟩
      cases h.1 with
      | inl h' => left; simpa using h'
      | inr h' => right; exact pairOK_bwd _ _ h'

theorem bwd_mono : ∀ (l : List Tok) (pl : Bool), bwdFromFr false l = true → bwdFromFr pl l = true := by
  intro l pl h
  cases l with
  | nil => rfl
  | cons a r =>
    cases r with
    | nil => rfl
    | cons b r' =>
      simp only [bwdFromFr, Bool.false_or, Bool.and_eq_true] at h
      simp [bwdFromFr, h.1, h.2]

theorem fresh_bwd (t1 t2 : Tok) (h : freshTok t1 = true) : bwdPairFr t1 t2 = true := by
  unfold freshTok at h
  unfold bwdPairFr
  cases hv1 : view .fr t1 <;> cases hv2 : view .fr t2 <;> simp only [hv1, hv2] at h ⊢
  simp only [Bool.and_eq_true, Bool.not_eq_eq_eq_not, Bool.not_true] at h
  simp [h.1, h.2]

theorem bwd_append : ∀ (a b : List Tok) (pl : Bool), bwdFromFr pl a = true → LastFresh a →
    bwdFromFr false b = true → bwdFromFr pl (a ++ b) = true := by
  intro a
  induction a with
  | nil => intro b pl _ _ hb; exact bwd_mono _ _ hb
  | cons x r ih =>
    intro b pl ha hl hb
    cases r with
    | nil =>
      cases b with
      | nil => rfl
      | cons y r' =>
        simp only [List.cons_append, List.nil_append, bwdFromFr, Bool.and_eq_true, Bool.or_eq_true]
        exact ⟨Or.inr (fresh_bwd _ _ (hl x (by simp))), bwd_mono _ _ hb⟩
    | cons y r' =>
      simp only [bwdFromFr, Bool.and_eq_true] at ha
      simp only [List.cons_append, bwdFromFr, Bool.and_eq_true]
      refine ⟨ha.1, ?_⟩
      have := ih b x.lier ha.2 (fun t ht => hl t (by simpa [List.getLast?_cons_cons] using ht)) hb
      simpa using this

theorem wf_append (a b : List Tok) (ha : TokWF a) (hb : TokWF b) : TokWF (a ++ b) := by
  intro t ht
  simp only [List.mem_append] at ht
  cases ht with
  | inl h => exact ha t h
  | inr h => exact hb t h

theorem last_append (a b : List Tok) (ha : LastFresh a) (hb : LastFresh b) : LastFresh (a ++ b) := by
  intro t ht
  cases b with
  | nil => simp at ht; exact ha t ht
  | cons y r =>
    apply hb t
    rw [← ht, List.getLast?_append]
    have : (y :: r).getLast? = some ((y :: r).getLast (by simp)) := List.getLast?_eq_getLast _
    rw [this]; rfl

theorem inv_append (a b : List Tok) (ha : InvOut a) (hb : InvIn b) : InvIn (a ++ b) :=
  ⟨wf_append _ _ ha.1 hb.1, bwd_append _ _ false (settled_bwd _ _ ha.2.1) ha.2.2 hb.2.1, last_append _ _ ha.2.2 hb.2.2⟩

/-! ### the fold -/

/-- the pass turns a tame, well-formed input without stale forms into a settled, well-formed output -/
theorem pass_inv (l out : List Tok) (h : InvIn l)
    (ht : tameFromFr false l = true) (hgo : doElisionFr l = .ok out) : InvOut out := by
  obtain ⟨out', ho, hs, _, hlast⟩ := goFr_settles l.length l false (Nat.le_refl _) h.1 h.2.1 ht
  obtain ⟨out'', ho', hwf'⟩ := goFr_total l.length l false (Nat.le_refl _) h.1
  have e : out' = out := by
    have := ho.symm.trans hgo
    cases this; rfl
  have e' : out'' = out := by
    have := ho'.symm.trans hgo
    cases this; rfl
  subst e; subst e'
  exact ⟨hwf', hs, hlast h.2.2⟩

/-- what is assumed of the input of each `doElision` call of the fold -/
def NodeTame (l : List Tok) : Prop := tameFromFr false l = true

/-- the invariant of the fold, by mutual induction over the realization relation -/
theorem fold_inv_at (place format : Nat → List Tok → List Tok) (hf : FormatOK format) :
    ∀ (t : Tree) (out : List Tok) (ins lvs : List (List Tok)) (cats : List (Nat × List Tok)),
      Real place format t out ins lvs cats → PlaceOKAt place cats →
      (∀ ts ∈ lvs, InvOut ts) → (∀ inp ∈ ins, NodeTame inp) → InvOut out := by
  intro t out ins lvs cats h
  refine Real.rec (place := place) (format := format)
    (motive_1 := fun _ out ins lvs cats _ => PlaceOKAt place cats → (∀ ts ∈ lvs, InvOut ts) →
      (∀ inp ∈ ins, NodeTame inp) → InvOut out)
    (motive_2 := fun _ cat ins lvs cats _ => PlaceOKAt place cats → (∀ ts ∈ lvs, InvOut ts) →
      (∀ inp ∈ ins, NodeTame inp) → InvIn cat)
    ?_ ?_ ?_ ?_ h
  · intro ts _ hl _
    exact hl ts (by simp)
  · intro id cs cat out ins lvs cats _ hgo ihAll hp hl ht
    have hcat := ihAll (fun p hp' => hp p (List.mem_cons_of_mem _ hp')) hl
      (fun inp hi => ht inp (List.mem_cons_of_mem _ hi))
    have hin := hp (id, cat) (by simp) hcat
    have tame := ht (place id cat) (by simp)
    exact format_inv format hf id out (pass_inv _ _ hin tame hgo)
  · intro _ _ _
    exact ⟨by intro t ht; simp at ht, rfl, by intro t ht; simp at ht⟩
  · intro c cs a b i1 i2 l1 l2 c1 c2 _ _ ih1 ih2 hp hl ht
    have ha := ih1 (fun p h => hp p (List.mem_append_left _ h)) (fun ts h => hl ts (List.mem_append_left _ h))
      (fun inp h => ht inp (List.mem_append_left _ h))
    have hb := ih2 (fun p h => hp p (List.mem_append_right _ h)) (fun ts h => hl ts (List.mem_append_right _ h))
      (fun inp h => ht inp (List.mem_append_right _ h))
    exact inv_append a b ha hb

theorem fold_inv (place format : Nat → List Tok → List Tok) (hp : PlaceOK place) (hf : FormatOK format) :
    ∀ (t : Tree) (out : List Tok) (ins lvs : List (List Tok)) (cats : List (Nat × List Tok)),
      Real place format t out ins lvs cats →
      (∀ ts ∈ lvs, InvOut ts) → (∀ inp ∈ ins, NodeTame inp) → InvOut out :=
  fun t out ins lvs cats h hl ht =>
    fold_inv_at place format hf t out ins lvs cats h (fun p _ hi => hp p.1 p.2 hi) hl ht

/-! ### the identity `place` / `format`, single fresh leaves (used by the witnesses of Props/C06) -/

theorem sameView_refl (t : Tok) : SameView t t := by
  refine ⟨rfl, rfl, rfl, rfl, rfl, rfl, rfl, ?_⟩
  cases view .fr t with
  | none => trivial
  | some v => exact ⟨rfl, rfl⟩

theorem all2_refl : ∀ l : List Tok, All2 SameView l l := by
  intro l
  induction l with
  | nil => exact .nil
  | cons a r ih => exact .cons (sameView_refl a) ih

theorem placeOK_id : PlaceOK (fun _ l => l) := fun _ _ h => h
theorem formatOK_id : FormatOK (fun _ l => l) := fun _ l => all2_refl l

theorem invOut_single (t : Tok) (hw : tokWF t = true) (hf : freshTok t = true) : InvOut [t] := by
  refine ⟨?_, rfl, ?_⟩
  · intro x hx; simp at hx; rw [hx]; exact hw
  · intro x hx; simp at hx; rw [← hx]; exact hf

end Pyrealb.Elision
