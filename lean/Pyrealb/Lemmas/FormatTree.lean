import Pyrealb.Lemmas.FormatTags
/-! One `doFormat` step and the whole realization tree against tags (for C10). -/
namespace Pyrealb.Format

def TokAF (l : List Tok) : Prop := ∀ t ∈ l, AngleFree t.real

/-- the signs resolve (no `KeyError`) to strings free of angle brackets -/
def BasOK (tb : Tables) (signs : List Str) : Prop :=
  ∃ bas, baAll tb signs = .ok bas ∧ ∀ p ∈ bas, AngleFree p.1 ∧ AngleFree p.2

def OptsOK (tb : Tables) (o : Opts) : Prop :=
  (∀ t ∈ optList o.tags, TagOK t) ∧ BasOK tb (optList o.a) ∧ BasOK tb (optList o.b) ∧ BasOK tb (ensOf o)

/-- the case map neither creates nor destroys an angle bracket -/
def AngOK (cm : CaseMap) : Prop :=
  (∀ c, c ≠ '<' → c ≠ '>' → cm.upper c ≠ '<' ∧ cm.upper c ≠ '>' ∧ cm.lower c ≠ '<' ∧ cm.lower c ≠ '>') ∧
  cm.upper '<' = '<' ∧ cm.upper '>' = '>'

def eraseOpts (o : Opts) : Opts := { o with tags := none }

theorem revB_af (bas : List (Str × Str)) (h : ∀ p ∈ bas, AngleFree p.1 ∧ AngleFree p.2) : AngleFree (revB bas) := by
  induction bas with
  | nil => exact AngleFree.nil
  | cons p r ih => exact (ih (fun q hq => h q (List.mem_cons_of_mem _ hq))).append (h p (by simp)).1
theorem fwdB_af (bas : List (Str × Str)) (h : ∀ p ∈ bas, AngleFree p.1 ∧ AngleFree p.2) : AngleFree (fwdB bas) := by
  induction bas with
  | nil => exact AngleFree.nil
  | cons p r ih => exact (h p (by simp)).1.append (ih (fun q hq => h q (List.mem_cons_of_mem _ hq)))
theorem fwdA_af (bas : List (Str × Str)) (h : ∀ p ∈ bas, AngleFree p.1 ∧ AngleFree p.2) : AngleFree (fwdA bas) := by
  induction bas with
  | nil => exact AngleFree.nil
  | cons p r ih => exact (h p (by simp)).2.append (ih (fun q hq => h q (List.mem_cons_of_mem _ hq)))

theorem tokAF_flat {l : List Tok} (h : TokAF l) : AngleFree (flat l) := by
  induction l with
  | nil => exact AngleFree.nil
  | cons t r ih =>
    rw [flat_cons]
    exact (h t (by simp)).append (ih (fun u hu => h u (List.mem_cons_of_mem _ hu)))

theorem tokAF_modFirst {f : Str → Str} (hf : ∀ x, AngleFree x → AngleFree (f x)) {l : List Tok} (h : TokAF l) :
    TokAF (modFirst f l) := by
  cases l with
  | nil => exact h
  | cons t r =>
    intro u hu
    simp only [modFirst, List.mem_cons] at hu
    rcases hu with rfl | hu
    · exact hf _ (h t (by simp))
    · exact h u (List.mem_cons_of_mem _ hu)

theorem tokAF_modLast {f : Str → Str} (hf : ∀ x, AngleFree x → AngleFree (f x)) {l : List Tok} (h : TokAF l) :
    TokAF (modLast f l) := by
  induction l with
  | nil => exact h
  | cons t r ih =>
    cases r with
    | nil =>
      intro u hu
      simp only [modLast, List.mem_singleton] at hu
      subst hu
      exact hf _ (h t (by simp))
    | cons v r =>
      intro u hu
      simp only [modLast, List.mem_cons] at hu
      rcases hu with rfl | hu
      · exact h _ (by simp)
      · exact ih (fun w hw => h w (List.mem_cons_of_mem _ hw)) u (by simpa using hu)

theorem tokAF_wrapAll {B A : Str} (hB : AngleFree B) (hA : AngleFree A) {l : List Tok} (h : TokAF l) :
    TokAF (wrapAll B A l) := by
  cases l with
  | nil => exact h
  | cons t r =>
    cases r with
    | nil =>
      intro u hu
      simp only [wrapAll, List.mem_singleton] at hu
      subst hu
      exact (hB.append (h t (by simp))).append hA
    | cons v r =>
      intro u hu
      simp only [wrapAll, List.mem_cons] at hu
      rcases hu with rfl | hu
      · exact hB.append (h t (by simp))
      · exact tokAF_modLast (fun x hx => hx.append hA) (fun w hw => h w (List.mem_cons_of_mem _ hw)) u (by simpa using hu)

theorem upperAt_af (cm : CaseMap) (hc : AngOK cm) (x : Str) (i : Nat) (h : AngleFree x) : AngleFree (upperAt cm x i) := by
  induction x generalizing i with
  | nil => simpa [upperAt_nil] using h
  | cons c r ih =>
    obtain ⟨h1, h2, h3⟩ := h.tail
    cases i with
    | zero => rw [upperAt_zero]; exact AngleFree.cons (hc.1 c h1 h2).1 (hc.1 c h1 h2).2.1 h3
    | succ i => rw [upperAt_cons_succ]; exact AngleFree.cons h1 h2 (ih i h3)

theorem capFirst_af (cm : CaseMap) (hc : AngOK cm) (x : Str) (h : AngleFree x) : AngleFree (capFirst cm x) :=
  upperAt_af cm hc x _ h

theorem addPoss_af (x : Str) (h : AngleFree x) : AngleFree (addPoss x) := by
  unfold addPoss
  split
  · exact h.append (AngleFree.cons (by decide) (by decide) AngleFree.nil)
  · exact h.append (AngleFree.cons (by decide) (by decide) (AngleFree.cons (by decide) (by decide) AngleFree.nil))

theorem tokAF_capPoss (cm : CaseMap) (hc : AngOK cm) (o : Opts) {l : List Tok} (h : TokAF l) : TokAF (capPoss cm o l) := by
  unfold capPoss
  simp only
  have h1 : TokAF (if o.poss = true then modLast addPoss l else l) := by
    split
    · exact tokAF_modLast addPoss_af h
    · exact h
  split
  · exact tokAF_modFirst (capFirst_af cm hc) h1
  · exact h1

theorem capPoss_id (cm : CaseMap) (o : Opts) (l : List Tok) (h1 : o.cap ≠ .t) (h2 : o.poss = false) :
    capPoss cm o l = l := by
  simp [capPoss, h1, h2]

theorem tokAF_removeEmpty {l : List Tok} (h : TokAF l) : TokAF (removeEmpty l) :=
  fun t ht => h t (removeEmpty_mem l t ht)

/-! ### one step -/

theorem fmt_step_af (tb : Tables) (cm : CaseMap) (hcm : AngOK cm) (o : Opts) (ho : OptsOK tb o)
    (htag : optList o.tags = []) (l out : List Tok) (hl : TokAF l)
    (h : doFormat tb cm o id l = .ok out) : TokAF out := by
  by_cases hne : l = []
  · subst hne
    rw [doFormat_nil] at h; cases h
    intro t ht; cases ht
  · rw [doFormat_ne _ _ _ _ _ (removeEmpty_ne_nil l hne)] at h
    simp only [id] at h
    obtain ⟨_, ⟨as, ha, haf⟩, ⟨bs, hb, hbf⟩, ⟨es, he, hef⟩⟩ := ho
    rw [formatCore_eq tb cm o _ (removeEmpty_ne_nil l hne) as bs es ha hb he] at h
    cases h
    rw [htag]
    simp only [tagsB, tagsA, List.append_nil, List.nil_append]
    exact tokAF_wrapAll ((revB_af es hef).append (revB_af bs hbf)) ((fwdB_af as haf).append (fwdA_af es hef))
      (tokAF_capPoss cm hcm o (tokAF_removeEmpty hl))

theorem fmt_step_bal (tb : Tables) (cm : CaseMap) (hcm : AngOK cm) (o : Opts) (ho : OptsOK tb o)
    (l out : List Tok) (hb : Bal (flat l)) (hcap : (o.cap = .t ∨ o.poss = true) → TokAF l)
    (h : doFormat tb cm o id l = .ok out) : Bal (flat out) := by
  by_cases hne : l = []
  · subst hne
    rw [doFormat_nil] at h; cases h
    exact Bal.text AngleFree.nil
  · rw [doFormat_ne _ _ _ _ _ (removeEmpty_ne_nil l hne)] at h
    simp only [id] at h
    obtain ⟨htags, ⟨as, ha, haf⟩, ⟨bs, hbb, hbf⟩, ⟨es, he, hef⟩⟩ := ho
    have hre := removeEmpty_ne_nil l hne
    rw [formatCore_eq tb cm o _ hre as bs es ha hbb he] at h
    cases h
    rw [flat_wrapAll _ _ _ (capPoss_ne_nil cm o _ hre)]
    have hx : Bal (flat (capPoss cm o (removeEmpty l))) := by
      by_cases hc : o.cap = .t ∨ o.poss = true
      · exact Bal.text (tokAF_flat (tokAF_capPoss cm hcm o (tokAF_removeEmpty (hcap hc))))
      · have h1 : o.cap ≠ .t := fun e => hc (Or.inl e)
        have h2 : o.poss = false := by
          cases hh : o.poss with
          | false => rfl
          | true => exact absurd (Or.inr hh) hc
        rw [capPoss_id cm o _ h1 h2, flat_removeEmpty]
        exact hb
    have := Bal.app (Bal.app (Bal.text (revB_af es hef))
      (Bal.app (Bal.app (Bal.text (revB_af bs hbf)) (bal_tags _ htags _ hx)) (Bal.text (fwdB_af as haf))))
      (Bal.text (fwdA_af es hef))
    simpa [List.append_assoc] using this

theorem ensOf_erase (o : Opts) : ensOf (eraseOpts o) = ensOf o := rfl
theorem capPoss_erase (cm : CaseMap) (o : Opts) (l : List Tok) : capPoss cm (eraseOpts o) l = capPoss cm o l := rfl

theorem fmt_step_strip (tb : Tables) (cm : CaseMap) (hcm : AngOK cm) (o : Opts) (ho : OptsOK tb o)
    (l l' out : List Tok) (h : doFormat tb cm o id l = .ok out)
    (hf : flat l' = strip false (flat l)) (hcl : inAngle false (flat l) = false) (hemp : l = [] ↔ l' = [])
    (hcap : (o.cap = .t ∨ o.poss = true) → l' = l ∧ TokAF l) :
    ∃ out', doFormat tb cm (eraseOpts o) id l' = .ok out' ∧ flat out' = strip false (flat out) ∧
      inAngle false (flat out) = false ∧ (out = [] ↔ out' = []) := by
  by_cases hne : l = []
  · have hne' : l' = [] := hemp.mp hne
    subst hne; subst hne'
    rw [doFormat_nil] at h; cases h
    exact ⟨[], doFormat_nil _ _ _ _, rfl, rfl, Iff.rfl⟩
  · have hne' : l' ≠ [] := fun e => hne (hemp.mpr e)
    rw [doFormat_ne _ _ _ _ _ (removeEmpty_ne_nil l hne)] at h
    rw [doFormat_ne _ _ _ _ _ (removeEmpty_ne_nil l' hne')]
    simp only [id] at h ⊢
    obtain ⟨htags, ⟨as, ha, haf⟩, ⟨bs, hbb, hbf⟩, ⟨es, he, hef⟩⟩ := ho
    have hre := removeEmpty_ne_nil l hne
    have hre' := removeEmpty_ne_nil l' hne'
    rw [formatCore_eq tb cm o _ hre as bs es ha hbb he] at h
    cases h
    rw [formatCore_eq tb cm (eraseOpts o) _ hre' as bs es ha hbb (by rw [ensOf_erase]; exact he)]
    refine ⟨_, rfl, ?_, ?_, ?_⟩
    · rw [flat_wrapAll _ _ _ (capPoss_ne_nil cm _ _ hre'), flat_wrapAll _ _ _ (capPoss_ne_nil cm o _ hre)]
      -- the middle part
      have hmid : flat (capPoss cm (eraseOpts o) (removeEmpty l')) = strip false (flat (capPoss cm o (removeEmpty l))) ∧
          inAngle false (flat (capPoss cm o (removeEmpty l))) = false := by
        rw [capPoss_erase]
        by_cases hc : o.cap = .t ∨ o.poss = true
        · obtain ⟨e, haf'⟩ := hcap hc
          rw [e]
          have := strip_angleFree (tokAF_flat (tokAF_capPoss cm hcm o (tokAF_removeEmpty haf')))
          exact ⟨this.1.symm, this.2⟩
        · have h1 : o.cap ≠ .t := fun e => hc (Or.inl e)
          have h2 : o.poss = false := by
            cases hh : o.poss with
            | false => rfl
            | true => exact absurd (Or.inr hh) hc
          rw [capPoss_id cm o _ h1 h2, capPoss_id cm o _ h1 h2, flat_removeEmpty, flat_removeEmpty]
          exact ⟨hf, hcl⟩
      obtain ⟨m1, m2⟩ := hmid
      obtain ⟨e1, e2⟩ := strip_angleFree (revB_af es hef)
      obtain ⟨b1, b2⟩ := strip_angleFree (revB_af bs hbf)
      obtain ⟨a1, a2⟩ := strip_angleFree (fwdB_af as haf)
      obtain ⟨f1, f2⟩ := strip_angleFree (fwdA_af es hef)
      obtain ⟨t1, t2⟩ := tagsB_strip _ htags
      obtain ⟨u1, u2⟩ := tagsA_strip _ htags
      have hB : inAngle false (revB es ++ revB bs ++ tagsB (optList o.tags)) = false :=
        closed_append (closed_append e2 b2) t2
      have hBs : strip false (revB es ++ revB bs ++ tagsB (optList o.tags)) = revB es ++ revB bs := by
        rw [strip_closed _ _ (closed_append e2 b2), strip_closed _ _ e2, e1, b1, t1]; simp
      have hAs : strip false (tagsA (optList o.tags) ++ fwdB as ++ fwdA es) = fwdB as ++ fwdA es := by
        rw [strip_closed _ _ (closed_append u2 a2), strip_closed _ _ u2, u1, a1, f1]; simp
      rw [strip_closed _ _ (closed_append hB m2), strip_closed _ _ hB, hBs, hAs, ← m1]
      simp [eraseOpts, optList, tagsB, tagsA]
    · rw [flat_wrapAll _ _ _ (capPoss_ne_nil cm o _ hre)]
      have m2 : inAngle false (flat (capPoss cm o (removeEmpty l))) = false := by
        by_cases hc : o.cap = .t ∨ o.poss = true
        · exact (strip_angleFree (tokAF_flat (tokAF_capPoss cm hcm o (tokAF_removeEmpty (hcap hc).2)))).2
        · have h1 : o.cap ≠ .t := fun e => hc (Or.inl e)
          have h2 : o.poss = false := by
            cases hh : o.poss with
            | false => rfl
            | true => exact absurd (Or.inr hh) hc
          rw [capPoss_id cm o _ h1 h2, flat_removeEmpty]; exact hcl
      exact closed_append (closed_append (closed_append (closed_append (strip_angleFree (revB_af es hef)).2
        (strip_angleFree (revB_af bs hbf)).2) (tagsB_strip _ htags).2) m2)
        (closed_append (closed_append (tagsA_strip _ htags).2 (strip_angleFree (fwdB_af as haf)).2)
          (strip_angleFree (fwdA_af es hef)).2)
    · constructor
      · intro e; exact absurd e (wrapAll_ne_nil _ _ _ (capPoss_ne_nil cm o _ hre))
      · intro e; exact absurd e (wrapAll_ne_nil _ _ _ (capPoss_ne_nil cm _ _ hre'))

end Pyrealb.Format
