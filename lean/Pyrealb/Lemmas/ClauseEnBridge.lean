import Pyrealb.Lemmas.ClauseEnLin
import Pyrealb.Lemmas.ClauseEnVG3
/-! From the two normal forms to statements about `realizePhrase` / `realizeDep` themselves. -/
namespace Pyrealb.ClauseEn
set_option linter.unusedSimpArgs false

inductive Notation | phrase | dep deriving DecidableEq, Repr

/-- the model of `S(...).typ(ty).realize()` / `root(...).typ(ty).realize()` up to the symbolic tokens -/
def realize : Notation → Spec → Typ → Except Crash Out
  | .phrase => realizePhrase
  | .dep => realizeDep

/-- the declarative linearisation of either notation (`none`: the model raises; since 5c3407b/38d9ad6 neither does) -/
def lin (nt : Notation) (sp : Spec) (ty : Typ) : Option (List Tok) :=
  match nt with
  | .phrase => some (linPh (midPh sp ty.pas) ty.int (clauseWords sp ty))
  | .dep => linDep sp ty (clauseWords sp ty)

/-- **the model is its declarative linearisation** (both notations): a successful realization has exactly the tokens
    `lin` prescribes, and the model raises exactly where `lin` is undefined -/
theorem realize_lin (nt : Notation) (sp : Spec) (ty : Typ) :
    match lin nt sp ty with
    | some L => ∃ out, realize nt sp ty = .ok out ∧ out.main = L.map (Tok.resolve out.agr)
    | none => realize nt sp ty = .error .attributeError := by
  cases nt with
  | phrase =>
    obtain ⟨out, hout, hmain, _⟩ := phrase_nf sp ty
    exact ⟨out, hout, hmain⟩
  | dep =>
    have := dep_nf sp ty
    unfold lin
    cases hL : linDep sp ty (clauseWords sp ty) with
    | none => simp only [hL] at this; exact this
    | some L =>
      simp only [hL] at this
      obtain ⟨out, hout, hmain, _⟩ := this
      exact ⟨out, hout, hmain⟩

theorem lin_words (nt : Notation) (sp : Spec) (ty : Typ) (L : List Tok) (h : lin nt sp ty = some L) :
    wordsOf L = clauseWords sp ty := by
  cases nt with
  | phrase =>
    simp only [lin] at h
    injection h with h; subst h
    exact wordsOf_linPh _ _ _ (clauseWords_all sp ty)
  | dep => exact wordsOf_linDep sp ty _ L (clauseWords_all sp ty) h

/-- a successful realization and its linearisation -/
theorem ok_lin (nt : Notation) (sp : Spec) (ty : Typ) (out : Out) (h : realize nt sp ty = .ok out) :
    ∃ L, lin nt sp ty = some L ∧ out.main = L.map (Tok.resolve out.agr) := by
  have := realize_lin nt sp ty
  cases hL : lin nt sp ty with
  | none => simp only [hL] at this; rw [this] at h; cases h
  | some L =>
    simp only [hL] at this
    obtain ⟨out', hout', hmain⟩ := this
    rw [h] at hout'
    injection hout' with e
    subst e
    exact ⟨L, rfl, hmain⟩

/-- the verb-group words of the clause proper are the words affixHopping returned, in their order -/
theorem main_words (nt : Notation) (sp : Spec) (ty : Typ) (out : Out) (h : realize nt sp ty = .ok out) :
    wordsOf out.main = (clauseWords sp ty).map (Tok.resolve out.agr) := by
  obtain ⟨L, hL, hmain⟩ := ok_lin nt sp ty out h
  rw [hmain, wordsOf_map_resolve, lin_words nt sp ty L hL]

/-! the verb group does not see the non-verbal tokens nor the agreement resolution -/

theorem vgroup_wordsOf (l : List Tok) : vgroup (wordsOf l) = vgroup l := by
  induction l with
  | nil => rfl
  | cons t r ih =>
    cases t <;> simp only [wordsOf, List.filter_cons, Tok.isWord, if_true, vgroup, Bool.false_eq_true, if_false] at ih ⊢ <;>
    first | exact ih | (rw [ih])

theorem vgroupLF_map_resolve (a : Agr) (l : List Tok) : vgroupLF (l.map (Tok.resolve a)) = vgroupLF l := by
  induction l with
  | nil => rfl
  | cons t r ih =>
    cases t with
    | verb l f rf => cases rf <;> simp [vgroupLF, vgroup, Tok.resolve] at ih ⊢ <;> exact ih
    | _ => simp [vgroupLF, vgroup, Tok.resolve] at ih ⊢ <;> exact ih

theorem main_vgroupLF (nt : Notation) (sp : Spec) (ty : Typ) (out : Out) (h : realize nt sp ty = .ok out) :
    vgroupLF out.main = vgroupLF (words sp.verb sp.t ty) := by
  have := main_words nt sp ty out h
  have h2 : vgroupLF out.main = vgroupLF (wordsOf out.main) := by unfold vgroupLF; rw [vgroup_wordsOf]
  rw [h2, this, vgroupLF_map_resolve]
  rfl

theorem notPlaced_map_resolve (a : Agr) (neg : Bool) (l : List Tok) :
    notPlaced neg (l.map (Tok.resolve a)) = notPlaced neg l := by
  have hc : ∀ l : List Tok, notCount (l.map (Tok.resolve a)) = notCount l := by
    intro l
    induction l with
    | nil => rfl
    | cons t r ih =>
      cases t with
      | verb l f rf => cases rf <;> simp [notCount, Tok.resolve, ih]
      | _ => simp [notCount, Tok.resolve, ih]
  unfold notPlaced
  cases neg
  · simp [hc]
  · simp only [if_true]
    cases l with
    | nil => rfl
    | cons t r =>
      cases t with
      | verb l f rf =>
        cases r with
        | nil => cases rf <;> rfl
        | cons t2 r2 =>
          cases t2 with
          | verb l2 f2 rf2 => cases rf <;> cases rf2 <;> rfl
          | not_ => cases rf <;> simp [Tok.resolve, hc]
          | _ => cases rf <;> rfl
      | cannot => simp [Tok.resolve, hc]
      | _ => rfl

end Pyrealb.ClauseEn
