import Pyrealb.Model.DeclWF
import Pyrealb.Lemmas.Decl
/-! Helper lemmas for the totality clauses of C02: the constructor never raises on well-formed tables; the
invariant "a stored table id exists in the rules and a stem was computed"; option calls preserve what realization
needs. -/
namespace Pyrealb.Decl

theorem lookup_mem {α} (k : Str) (l : List (Str × α)) (v : α) (h : lookup k l = some v) : (k, v) ∈ l := by
  induction l with
  | nil => simp [lookup] at h
  | cons p r ih =>
    obtain ⟨k', v'⟩ := p
    unfold lookup at h
    split at h
    · rename_i hk; cases h; subst hk; simp
    · simp [ih h]

theorem wf_lookup (rules : Rules) (tb : Str) (table : Table) (hw : WFRules rules)
    (h : lookup tb rules = some table) : WFTable table :=
  hw (tb, table) (lookup_mem tb rules table h)

theorem wf_rows_ne (table : Table) (h : WFTable table) : table.rows ≠ [] := by
  unfold WFTable at h
  split at h
  · exact h.elim
  · rename_i heq; rw [heq]; simp

theorem allSamePe_ok (pe : FV) (rows : List Row) (h : ∀ d ∈ rows, d.get Feat.pe ≠ none) (c : Crash) :
    allSamePe pe rows ≠ .error c := by
  induction rows with
  | nil => simp [allSamePe, pure, Except.pure]
  | cons d r ih =>
    unfold allSamePe
    cases hd : d.get Feat.pe with
    | none => exact absurd hd (h d (by simp))
    | some w =>
      simp only []
      split
      · exact ih (fun d' hd' => h d' (by simp [hd']))
      · simp [pure, Except.pure]

theorem personInfer_ok (table : Table) (hw : WFTable table) (c : Crash) : personInfer table.rows ≠ .error c := by
  unfold WFTable at hw
  unfold personInfer
  split at hw
  · exact hw.elim
  · rename_i d0 rest heq
    rw [heq]
    simp only []
    cases hd : d0.get Feat.pe with
    | none => simp [pure, Except.pure]
    | some pe =>
      simp only []
      split
      · simp [pure, Except.pure]
      · have hall : ∀ d ∈ rest, d.get Feat.pe ≠ none := by
          intro d hdm
          apply hw (by simp [hd]) d
          rw [heq]; simp [hdm]
        simp only [bind, Except.bind]
        split
        · rename_i e he; exact absurd he (allSamePe_ok pe rest hall e)
        · simp [pure, Except.pure]

/-- the invariant of `setLemma`: a stored table id names a table of the rules and a stem was computed -/
def TabInv (rules : Rules) (t : Term) : Prop :=
  ∀ tb, t.tab = some tb → (∃ table, lookup tb rules = some table) ∧ ∃ st, t.stem = some st

/-- what neither `setLemma` nor the option calls change -/
def SameKind (t t' : Term) : Prop := t'.lang = t.lang ∧ t'.pos = t.pos ∧ t'.pMaje = t.pMaje

theorem SameKind.refl (t : Term) : SameKind t t := ⟨rfl, rfl, rfl⟩
theorem SameKind.trans {a b c : Term} (h1 : SameKind a b) (h2 : SameKind b c) : SameKind a c :=
  ⟨h2.1.trans h1.1, h2.2.1.trans h1.2.1, h2.2.2.trans h1.2.2⟩

theorem sameKind_setPe (t : Term) (v : FV) (b : Bool) : SameKind t (t.setPe v b) := by
  unfold Term.setPe; split <;> exact ⟨rfl, rfl, rfl⟩
theorem sameKind_setN (t : Term) (v : FV) (b : Bool) : SameKind t (t.setN v b) := by
  unfold Term.setN; split <;> exact ⟨rfl, rfl, rfl⟩
theorem sameKind_setG (t : Term) (v : FV) (b : Bool) : SameKind t (t.setG v b) := by
  unfold Term.setG; split <;> exact ⟨rfl, rfl, rfl⟩

theorem tab_setPe (t : Term) (v : FV) (b : Bool) : (t.setPe v b).tab = t.tab ∧ (t.setPe v b).stem = t.stem ∧ (t.setPe v b).real = t.real := by
  unfold Term.setPe; split <;> exact ⟨rfl, rfl, rfl⟩
theorem tab_setN (t : Term) (v : FV) (b : Bool) : (t.setN v b).tab = t.tab ∧ (t.setN v b).stem = t.stem ∧ (t.setN v b).real = t.real := by
  unfold Term.setN; split <;> exact ⟨rfl, rfl, rfl⟩
theorem tab_setG (t : Term) (v : FV) (b : Bool) : (t.setG v b).tab = t.tab ∧ (t.setG v b).stem = t.stem ∧ (t.setG v b).real = t.real := by
  unfold Term.setG; split <;> exact ⟨rfl, rfl, rfl⟩

theorem tabInv_of_eq {rules : Rules} {t t' : Term} (h : TabInv rules t) (h1 : t'.tab = t.tab) (h2 : t'.stem = t.stem) :
    TabInv rules t' := by
  intro tb htb; rw [h1] at htb; rw [h2]; exact h tb htb

theorem tabInv_badTable (rules : Rules) (t : Term) : TabInv rules (badTable t) := by
  intro tb htb
  unfold badTable at htb
  dsimp only at htb
  split at htb <;> cases htb

theorem sameKind_badTable (t : Term) : SameKind t (badTable t) := by
  unfold badTable; dsimp only; split <;> exact ⟨rfl, rfl, rfl⟩

theorem tabStep (rules : Rules) (tb : Str) (decl : Table) (hdecl : lookup tb rules = some decl) (t1 : Term) :
    ∃ t', (if endsWith t1.lemma decl.ending = true then
            (pure { t1 with tab := some tb, stem := some (if decl.ending = [] then t1.lemma else dropRight t1.lemma decl.ending.length) } : Except Crash Term)
          else pure (badTable t1)) = .ok t' ∧ TabInv rules t' ∧ SameKind t1 t' := by
  split
  · refine ⟨_, rfl, ?_, ⟨rfl, rfl, rfl⟩⟩
    intro tb' htb'
    simp only [Option.some.injEq] at htb'
    subst htb'
    exact ⟨⟨decl, hdecl⟩, ⟨_, rfl⟩⟩
  · exact ⟨_, rfl, tabInv_badTable rules t1, sameKind_badTable t1⟩

theorem setLemmaKey_spec (rules : Rules) (hw : WFRules rules) (t : Term) (k : Str) (v : LV) (hinv : TabInv rules t) :
    ∃ t', setLemmaKey rules t k v = .ok t' ∧ TabInv rules t' ∧ SameKind t t' := by
  unfold setLemmaKey
  split
  · split
    · rename_i tb
      split
      · rename_i decl hdecl
        have hwt := wf_lookup rules tb decl hw hdecl
        simp only [bind, Except.bind]
        by_cases hpro : t.pos = .Pro
        · rw [if_pos hpro]
          cases hp : personInfer decl.rows with
          | error e => exact absurd hp (personInfer_ok decl hwt e)
          | ok p =>
            simp only [pure, Except.pure]
            cases p with
            | none =>
              obtain ⟨t', h1, h2, h3⟩ := tabStep rules tb decl hdecl t
              exact ⟨t', h1, h2, h3⟩
            | some pe =>
              obtain ⟨t', h1, h2, h3⟩ := tabStep rules tb decl hdecl (t.setPe pe)
              exact ⟨t', h1, h2, (sameKind_setPe t pe false).trans h3⟩
        · rw [if_neg hpro]
          by_cases hn : t.pos = .N ∧ tb ∈ alwaysPlural t.lang
          · rw [if_pos hn]
            obtain ⟨t', h1, h2, h3⟩ := tabStep rules tb decl hdecl (t.setN (.str ['p']))
            exact ⟨t', h1, h2, (sameKind_setN t _ false).trans h3⟩
          · rw [if_neg hn]
            obtain ⟨t', h1, h2, h3⟩ := tabStep rules tb decl hdecl t
            exact ⟨t', h1, h2, h3⟩
      · exact ⟨_, rfl, tabInv_badTable rules t, sameKind_badTable t⟩
    · exact ⟨_, rfl, tabInv_badTable rules t, sameKind_badTable t⟩
  · split
    · exact ⟨_, rfl, tabInv_of_eq hinv (tab_setPe t _ _).1 (tab_setPe t _ _).2.1, sameKind_setPe t _ _⟩
    · split
      · exact ⟨_, rfl, tabInv_of_eq hinv (tab_setN t _ _).1 (tab_setN t _ _).2.1, sameKind_setN t _ _⟩
      · split
        · exact ⟨_, rfl, tabInv_of_eq hinv (tab_setG t _ _).1 (tab_setG t _ _).2.1, sameKind_setG t _ _⟩
        · repeat' split
          all_goals exact ⟨_, rfl, tabInv_of_eq hinv rfl rfl, ⟨rfl, rfl, rfl⟩⟩

theorem setLemmaKeys_spec (rules : Rules) (hw : WFRules rules) (entry : PosEntry) (t : Term) (hinv : TabInv rules t) :
    ∃ t', setLemmaKeys rules t entry = .ok t' ∧ TabInv rules t' ∧ SameKind t t' := by
  induction entry generalizing t with
  | nil => exact ⟨t, rfl, hinv, SameKind.refl t⟩
  | cons p r ih =>
    obtain ⟨k, v⟩ := p
    obtain ⟨t1, h1, hi1, hk1⟩ := setLemmaKey_spec rules hw t k v hinv
    obtain ⟨t2, h2, hi2, hk2⟩ := ih t1 hi1
    refine ⟨t2, ?_, hi2, hk1.trans hk2⟩
    simp only [setLemmaKeys, bind, Except.bind, h1, h2]

/-- `setLemma` never raises on well-formed rules and keeps the invariant; when it leaves a table id, the (new)
    lemma has an entry for the terminal's part of speech -/
theorem setLemma_spec (rules : Rules) (hw : WFRules rules) (lex : Lex) (t : Term) (lemma : Str) (hinv : TabInv rules t) :
    ∃ t', setLemma rules lex t lemma = .ok t' ∧ TabInv rules t' ∧ SameKind t t' ∧
      (∀ tb, t'.tab = some tb → ∃ e, lexPos lex t'.lemma t'.pos.name = some e) := by
  unfold setLemma
  simp only []
  split
  · refine ⟨_, rfl, ?_, ⟨rfl, rfl, rfl⟩, ?_⟩
    · intro tb htb; cases htb
    · intro tb htb; cases htb
  · rename_i info hinfo
    split
    · refine ⟨_, rfl, ?_, ⟨rfl, rfl, rfl⟩, ?_⟩
      · intro tb htb; cases htb
      · intro tb htb; cases htb
    · rename_i entry hentry
      have hinv' : TabInv rules { t with lemma := normLemma lemma, peng := match t.peng with | some p => some p | none => initPeng t.lang t.pos } :=
        tabInv_of_eq hinv rfl rfl
      obtain ⟨t', h1, hi, hk⟩ := setLemmaKeys_spec rules hw entry _ hinv'
      refine ⟨t', h1, hi, ⟨hk.1, hk.2.1, hk.2.2⟩, ?_⟩
      intro tb _
      have hl := setLemmaKeys_lemma rules entry _ t' h1
      simp only [] at hl
      refine ⟨entry, ?_⟩
      unfold lexPos
      rw [hl, hinfo]
      simp only []
      rw [hk.2.1]
      exact hentry


theorem mkTerm_spec (rules : Rules) (hw : WFRules rules) (lex : Lex) (lang : Lang) (pos : Pos) (lemma : Str) :
    ∃ t, mkTerm rules lex lang pos lemma = .ok t ∧ TabInv rules t ∧ t.lang = lang ∧ t.pos = pos ∧ t.pMaje = none ∧
      (∀ tb, t.tab = some tb → ∃ e, lexPos lex t.lemma t.pos.name = some e) := by
  unfold mkTerm
  have h0 : TabInv rules { lang := lang, pos := pos, lemma := lemma } := by intro tb htb; cases htb
  obtain ⟨t, h1, h2, h3, h4⟩ := setLemma_spec rules hw lex _ lemma h0
  exact ⟨t, h1, h2, h3.1, h3.2.1, h3.2.2, h4⟩

/-! ### option calls -/

/-- what an option call other than `.maje()` keeps -/
structure Kept (t t' : Term) : Prop where
  tab : t'.tab = t.tab
  stem : t'.stem = t.stem
  real : t'.real = t.real
  lemma : t'.lemma = t.lemma
  lang : t'.lang = t.lang
  pos : t'.pos = t.pos
  maje : t'.pMaje = t.pMaje

theorem Kept.refl (t : Term) : Kept t t := ⟨rfl, rfl, rfl, rfl, rfl, rfl, rfl⟩
theorem Kept.trans {a b c : Term} (h1 : Kept a b) (h2 : Kept b c) : Kept a c :=
  ⟨h2.tab.trans h1.tab, h2.stem.trans h1.stem, h2.real.trans h1.real, h2.lemma.trans h1.lemma,
   h2.lang.trans h1.lang, h2.pos.trans h1.pos, h2.maje.trans h1.maje⟩

theorem kept_warn (t : Term) : Kept t t.warn := ⟨rfl, rfl, rfl, rfl, rfl, rfl, rfl⟩
theorem kept_setPe (t : Term) (v : FV) (b : Bool) : Kept t (t.setPe v b) := by
  unfold Term.setPe; split <;> exact ⟨rfl, rfl, rfl, rfl, rfl, rfl, rfl⟩
theorem kept_setN (t : Term) (v : FV) (b : Bool) : Kept t (t.setN v b) := by
  unfold Term.setN; split <;> exact ⟨rfl, rfl, rfl, rfl, rfl, rfl, rfl⟩
theorem kept_setG (t : Term) (v : FV) (b : Bool) : Kept t (t.setG v b) := by
  unfold Term.setG; split <;> exact ⟨rfl, rfl, rfl, rfl, rfl, rfl, rfl⟩

theorem getPe_warn (t : Term) : t.warn.getPe = t.getPe := rfl
theorem getPe_setPe (t : Term) (v : FV) : (t.setPe v).getPe = v := by
  simp [Term.setPe, Term.getPe]
theorem getPe_setN (t : Term) (v : FV) : (t.setN v).getPe = t.getPe := by
  simp only [Term.setN, Term.getPe]
  cases t.pPe <;> cases t.peng <;> rfl
theorem getPe_setG (t : Term) (v : FV) : (t.setG v).getPe = t.getPe := by
  simp only [Term.setG, Term.getPe]
  cases t.pPe <;> cases t.peng <;> rfl

theorem kept_setOptProp (t : Term) (name : Str) (v : FV) : Kept t (setOptProp t name v) := by
  unfold setOptProp
  split
  · exact kept_setPe t v false
  · split
    · exact kept_setN t v false
    · split
      · exact kept_setG t v false
      · repeat' split
        all_goals exact ⟨rfl, rfl, rfl, rfl, rfl, rfl, rfl⟩

theorem getPe_setOptProp (t : Term) (name : Str) (v : FV) :
    (setOptProp t name v).getPe = if name = "pe".toList then v else t.getPe := by
  unfold setOptProp
  split
  · exact getPe_setPe t v
  · split
    · exact getPe_setN t v
    · split
      · exact getPe_setG t v
      · repeat' split
        all_goals rfl

theorem peVal_bool (b : Bool) : PeVal (FV.bool b) := Or.inr (Or.inr (Or.inl ⟨b, rfl⟩))
theorem peVal_int (i : Int) : PeVal (FV.int i) := Or.inr (Or.inl ⟨i, rfl⟩)

theorem peVal_of_valid (v : OV) (vals : List OV) (hv : validVals "pe".toList = some vals) (hm : v ∈ vals) :
    PeVal v.toFV := by
  have : vals = [.int 1, .int 2, .int 3, .str ['1'], .str ['2'], .str ['3']] := by
    have h2 : validVals "pe".toList = some [.int 1, .int 2, .int 3, .str ['1'], .str ['2'], .str ['3']] := by decide
    rw [h2] at hv; exact (Option.some.inj hv).symm
  subst this
  simp only [List.mem_cons, List.not_mem_nil, or_false] at hm
  rcases hm with rfl | rfl | rfl | rfl | rfl | rfl
  · exact peVal_int 1
  · exact peVal_int 2
  · exact peVal_int 3
  · exact Or.inr (Or.inr (Or.inr ⟨['1'], rfl, by decide, by decide⟩))
  · exact Or.inr (Or.inr (Or.inr ⟨['2'], rfl, by decide, by decide⟩))
  · exact Or.inr (Or.inr (Or.inr ⟨['3'], rfl, by decide, by decide⟩))

theorem applyOpt_spec (t : Term) (k : Str) (v : OV) (hk : validVals k ≠ none) (hb : ∀ b, v ≠ OV.bool b)
    (hpe : PeVal t.getPe) :
    ∃ t', applyOpt t k v = .ok t' ∧ Kept t t' ∧ PeVal t'.getPe := by
  unfold applyOpt
  have hm : k ≠ "maje".toList := by
    intro h; apply hk; rw [h]; decide
  rw [if_neg hm]
  cases hv : validVals k with
  | none => exact absurd hv hk
  | some vals =>
    simp only []
    cases v with
    | bool b => exact absurd rfl (hb b)
    | none =>
      simp only [true_and]
      split
      · exact ⟨_, rfl, kept_warn t, hpe⟩
      · split
        · refine ⟨_, rfl, kept_setOptProp t k _, ?_⟩
          rw [getPe_setOptProp]; split
          · exact peVal_bool true
          · exact hpe
        · exact ⟨_, rfl, kept_warn t, hpe⟩
    | str x =>
      have hne : (OV.str x = OV.none) = False := by simp
      simp only [hne, false_and, if_false]
      split
      · split
        · exact ⟨_, rfl, kept_warn t, hpe⟩
        · rename_i hin
          refine ⟨_, rfl, kept_setOptProp t k _, ?_⟩
          rw [getPe_setOptProp]; split
          · rename_i hkpe; subst hkpe
            exact peVal_of_valid _ vals hv (by simpa using hin)
          · exact hpe
      · exact ⟨_, rfl, kept_warn t, hpe⟩
    | int x =>
      have hne : (OV.int x = OV.none) = False := by simp
      simp only [hne, false_and, if_false]
      split
      · split
        · exact ⟨_, rfl, kept_warn t, hpe⟩
        · rename_i hin
          refine ⟨_, rfl, kept_setOptProp t k _, ?_⟩
          rw [getPe_setOptProp]; split
          · rename_i hkpe; subst hkpe
            exact peVal_of_valid _ vals hv (by simpa using hin)
          · exact hpe
      · exact ⟨_, rfl, kept_warn t, hpe⟩

theorem applyOpts_spec (opts : List (Str × OV)) (t : Term) (hv : ValidOpts opts) (hpe : PeVal t.getPe) :
    ∃ t', applyOpts t opts = .ok t' ∧ Kept t t' ∧ PeVal t'.getPe := by
  induction opts generalizing t with
  | nil => exact ⟨t, rfl, Kept.refl t, hpe⟩
  | cons o r ih =>
    obtain ⟨k, v⟩ := o
    have ho := hv (k, v) (by simp)
    obtain ⟨t1, h1, hk1, hp1⟩ := applyOpt_spec t k v ho.1 ho.2 hpe
    obtain ⟨t2, h2, hk2, hp2⟩ := ih t1 (fun o' ho' => hv o' (by simp [ho'])) hp1
    refine ⟨t2, ?_, hk1.trans hk2, hp2⟩
    simp only [applyOpts, bind, Except.bind, h1, h2]


/-! ### realization never raises -/

theorem intOf_ok (v : FV) (h : PeVal v) (hn : v ≠ FV.none) : ∃ i, intOf v = .ok i := by
  rcases h with h | ⟨i, rfl⟩ | ⟨b, rfl⟩ | ⟨x, rfl, hx, hd⟩
  · exact absurd h hn
  · exact ⟨i, rfl⟩
  · exact ⟨_, rfl⟩
  · unfold intOf
    cases x with
    | nil => exact absurd rfl hx
    | cons c r =>
      simp only []
      cases hdv : digitsVal (c :: r) 0 with
      | none => exact absurd hdv hd
      | some k => exact ⟨_, rfl⟩

theorem nounChecks_total (lex : Lex) (t : Term) (g n : FV) (form : Str)
    (hl : ∃ e, lexPos lex t.lemma "N".toList = some e)
    (hc : t.lang = Lang.en → ∀ e, lexPos lex t.lemma "N".toList = some e → lookup "cnt".toList e ≠ none) :
    ∃ o, nounChecks lex t g n form = .ok o := by
  obtain ⟨e, he⟩ := hl
  unfold lexPos at he
  unfold nounChecks
  cases hlang : t.lang with
  | fr =>
    simp only []
    cases h1 : lookup t.lemma lex with
    | none => simp [h1] at he
    | some info =>
      simp only [h1] at he
      simp only [he]
      repeat' split
      all_goals exact ⟨_, rfl⟩
  | en =>
    simp only []
    split
    · cases h1 : lookup t.lemma lex with
      | none => simp [h1] at he
      | some info =>
        simp only [h1] at he
        simp only [he]
        have := hc hlang e (by unfold lexPos; rw [h1]; exact he)
        cases h2 : lookup "cnt".toList e with
        | none => exact absurd h2 this
        | some cnt =>
          simp only []
          split <;> exact ⟨_, rfl⟩
    · exact ⟨_, rfl⟩

/-- what `prepareNDP` keeps of the terminal -/
structure Kept2 (t t' : Term) : Prop where
  stem : t'.stem = t.stem
  lemma : t'.lemma = t.lemma
  lang : t'.lang = t.lang
  pos : t'.pos = t.pos

theorem kept2_of_kept {t t' : Term} (h : Kept t t') : Kept2 t t' := ⟨h.stem, h.lemma, h.lang, h.pos⟩
theorem Kept2.refl (t : Term) : Kept2 t t := ⟨rfl, rfl, rfl, rfl⟩
theorem Kept2.trans {a b c : Term} (h1 : Kept2 a b) (h2 : Kept2 b c) : Kept2 a c :=
  ⟨h2.stem.trans h1.stem, h2.lemma.trans h1.lemma, h2.lang.trans h1.lang, h2.pos.trans h1.pos⟩

theorem proCaseStep_kept (t : Term) (kv : KeyVals) (c : FV) : Kept2 t (proCaseStep t kv c).1 := by
  unfold proCaseStep
  split
  · split
    · exact kept2_of_kept (kept_warn t)
    · exact Kept2.refl t
  · exact Kept2.refl t

theorem proTonicStep_kept (t : Term) (kv : KeyVals) (c tn : FV) : Kept2 t (proTonicStep t kv c tn).1 := by
  unfold proTonicStep
  split
  · split
    · exact kept2_of_kept (kept_warn t)
    · exact Kept2.refl t
  · exact Kept2.refl t

theorem proPersonStep_total (t : Term) (rows : List Row) (g n c tn : FV) (kv : KeyVals) (hr : rows ≠ []) :
    ∃ t' kv', proPersonStep t rows g n c tn kv = .ok (t', kv') ∧ Kept2 t t' := by
  unfold proPersonStep
  split
  · split
    · dsimp only
      split
      · exact ⟨_, _, rfl, kept2_of_kept (kept_setPe t _ false)⟩
      · exact ⟨_, _, rfl, Kept2.refl t⟩
    · cases rows with
      | nil => exact absurd rfl hr
      | cons d0 rest =>
        dsimp only
        split
        · refine ⟨_, _, rfl, ?_⟩
          exact (kept2_of_kept (kept_setG t _ false)).trans
            ((kept2_of_kept (kept_setN _ _ false)).trans (kept2_of_kept (kept_setPe _ _ false)))
        · exact ⟨_, _, rfl, Kept2.refl t⟩
  · split
    · exact ⟨_, _, rfl, Kept2.refl t⟩
    · exact ⟨_, _, rfl, Kept2.refl t⟩

theorem proKeyVals_total (t : Term) (rows : List Row) (g n : FV) (kv : KeyVals) (hr : rows ≠ []) :
    ∃ t' kv', proKeyVals t rows g n kv = .ok (t', kv') ∧ Kept2 t t' := by
  unfold proKeyVals
  dsimp only
  obtain ⟨t', kv', h1, h2⟩ := proPersonStep_total
    (proTonicStep (proCaseStep t kv (match t.pC with | some v => v | none => FV.none)).1
      (proCaseStep t kv (match t.pC with | some v => v | none => FV.none)).2
      (match t.pC with | some v => v | none => FV.none) (match t.pTn with | some v => v | none => FV.none)).1
    rows g n (match t.pC with | some v => v | none => FV.none) (match t.pTn with | some v => v | none => FV.none)
    (proTonicStep (proCaseStep t kv (match t.pC with | some v => v | none => FV.none)).1
      (proCaseStep t kv (match t.pC with | some v => v | none => FV.none)).2
      (match t.pC with | some v => v | none => FV.none) (match t.pTn with | some v => v | none => FV.none)).2 hr
  exact ⟨t', kv', h1, ((proCaseStep_kept t kv _).trans (proTonicStep_kept _ _ _ _)).trans h2⟩

theorem reqPerson_total (t : Term) (sp : Bool) (hpe : PeVal t.getPe) : ∃ i, reqPerson t sp = .ok i := by
  unfold reqPerson
  split
  · split
    · exact ⟨3, rfl⟩
    · rename_i p hp
      exact intOf_ok _ hpe (by intro h; exact hp h)
  · exact ⟨3, rfl⟩

theorem majesticStep_none (rules : Rules) (lex : Lex) (t : Term) (table : Table) (pe : Int) (n : FV)
    (hm : t.pMaje = none) : majesticStep rules lex t table pe n = .ok (t, table.rows) := by
  unfold majesticStep
  have hmaj : t.isMajestic = false := by simp [Term.isMajestic, hm]
  simp [hmaj, pure, Except.pure]

theorem prepareNDP_total (rules : Rules) (lex : Lex) (t : Term) (table : Table) (g n : FV) (sp : Bool)
    (hm : t.pMaje = none) (hpe : PeVal t.getPe) (hr : table.rows ≠ []) :
    ∃ t' rows kv, prepareNDP rules lex t table g n sp = .ok (t', rows, kv) ∧ Kept2 t t' := by
  unfold prepareNDP
  obtain ⟨pe, hpe'⟩ := reqPerson_total t sp hpe
  simp only [bind, Except.bind, hpe', majesticStep_none rules lex t table pe n hm]
  split
  · obtain ⟨t', kv', h1, h2⟩ := proKeyVals_total t table.rows g n (ownStep t (baseKeyVals sp pe g n)) hr
    rw [h1]
    exact ⟨_, _, _, rfl, h2⟩
  · exact ⟨_, _, _, rfl, Kept2.refl t⟩

theorem declineNDP_total (rules : Rules) (lex : Lex) (t : Term) (table : Table) (stem : Str) (sp : Bool)
    (hm : t.pMaje = none) (hpe : PeVal t.getPe) (hr : table.rows ≠ []) (hst : t.stem = some stem)
    (hl : t.pos = Pos.N → ∃ e, lexPos lex t.lemma "N".toList = some e)
    (hc : t.pos = Pos.N → t.lang = Lang.en → ∀ e, lexPos lex t.lemma "N".toList = some e → lookup "cnt".toList e ≠ none) :
    ∃ o, declineNDP rules lex t table stem sp = .ok o := by
  unfold declineNDP
  dsimp only
  split
  · split
    · rename_i hN
      exact nounChecks_total lex t _ _ _ (hl hN) (hc hN)
    · exact ⟨_, rfl⟩
  · obtain ⟨t1, rows, kv, h1, hk⟩ := prepareNDP_total rules lex t table
      (if (t.pos = .D ∨ t.pos = .N) ∧ t.getG = .none then FV.str ['m'] else t.getG)
      (if (t.pos = .D ∨ t.pos = .N) ∧ t.getN = .none then FV.str ['s'] else t.getN) sp hm hpe hr
    simp only [bind, Except.bind, h1]
    split
    · exact ⟨_, rfl⟩
    · have : t1.stem = some stem := hk.stem.trans hst
      simp only [this]
      split
      · rename_i hN
        have hN' : t.pos = .N := hk.pos ▸ hN
        apply nounChecks_total
        · rw [hk.lemma]; exact hl hN'
        · rw [hk.lemma, hk.lang]; exact hc hN'
      · exact ⟨_, rfl⟩


theorem adjRowsEn_total (rules : Rules) (lex : Lex) (t : Term) (tb : Str) (table : Table) (stem : Str)
    (hl : ∃ info, lookup t.lemma lex = some info)
    (ha : ∀ e, lexPos lex t.lemma "A".toList = some e →
      ∃ atab atable, lookup "tab".toList e = some (LV.str atab) ∧ lookup atab rules = some atable) :
    ∃ r, adjRowsEn rules lex t tb table stem = .ok r := by
  unfold adjRowsEn
  obtain ⟨info, hinfo⟩ := hl
  split
  · rw [hinfo]
    dsimp only
    cases hA : lookup "A".toList info with
    | none => exact ⟨_, rfl⟩
    | some aentry =>
      obtain ⟨atab, atable, h1, h2⟩ := ha aentry (by unfold lexPos; rw [hinfo]; exact hA)
      dsimp only
      rw [h1]; dsimp only; rw [h2]
      exact ⟨_, rfl⟩
  · exact ⟨_, rfl⟩

theorem declineAdjEn_total (rules : Rules) (hw : WFRules rules) (lex : Lex) (t : Term) (tb : Str) (table : Table) (stem : Str)
    (hl : ∃ info, lookup t.lemma lex = some info)
    (ha : ∀ e, lexPos lex t.lemma "A".toList = some e →
      ∃ atab atable, lookup "tab".toList e = some (LV.str atab) ∧ lookup atab rules = some atable) :
    ∃ o, declineAdjEn rules lex t tb table stem = .ok o := by
  unfold declineAdjEn
  split
  · exact ⟨_, rfl⟩
  · exact ⟨_, rfl⟩
  · exact ⟨_, rfl⟩
  · rename_i f _ _ _
    split
    · obtain ⟨comp, hcomp, _⟩ := mkTerm_spec rules hw lex .en .Adv (if f = FV.str "co".toList then wMore else wMost)
      simp only [bind, Except.bind, hcomp]
      exact ⟨_, rfl⟩
    · obtain ⟨r, hr⟩ := adjRowsEn_total rules lex t tb table stem hl ha
      simp only [bind, Except.bind, hr]
      cases r with
      | none => exact ⟨_, rfl⟩
      | some rs =>
        obtain ⟨rows, st⟩ := rs
        dsimp only
        split <;> exact ⟨_, rfl⟩

theorem frComp_total (sub : Pos → Str → FV → FV → Except Crash (Str × Nat)) (lemma : Str) (g n : FV)
    (hs : ∀ p l g n, ∃ r, sub p l g n = .ok r) : ∃ r, frComp sub lemma g n = .ok r := by
  unfold frComp
  split
  · rename_i sp _
    obtain ⟨r, hr⟩ := hs .A sp g n
    simp only [bind, Except.bind, hr]; exact ⟨_, rfl⟩
  · obtain ⟨r1, hr1⟩ := hs .Adv wPlus g n
    obtain ⟨r2, hr2⟩ := hs .A lemma g n
    simp only [bind, Except.bind, hr1, hr2]; exact ⟨_, rfl⟩

theorem declineAdjFr_total (sub : Pos → Str → FV → FV → Except Crash (Str × Nat)) (t : Term) (table : Table) (stem : Str)
    (hsub : ∀ p l g n c, sub p l g n ≠ .error c) :
    ∃ o, declineAdjFr sub t table stem = .ok o := by
  have hs : ∀ p l g n, ∃ r, sub p l g n = .ok r := by
    intro p l g n
    cases h : sub p l g n with
    | error c => exact absurd h (hsub p l g n c)
    | ok r => exact ⟨r, rfl⟩
  unfold declineAdjFr
  split
  · exact ⟨_, rfl⟩
  · obtain ⟨radj, hradj⟩ := frComp_total sub t.lemma t.getG t.getN hs
    obtain ⟨r0, hr0⟩ := hs .D wLe t.getG t.getN
    split
    · exact ⟨_, rfl⟩
    · exact ⟨_, rfl⟩
    · exact ⟨_, rfl⟩
    · split
      · simp only [bind, Except.bind, hradj]; exact ⟨_, rfl⟩
      · split
        · simp only [bind, Except.bind, hr0, hradj]; exact ⟨_, rfl⟩
        · exact ⟨_, rfl⟩

theorem declineGen_total (sub : Pos → Str → FV → FV → Except Crash (Str × Nat)) (rules : Rules) (hw : WFRules rules)
    (lex : Lex) (t : Term) (tb : Str) (sp : Bool)
    (htab : t.tab = some tb) (hinv : TabInv rules t) (hus : Usable rules lex t) (hm : t.pMaje = none)
    (hlink : ∃ e, lexPos lex t.lemma t.pos.name = some e)
    (hsub : t.lang = Lang.fr → ∀ p l g n c, sub p l g n ≠ .error c) :
    ∃ o, declineGen sub rules lex t tb sp = .ok o := by
  obtain ⟨⟨table, htable⟩, ⟨stem, hstem⟩⟩ := hinv tb htab
  have hwt := wf_lookup rules tb table hw htable
  have hinfo : ∃ info, lookup t.lemma lex = some info := by
    obtain ⟨e, he⟩ := hlink
    unfold lexPos at he
    cases h : lookup t.lemma lex with
    | none => simp [h] at he
    | some info => exact ⟨info, rfl⟩
  unfold declineGen
  rw [htable]; dsimp only
  rw [hstem]; dsimp only
  split
  · rename_i hA
    cases hlang : t.lang with
    | en =>
      dsimp only
      exact declineAdjEn_total rules hw lex t tb table stem hinfo (hus.2.2.2 hlang hA)
    | fr =>
      dsimp only
      exact declineAdjFr_total sub t table stem (hsub hlang)
  · refine declineNDP_total rules lex t table stem sp hm hus.2.1 (wf_rows_ne table hwt) hstem ?_ ?_
    · intro hN
      obtain ⟨e, he⟩ := hlink
      rw [hN] at he
      exact ⟨e, he⟩
    · intro hN hen
      exact hus.2.2.1 hen hN

theorem realGen_total (sub : Pos → Str → FV → FV → Except Crash (Str × Nat)) (rules : Rules) (hw : WFRules rules)
    (lex : Lex) (t : Term) (hinv : TabInv rules t) (hus : Usable rules lex t) (hm : t.pMaje = none)
    (hlink : ∀ tb, t.tab = some tb → ∃ e, lexPos lex t.lemma t.pos.name = some e)
    (hsub : t.lang = Lang.fr → ∀ p l g n c, sub p l g n ≠ .error c) :
    ∃ o, realGen sub rules lex t = .ok o := by
  have hdec : ∀ tb sp, t.tab = some tb → ∃ o, declineGen sub rules lex t tb sp = .ok o :=
    fun tb sp htab => declineGen_total sub rules hw lex t tb sp htab hinv hus hm (hlink tb htab) hsub
  have hplain : t.tab = none → t.pos ≠ Pos.Adv → ∃ r, t.real = some r := by
    intro h1 h2
    cases hr : t.real with
    | none => exact absurd hr (hus.1 h1 h2)
    | some r => exact ⟨r, rfl⟩
  unfold realGen
  simp only [bind, Except.bind]
  cases hpos : t.pos <;> dsimp only
  all_goals
    cases htab : t.tab with
    | some tb =>
      dsimp only
      obtain ⟨o, ho⟩ := hdec tb _ htab
      first
        | (rw [ho]; exact ⟨_, rfl⟩)
        | (obtain ⟨o', ho'⟩ := hdec tb true htab; rw [ho']; exact ⟨_, rfl⟩)
        | (obtain ⟨o', ho'⟩ := hdec tb false htab; rw [ho']; exact ⟨_, rfl⟩)
    | none =>
      dsimp only
      first
        | (cases t.real <;> exact ⟨_, rfl⟩)
        | (have hne : t.pos ≠ Pos.Adv := by rw [hpos]; decide
           obtain ⟨r, hr⟩ := hplain htab hne; rw [hr]; exact ⟨_, rfl⟩)


/-- the executable predicate swept over the real lexicons implies the hypothesis of `decl_total` -/
theorem usable_of_usableB (rules : Rules) (lex : Lex) (t : Term) (h : usableB rules lex t = true) : Usable rules lex t := by
  unfold usableB at h
  simp only [Bool.and_eq_true, Bool.or_eq_true, decide_eq_true_eq, Bool.not_eq_true'] at h
  obtain ⟨⟨⟨h1, h2⟩, h3⟩, h4⟩ := h
  refine ⟨?_, ?_, ?_, ?_⟩
  · intro htab hpos hreal
    rcases h1 with (h1 | h1) | h1
    · rw [htab] at h1; cases h1
    · exact hpos h1
    · rw [hreal] at h1; cases h1
  · unfold peValB at h2
    cases hv : t.getPe with
    | none => exact Or.inl rfl
    | int i => exact Or.inr (Or.inl ⟨i, rfl⟩)
    | bool b => exact Or.inr (Or.inr (Or.inl ⟨b, rfl⟩))
    | str x =>
      rw [hv] at h2
      simp only [Bool.decide_and, Bool.and_eq_true, decide_eq_true_eq] at h2
      refine Or.inr (Or.inr (Or.inr ⟨x, rfl, h2.1, ?_⟩))
      intro hn; rw [hn] at h2; exact absurd h2.2 (by decide)
  · intro hen hN e he
    rcases h3 with h3 | h3
    · have : decide (t.lang = Lang.en ∧ t.pos = Pos.N) = true := by simp [hen, hN]
      rw [this] at h3; cases h3
    · rw [he] at h3
      dsimp only at h3
      intro hn; rw [hn] at h3; cases h3
  · intro hen hA e he
    rcases h4 with h4 | h4
    · have : decide (t.lang = Lang.en ∧ (t.pos = Pos.A ∨ t.pos = Pos.Adv)) = true := by simp [hen, hA]
      rw [this] at h4; cases h4
    · rw [he] at h4
      dsimp only at h4
      split at h4
      · rename_i atab hatab
        cases hl : lookup atab rules with
        | none => rw [hl] at h4; cases h4
        | some atable => exact ⟨atab, atable, hatab, hl⟩
      · cases h4

end Pyrealb.Decl
