import Pyrealb.Model.Typ
/-! Lemmas about `Model/Typ`: the validation loop is a filter, `update` is a right-biased merge, and the stored map
    after any list of calls is, key by key, the last value that survived validation. -/
namespace Pyrealb.Typ
open Pyrealb

theorem lookup_set (d : Dict) (k k' : Str) (v : Val) :
    lookup k (Dict.set d k' v) = if k' = k then some v else lookup k d := by
  induction d with
  | nil => simp [Dict.set, lookup]
  | cons kv r ih =>
    obtain ⟨k2, v2⟩ := kv
    by_cases h : k2 = k'
    · subst h
      by_cases h2 : k2 = k <;> simp [Dict.set, lookup, h2]
    · simp only [Dict.set, h, if_false, lookup]
      by_cases h2 : k2 = k
      · subst h2
        have : ¬ k' = k2 := fun e => h e.symm
        simp [this]
      · simp [h2, ih]

theorem lookup_filter_ne (d : Dict) (k k' : Str) (h : k ≠ k') :
    lookup k (d.filter (fun kv => kv.1 != k')) = lookup k d := by
  induction d with
  | nil => rfl
  | cons kv r ih =>
    obtain ⟨k2, v2⟩ := kv
    rw [List.filter_cons]
    by_cases h2 : k2 = k'
    · subst h2
      have : ¬ k2 = k := fun e => h e.symm
      simp [lookup, ih, this]
    · have : (k2 != k') = true := by simpa using h2
      simp only [this, if_true, lookup, ih]

theorem lookup_del_same (d : Dict) (k : Str) : lookup k (Dict.del d k) = none := by
  unfold Dict.del
  induction d with
  | nil => rfl
  | cons kv r ih =>
    obtain ⟨k2, v2⟩ := kv
    rw [List.filter_cons]
    by_cases h2 : k2 = k
    · subst h2; simpa using ih
    · have : (k2 != k) = true := by simpa using h2
      simp only [this, if_true, lookup, h2, if_false, ih]

theorem lookup_del_other (d : Dict) (k k' : Str) (h : k ≠ k') : lookup k (Dict.del d k') = lookup k d :=
  lookup_filter_ne d k k' h

/-- `d.update(e)` looked up: the LAST entry of `e` for the key wins, else `d` -/
theorem lookup_update (d e : Dict) (k : Str) :
    lookup k (Dict.update d e) = (match lookup k e.reverse with | some v => some v | none => lookup k d) := by
  unfold Dict.update
  induction e generalizing d with
  | nil => simp [lookup]
  | cons kv r ih =>
    obtain ⟨k2, v2⟩ := kv
    simp only [List.foldl_cons, List.reverse_cons]
    rw [ih]
    have key : ∀ (l : Dict), lookup k (l ++ [(k2, v2)]) =
        (match lookup k l with | some v => some v | none => if k2 = k then some v2 else none) := by
      intro l
      induction l with
      | nil => simp [lookup]
      | cons x t iht =>
        obtain ⟨k3, v3⟩ := x
        by_cases h3 : k3 = k
        · simp [lookup, h3]
        · simp [lookup, h3, iht]
    rw [key, lookup_set]
    cases lookup k r.reverse with
    | some v => rfl
    | none => by_cases h : k2 = k <;> simp [h]

theorem lookup_mem {d : Dict} {k : Str} {v : Val} (h : lookup k d = some v) : (k, v) ∈ d := by
  induction d with
  | nil => simp [lookup] at h
  | cons kv r ih =>
    obtain ⟨k2, v2⟩ := kv
    by_cases h2 : k2 = k
    · subst h2; simp [lookup] at h; simp [h]
    · simp [lookup, h2] at h; exact List.mem_cons_of_mem _ (ih h)

theorem lookup_of_mem_nodup {d : Dict} {k : Str} {v : Val} (nd : d.keys.Nodup) (h : (k, v) ∈ d) :
    lookup k d = some v := by
  induction d with
  | nil => simp at h
  | cons kv r ih =>
    obtain ⟨k2, v2⟩ := kv
    simp only [Dict.keys, List.map_cons, List.nodup_cons] at nd
    rcases List.mem_cons.mp h with h | h
    · cases h; simp [lookup]
    · have : k2 ≠ k := by
        intro e; subst e
        exact nd.1 (List.mem_map.mpr ⟨(k2, v), h, rfl⟩)
      simp [lookup, this]
      exact ih nd.2 h

/-- a dict read by key does not depend on the order of its entries -/
theorem lookup_perm {d d' : Dict} (nd : d.keys.Nodup) (p : d.Perm d') (k : Str) : lookup k d = lookup k d' := by
  have nd' : d'.keys.Nodup := (List.Perm.map _ p).nodup_iff.mp nd
  cases h : lookup k d with
  | some v => exact (lookup_of_mem_nodup nd' (p.subset (lookup_mem h))).symm
  | none =>
    cases h' : lookup k d' with
    | none => rfl
    | some v =>
      have := lookup_of_mem_nodup nd (p.symm.subset (lookup_mem h'))
      rw [h] at this; cases this

theorem lookup_reverse_nodup {d : Dict} (nd : d.keys.Nodup) (k : Str) : lookup k d.reverse = lookup k d :=
  (lookup_perm nd (List.reverse_perm d).symm k).symm

theorem keys_filter_nodup {d : Dict} (nd : d.keys.Nodup) (p : Str × Val → Bool) : (Dict.keys (d.filter p)).Nodup := by
  unfold Dict.keys at *
  exact (List.Sublist.map _ List.filter_sublist).nodup nd

/-! ### the validation loop is a filter -/

def keptB (lang : Lang) (kv : Str × Val) : Bool := entryKept lang kv.1 kv.2

/-- is the (accepted) value replaced by the boolean it equals?  `elif not isinstance(val,(bool,str))` -/
def needsNorm (lang : Lang) (kv : Str × Val) : Bool :=
  match lookup kv.1 Gen.TypConsts.allowedTypes with
  | none => false
  | some _ => if kv.1 = negKey ∧ lang = .fr then false else !(kv.2.isBool || kv.2.isStr)

/-- the value that is stored for an accepted entry -/
def normVal (lang : Lang) (k : Str) (v : Val) : Val := if needsNorm lang (k, v) then .b v.truthy else v
def normKV (lang : Lang) (kv : Str × Val) : Str × Val := (kv.1, normVal lang kv.1 kv.2)

theorem validateStep_eq (lang : Lang) (cur : Dict) (w : Nat) (kv : Str × Val) :
    validateStep lang (cur, w) kv =
      (if keptB lang kv then (if needsNorm lang kv then Dict.set cur kv.1 (.b kv.2.truthy) else cur)
       else Dict.del cur kv.1, if entryWarns lang kv.1 kv.2 then w + 1 else w) := by
  unfold validateStep keptB entryKept entryWarns entryKept needsNorm
  cases h : lookup kv.1 Gen.TypConsts.allowedTypes with
  | none => simp
  | some allowed =>
    by_cases hn : kv.1 = negKey ∧ lang = Lang.fr
    · simp only [hn, and_self, if_true]
      cases hb : (kv.2.isStr || kv.2.isBool) <;> simp
    · simp only [hn, if_false]
      cases hb : kv.2.pyIn allowed <;> simp
      all_goals (try (split <;> rfl))

theorem set_middle (a r : Dict) (k : Str) (v v' : Val) (hk : ∀ x ∈ a, x.1 ≠ k) :
    Dict.set (a ++ (k, v) :: r) k v' = a ++ (k, v') :: r := by
  induction a with
  | nil => simp [Dict.set]
  | cons x t ih =>
    obtain ⟨k2, v2⟩ := x
    have : k2 ≠ k := hk (k2, v2) List.mem_cons_self
    simp only [List.cons_append, Dict.set, this, if_false]
    rw [ih (fun y hy => hk y (List.mem_cons_of_mem _ hy))]

theorem keys_map_norm (lang : Lang) (l : Dict) : Dict.keys (l.map (normKV lang)) = Dict.keys l := by
  simp [Dict.keys, normKV, List.map_map, Function.comp_def]

theorem validate_loop (lang : Lang) (done rest : Dict) (w : Nat) (nd : (done ++ rest).keys.Nodup) :
    (rest.foldl (validateStep lang) ((done.filter (keptB lang)).map (normKV lang) ++ rest, w)).1 =
      ((done ++ rest).filter (keptB lang)).map (normKV lang) := by
  induction rest generalizing done w with
  | nil => simp
  | cons kv r ih =>
    simp only [List.foldl_cons]
    rw [validateStep_eq]
    have nd2 : ((done ++ [kv]) ++ r).keys.Nodup := by simpa using nd
    -- the key occurs nowhere else
    have hnot : ∀ x ∈ done ++ r, x.1 ≠ kv.1 := by
      intro x hx e
      simp only [Dict.keys, List.map_append, List.map_cons] at nd
      rw [List.nodup_append] at nd
      obtain ⟨_, nd_r, disj⟩ := nd
      rcases List.mem_append.mp hx with hx | hx
      · exact disj x.1 (List.mem_map.mpr ⟨x, hx, rfl⟩) kv.1 (by simp) e
      · have := (List.nodup_cons.mp nd_r).1
        exact this (e ▸ List.mem_map.mpr ⟨x, hx, rfl⟩)
    have hnotD : ∀ x ∈ (done.filter (keptB lang)).map (normKV lang), x.1 ≠ kv.1 := by
      intro x hx
      obtain ⟨y, hy, rfl⟩ := List.mem_map.mp hx
      exact hnot y (List.mem_append_left _ (List.mem_filter.mp hy).1)
    by_cases hk : keptB lang kv = true
    · simp only [hk, if_true]
      have key := ih (done ++ [kv]) (if entryWarns lang kv.1 kv.2 then w + 1 else w) nd2
      have e1 : (List.filter (keptB lang) (done ++ [kv])).map (normKV lang) ++ r =
          (done.filter (keptB lang)).map (normKV lang) ++ normKV lang kv :: r := by
        simp [List.filter_append, hk]
      rw [e1] at key
      by_cases hn : needsNorm lang kv = true
      · simp only [hn, if_true]
        obtain ⟨k0, v0⟩ := kv
        rw [set_middle _ r k0 v0 _ hnotD]
        have : normKV lang (k0, v0) = (k0, Val.b v0.truthy) := by simp [normKV, normVal, hn]
        rw [this] at key
        simpa using key
      · have hn' : needsNorm lang kv = false := by simpa using hn
        simp only [hn', Bool.false_eq_true, if_false]
        have : normKV lang kv = kv := by
          obtain ⟨k0, v0⟩ := kv
          simp [normKV, normVal, hn']
        rw [this] at key
        simpa using key
    · have hk' : keptB lang kv = false := by simpa using hk
      simp only [hk', Bool.false_eq_true, if_false]
      have hdel : Dict.del ((done.filter (keptB lang)).map (normKV lang) ++ kv :: r) kv.1 =
          (done.filter (keptB lang)).map (normKV lang) ++ r := by
        unfold Dict.del
        rw [List.filter_append, List.filter_cons]
        simp only [bne_self_eq_false, Bool.false_eq_true, if_false]
        congr 1
        · apply List.filter_eq_self.mpr
          intro x hx
          simpa using hnotD x hx
        · apply List.filter_eq_self.mpr
          intro x hx
          have := hnot x (List.mem_append_right _ hx)
          simpa using this
      rw [hdel]
      have := ih (done ++ [kv]) (if entryWarns lang kv.1 kv.2 then w + 1 else w) nd2
      simpa [List.filter_append, hk'] using this

/-- for a dict (unique keys) the validation loop keeps exactly the entries `entryKept` accepts, a numeric 0/1 replaced by
    the boolean it equals -/
theorem validate_fst (lang : Lang) (types : Dict) (nd : types.keys.Nodup) :
    (validate lang types).1 = (types.filter (keptB lang)).map (normKV lang) := by
  have := validate_loop lang [] types 0 (by simpa using nd)
  simpa [validate] using this

theorem validate_snd_loop (lang : Lang) (rest : Dict) (cur : Dict) (w : Nat) :
    (rest.foldl (validateStep lang) (cur, w)).2 = w + (rest.filter (fun kv => entryWarns lang kv.1 kv.2)).length := by
  induction rest generalizing cur w with
  | nil => simp
  | cons kv r ih =>
    simp only [List.foldl_cons]
    rw [validateStep_eq, ih]
    by_cases hw : entryWarns lang kv.1 kv.2 = true
    · simp [hw]; omega
    · have : entryWarns lang kv.1 kv.2 = false := by simpa using hw
      simp [this]

/-- number of warnings of one validation = number of entries that warn -/
theorem validate_snd (lang : Lang) (types : Dict) :
    (validate lang types).2 = (types.filter (fun kv => entryWarns lang kv.1 kv.2)).length := by
  simp [validate, validate_snd_loop]

/-! ### the stored map, key by key -/

theorem lookup_map_norm (lang : Lang) (l : Dict) (k : Str) :
    lookup k (l.map (normKV lang)) = (lookup k l).map (normVal lang k) := by
  induction l with
  | nil => rfl
  | cons x t ih =>
    obtain ⟨k2, v2⟩ := x
    by_cases e : k2 = k
    · subst e; simp [lookup, normKV]
    · simp [lookup, normKV, e, ih]

/-- what one call with the dict `d` stores for the flag `k`: the accepted entry, normalised; `none`: nothing -/
def lookupV (lang : Lang) (d : Dict) (k : Str) : Option Val := (lookup k (d.filter (keptB lang))).map (normVal lang k)

/-- SPEC: the value of flag `k` after the calls `ds` (in call order, first call first): the entry for `k` of the LAST
    call that has one surviving validation; `none` when there is none -/
def effective (lang : Lang) : List Dict → Str → Option Val
  | [], _ => none
  | d :: ds, k =>
    match effective lang ds k with
    | some v => some v
    | none => lookupV lang d k

theorem lookup_typ_stored (lang : Lang) (st : Option Dict) (d : Dict) (nd : d.keys.Nodup) (k : Str) :
    lookup k ((typ lang true st (.dict d)).stored.getD []) =
      (match lookupV lang d k with
       | some v => some v
       | none => lookup k (st.getD [])) := by
  unfold typ lookupV
  simp only [Bool.not_true, Bool.false_eq_true, if_false]
  have hv := validate_fst lang d nd
  cases hvv : validate lang d with
  | mk t' w =>
    rw [hvv] at hv
    simp only at hv
    subst hv
    cases st with
    | none =>
      simp only [Option.getD]
      rw [lookup_map_norm]
      cases lookup k (List.filter (keptB lang) d) <;> simp [lookup]
    | some s0 =>
      simp only [Option.getD]
      have ndm : Dict.keys ((d.filter (keptB lang)).map (normKV lang)) |>.Nodup := by
        rw [keys_map_norm]; exact keys_filter_nodup nd _
      rw [lookup_update, lookup_reverse_nodup ndm, lookup_map_norm]

/-- the stored map after the calls `ds` applied in order (first call first) -/
def storedAfter (lang : Lang) (st : Option Dict) (ds : List Dict) : Option Dict :=
  (run lang true st (ds.map Arg.dict)).1

theorem storedAfter_cons (lang : Lang) (st : Option Dict) (d : Dict) (ds : List Dict) :
    storedAfter lang st (d :: ds) = storedAfter lang (typ lang true st (.dict d)).stored ds := by
  simp [storedAfter, run]

/-- value of `k` when the calls `ds` are applied in order on top of `st` -/
def effFrom (lang : Lang) (st : Option Dict) : List Dict → Str → Option Val
  | [], k => lookup k (st.getD [])
  | d :: ds, k => effFrom lang (typ lang true st (.dict d)).stored ds k

theorem lookup_storedAfter (lang : Lang) (st : Option Dict) (ds : List Dict) (k : Str) :
    lookup k ((storedAfter lang st ds).getD []) = effFrom lang st ds k := by
  induction ds generalizing st with
  | nil => simp [storedAfter, run, effFrom]
  | cons d ds ih => rw [storedAfter_cons, ih]; rfl

/-- key by key, applying `ds` in order = the last surviving entry, else what was stored before -/
theorem effFrom_spec (lang : Lang) (st : Option Dict) (ds : List Dict) (nd : ∀ d ∈ ds, d.keys.Nodup) (k : Str) :
    effFrom lang st ds k =
      (match effective lang ds k with
       | some v => some v
       | none => lookup k (st.getD [])) := by
  induction ds generalizing st with
  | nil => simp [effFrom, effective]
  | cons d ds ih =>
    simp only [effFrom, effective]
    rw [ih _ (fun x hx => nd x (List.mem_cons_of_mem _ hx))]
    rw [lookup_typ_stored lang st d (nd d List.mem_cons_self)]
    cases effective lang ds k <;> rfl

/-! ### readers -/

theorem read_false_eq_absent (i : Idiom) (hi : falseEqAbsent i = true) (T : Dict) (K K' : Str) :
    read i (Dict.set T K (.b false)) K' = read i (Dict.del T K) K' := by
  by_cases h : K = K'
  · subst h
    have h1 : lookup K (Dict.set T K (.b false)) = some (.b false) := by simp [lookup_set]
    have h2 : lookup K (Dict.del T K) = none := lookup_del_same T K
    cases i <;> simp_all [read, falseEqAbsent, Val.pyEq, Val.num?, Val.isFalse, Val.isTrue, Val.truthy]
  · have h1 : lookup K' (Dict.set T K (.b false)) = lookup K' T := by simp [lookup_set, h]
    have h2 : lookup K' (Dict.del T K) = lookup K' T := lookup_del_other T K' K (Ne.symm h)
    unfold read
    rw [h1, h2]

end Pyrealb.Typ
