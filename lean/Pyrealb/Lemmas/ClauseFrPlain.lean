import Pyrealb.Lemmas.ClauseFrPrefix
import Pyrealb.Model.ClauseFrRealize
/-! The plain fragment (no sentence-type flag, nothing pronominalized): both pipelines reduce to
    `subject tokens ++ conjugated verb ++ complement tokens`, and `doPronounPlacement` has nothing to move. -/
namespace Pyrealb.ClauseFr
open Pyrealb
open Pyrealb.Gen.ClauseFr

/-- nothing for `doPronounPlacement` to do: no negation, no auxiliary flag, no reflexive verb, no clitic pronoun -/
def Inert (refl : Bool) : Tok → Prop
  | .v y _ => y.neg2 = none ∧ y.isMod = false ∧ y.isProg = false ∧ isReflexive y refl = .ok false
  | t => t.isClitic = false

theorem collect_inert (refl : Bool) (l : List Tok) (h : ∀ t ∈ l, Inert refl t) : collect l = ([], l) := by
  fun_induction collect l <;> simp_all +zetaDelta [Inert, Tok.isClitic]

theorem findVerb_split (pg : Option VT) (l : List Tok) (fd : Found) (h : findVerb pg l = some fd) :
    l = fd.pre ++ .v fd.verb fd.form :: fd.post := by
  induction l generalizing pg fd with
  | nil => simp [findVerb] at h
  | cons c rest ih =>
    cases c with
    | v x f =>
      simp only [findVerb] at h
      split at h
      · simp only [Option.map_eq_some_iff] at h
        obtain ⟨fd', hfd', rfl⟩ := h
        simp [← ih _ fd' hfd']
      · simp only [Option.some.injEq] at h
        subst h
        rfl
    | _ =>
      simp only [findVerb, Option.map_eq_some_iff] at h
      obtain ⟨fd', hfd', rfl⟩ := h
      simp [← ih _ fd' hfd']

theorem sortPros_nil (tb : CTable) : sortPros tb [] = [] := by
  unfold sortPros; split <;> rfl

theorem vt_neg2_none (x : VT) (h : x.neg2 = none) : ({ x with neg2 := none } : VT) = x := by
  cases x; simp_all

/-- `doPronounPlacement` leaves an inert list alone -/
theorem place_inert (refl : Bool) (l : List Tok) (h : ∀ t ∈ l, Inert refl t) : placePronouns refl l = .ok l := by
  have hna : NoAuxNeg l := by
    intro t ht
    have := h t ht
    cases t <;> simp_all [Inert]
  unfold placePronouns
  rw [negModProg_none l hna]
  simp only [List.drop_zero, List.take_zero, List.nil_append]
  cases hf : findVerb none l with
  | none => rfl
  | some fd =>
    have hl := findVerb_split none l fd hf
    have hv : Inert refl (.v fd.verb fd.form) := h _ (by rw [hl]; simp)
    have hpost : ∀ t ∈ fd.post, Inert refl t := fun t ht => h t (by rw [hl]; simp [ht])
    simp only [Inert] at hv
    obtain ⟨hn, _, _, hr⟩ := hv
    simp only [hn, hr, bind, Except.bind, collect_inert refl fd.post hpost, pure, Except.pure,
      Bool.false_eq_true, false_and, if_false, List.append_nil, List.nil_append, sortPros_nil, vt_neg2_none _ hn]
    by_cases hb : fd.verb.t = .b <;> by_cases htb : tableFor fd.verb = .ipPos <;> simp [hb, htb, ← hl]

/-! ### the two pipelines on a specification without flags and without pronominalization -/

theorem removeEmptyAux_id (k : Nat) (l : List Tok) (h : ∀ t ∈ l, t.form ≠ []) : removeEmptyAux k l = l := by
  induction l generalizing k with
  | nil => rfl
  | cons a r ih =>
    have ha : a.form.isEmpty = false := by
      have := h a List.mem_cons_self
      cases hf : a.form <;> simp_all
    simp [removeEmptyAux, ha, ih (k + 1) (fun t ht => h t (List.mem_cons_of_mem _ ht))]

theorem removeEmpty_id (l : List Tok) (h : ∀ t ∈ l, t.form ≠ []) : removeEmpty l = l := removeEmptyAux_id 0 l h

/-- an element of the VP that `pronominalize` leaves alone -/
def El.plain : El → Prop
  | .np a => a.pro = false
  | .pp _ _ flag => flag = false
  | _ => True

theorem pronominalizeVP_go_id (fuel i : Nat) (l : List El) (h : ∀ e ∈ l, e.plain) :
    pronominalizeVP.go fuel i l = l := by
  induction fuel generalizing i with
  | zero => rfl
  | succ f ih =>
    unfold pronominalizeVP.go
    cases hi : l[i]? with
    | none => rfl
    | some e =>
      have he : e.plain := h e (List.mem_of_getElem? hi)
      cases e with
      | np a => simp only [El.plain] at he; simp [he, ih]
      | pp prep inner flag => simp only [El.plain] at he; subst he; simp [ih]
      | _ => simp [ih]

theorem pronominalizeVP_id (l : List El) (h : ∀ e ∈ l, e.plain) : pronominalizeVP l = l :=
  pronominalizeVP_go_id _ _ l h

/-- an element that is neither a verb nor a pronoun -/
def El.inertKind : El → Bool
  | .np _ => true | .pp _ _ _ => true | .q _ => true | .pt _ => true | _ => false

theorem realVPToks_noV (refl : Bool) (l : List El) (h : ∀ e ∈ l, e.inertKind = true) :
    realVPToks refl l = .ok (l.flatMap El.toks) := by
  induction l with
  | nil => rfl
  | cons e r ih =>
    have he := h e List.mem_cons_self
    have hr := ih (fun x hx => h x (List.mem_cons_of_mem _ hx))
    cases e <;> simp_all [El.inertKind, realVPToks, bind, Except.bind, pure, Except.pure]

theorem realVPToks_verb_first (refl : Bool) (v : VT) (l : List El) (h : ∀ e ∈ l, e.inertKind = true) :
    realVPToks refl (.v v :: l) =
      (conjugate v refl none).bind (fun r => .ok (r.1 ++ l.flatMap El.toks)) := by
  cases l with
  | nil => simp [realVPToks, bind, Except.bind, pure, Except.pure]
  | cons e r =>
    have he := h e List.mem_cons_self
    have hr := realVPToks_noV refl (e :: r) h
    cases e <;> simp_all [El.inertKind, realVPToks, bind, Except.bind, pure, Except.pure]
    all_goals (cases conjugate v refl none <;> rfl)

theorem pronominalizeDeps_id (l : List Dep) (cod : Option (Gd × Nb × Int)) (h : ∀ d ∈ l, d.pro = false) :
    pronominalizeDeps l cod = (l, cod) := by
  induction l generalizing cod with
  | nil => rfl
  | cons d r ih =>
    have hd := h d List.mem_cons_self
    simp [pronominalizeDeps, hd, ih cod (fun x hx => h x (List.mem_cons_of_mem _ hx))]

theorem compoundToks_nolier (v aux : VT) (ra : ConjRes) (form : Str) (np : Option Tok) (h : v.lier = false) :
    compoundToks v aux ra form np = compoundToks v aux ra form none := by
  simp [compoundToks, h]

theorem conjugate_nolier (v : VT) (refl : Bool) (np : Option Tok) (h : v.lier = false) :
    conjugate v refl np = conjugate v refl none := by
  unfold conjugate conjCompound
  simp only [compoundToks_nolier _ _ _ _ np h]

theorem bindE_ok {α β} (x : Except Crash α) (f : α → Except Crash β) (r : β) (h : (x >>= f) = .ok r) :
    ∃ a, x = .ok a ∧ f a = .ok r := by
  cases x with
  | error e => simp [bind, Except.bind] at h
  | ok a => exact ⟨a, rfl, h⟩

/-- the shape of what `conjugate` returns -/
theorem conjugate_cases (v : VT) (refl : Bool) (np : Option Tok) (r : List Tok × Bool)
    (h : conjugate v refl np = .ok r) :
    r = ([.qv v.lex.lemma v.lier], false) ∨
    (v.t.auxTense = none ∧ ∃ cr, r = ([tokOfConj v cr], false)) ∨
    (∃ ta aux ra form, v.t.auxTense = some ta ∧ r = compoundToks v aux ra form np ∧ aux.t = ta ∧
      aux.isMod = false ∧ aux.isProg = false ∧ (aux.pat = some [reflStr] → isReflexive v refl = .ok true)) := by
  unfold conjugate at h
  split at h
  · simp only [Except.ok.injEq] at h; exact Or.inl h.symm
  · split at h
    · rename_i hta
      cases hc : conjSimple v refl with
      | error e => simp [hc, Except.map] at h
      | ok cr =>
        simp only [hc, Except.map, Except.ok.injEq] at h
        exact Or.inr (Or.inl ⟨hta, cr, h.symm⟩)
    · rename_i ta hta
      unfold conjCompound at h
      split at h
      · cases h
      · simp only [Except.ok.injEq] at h; exact Or.inl h.symm
      · obtain ⟨al, hal, h⟩ := bindE_ok _ _ _ h
        obtain ⟨el, hel, h⟩ := bindE_ok _ _ _ h
        obtain ⟨isR, hisR, h⟩ := bindE_ok _ _ _ h
        obtain ⟨ra, _, h⟩ := bindE_ok _ _ _ h
        obtain ⟨rp, _, h⟩ := bindE_ok _ _ _ h
        simp only [pure, Except.pure, Except.ok.injEq] at h
        have hal' : al = verb_avoir := by
          have : auxLex avoir = .ok verb_avoir := rfl
          rw [this] at hal; cases hal; rfl
        have hel' : el = verb_etre := by
          have : auxLex etre = .ok verb_etre := rfl
          rw [this] at hel; cases hel; rfl
        have hap : verb_avoir.pat ≠ some [reflStr] := by decide
        have hep : verb_etre.pat ≠ some [reflStr] := by decide
        refine Or.inr (Or.inr ⟨ta, (compoundAux v isR ta al el).1, ra, _, hta, h.symm, ?_, ?_, ?_, ?_⟩)
        · unfold compoundAux; split <;> (try split) <;> simp [mkV, VT.setLemma]
        · unfold compoundAux; split <;> (try split) <;> simp [mkV, VT.setLemma]
        · unfold compoundAux; split <;> (try split) <;> simp [mkV, VT.setLemma]
        · subst hal' hel'
          unfold compoundAux
          split
          · rename_i hr; intro _; rw [hisR, hr]
          · split <;> simp [mkV, VT.setLemma, hap, hep]

/-- without a pronoun handed to it, the compound branch consumes none -/
theorem conjugate_none_snd (v : VT) (refl : Bool) (r : List Tok × Bool) (h : conjugate v refl none = .ok r) :
    r.2 = false := by
  rcases conjugate_cases v refl none r h with rfl | ⟨_, cr, rfl⟩ | ⟨ta, aux, ra, form, _, rfl, _⟩
  · rfl
  · rfl
  · simp only [compoundToks]; split <;> rfl

/-- a verb that is not reflexive, not negated, not an auxiliary flag carrier: its tokens give `doPronounPlacement`
    nothing to do -/
def InertV (x : VT) : Prop :=
  x.neg2 = none ∧ x.isMod = false ∧ x.isProg = false ∧ x.lier = false ∧ x.pat ≠ some [reflStr]

theorem isRefl_false (v : VT) (h : v.pat ≠ some [reflStr]) : isReflexive v false = .ok false := by
  simp [isReflexive, h]

theorem conjugate_inert (v : VT) (r : List Tok × Bool) (hv : InertV v) (h : conjugate v false none = .ok r) :
    ∀ t ∈ r.1, Inert false t := by
  obtain ⟨hn, hm, hp, hl, hr⟩ := hv
  have hvi : ∀ f, Inert false (.v v f) := fun f => ⟨hn, hm, hp, isRefl_false v hr⟩
  rcases conjugate_cases v false none r h with rfl | ⟨_, cr, rfl⟩ | ⟨ta, aux, ra, form, _, rfl, _, ham, hap, hpat⟩
  · intro t ht; simp at ht; subst ht; simp [Inert, Tok.isClitic]
  · intro t ht
    simp only [List.mem_singleton] at ht; subst ht
    cases cr
    · exact hvi _
    · simp [tokOfConj, Inert, Tok.isClitic]
  · have hauxpat : aux.pat ≠ some [reflStr] := by
      intro hc
      have := hpat hc
      rw [isRefl_false v hr] at this
      cases this
    intro t ht
    simp only [compoundToks, hl, Bool.false_eq_true, if_false, List.mem_cons, List.not_mem_nil, or_false] at ht
    rcases ht with rfl | rfl
    · cases ra
      · exact ⟨hn, ham, hap, isRefl_false _ hauxpat⟩
      · simp [tokOfConj, Inert, Tok.isClitic]
    · exact ⟨rfl, hm, hp, isRefl_false _ hr⟩

/-! #### the plain fragment -/

/-- no sentence-type flag, an ordinary tense, nothing pronominalized, no clitic given as a pronoun -/
structure Plain (sp : Spec) : Prop where
  typ : sp.typ = {}
  tense : sp.t ≠ .ip
  vpe : sp.vpe = none
  vn : sp.vn = none
  comps : ∀ c ∈ sp.comps, match c with
    | .dir a => a.pro = false
    | .pp _ a => a.pro = false
    | .cl _ => False
  subj : match sp.subj with
    | some (.np a) => a.pro = false
    | _ => True

def subjToks (sp : Spec) : List Tok := match sp.subj with
  | some (.pro vm pe n g) => [proTok (SubjA.proT vm pe n g)]
  | some (.np a) => [.d a.id, .n a.id]
  | none => []

def compToks (sp : Spec) : List Tok := sp.comps.flatMap (fun c => match c with
  | .dir a => [.d a.id, .n a.id]
  | .pp prep a => [.p prep, .d a.id, .n a.id]
  | .cl p => [proTok p])

/-- the verb terminal of a plain clause, the same object in both notations -/
def plainVerb (sp : Spec) : VT := { sp.verbT sp.subj.isSome with vpshare := true }

theorem compEl_toks (cs : List Comp) :
    (cs.map compEl).flatMap El.toks = cs.flatMap (fun c => match c with
      | .dir a => [.d a.id, .n a.id]
      | .pp prep a => [.p prep, .d a.id, .n a.id]
      | .cl p => [proTok p]) := by
  induction cs with
  | nil => rfl
  | cons c r ih =>
    cases c <;> simp [compEl, El.toks, Inner.toks, ih]

theorem subjPro_inert (refl vm : Bool) (pe : Nat) (n : Nb) (g : Gd) : Inert refl (proTok (SubjA.proT vm pe n g)) := by
  cases vm <;> simp [Inert, Tok.isClitic, proTok, SubjA.proT, isCliticPro, cliticCases, Cas.str, je, moi, yStr, enStr]

theorem plain_phrase (sp : Spec) (hp : Plain sp) (cv : List Tok × Bool)
    (hcv : conjugate (plainVerb sp) false none = .ok cv) (hin : ∀ t ∈ cv.1, Inert false t)
    (hne : ∀ t ∈ subjToks sp ++ cv.1 ++ compToks sp, t.form ≠ []) :
    phraseToks sp = .ok (subjToks sp ++ cv.1 ++ compToks sp, []) := by
  have hlink : decide (sp.subj.isSome = true ∧ sp.t ≠ .ip) = sp.subj.isSome := by
    cases h : sp.subj.isSome <;> simp [h, hp.tense]
  have hcomps_plain : ∀ e ∈ (El.v (plainVerb sp) :: sp.comps.map compEl), e.plain := by
    intro e he
    rcases List.mem_cons.mp he with rfl | he
    · trivial
    · obtain ⟨c, hc, rfl⟩ := List.mem_map.mp he
      have := hp.comps c hc
      cases c <;> simp_all [compEl, El.plain]
  have hcomps_kind : ∀ e ∈ sp.comps.map compEl, e.inertKind = true := by
    intro e he
    obtain ⟨c, hc, rfl⟩ := List.mem_map.mp he
    have := hp.comps c hc
    cases c <;> simp_all [compEl, El.inertKind]
  have hvpne : ∀ t ∈ cv.1 ++ compToks sp, t.form ≠ [] := fun t ht => hne t (by
    rcases List.mem_append.mp ht with h | h
    · exact List.mem_append_left _ (List.mem_append_right _ h)
    · exact List.mem_append_right _ h)
  have hvpin : ∀ t ∈ cv.1 ++ compToks sp, Inert false t := by
    intro t ht
    rcases List.mem_append.mp ht with h | h
    · exact hin t h
    · simp only [compToks, List.mem_flatMap] at h
      obtain ⟨c, _, hc⟩ := h
      have := hp.comps c ‹_›
      cases c <;> simp_all [Inert, Tok.isClitic]
      all_goals (rcases hc with rfl | rfl | rfl <;> simp [Inert, Tok.isClitic])
  unfold phraseToks phraseTyped stagePas stageProg stageMod stageNeg
  simp only [hp.typ, phraseElems, hlink]
  have hv : ({ sp.verbT sp.subj.isSome with vpshare := true } : VT) = plainVerb sp := rfl
  simp only [hv, bind, Except.bind, pure, Except.pure, Bool.false_eq_true, if_false, false_and]
  unfold phraseReal
  rw [pronominalizeVP_id _ hcomps_plain, realVPToks_verb_first false _ _ hcomps_kind, hcv]
  simp only [Except.bind, bind, compEl_toks]
  have e1 : cv.1 ++ (sp.comps.flatMap fun c => match c with
      | .dir a => [Tok.d a.id, Tok.n a.id]
      | .pp prep a => [Tok.p prep, Tok.d a.id, Tok.n a.id]
      | .cl p => [proTok p]) = cv.1 ++ compToks sp := rfl
  rw [e1, removeEmpty_id _ hvpne, place_inert false _ hvpin]
  simp only [pure, Except.pure]
  -- the S level: subject tokens, then the VP
  have hsubj := hp.subj
  revert hne
  unfold subjToks
  cases hsub : sp.subj with
  | none =>
    intro hne
    simp only [List.nil_append, List.map_cons, List.map_nil, List.flatMap_cons, List.flatMap_nil, List.append_nil, selToks]
    rw [removeEmpty_id _ (by simpa using hne)]
  | some s =>
    cases s with
    | pro vm pe n g =>
      intro hne
      simp only [List.cons_append, List.nil_append, List.map_cons, List.map_nil, List.flatMap_cons, List.flatMap_nil,
        List.append_nil, El.toks, selToks]
      rw [removeEmpty_id _ (by simpa using hne)]
    | np a =>
      intro hne
      simp only [hsub] at hsubj
      simp only [List.cons_append, List.nil_append, List.map_cons, List.map_nil, List.flatMap_cons, List.flatMap_nil,
        List.append_nil, El.toks, hsubj, Bool.false_eq_true, if_false, selToks]
      rw [removeEmpty_id _ (by simpa using hne)]

/-! #### dependency side -/

theorem withPids_append (k : Nat) (a b : List Dep) :
    withPids k (a ++ b) = withPids k a ++ withPids (k + a.length) b := by
  induction a generalizing k with
  | nil => simp [withPids]
  | cons d r ih => simp [withPids, ih, Nat.add_assoc, Nat.add_comm 1]

theorem withPids_pro (k : Nat) (l : List Dep) (h : ∀ d ∈ l, d.pro = false) : ∀ d ∈ withPids k l, d.pro = false := by
  induction l generalizing k with
  | nil => simp [withPids]
  | cons d r ih =>
    intro x hx
    simp only [withPids, List.mem_cons] at hx
    rcases hx with rfl | hx
    · exact h d List.mem_cons_self
    · exact ih (k + 1) (fun y hy => h y (List.mem_cons_of_mem _ hy)) x hx

theorem withPids_filter_toks (refl : Bool) (k : Nat) (l : List Dep) (p : Dep → Bool)
    (hp : ∀ (d : Dep) (i : Int), p { d with pid := i } = p d) :
    ((withPids k l).filter p).mapM (Dep.toks refl) = (l.filter p).mapM (Dep.toks refl) := by
  induction l generalizing k with
  | nil => rfl
  | cons d r ih =>
    simp only [withPids, List.filter_cons, hp]
    split
    · simp only [List.mapM_cons, ih]
      rfl
    · exact ih (k + 1)

theorem compDep_toks (refl : Bool) (cs : List Comp)
    (h : ∀ c ∈ cs, match c with | .dir a => a.pro = false | .pp _ a => a.pro = false | .cl _ => False) :
    (cs.map compDep).mapM (Dep.toks refl) = .ok (cs.map (fun c => match c with
      | .dir a => [.d a.id, .n a.id]
      | .pp prep a => [.p prep, .d a.id, .n a.id]
      | .cl p => [proTok p])) := by
  induction cs with
  | nil => rfl
  | cons c r ih =>
    have hc := h c List.mem_cons_self
    have hr := ih (fun x hx => h x (List.mem_cons_of_mem _ hx))
    cases c <;> simp_all [compDep, Dep.toks, Inner.toks, bind, Except.bind, pure, Except.pure]

theorem plainVerb_lier (sp : Spec) : (plainVerb sp).lier = false := by
  simp [plainVerb, Spec.verbT, mkV]

theorem plain_dep (sp : Spec) (hp : Plain sp) (cv : List Tok × Bool)
    (hcv : conjugate (plainVerb sp) false none = .ok cv) (hcv2 : cv.2 = false) (hin : ∀ t ∈ cv.1, Inert false t)
    (hne : ∀ t ∈ subjToks sp ++ cv.1 ++ compToks sp, t.form ≠ []) :
    depToks sp = .ok (subjToks sp ++ cv.1 ++ compToks sp, []) := by
  have hpre : ∀ (d : Dep) (i : Int), Dep.isPre { d with pid := i } = Dep.isPre d := fun _ _ => rfl
  have hpost : ∀ (d : Dep) (i : Int), (fun d => !Dep.isPre d) { d with pid := i } = (fun d => !Dep.isPre d) d :=
    fun _ _ => rfl
  have hcompPre : (sp.comps.map compDep).filter Dep.isPre = [] := by
    rw [List.filter_eq_nil_iff]
    intro d hd
    obtain ⟨c, _, rfl⟩ := List.mem_map.mp hd
    cases c <;> simp [compDep, Dep.isPre]
  have hcompPost : (sp.comps.map compDep).filter (fun d => !Dep.isPre d) = sp.comps.map compDep := by
    rw [List.filter_eq_self]
    intro d hd
    obtain ⟨c, _, rfl⟩ := List.mem_map.mp hd
    cases c <;> simp [compDep, Dep.isPre]
  have hall : ∀ t ∈ subjToks sp ++ cv.1 ++ compToks sp, Inert false t := by
    intro t ht
    rcases List.mem_append.mp ht with h | h
    · rcases List.mem_append.mp h with h | h
      · unfold subjToks at h
        cases hsub : sp.subj with
        | none => simp [hsub] at h
        | some s =>
          cases s with
          | pro vm pe n g => simp [hsub] at h; subst h; exact subjPro_inert false vm pe n g
          | np a => simp [hsub] at h; rcases h with rfl | rfl <;> simp [Inert, Tok.isClitic]
      · exact hin t h
    · simp only [compToks, List.mem_flatMap] at h
      obtain ⟨c, hcm, hc⟩ := h
      have := hp.comps c hcm
      cases c <;> simp_all [Inert, Tok.isClitic]
      all_goals (rcases hc with rfl | rfl | rfl <;> simp [Inert, Tok.isClitic])
  -- nothing is pronominalized
  have hsubjpro : ∀ d ∈ subjDeps sp ++ sp.comps.map compDep, d.pro = false := by
    intro d hd
    rcases List.mem_append.mp hd with h | h
    · have := hp.subj
      unfold subjDeps at h
      cases hsub : sp.subj with
      | none => simp [hsub] at h
      | some s =>
        cases s with
        | pro vm pe n g => simp [hsub] at h; subst h; rfl
        | np a => simp [hsub] at h this; subst h; exact this
    · obtain ⟨c, hc, rfl⟩ := List.mem_map.mp h
      have := hp.comps c hc
      cases c <;> simp_all [compDep]
  have helems : depElems sp = (plainVerb sp, withPids 0 (subjDeps sp ++ sp.comps.map compDep)) := by
    unfold depElems
    simp only [pronominalizeDeps_id _ none (withPids_pro 0 _ hsubjpro)]
    rfl
  unfold depToks depTyped depStagePas depStageProg depStageMod depStageNeg
  simp only [hp.typ, helems]
  simp only [bind, Except.bind, pure, Except.pure, Bool.false_eq_true, if_false]
  unfold depReal
  have hdc : ∀ a b : List Dep, depConsumed false a b = (a, b) := fun _ _ => rfl
  simp only [conjugate_nolier _ false _ (plainVerb_lier sp), hcv, bind, Except.bind, hcv2, Bool.false_eq_true, if_false,
    Bool.false_and, hdc]
  rw [withPids_filter_toks false 0 _ Dep.isPre hpre, withPids_filter_toks false 0 _ (fun d => !Dep.isPre d) hpost]
  simp only [List.filter_append, hcompPre, hcompPost, List.append_nil]
  rw [List.mapM_append, compDep_toks false sp.comps hp.comps]
  have hsubj := hp.subj
  revert hne hall
  unfold subjToks subjDeps
  cases hsub : sp.subj with
  | none =>
    intro hne hall
    simp only [List.filter_nil, List.mapM_nil, bind, Except.bind, pure, Except.pure, List.flatten_nil, List.nil_append,
      List.append_nil]
    have hfl : (List.map (fun c => match c with
        | Comp.dir a => [Tok.d a.id, Tok.n a.id]
        | Comp.pp prep a => [Tok.p prep, Tok.d a.id, Tok.n a.id]
        | Comp.cl p => [proTok p]) sp.comps).flatten = compToks sp := by simp [compToks, List.flatMap]
    rw [hfl, removeEmpty_id _ (by simpa using hne), place_inert false _ (by simpa using hall)]
    simp
  | some s =>
    cases s with
    | pro vm pe n g =>
      intro hne hall
      simp only [List.filter_cons, Dep.isPre, decide_true, Bool.true_or, if_true, Bool.not_true, Bool.false_eq_true,
        if_false, List.filter_nil, List.nil_append, List.mapM_cons, List.mapM_nil, Dep.toks, bind, Except.bind, pure,
        Except.pure, List.flatten_cons, List.flatten_nil, List.append_nil]
      have hfl : (List.map (fun c => match c with
          | Comp.dir a => [Tok.d a.id, Tok.n a.id]
          | Comp.pp prep a => [Tok.p prep, Tok.d a.id, Tok.n a.id]
          | Comp.cl p => [proTok p]) sp.comps).flatten = compToks sp := by simp [compToks, List.flatMap]
      rw [hfl, removeEmpty_id _ (by simpa using hne), place_inert false _ (by simpa using hall)]
      simp
    | np a =>
      intro hne hall
      simp only [List.filter_cons, Dep.isPre, decide_true, Bool.true_or, if_true, Bool.not_true, Bool.false_eq_true,
        if_false, List.filter_nil, List.nil_append, List.mapM_cons, List.mapM_nil, Dep.toks, bind, Except.bind, pure,
        Except.pure, List.flatten_cons, List.flatten_nil, List.append_nil]
      have hfl : (List.map (fun c => match c with
          | Comp.dir a => [Tok.d a.id, Tok.n a.id]
          | Comp.pp prep a => [Tok.p prep, Tok.d a.id, Tok.n a.id]
          | Comp.cl p => [proTok p]) sp.comps).flatten = compToks sp := by simp [compToks, List.flatMap]
      rw [hfl, removeEmpty_id _ (by simpa using hne), place_inert false _ (by simpa using hall)]
      simp

end Pyrealb.ClauseFr
