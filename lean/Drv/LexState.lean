import Pyrealb.Driver.Loop
import Pyrealb.Driver.LexState
def main : IO Unit := Pyrealb.Driver.runLoop Pyrealb.Driver.LexStateOps.ops
