import Pyrealb.Driver.Loop
import Pyrealb.Driver.Number
def main : IO Unit := Pyrealb.Driver.runLoop Pyrealb.Driver.NumberOps.ops
