import Pyrealb.Driver.Loop
import Pyrealb.Driver.OneOf
def main : IO Unit := Pyrealb.Driver.runLoop Pyrealb.Driver.OneOfOps.ops
