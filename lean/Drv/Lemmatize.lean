import Pyrealb.Driver.Loop
import Pyrealb.Driver.Lemmatize
def main : IO Unit := Pyrealb.Driver.runLoop Pyrealb.Driver.LemmatizeOps.ops
