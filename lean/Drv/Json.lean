import Pyrealb.Driver.Loop
import Pyrealb.Driver.Json
def main : IO Unit := Pyrealb.Driver.runLoop Pyrealb.Driver.JsonOps.ops
