import Pyrealb.Driver.Loop
import Pyrealb.Driver.Format
def main : IO Unit := Pyrealb.Driver.runLoop Pyrealb.Driver.FormatOps.ops
