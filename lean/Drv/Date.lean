import Pyrealb.Driver.Loop
import Pyrealb.Driver.Date
def main : IO Unit := Pyrealb.Driver.runLoop Pyrealb.Driver.DateOps.ops
