import Pyrealb.Driver.Loop
import Pyrealb.Driver.Decl
def main : IO Unit := Pyrealb.Driver.runLoop Pyrealb.Driver.DeclOps.ops
