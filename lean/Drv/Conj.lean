import Pyrealb.Driver.Loop
import Pyrealb.Driver.Conj
def main : IO Unit := Pyrealb.Driver.runLoop Pyrealb.Driver.ConjOps.ops
