import Pyrealb.Driver.Loop
import Pyrealb.Driver.Clause
def main : IO Unit := Pyrealb.Driver.runLoop Pyrealb.Driver.ClauseOps.ops
