import Pyrealb.Driver.Loop
import Pyrealb.Driver.Lang
def main : IO Unit := Pyrealb.Driver.runLoop Pyrealb.Driver.LangOps.ops
