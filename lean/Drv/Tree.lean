import Pyrealb.Driver.Loop
import Pyrealb.Driver.Tree
def main : IO Unit := Pyrealb.Driver.runLoop Pyrealb.Driver.TreeOps.ops
