import Pyrealb.Driver.Loop
import Pyrealb.Driver.Surface
def main : IO Unit := Pyrealb.Driver.runLoop Pyrealb.Driver.SurfaceOps.ops
