import Pyrealb.Driver.Loop
import Pyrealb.Driver.Agree
def main : IO Unit := Pyrealb.Driver.runLoop Pyrealb.Driver.AgreeOps.ops
