import Pyrealb.Driver.Loop
import Pyrealb.Driver.Total
def main : IO Unit := Pyrealb.Driver.runLoop Pyrealb.Driver.TotalOps.ops
