import Pyrealb.Driver.Loop
import Pyrealb.Driver.ClauseFr
def main : IO Unit := Pyrealb.Driver.runLoop Pyrealb.Driver.ClauseFrOps.ops
