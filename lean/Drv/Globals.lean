import Pyrealb.Driver.Loop
import Pyrealb.Driver.Globals
def main : IO Unit := Pyrealb.Driver.runLoop Pyrealb.Driver.GlobalsOps.ops
