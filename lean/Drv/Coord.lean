import Pyrealb.Driver.Loop
import Pyrealb.Driver.Coord
def main : IO Unit := Pyrealb.Driver.runLoop Pyrealb.Driver.CoordOps.ops
