#!/bin/sh
# runs every claimed check once (tier $1 = quick|thorough, seed $2) and prints one summary line each
cd "$(dirname "$0")/.."
TIER=${1:-quick}; SEED=${2:-0}
for p in $(python3 -c "import json;print(' '.join(json.load(open('harness/claimed.json'))))"); do
  s=$(date +%s)
  out=$(VERIF_SEED=$SEED ./check $p --tier $TIER 2>&1); rc=$?
  e=$(date +%s)
  echo "$p rc=$rc $((e-s))s $(echo "$out" | grep -c '^KNOWN-FINDING') known $(echo "$out" | grep -c '^VIOLATION') violations | $(echo "$out" | grep '^OK\|^FAIL\|^INFRA' | tail -1)"
done
