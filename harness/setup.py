"""MANIFEST.setup_cmd: regenerate the translated tables from /repo, build every Lean target the checks use,
smoke-test the drivers.  Offline; uses only files on disk."""
import importlib
import json
import os
import sys

from harness import core, translate

props = [json.loads(l)["id"] for l in open(os.path.join(core.VERIF, "properties.jsonl"))]
targets = []
claimed = json.load(open(os.path.join(core.VERIF, "harness", "claimed.json")))
for pid in props:
    if pid in claimed and os.path.exists(os.path.join(core.VERIF, "harness", "props", pid + ".py")):
        m = importlib.import_module("harness.props." + pid).META
        if m.get("not_applicable"):
            continue
        targets += ["Pyrealb.Props." + pid, m["driver"]]
targets = sorted(set(targets))
print("translate:", translate.run_all())
ok, log, fails = core.lake_build(targets, timeout=7200)
print(log[-3000:])
if not ok:
    print("SETUP: lake build failed", fails[:10])
    sys.exit(1)
import harness.smoke  # noqa
