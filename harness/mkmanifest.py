#!/venv/bin/python
"""Writes /verif/MANIFEST.json from the META blocks of harness/props/Cnn.py (run after adding a property)."""
import importlib
import json
import os
import sys

sys.path.insert(0, os.path.dirname(os.path.dirname(os.path.abspath(__file__))))
VERIF = os.path.dirname(os.path.dirname(os.path.abspath(__file__)))

props = [json.loads(l)["id"] for l in open(os.path.join(VERIF, "properties.jsonl"))]
checks, na = [], []
claimed = json.load(open(os.path.join(VERIF, "harness", "claimed.json")))
for pid in props:
    path = os.path.join(VERIF, "harness", "props", pid + ".py")
    if pid not in claimed or not os.path.exists(path):
        na.append({"property_id": pid, "reason": "check not built yet in this session (planned, see DESIGN.md §5); not claimed"})
        continue
    m = importlib.import_module("harness.props." + pid).META
    if m.get("not_applicable"):
        na.append({"property_id": pid, "reason": m["not_applicable"]})
        continue
    checks.append({
        "property_id": pid,
        "quick_cmd": "./check %s --tier quick" % pid,
        "thorough_cmd": "./check %s --tier thorough" % pid,
        "evidence_file": "evidence/%s.json" % pid,
        "replay_cmd_template": "./check %s --replay {path}" % pid,
        "engine": "lean-model+correspondence",
        "level_claimed": {"category": "proof", "text": m["level_text"], "design_ref": "DESIGN.md §5 " + pid},
        "level_note": m["level_note"],
        "technique": m["technique"],
    })
man = {
    "version": 1,
    "setup_cmd": "/venv/bin/python -m harness.setup",
    "hooks": {
        "guard": "PYREALB_VERIF",
        "enable": "no source hooks: the adapters import /repo/src in-process and wrap methods from outside (reserved guard PYREALB_VERIF=1)",
        "baseline_off_cmd": "cd /repo && /venv/bin/python -m pytest -ra -q -p no:cacheprovider --timeout=900 --continue-on-collection-errors",
        "source_commits": [],
        "add_only": True,
    },
    "engines": [{
        "name": "lean-model+correspondence", "path": "lean/ + harness/",
        "serves_properties": [c["property_id"] for c in checks],
        "kind_free_text": "Lean 4 theorems about hand-written executable models and about tables regenerated from /repo on every run "
                          "(harness/translate); models tied to the code by a correspondence check that runs the compiled model driver and "
                          "the real pyrealb on the same protocol lines; direct oracles on the implementation search for failing inputs",
    }],
    "checks": checks,
    "not_applicable": na,
    "notes": "Exit codes: 0 held / only known findings; 1 violation; 2 infrastructure failure. known_findings.json lists genuine defects "
             "recorded rather than repaired, and fixed ones.",
}
json.dump(man, open(os.path.join(VERIF, "MANIFEST.json"), "w"), indent=1, ensure_ascii=False)
print("checks:", [c["property_id"] for c in checks], "not claimed:", [n["property_id"] for n in na])
