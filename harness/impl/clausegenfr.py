"""French clause specifications (family `clausefr`, properties C05 and the French half of C08).

* a clause SPECIFICATION (DESIGN §4, fragment G restricted to what C05 speaks about) is a plain dict
      {"subj": Arg|None, "verb": {"lemma","tab","aux","pat","h"}, "t": tense, "vpe": pe|None, "vn": n|None,
       "comps": [Comp...], "typ": {...}}
  Arg  ::= {"k":"pro","var":"je"|"moi","pe":1..3,"n":"s"|"p","g":"m"|"f"}         subject pronoun
         | {"k":"np","id":i,"noun":lemma,"g":"m"|"f","n":"s"|"p","pro":bool}       det + noun
  Comp ::= {"k":"dir","arg":np}                                                      direct object
         | {"k":"pp","prep":p,"arg":np(with "pro" = the PP is pronominalized)}       prepositional complement
         | {"k":"cl","c":"acc"|"dat"|"refl","pe","n","g"}                           clitic given as Pro("moi").c(..)
         | {"k":"cl","lemma":"y"|"en"}                                               adverbial clitic given as Pro(..)
* `render_phrase` / `render_dep`: the framework's OWN trivial mapping of a specification into the two notations
  (never the library's toDependent / toConstituent).
* `realize(spec, nota)`: runs the real pyrealb and returns the canonical answer that the model driver also
  produces: {"toks":[[kind,lemma,form,link],…],"err":null|name}; the terminals that come from one noun phrase of
  the specification are collapsed into one symbolic token ["NP", id, "", link].
* `oracle_c05(spec, nota, ans)`: the property text evaluated on the implementation's tokens (independent of
  the model); `c08_fr(ctx)`: notation agreement correspondence + oracle (French half of C08).
"""
import io
import itertools
import json
import os
import re
import sys

from harness import core

TENSES_SIMPLE = ["p", "i", "f", "ps", "c", "s", "si", "ip", "b", "pr", "pp"]
TENSES_COMPOUND = ["pc", "pq", "cp", "pa", "fa", "spa", "spq", "bp"]
TENSES = TENSES_SIMPLE + TENSES_COMPOUND
FINITE = ["p", "i", "f", "ps", "c", "s", "si", "pc", "pq", "cp", "pa", "fa", "spa", "spq"]
INTS = ["yon", "wos", "wod", "woi", "was", "wad", "wai", "whe", "why", "whn", "how", "muc", "tag"]  # + False = 14 values
MODS = ["poss", "perm", "nece", "obli", "will"]
PANEL = ["être", "avoir", "aller", "pouvoir", "devoir", "vouloir", "manger", "finir", "prendre", "enfuir",
         "tomber", "pleuvoir", "aimer", "haïr", "habiter"]
PREPS = ["à", "de", "sur", "vers", "dans", "avec", "pour", "par"]
# (noun, gender): nouns whose lexicon gender is "x" receive an explicit .g(..)
NOUNS = [("chat", "m"), ("chat", "f"), ("pomme", "f"), ("enfant", "m"), ("enfant", "f"), ("hache", "f"), ("homme", "m"),
         ("maison", "f"), ("livre", "m"), ("ami", "f"), ("eau", "f"), ("arbre", "m"), ("héros", "m"), ("idée", "f")]

_state = {}


def data():
    """lexicon / rules of the repository under test (read as JSON, not through the library)"""
    if "lex" not in _state:
        d = os.path.join(core.REPO, "src", "pyrealb", "data")
        _state["lex"] = json.load(open(os.path.join(d, "lexicon-fr.json"), encoding="utf-8"))
        _state["rules"] = json.load(open(os.path.join(d, "rules-fr.json"), encoding="utf-8"))
    return _state["lex"], _state["rules"]


def verb_entry(lemma):
    lex, rules = data()
    e = lex[lemma]["V"]
    ent = {"lemma": lemma, "tab": e.get("tab"), "aux": e.get("aux", "av"), "pat": e.get("pat")}
    return ent


def negs():
    return [True] + list(data()[1]["verb_option"]["neg"]["autres"])


# --------------------------------------------------------------------------------------------- rendering

def _mk_np(P, a, roles):
    """NP(D("le"),N(noun)) ; the terminals are tagged with the id of the argument they come from"""
    det = a.get("det")          # possessive determiner of the `maje` stratum: {"lemma": "mon", "pe": 2}
    d = P.D("le") if det is None else (P.D(det["lemma"]).pe(det["pe"]) if det.get("pe") else P.D(det["lemma"]))
    n = P.N(a["noun"])
    if data()[0][a["noun"]]["N"].get("g") == "x":
        n.g(a["g"])
    if a.get("n") == "p":
        n.n("p")
    d._arg = n._arg = a["id"]
    return d, n


def _mk_subj_pro(P, a):
    if a.get("var", "je") == "je":
        return P.Pro("je").pe(a["pe"]).n(a["n"]).g(a["g"])
    return P.Pro("moi").c("nom").pe(a["pe"]).n(a["n"]).g(a["g"])


def _mk_clitic(P, c):
    if "lemma" in c:
        return P.Pro(c["lemma"])
    return P.Pro("moi").c(c["c"]).pe(c["pe"]).n(c["n"]).g(c["g"])


def _mk_verb(P, spec):
    v = P.V(spec["verb"]["lemma"]).t(spec["t"])
    if spec.get("vpe") is not None:
        v.pe(spec["vpe"])
    if spec.get("vn") is not None:
        v.n(spec["vn"])
    return v


def render_phrase(P, spec):
    """S(subj, VP(V, comps…)).typ(typ)"""
    kids = []
    for c in spec["comps"]:
        if c["k"] == "dir":
            d, n = _mk_np(P, c["arg"], None)
            np = P.NP(d, n)
            if c["arg"].get("pro"):
                np.pro()
            kids.append(np)
        elif c["k"] == "pp":
            d, n = _mk_np(P, c["arg"], None)
            pp = P.PP(P.P(c["prep"]), P.NP(d, n))
            if c["arg"].get("pro"):
                pp.pro()
            kids.append(pp)
        else:
            kids.append(_mk_clitic(P, c))
    vp = P.VP(_mk_verb(P, spec), *kids)
    sub = spec.get("subj")
    if sub is None:
        s = P.S(vp)
    elif sub["k"] == "pro":
        s = P.S(_mk_subj_pro(P, sub), vp)
    else:
        d, n = _mk_np(P, sub, None)
        np = P.NP(d, n)
        if sub.get("pro"):
            np.pro()
        s = P.S(np, vp)
    if spec.get("typ"):
        s.typ(dict(spec["typ"]))
    return s


def render_dep(P, spec):
    """root(V, subj(..), comp(..)…).typ(typ)"""
    deps = []
    sub = spec.get("subj")
    if sub is not None:
        if sub["k"] == "pro":
            deps.append(P.subj(_mk_subj_pro(P, sub)))
        else:
            d, n = _mk_np(P, sub, None)
            sd = P.subj(n, P.det(d))
            if sub.get("pro"):
                sd.pro()
            deps.append(sd)
    for c in spec["comps"]:
        if c["k"] == "dir":
            d, n = _mk_np(P, c["arg"], None)
            cd = P.comp(n, P.det(d))
            if c["arg"].get("pro"):
                cd.pro()
            deps.append(cd)
        elif c["k"] == "pp":
            d, n = _mk_np(P, c["arg"], None)
            cd = P.comp(P.P(c["prep"]), P.comp(n, P.det(d)))
            if c["arg"].get("pro"):
                cd.pro()
            deps.append(cd)
        else:
            deps.append(P.comp(_mk_clitic(P, c)))
    r = P.root(_mk_verb(P, spec), *deps)
    if spec.get("typ"):
        r.typ(dict(spec["typ"]))
    return r


# --------------------------------------------------------------------------------------------- adapter

class _Null(io.TextIOBase):
    def __init__(self):
        self.n = 0

    def write(self, x):
        if x.strip():
            self.n += 1
        return len(x)


def pyrealb():
    if "P" not in _state:
        core.ensure_repo_on_path()
        import pyrealb as P
        _state["P"] = P
    return _state["P"]


def _strip_end(r):
    """realization without the punctuation / spaces that doFormat attached to the last token of the clause"""
    return re.sub(r"(, n'est-ce pas)?[?!. ]*$", "", r) if not r.startswith("[[") else re.sub(r"(?<=\]\])(, n'est-ce pas)?[?!. ]*$", "", r)


def canon_tokens(terms, text, feats=False):
    """terminal list of the real library + detokenized text -> canonical tokens [kind, lemma, form, link];
    link is what detokenize wrote between a `lier` token and its successor ('-' or '-t-'), read back from the text"""
    toks = []
    end = ""
    pos = 0
    low = text.lower()
    live = [t for t in terms if t.realization not in (None, "")]
    for i, t in enumerate(live):
        r = t.realization
        rr = r[1:] if r.startswith(" ") else r
        j = low.find(rr.lower(), pos)
        link = ""
        if j >= 0:
            pos = j + len(rr)
            if i < len(live) - 1 and t.getProp("lier"):
                if text.startswith("-t-", pos):
                    link = "-t-"
                elif text.startswith("-", pos):
                    link = "-"
        else:
            link = "?"
        form = r
        if i == len(live) - 1:
            form = _strip_end(r)
            end = r[len(form):]
        arg = getattr(t, "_arg", None)
        if arg is not None and t.isA("D", "N"):
            if toks and toks[-1][0] == "NP" and toks[-1][1] == str(arg):
                toks[-1][3] = link
                continue
            toks.append(["NP", str(arg), "", link])
            continue
        lemma = t.lemma if isinstance(t.lemma, str) else str(t.lemma)
        tok = [t.constType, lemma, form, link]
        if feats:
            f = ""
            if t.isA("V"):
                f = t.getProp("t") or ""
            elif t.isA("Pro"):
                f = t.props.get("c") or ("tn" if "tn" in t.props else "")
            tok.append(f)
        toks.append(tok)
    return toks, end


def _run(P, spec, nota):
    expr = render_phrase(P, spec) if nota == "phrase" else render_dep(P, spec)
    terms = expr.real()
    text = expr.detokenize(terms)
    return terms, text


class _LangFr:
    """the constructors of pyrealb with `lang="fr"` given explicitly everywhere (terminals: second argument,
    phrases and dependents: keyword)"""
    TERMINALS = ("N", "A", "Pro", "D", "V", "Adv", "C", "P", "DT", "NO", "Q")

    def __init__(self, P):
        self._P = P

    def __getattr__(self, name):
        f = getattr(self._P, name)
        if name in self.TERMINALS:
            return lambda lemma, *a: f(lemma, "fr", *a)
        if name[:1].isupper() or name in ("root", "subj", "det", "mod", "comp", "coord"):
            return lambda *a, **kw: f(*a, **dict(kw, lang="fr"))
        return f


CROSS_MODES = ("built-fr-realized-under-en", "lang-fr-under-en")


def realize_cross(spec, nota, mode):
    """the text (or the exception type) of the same French clause while ENGLISH is the current language:
    `built-fr-realized-under-en`: constructed under loadFr(), then loadEn() before realize();
    `lang-fr-under-en`: loadEn() all along, every constructor given lang="fr" """
    P = pyrealb()
    old = sys.stderr
    sys.stderr = _Null()
    try:
        try:
            if mode == "built-fr-realized-under-en":
                P.loadFr()
                expr = render_phrase(P, spec) if nota == "phrase" else render_dep(P, spec)
                P.loadEn()
            else:
                P.loadEn()
                L = _LangFr(P)
                expr = render_phrase(L, spec) if nota == "phrase" else render_dep(L, spec)
            terms = expr.real()
            return expr.detokenize(terms)
        except Exception as e:  # noqa: an exception is an output
            return "!" + type(e).__name__
    finally:
        sys.stderr = old
        P.loadFr()


HISTORY_MODES = ("flags-on-clone-after-realize", "flags-on-same-object-after-realize")


def realize_history(spec, nota, mode):
    """the text (or exception type) of a clause with a HISTORY: the same clause WITHOUT its sentence-type flags is
    built and realized first (no transformation has touched the tree), then the flags are applied to a clone()
    of it / to the same object, and that is realized"""
    P = pyrealb()
    P.loadFr()
    old = sys.stderr
    sys.stderr = _Null()
    try:
        try:
            bare = dict(spec, typ={})
            expr = render_phrase(P, bare) if nota == "phrase" else render_dep(P, bare)
            first = expr.realize()
            if "[[" in first:
                return None      # a morphology error already rewrote the tree (the verb became a Q): no stable history
            if expr.realize() != first or expr.clone().realize() != first:
                return None      # the flag-less clause itself does not survive a realization (contraction de+les…): C06 / C14
            if mode == "flags-on-clone-after-realize":
                expr = expr.clone()
            expr.typ(dict(spec["typ"]))
            terms = expr.real()
            return expr.detokenize(terms)
        except Exception as e:  # noqa: an exception is an output
            return "!" + type(e).__name__
    finally:
        sys.stderr = old


def history_keys(spec, answers=None, notas=("dep", "phrase")):
    """{("history", mode, notation)}: the clause realizes differently when its flag-less form was realized before"""
    res = set()
    if not spec.get("typ"):
        return res
    # `.pro()` rewrites the tree at the first realization (the noun phrase becomes a pronoun): the flags would then be
    # applied to another clause than the one specified — outside the stratum
    sub = spec.get("subj")
    if (sub is not None and sub.get("pro")) or any(c["k"] != "cl" and c["arg"].get("pro") for c in spec["comps"]):
        return res
    for nota in notas:
        a = answers[nota] if answers else realize(spec, nota, both=False)
        base = ("!" + a["err"]) if a["err"] else a["text"]
        if "[[" in base:
            continue
        for mode in HISTORY_MODES:
            h = realize_history(spec, nota, mode)
            if h is not None:
                _state["histories"] = _state.get("histories", 0) + 1
            if h is not None and h != base:
                res.add(("history", mode, nota))
    return res


def cross_keys(spec, answers=None, notas=("dep", "phrase")):
    """{("cross_language", mode, notation)}: the clause realizes differently when English is the current language"""
    res = set()
    for nota in notas:
        a = answers[nota] if answers else realize(spec, nota, both=False)
        base = ("!" + a["err"]) if a["err"] else a["text"]
        for mode in CROSS_MODES:
            if realize_cross(spec, nota, mode) != base:
                res.add(("cross_language", mode, nota))
    return res


def realize(spec, nota, both=True):
    """answer of the real library: `toks` = token list with elision/contraction switched off (what the clause model
    produces; elision is property C06's), `etoks`/`text` = the unmodified realization (what the oracles look at)"""
    P = pyrealb()
    P.loadFr()
    from pyrealb.ConstituentFr import ConstituentFr
    old = sys.stderr
    w = _Null()
    sys.stderr = w
    res = {"err": None, "toks": [], "end": "", "text": "", "etoks": [], "eend": ""}
    try:
        try:
            terms, text = _run(P, spec, nota)
            res["etoks"], res["eend"] = canon_tokens(terms, text, True)
            res["text"] = text
            res["w"] = w.n
        except Exception as e:  # noqa: an exception is an output
            res["err"] = type(e).__name__
            return res
        if both:
            orig = ConstituentFr.doElision
            ConstituentFr.doElision = lambda self, cList: None
            try:
                terms, text = _run(P, spec, nota)
                res["toks"], res["end"] = canon_tokens(terms, text)
            except Exception as e:  # noqa
                res["err"] = "noelision:" + type(e).__name__
            finally:
                ConstituentFr.doElision = orig
    finally:
        sys.stderr = old
    return res


# --------------------------------------------------------------------------------------------- wire format (model driver)

def verb_wire(entry):
    """what the model reads of a verb: lexicon entry + its conjugation table (None when the table is missing)"""
    lex, rules = data()
    tab = entry.get("tab")
    table = rules["conjugation"].get(tab) if tab is not None else None
    lemma = entry["lemma"].replace("œ", "oe").replace("æ", "ae")
    if table is not None and not lemma.endswith(table["ending"]):
        table = None     # Terminal.setLemma: "bad lexicon table" -> tab = None
    return {"lemma": lemma, "aux": entry.get("aux", "av"), "pat": entry.get("pat"),
            "table": None if table is None else {"ending": table["ending"], "t": table["t"]}}


def _np_wire(a):
    return [a["id"], a["g"], a["n"], bool(a.get("pro"))]


def wire(spec, nota):
    s = spec.get("subj")
    if s is None:
        sw = None
    elif s["k"] == "pro":
        sw = ["pro", s.get("var", "je") == "moi", s["pe"], s["n"], s["g"]]
    else:
        sw = ["np"] + _np_wire(s)
    cs = []
    for c in spec["comps"]:
        if c["k"] == "dir":
            cs.append(["dir"] + _np_wire(c["arg"]))
        elif c["k"] == "pp":
            cs.append(["pp", c["prep"]] + _np_wire(c["arg"]))
        elif "lemma" in c:
            cs.append(["cl", c["lemma"]])
        else:
            cs.append(["cl", c["c"], c["pe"], c["n"], c["g"]])
    w = {"n": nota, "s": sw, "t": spec["t"], "c": cs, "y": spec.get("typ") or {}}
    if spec.get("vpe") is not None:
        w["vpe"] = spec["vpe"]
    if spec.get("vn") is not None:
        w["vn"] = spec["vn"]
    return w


def model_lines(items):
    """items: list of (spec, nota) -> protocol lines batched by verb, and for each line the item indices"""
    by_verb = {}
    for i, (spec, nota) in enumerate(items):
        by_verb.setdefault(spec["verb"]["lemma"], []).append(i)
    lines, index = [], []
    for lemma, idxs in by_verb.items():
        vw = verb_wire(items[idxs[0]][0]["verb"])
        for k in range(0, len(idxs), 400):
            chunk = idxs[k:k + 400]
            lines.append({"op": "clause", "verb": vw, "specs": [wire(items[i][0], items[i][1]) for i in chunk]})
            index.append(chunk)
    return lines, index


def run_model(items, driver="drv_clausefr"):
    lines, index = model_lines(items)
    outs = core.run_driver(lines, driver)
    res = [None] * len(items)
    for o, idxs in zip(outs, index):
        if "driver_error" in o:
            raise core.Infra("driver error: %s" % o["driver_error"])
        for i, r in zip(idxs, o["res"]):
            res[i] = r
    return res


def impl_answer(a):
    """the part of the implementation's answer that the model is compared with"""
    if a["err"] is not None:
        return {"err": a["err"], "toks": [], "end": ""}
    return {"err": None, "toks": a["toks"], "end": re.sub(r"\s+", " ", a["end"]).strip()}


# --------------------------------------------------------------------------------------------- direct oracle (C05)

VOWELS = set("aeiouyàâäéèêëîïôöùûü")
CLITIC_RANK = {"me": 1, "te": 1, "se": 1, "nous": 1, "vous": 1, "le": 2, "la": 2, "les": 2, "lui": 3, "leur": 3, "y": 4, "en": 5}
FIN = {"p", "i", "f", "ps", "c", "s", "si"}


def unelide(form):
    f = form.lower()
    if f.endswith("'"):
        return {"m'": "me", "t'": "te", "s'": "se", "l'": "le", "n'": "ne", "j'": "je", "d'": "de", "qu'": "que"}.get(f, f)
    return f


def is_clitic(tok):
    return tok[0] == "Pro" and (tok[4] in ("acc", "dat", "refl") or tok[1] in ("y", "en"))


def neg_word(typ):
    n = (typ or {}).get("neg")
    if n in (None, False):
        return None
    return "pas" if n is True else n


def expected_layers(spec):
    """the verb lemmas of the nesting [modal] [être en train de] [être + pp] main, outermost first"""
    typ = spec.get("typ") or {}
    _, rules = data()
    layers = []
    if typ.get("mod"):
        for k, v in rules["verb_option"]["modalityVerb"].items():
            if k.startswith(typ["mod"]):
                layers.append(("mod", v))
                break
    if typ.get("prog"):
        layers.append(("prog", rules["verb_option"]["prog"]["aux"]))
    if typ.get("pas"):
        layers.append(("pas", "être"))
    layers.append(("main", spec["verb"]["lemma"]))
    return layers


def oracle_c05(spec, nota, ans):
    """the text of C05 evaluated on the tokens the implementation produced (etoks: [kind, lemma, form, link, feat]).
    returns a list of (clause, detail) violations; independent of the model."""
    if ans["err"] is not None:
        return []
    toks = ans["etoks"]
    typ = spec.get("typ") or {}
    out = []
    if any(t[2].startswith("[[") for t in toks):
        return []          # a morphology error: the clause was not realized (C01's business)
    vidx = [i for i, t in enumerate(toks) if t[0] == "V"]
    if not vidx:
        return []
    first = vidx[0]
    ft = toks[first][4]
    neg2 = neg_word(typ)
    nes = [i for i, t in enumerate(toks) if t[0] == "Adv" and t[1] == "ne"]
    # ---- negation
    if neg2 is not None and ft in FIN | {"ip", "b"}:
        npre = 0      # tokens of the interrogative prefix ("que", "par" "quoi", …) are not the negation
        if typ.get("int"):
            npre = 2 if toks[0][0] == "P" else 1
        n2 = [i for i, t in enumerate(toks) if t[0] == "Q" and t[1] == neg2 and i >= npre]
        if len(nes) != 1:
            out.append(("ne_position", "count=%d" % len(nes)))
        else:
            i = nes[0]
            j = i + 1
            if ft == "b" and j < len(toks) and toks[j][0] == "Q" and toks[j][1] == neg2:
                j += 1
            while j < len(toks) and is_clitic(toks[j]):
                j += 1
            if j != first:
                out.append(("ne_position" if ft != "b" else "neg_infinitive", "ne-not-before-clitics+first-verb"))
            elif i > 0 and is_clitic(toks[i - 1]):
                out.append(("ne_position", "clitic-before-ne"))
        if len(n2) != 1:
            out.append(("neg2_position_finite" if ft != "b" else "neg_infinitive", "count=%d" % len(n2)))
        elif len(nes) == 1:
            k = n2[0]
            if ft == "b":
                if k != nes[0] + 1:
                    out.append(("neg_infinitive", "neg2-not-after-ne"))
            else:
                want = first + 1
                if toks[first][3] != "" and first + 1 < len(toks) and toks[first + 1][0] == "Pro":
                    want = first + 2
                elif toks[first][3] != "":
                    out.append(("neg2_position_finite", "hyphen-not-to-pronoun"))
                if k != want:
                    out.append(("neg2_position_finite", "neg2-at-%+d" % (k - first)))
    elif neg2 is None and nes:
        out.append(("ne_position", "ne-without-neg"))
    # ---- nesting, one finite verb
    layers = expected_layers(spec)
    T = spec["t"]
    compound = T in TENSES_COMPOUND
    seq = [(toks[i][1], toks[i][4]) for i in vidx]
    fin = [i for i, (l, t) in enumerate(seq) if t in FIN or t == "ip"]
    auxT = {"pc": "p", "pq": "i", "cp": "c", "pa": "ps", "fa": "f", "spa": "s", "spq": "si", "bp": "b"}
    headT = auxT[T] if compound else T
    if headT in FIN or headT == "ip":
        if fin != [0] and not (typ.get("pas") and T == "ip" and [seq[i][1] for i in fin] == ["s"] and fin == [0]):
            out.append(("one_finite_verb", "finite-at-%s" % fin))
    else:
        if fin:
            out.append(("one_finite_verb", "finite-in-nonfinite-clause"))
    exp = []
    for k, (kind, lemma) in enumerate(layers):
        if k == 0:
            if compound:
                exp.append(("AUX", None))
                exp.append((lemma, "pp"))
            else:
                exp.append((lemma, None))
        else:
            exp.append((lemma, "pp" if layers[k - 1][0] == "pas" else "b"))
    ok = len(exp) == len(seq)
    if ok:
        for (el, et), (l, t) in zip(exp, seq):
            if el == "AUX":
                if l not in ("avoir", "être"):
                    ok = False
            elif el != l and not (el == "être" and l == "avoir"):
                ok = False
            if et is not None and t != et and not (et == "pp" and t in TENSES_COMPOUND + ["pp"]):
                ok = False
    if not ok:
        out.append(("nesting_order", "got=%s" % "+".join("%s" % t for _, t in seq)))
    # ---- clitics
    # the clitics of a positive imperative follow it; under a modality / progressive auxiliary the complements
    # belong to the infinitive and precede it
    pos_imp = (ft == "ip" and neg2 is None and not typ.get("mod") and not typ.get("prog") and not typ.get("pas"))
    for i, t in enumerate(toks):
        if not is_clitic(t):
            continue
        j = i
        if pos_imp and i > first:
            # after the verb, only clitics between
            k = i - 1
            while k > first and is_clitic(toks[k]):
                k -= 1
            if k != first:
                cause = "after-prep" if any(x[0] == "P" for x in toks[first:i]) else "other"
                out.append(("imperative_pos_clitics_after", "clitic-not-adjacent:%s:%s" % (CL_CLASS.get(unelide(t[2]), "?"), cause)))
            continue
        while j < len(toks) and is_clitic(toks[j]):
            j += 1
        if j >= len(toks) or toks[j][0] != "V":
            cause = "after-prep" if any(x[0] == "P" for x in toks[first:i]) else ("before-all-verbs" if i < first else "other")
            out.append(("clitic_order", "clitic-not-preverbal:%s:%s" % (CL_CLASS.get(unelide(t[2]), "?"), cause)))
        elif pos_imp and j == first:
            out.append(("imperative_pos_clitics_after", "clitic-before-imperative"))
    i = 0
    while i < len(toks):
        if is_clitic(toks[i]):
            j = i
            while j < len(toks) and is_clitic(toks[j]):
                j += 1
            run = [unelide(t[2]) for t in toks[i:j]]
            if j < len(toks) and toks[j][0] == "V":
                ranks = [CLITIC_RANK.get(r, 9) for r in run]
                for a, b, ra, rb in zip(run, run[1:], ranks, ranks[1:]):
                    if ra > rb:
                        out.append(("clitic_order", "%s>%s" % (CL_CLASS.get(a, "?"), CL_CLASS.get(b, "?"))))
                        break
            i = j
        else:
            i += 1
    # ---- the host of the clitics under the nesting [modal] [être en train de] [… lexical verb]: the object, reflexive
    # and adverbial clitics stand immediately before the verb that follows the modality / progressive auxiliaries
    # (« Il peut être en train de la lui donner »), never before an auxiliary of the nesting
    nlay = sum(1 for k, _ in layers if k in ("mod", "prog"))
    if nlay and ok:
        want = nlay + (1 if compound else 0)
        i = 0
        while i < len(toks):
            if is_clitic(toks[i]):
                j = i
                while j < len(toks) and is_clitic(toks[j]):
                    j += 1
                if j < len(toks) and toks[j][0] == "V" and vidx.index(j) != want:
                    h = vidx.index(j)
                    kind = "compound-auxiliary" if compound and h == 0 else "verb-%d-of-%d" % (h, len(vidx))
                    out.append(("clitic_host", "before-%s" % kind))
                i = j
            else:
                i += 1
    # ---- inversion
    for i, t in enumerate(toks[:-1]):
        if t[3] == "":
            continue
        nxt = toks[i + 1]
        f = t[2].lower()
        if t[0] == "V" and f and nxt[0] == "Pro":
            p = nxt[2].lower()
            if f[-1] in VOWELS and p in ("il", "elle", "on") and t[3] != "-t-":
                out.append(("inversion_t_iff", "vowel-final-without-t"))
            if t[3] == "-t-" and (p not in ("il", "elle", "on") or f[-1] in "dt"):
                out.append(("inversion_t_iff", "t-after-%s" % ("dt" if f[-1] in "dt" else "other-pronoun")))
    # ---- interrogative prefix / est-ce que / inversion
    it = typ.get("int")
    if it:
        _, rules = data()
        pref = rules["sentence_type"]["int"]["prefix"][it]
        words = [t[1] if t[0] in ("Q", "P") else None for t in toks[:3]]
        if pref != "":
            head = " ".join(w for w in words[:2] if w)
            first_q = words[0]
            ok = first_q == pref
            if it in ("woi", "wai") and first_q is not None and first_q.endswith(" qui" if it == "woi" else " quoi"):
                ok = True
            if it in ("wod", "wad") and words[0] == "par" and words[1] in ("qui", "quoi", "que"):
                ok = True
            if not ok:
                out.append(("estceque_cases", "prefix:%s" % it))
        if not typ.get("pas") and it not in ("wos", "was", "tag") and spec.get("subj") is not None:
            sub = spec["subj"]
            has_est = any(t[0] == "Q" and t[1] == "est-ce que" for t in toks)
            inverted = toks[first][3] != "" and first + 1 < len(toks) and toks[first + 1][0] == "Pro"
            acad = ["avoir", "dire", "devoir", "faire", "pouvoir", "savoir", "être", "aller", "vouloir", "voir"]
            je1 = sub["k"] == "pro" and sub["pe"] == 1 and sub["n"] == "s"
            want_est = (sub["k"] == "np" and not sub.get("pro") and it in ("wod", "wad")) or \
                       (je1 and toks[first][4] == "p" and toks[first][1] not in acad)
            if want_est and (not has_est or inverted):
                out.append(("estceque_cases", "expected-est-ce-que"))
            if not want_est and (has_est or not inverted):
                out.append(("estceque_cases", "expected-inversion"))
    return out


CL_CLASS = {"me": "me", "te": "me", "se": "me", "nous": "me", "vous": "me", "le": "le", "la": "le", "les": "le",
            "lui": "lui", "leur": "lui", "y": "y", "en": "en"}


# --------------------------------------------------------------------------------------------- generator

KINDS = ["dir", "a", "de", "loc", "oth"]
LOC_PREPS = ["sur", "vers", "dans"]
OTH_PREPS = ["avec", "pour", "chez", "sans"]
SUBJECTS = ([{"k": "pro", "var": v, "pe": pe, "n": n, "g": g} for v in ("je", "moi") for pe in (1, 2, 3) for n in "sp" for g in "mf"]
            + [{"k": "np", "id": 0, "noun": noun, "g": g, "n": n, "pro": pro} for (noun, g) in NOUNS[:6] for n in "sp" for pro in (False, True)])


def mk_comp(kind, style, rng, idn):
    """one complement: kind in KINDS, style in full|pro|cl"""
    noun, g = rng.choice(NOUNS)
    n = rng.choice("sp")
    if style == "cl" and kind != "oth":
        if kind == "dir":
            return {"k": "cl", "c": "acc", "pe": rng.choice([1, 2, 3, 3]), "n": n, "g": g}
        if kind == "a":
            return {"k": "cl", "c": "dat", "pe": rng.choice([1, 2, 3, 3]), "n": n, "g": g}
        return {"k": "cl", "lemma": "en" if kind == "de" else "y"}
    arg = {"k": "np", "id": idn, "noun": noun, "g": g, "n": n, "pro": style != "full"}
    if kind == "dir":
        return {"k": "dir", "arg": arg}
    prep = {"a": "à", "de": "de"}.get(kind) or rng.choice(LOC_PREPS if kind == "loc" else OTH_PREPS)
    return {"k": "pp", "prep": prep, "arg": arg}


def comp_kind(c):
    if c["k"] == "dir":
        return "dir"
    if c["k"] == "cl":
        return {"acc": "dir", "dat": "a"}.get(c.get("c")) or ("de" if c.get("lemma") == "en" else "loc")
    return {"à": "a", "de": "de"}.get(c["prep"]) or ("loc" if c["prep"] in LOC_PREPS else "oth")


def comp_style(c):
    if c["k"] == "cl":
        return "cl"
    return "pro" if c["arg"].get("pro") else "full"


def mk_comps(rng, arrangement, pas=False):
    """arrangement: list of (kind, style); a canonical passive keeps the direct object first"""
    arr = list(arrangement)
    if pas:
        # a canonical passive has a direct object, first among the complements (Phrase.passivate takes the first
        # NP or Pro of the VP as the object)
        if not any(k == "dir" for k, _ in arr):
            arr.insert(0, ("dir", rng.choice(["full", "pro", "cl"])))
        arr.sort(key=lambda ks: 0 if ks[0] == "dir" else 1)
    return [mk_comp(k, s, rng, i + 1) for i, (k, s) in enumerate(arr)]


def rand_arrangement(rng, maxk=3, pro_bias=0.6):
    k = rng.choice([0, 1, 1, 2, 2, 2, 3, 3][:2 + 2 * maxk])
    kinds = rng.sample(KINDS, min(k, len(KINDS)))
    res = []
    for kd in kinds:
        r = rng.random()
        style = "pro" if r < pro_bias else ("cl" if r < pro_bias + 0.15 and kd != "oth" else "full")
        res.append((kd, style))
    return res


def mk_spec(rng, verb, t, typ, subj=None, arrangement=None):
    typ = {k: v for k, v in typ.items() if v not in (None, False)}
    if t == "ip":
        subj = None
        typ.pop("int", None)
    elif subj is None:
        subj = dict(rng.choice(SUBJECTS))
    if arrangement is None:
        arrangement = rand_arrangement(rng)
    spec = {"subj": subj, "verb": verb_entry(verb) if isinstance(verb, str) else verb, "t": t,
            "comps": mk_comps(rng, arrangement, bool(typ.get("pas"))), "typ": typ}
    if t == "ip":
        spec["vpe"], spec["vn"] = rng.choice([(2, "s"), (1, "p"), (2, "p"), (2, "s"), (2, "p"), (1, "s")])
    return spec


def rand_typ(rng):
    typ = {}
    if rng.random() < 0.5:
        typ["neg"] = rng.choice(negs())
    if rng.random() < 0.25:
        typ["pas"] = True
    if rng.random() < 0.25:
        typ["prog"] = True
    if rng.random() < 0.3:
        typ["mod"] = rng.choice(MODS)
    if rng.random() < 0.25:
        typ["refl"] = True
    if rng.random() < 0.5:
        typ["int"] = rng.choice(INTS)
    return typ


def all_verbs():
    lex, rules = data()
    return sorted(k for k, v in lex.items() if "V" in v and v["V"].get("tab") in rules["conjugation"])


def neg_classes(rng):
    """none / True / one lexical negation (drawn)"""
    return [None, True, rng.choice(data()[1]["verb_option"]["neg"]["autres"])]


def gen_specs(rng, tier):
    """the specifications of one run (each is realized in both notations).  Strata (DESIGN Appendix C):
    F flag product x panel verb, O clitic arrangements (every order), V every lexicon verb, R random."""
    specs = []
    quick = tier != "thorough"
    tenses = TENSES
    # F: complete flag product  tense x neg-class x pas x prog x mod-class x refl x int  (19*3*2*2*3*2*14 = 19152)
    fl = []
    for t in tenses:
        for negc in range(3):
            for pas in (False, True):
                for prog in (False, True):
                    for modc in range(3):
                        for refl in (False, True):
                            for it in [None] + INTS:
                                fl.append((t, negc, pas, prog, modc, refl, it))
    if quick:
        fl = rng.sample(fl, 6500)
        per = 1
    else:
        per = 26
    autres = data()[1]["verb_option"]["neg"]["autres"]
    for (t, negc, pas, prog, modc, refl, it) in fl:
        for r in range(per):
            neg = [None, True, autres[rng.randrange(len(autres))]][negc]
            mod = [None, rng.choice(["poss", "perm"]), rng.choice(["nece", "obli", "will"])][modc]
            verb = PANEL[r % len(PANEL)] if not quick else rng.choice(PANEL)
            specs.append(mk_spec(rng, verb, t, {"neg": neg, "pas": pas, "prog": prog, "mod": mod, "refl": refl, "int": it}))
    # O: every ordered arrangement of pronominalized complements (and mixed with full ones), crossed with the
    #    tense classes and the flags that change the placement
    arrs = []
    for k in range(0, 5):
        for kinds in itertools.permutations(["dir", "a", "de", "loc"], k):
            arrs.append([(kd, "pro") for kd in kinds])
    mixed = []
    for k in range(1, 4):
        for kinds in itertools.permutations(KINDS, k):
            for styles in itertools.product(["full", "pro", "cl"], repeat=k):
                if all(s == "pro" for s in styles) and "oth" not in kinds:
                    continue
                if any(s == "cl" and kd == "oth" for kd, s in zip(kinds, styles)):
                    continue
                mixed.append(list(zip(kinds, styles)))
    octx = []
    for t in ["p", "pc", "ip", "b", "f", "spq"]:
        for neg in [None, True, "plus"]:
            for mod in [None, "poss"]:
                for prog in (False, True):
                    for it in [None, "yon", "why"]:
                        octx.append((t, neg, mod, prog, it))
    if quick:
        for arr in arrs:
            for c in rng.sample(octx, 18):
                specs.append(mk_spec(rng, rng.choice(PANEL), c[0], {"neg": c[1], "mod": c[2], "prog": c[3], "int": c[4], "refl": rng.random() < 0.15}, arrangement=arr))
        for arr in rng.sample(mixed, min(1200, len(mixed))):
            c = rng.choice(octx)
            specs.append(mk_spec(rng, rng.choice(PANEL), c[0], {"neg": c[1], "mod": c[2], "prog": c[3], "int": c[4]}, arrangement=arr))
    else:
        for arr in arrs:
            for c in octx:
                for rep in range(4):
                    specs.append(mk_spec(rng, rng.choice(PANEL), c[0], {"neg": c[1], "mod": c[2], "prog": c[3], "int": c[4], "refl": rep == 3}, arrangement=arr))
        for arr in mixed:
            for c in rng.sample(octx, 12):
                specs.append(mk_spec(rng, rng.choice(PANEL), c[0], {"neg": c[1], "mod": c[2], "prog": c[3], "int": c[4]}, arrangement=arr))
    # V: samples across all lexicon verbs
    verbs = all_verbs()
    if quick:
        verbs = rng.sample(verbs, 1500)
    for vb in verbs:
        for r in range(1 if quick else 10):
            specs.append(mk_spec(rng, vb, rng.choice(tenses), rand_typ(rng)))
    # R: random
    for r in range(4000 if quick else 60000):
        specs.append(mk_spec(rng, rng.choice(PANEL), rng.choice(tenses), rand_typ(rng)))
    return specs


# --------------------------------------------------------------------------------------------- signatures, shrinking

CLOSED_VERBS = ["être", "avoir", "pouvoir", "devoir", "vouloir"]


def verb_class(v):
    if v["lemma"] in CLOSED_VERBS:
        return v["lemma"]
    pat = v.get("pat")
    cl = "V:" + str(v.get("aux"))
    if pat is None:
        return cl + ":nopat"
    if pat == ["réfl"]:
        return cl + ":ess-refl"
    if "réfl" in pat:
        cl += ":refl"
    return cl


def abstract(spec):
    """a specification with its lexical items replaced by their class (what a finding signature shows)"""
    s = spec.get("subj")
    if s is None:
        sa = "none(%s%s)" % (spec.get("vpe"), spec.get("vn"))
    elif s["k"] == "pro":
        sa = "pro:%s:%d%s%s" % (s.get("var", "je"), s["pe"], s["n"], s["g"])
    else:
        sa = "np:%s%s%s" % (s["g"], s["n"], ".pro" if s.get("pro") else "")
        if s.get("det"):
            sa += ":det=%s.%s" % (s["det"]["lemma"], s["det"].get("pe"))
    cs = []
    for c in spec["comps"]:
        k, st = comp_kind(c), comp_style(c)
        extra = ""
        if c["k"] == "cl" and "c" in c:
            extra = ":%d%s%s" % (c["pe"], c["n"], c["g"])
        elif c["k"] != "cl":
            extra = ":%s%s" % (c["arg"]["g"], c["arg"]["n"])
            if c["k"] == "pp" and k in ("loc", "oth"):
                extra += ":" + c["prep"]
            if c["arg"].get("det"):
                extra += ":det=%s.%s" % (c["arg"]["det"]["lemma"], c["arg"]["det"].get("pe"))
        cs.append("%s.%s%s" % (k, st, extra))
    typ = spec.get("typ") or {}
    ty = ",".join("%s=%s" % (k, typ[k]) for k in sorted(typ))
    return "t=%s|subj=%s|verb=%s|comps=[%s]|typ={%s}" % (spec["t"], sa, verb_class(spec["verb"]), ",".join(cs), ty)


TENSE_ORDER = ["p", "pc", "b", "bp", "ip", "i", "f", "c", "s", "ps", "si", "pr", "pp", "pq", "fa", "cp", "pa", "spa", "spq"]


def shrink_candidates(spec):
    """smaller / more canonical variants of a specification, most drastic first"""
    out = []

    def w(**kw):
        d = dict(spec)
        d.update(kw)
        return d
    typ = spec.get("typ") or {}
    for i in range(len(spec["comps"])):
        out.append(w(comps=spec["comps"][:i] + spec["comps"][i + 1:]))
    for k in sorted(typ):
        out.append(w(typ={a: b for a, b in typ.items() if a != k}))
    if typ.get("neg") not in (None, True):
        out.append(w(typ=dict(typ, neg=True)))
    if typ.get("mod") not in (None, "poss"):
        out.append(w(typ=dict(typ, mod="poss")))
    if typ.get("int") not in (None, "yon"):
        out.append(w(typ=dict(typ, int="yon")))
    if spec["t"] != "ip":
        for t in TENSE_ORDER[:TENSE_ORDER.index(spec["t"])]:
            if t != "ip":
                out.append(w(t=t))
    else:
        d = w(t="p", subj={"k": "pro", "var": "je", "pe": 3, "n": "s", "g": "m"})
        d.pop("vpe", None)
        d.pop("vn", None)
        out.append(d)
    s = spec.get("subj")
    if s is not None:
        canon = {"k": "pro", "var": "je", "pe": 3, "n": "s", "g": "m"}
        if s != canon:
            out.append(w(subj=canon))
            if s["k"] == "pro":
                for key, val in (("var", "je"), ("pe", 3), ("n", "s"), ("g", "m")):
                    if s.get(key) != val:
                        out.append(w(subj=dict(s, **{key: val})))
            else:
                if s.get("pro"):
                    out.append(w(subj=dict(s, pro=False)))
                for key, val in (("n", "s"), ("g", "m")):
                    if s.get(key) != val:
                        out.append(w(subj=dict(s, noun="chat", **{key: val})))
    else:
        if (spec.get("vpe"), spec.get("vn")) != (2, "s"):
            out.append(w(vpe=2, vn="s"))
    for i, c in enumerate(spec["comps"]):
        def rep(nc):
            return w(comps=spec["comps"][:i] + [nc] + spec["comps"][i + 1:])
        kd = comp_kind(c)
        if c["k"] == "cl":
            noun_arg = {"k": "np", "id": i + 1, "noun": "chat", "g": "m", "n": "s", "pro": True}
            if kd == "dir":
                out.append(rep({"k": "dir", "arg": noun_arg}))
            else:
                out.append(rep({"k": "pp", "prep": {"a": "à", "de": "de", "loc": "dans"}[kd], "arg": noun_arg}))
            if c.get("c") == "acc" and c["pe"] in (1, 2) and "a" not in [comp_kind(x) for x in spec["comps"]]:
                out.append(rep(dict(c, c="dat")))       # me/te/nous/vous: the same clitic whatever its function
            if "c" in c and (c["pe"], c["n"], c["g"]) != (1, "s", "m"):
                out.append(rep(dict(c, pe=1, n="s", g="m")))
                if c["n"] != "s":
                    out.append(rep(dict(c, n="s")))
                if c["g"] != "m":
                    out.append(rep(dict(c, g="m")))
        else:
            a = c["arg"]
            if (a["noun"], a["g"], a["n"]) != ("chat", "m", "s"):
                out.append(rep(dict(c, arg=dict(a, noun="chat", g="m", n="s"))))
                if a["n"] != "s":
                    out.append(rep(dict(c, arg=dict(a, n="s"))))
                if a["g"] != "m":
                    out.append(rep(dict(c, arg=dict(a, noun="chat", g="m"))))
            if c["k"] == "pp" and not a.get("pro") and c["prep"] != "avec" and "oth" not in [comp_kind(x) for x in spec["comps"]]:
                out.append(rep(dict(c, prep="avec")))      # a full PP: only the presence of a preposition matters
            if a.get("pro"):
                out.append(rep(dict(c, arg=dict(a, pro=False))))     # a full noun phrase where the pronoun is not needed
            if c["k"] == "pp" and kd == "loc" and c["prep"] != "dans":
                out.append(rep(dict(c, prep="dans")))
            if c["k"] == "pp" and kd == "oth" and c["prep"] != "avec":
                out.append(rep(dict(c, prep="avec")))
    if spec["verb"]["lemma"] != "manger":
        out.append(w(verb=verb_entry("manger")))
        for v in PANEL:
            if v != spec["verb"]["lemma"] and PANEL.index(v) < (PANEL.index(spec["verb"]["lemma"]) if spec["verb"]["lemma"] in PANEL else 99):
                out.append(w(verb=verb_entry(v)))
    return out


def canonical(spec):
    """is the specification inside the canonical-clause fragment the generator draws from?"""
    typ = spec.get("typ") or {}
    if (spec["t"] == "ip") != (spec.get("subj") is None):
        return False
    if spec.get("subj") is None and typ.get("int"):
        return False
    if (spec.get("vpe") is not None or spec.get("vn") is not None) and spec["t"] != "ip":
        return False
    kinds = [comp_kind(c) for c in spec["comps"]]
    if len(set(kinds)) != len(kinds):
        return False
    if typ.get("pas") and (not kinds or kinds[0] != "dir"):
        return False
    return True


def host_lateral(spec):
    """lateral moves towards ONE canonical witness of a clitic-host failure: the progressive rather than a modality,
    a pronominalized direct object rather than the reflexive pronoun or another clitic"""
    out = []
    typ = spec.get("typ") or {}
    dirpro = {"k": "dir", "arg": {"k": "np", "id": 1, "noun": "chat", "g": "m", "n": "s", "pro": True}}
    # the canonical witnesses themselves (« il l'a été en train de manger », « il peut être en train de le manger »):
    # taken as soon as they fail the same way, whatever verb / clitic / subject the failing clause had
    wit = []
    for t in ("pc", spec["t"]):
        for ty in ({"prog": True}, {"mod": "poss", "prog": True}):
            if t == "ip":
                continue
            cand = {"subj": {"k": "pro", "var": "je", "pe": 3, "n": "s", "g": "m"}, "verb": verb_entry("manger"), "t": t,
                    "comps": [dirpro], "typ": dict(ty)}
            if cand not in wit:
                wit.append(cand)
    cur = {k: spec.get(k) for k in wit[0]}
    if set(spec) - {"vpe", "vn"} <= set(wit[0]) and cur in wit:
        wit = wit[:wit.index(cur)]          # never away from a more canonical witness
    out.extend(wit)
    if typ.get("mod") and not typ.get("prog"):
        out.append(dict(spec, typ=dict({a: b for a, b in typ.items() if a != "mod"}, prog=True)))
    if typ.get("refl") and not typ.get("pas"):
        out.append(dict(spec, typ={a: b for a, b in typ.items() if a != "refl"}, comps=[dirpro]))
    if len(spec["comps"]) == 1 and spec["comps"][0] != dirpro and not typ.get("pas"):
        out.append(dict(spec, comps=[dirpro]))
    return out


def shrink(spec, fails, budget=400, lateral=None):
    """delta debugging on the specification: the first candidate that still fails is taken, until none does"""
    cur = spec
    n = 0
    progress = True
    while progress and n < budget:
        progress = False
        for cand in shrink_candidates(cur) + (lateral(cur) if lateral else []):
            if not canonical(cand):
                continue
            n += 1
            if n > budget:
                break
            try:
                ok = fails(cand)
            except Exception:  # noqa
                ok = False
            if ok:
                cur = cand
                progress = True
                break
    return cur


def c05_keys(spec, answers=None, notas=("dep", "phrase"), cross=False):
    """{(clause, detail, notation)} violated by one specification, on the real library; `cross`: also the stratum
    "the same clause while English is the current language" (clause `cross_language`)"""
    res = set()
    if answers is None:
        answers = {n: realize(spec, n, both=False) for n in notas}
    for nota in notas:
        a = answers[nota]
        for cl, det in oracle_c05(spec, nota, a):
            res.add((cl, det, nota))
    if cross:
        res |= cross_keys(spec, answers, notas)
        res |= history_keys(spec, answers, notas)
    return res


def c05_signature(spec, clause, detail, nota):
    """shrinks `spec` keeping the same violated clause/detail in notation `nota`; the signature names the notations in
    which the shrunk specification fails that way"""
    cross = clause in ("cross_language", "history")

    def fails(sp):
        return (clause, detail, nota) in c05_keys(sp, notas=(nota,), cross=cross)
    small = shrink(spec, fails, lateral=host_lateral if clause == "clitic_host" else None)
    notas = "+".join(sorted(n for (c, d, n) in c05_keys(small, cross=cross) if (c, d) == (clause, detail)))
    return "fr|%s|%s:%s|%s" % (notas, clause, detail, abstract(small)), small, notas


# ---- C08 (French half): the two notations realize the same text

def tok_class(tok, idx, neg2=None):
    """class of a realized token for disagreement signatures (lexical items abstracted)"""
    k, lemma, form = tok[0], tok[1], tok[2]
    feat = tok[4] if len(tok) > 4 else ""
    if form.startswith("[["):
        return k + ".morpho"
    if k == "V":
        cl = lemma if lemma in ("être", "avoir") else ("modal" if lemma in ("pouvoir", "devoir", "vouloir") else "main")
        return "V.%s.%s" % (cl, feat)
    if k == "Pro":
        return "Pro.%s" % (lemma if lemma in ("y", "en") else (feat or "plain"))
    if k == "Q":
        if lemma == "est-ce que":
            return "Q.est-ce-que"
        if neg2 is not None and lemma == neg2 and idx > 0:
            return "Q.neg2"
        if lemma in ("en train", "de"):
            return "Q.prog"
        return "Q.prefix" if idx < 2 else "Q.other"
    if k == "P":
        return "P.par" if lemma == "par" else "P"
    if k == "Adv":
        return "Adv." + lemma
    return k


def c08_key(spec, answers=None):
    """None when the two notations agree, else the class of the FIRST difference between the two token lists"""
    a = answers["phrase"] if answers else realize(spec, "phrase", both=False)
    b = answers["dep"] if answers else realize(spec, "dep", both=False)
    if a["err"] or b["err"]:
        if a["err"] == b["err"]:
            return None
        return "err:phrase=%s,dep=%s" % (a["err"], b["err"])
    if a["text"] == b["text"]:
        return None
    if "[[" in a["text"] and "[[" in b["text"]:
        return None      # both sides failed to inflect a verb: the clause was not realized (C01's business)
    neg2 = neg_word(spec.get("typ"))
    ta, tb = a["etoks"], b["etoks"]
    for i in range(max(len(ta), len(tb))):
        if i >= len(ta):
            return "phrase:end/dep:%s" % tok_class(tb[i], i, neg2)
        if i >= len(tb):
            return "phrase:%s/dep:end" % tok_class(ta[i], i, neg2)
        if ta[i][:4] != tb[i][:4]:
            ca, cb = tok_class(ta[i], i, neg2), tok_class(tb[i], i, neg2)
            if ca == cb:
                what = "lemma" if ta[i][1] != tb[i][1] else ("form" if ta[i][2] != tb[i][2] else "link")
                return "%s:%s" % (what, ca)
            return "phrase:%s/dep:%s" % (ca, cb)
    if _strip_end(a["text"]) != _strip_end(b["text"]):
        return "noun-phrase-text"        # the tokens agree (noun phrases are collapsed): a determiner / noun form differs
    return "punctuation"


def c08_signature(spec, key=None):
    """shrinks a specification on which the two notations disagree (any disagreement)"""
    def fails(sp):
        return c08_key(sp) is not None
    small = shrink(spec, fails)
    return "fr|phrase≠dep|" + abstract(small), small


# ---- small-scope exploration: every specification that differs from the base clause « il mange » in at most
#      three features is realized in both notations on each run; the minimal disagreeing ones are the ROOTS

TENSE_CLASS = {"p": "fin", "i": "fin", "f": "fin", "ps": "fin", "c": "fin", "s": "fin", "si": "fin",
               "pc": "cfin", "pq": "cfin", "cp": "cfin", "pa": "cfin", "fa": "cfin", "spa": "cfin", "spq": "cfin",
               "b": "b", "bp": "bp", "ip": "ip", "pr": "pr", "pp": "pp"}
BASE_SUBJ = {"k": "pro", "var": "je", "pe": 3, "n": "s", "g": "m"}


def _np(i, g="m", n="s", pro=False):
    return {"k": "np", "id": i, "noun": "chat", "g": g, "n": n, "pro": pro}


BASES = {"pro": BASE_SUBJ, "np": _np(0), "pro3f": dict(BASE_SUBJ, g="f"), "pro3p": dict(BASE_SUBJ, n="p"),
         "np.f": _np(0, "f"), "np.p": _np(0, "m", "p")}


def small_atoms():
    """(dimension, label, payload) — one atom = one way of leaving the base clause"""
    atoms = []
    for t in ("pc", "b", "bp", "ip", "pr", "pp"):
        atoms.append(("tense", t, t))
    subs = {"pro1s": dict(BASE_SUBJ, pe=1), "pro2s": dict(BASE_SUBJ, pe=2), "pro3p": dict(BASE_SUBJ, n="p"),
            "pro3f": dict(BASE_SUBJ, g="f"), "moi3s": dict(BASE_SUBJ, var="moi"), "moi1s": dict(BASE_SUBJ, var="moi", pe=1),
            "np": _np(0), "np.f": _np(0, "f"), "np.p": _np(0, "m", "p"), "np.pro": _np(0, pro=True)}
    for k, v in subs.items():
        atoms.append(("subj", k, v))
    for v in ("être", "avoir", "pouvoir", "devoir", "aller", "enfuir", "aimer", "pleuvoir"):
        atoms.append(("verb", v, v))
    comps = {"dir.full": {"k": "dir", "arg": _np(1)}, "dir.full.f": {"k": "dir", "arg": _np(1, "f")},
             "dir.full.p": {"k": "dir", "arg": _np(1, "m", "p")}, "dir.pro": {"k": "dir", "arg": _np(1, pro=True)},
             "dir.pro.f": {"k": "dir", "arg": _np(1, "f", pro=True)}, "dir.pro.p": {"k": "dir", "arg": _np(1, "m", "p", True)},
             "dir.cl1": {"k": "cl", "c": "acc", "pe": 1, "n": "s", "g": "m"}, "dir.cl3": {"k": "cl", "c": "acc", "pe": 3, "n": "s", "g": "m"},
             "a.full": {"k": "pp", "prep": "à", "arg": _np(2)}, "a.pro": {"k": "pp", "prep": "à", "arg": _np(2, pro=True)},
             "a.cl1": {"k": "cl", "c": "dat", "pe": 1, "n": "s", "g": "m"}, "a.cl3": {"k": "cl", "c": "dat", "pe": 3, "n": "s", "g": "m"},
             "de.full": {"k": "pp", "prep": "de", "arg": _np(3)}, "de.pro": {"k": "pp", "prep": "de", "arg": _np(3, pro=True)},
             "de.cl": {"k": "cl", "lemma": "en"},
             "loc.full": {"k": "pp", "prep": "dans", "arg": _np(4)}, "loc.pro": {"k": "pp", "prep": "dans", "arg": _np(4, pro=True)},
             "loc.cl": {"k": "cl", "lemma": "y"},
             "oth.full": {"k": "pp", "prep": "avec", "arg": _np(5)}, "oth.chez": {"k": "pp", "prep": "chez", "arg": _np(5)},
             "oth.pro": {"k": "pp", "prep": "avec", "arg": _np(5, pro=True)}}
    for k, v in comps.items():
        atoms.append(("comp:" + k.split(".")[0], k, v))
    for k, v in (("neg", True), ("neg", "plus"), ("pas", True), ("prog", True), ("refl", True),
                 ("mod", "poss"), ("mod", "nece"), ("mod", "will")):
        atoms.append(("typ:" + k, "%s=%s" % (k, v), (k, v)))
    for it in INTS:
        atoms.append(("typ:int", "int=" + it, ("int", it)))
    return atoms


def build_small(choice, base="pro"):
    """the specification that leaves the base clause by the given atoms (complements in the order given)"""
    spec = {"subj": json.loads(json.dumps(BASES[base])), "verb": verb_entry("manger"), "t": "p", "comps": [], "typ": {}}
    for dim, label, payload in choice:
        if dim == "tense":
            spec["t"] = payload
        elif dim == "subj":
            spec["subj"] = dict(payload)
        elif dim == "verb":
            spec["verb"] = verb_entry(payload)
        elif dim.startswith("comp:"):
            spec["comps"] = spec["comps"] + [json.loads(json.dumps(payload))]
        else:
            spec["typ"] = dict(spec["typ"], **{payload[0]: payload[1]})
    if spec["t"] == "ip":
        if any(d == "subj" for d, _, _ in choice) or spec["typ"].get("int"):
            return None
        spec["subj"] = None
        spec["vpe"], spec["vn"] = 2, "s"
    return spec if canonical(spec) else None


def small_specs(maxk=3, base="pro", need_tense=False):
    """[(labels, spec)] for every choice of at most `maxk` atoms of distinct dimensions; the complements in every order.
    base "pro": « il mange » ; base "np": « le chat mange » (labels start with "np")"""
    atoms = small_atoms()
    if base != "pro":
        atoms = [a for a in atoms if a[0] != "subj"]
    res = []
    seen = set()
    def combos():
        for k in range(0, maxk + 1):
            for combo in itertools.combinations(atoms, k):
                yield combo
        if base == "pro" and maxk == 3:
            # four atoms: reflexive × verb × any two other atoms (the person of the reflexive pronoun only shows with
            # a 1st/2nd person subject or an imperative, a verb that accepts « se », and a second verb in the clause)
            refl = [a for a in atoms if a[1] == "refl=True"]
            verbs = [a for a in atoms if a[0] == "verb"]
            others = [a for a in atoms if a[0] not in ("verb", "typ:refl")]
            for r in refl:
                for v in verbs:
                    for o in itertools.combinations(others, 2):
                        yield tuple(sorted((r, v) + o, key=atoms.index))
    if True:
        for combo in combos():
            dims = [c[0] for c in combo]
            if len(set(dims)) != len(dims):
                continue
            if need_tense and "tense" not in dims:
                continue
            comps = [c for c in combo if c[0].startswith("comp:")]
            rest = [c for c in combo if not c[0].startswith("comp:")]
            for perm in itertools.permutations(comps):
                choice = rest + list(perm)
                spec = build_small(choice, base)
                if spec is None:
                    continue
                if base != "pro" and spec["subj"] is None:
                    continue
                labels = (() if base == "pro" else (base,)) + tuple(sorted(c[1] for c in rest)) + tuple(c[1] for c in perm)
                key = core.canon(spec)
                if key in seen:
                    continue
                seen.add(key)
                res.append((labels, spec))
    return res


def _small_worker(chunk):
    out = []
    for labels, spec in chunk:
        k = c08_key(spec)
        if k is not None:
            a = realize(spec, "phrase", both=False)
            b = realize(spec, "dep", both=False)
            out.append((labels, spec, k, a["err"] or a["text"], b["err"] or b["text"]))
    return out


def spec_features(spec):
    """the features of a specification in the vocabulary of the small-scope atoms (for attribution of a disagreement
    to a root)"""
    f = set()
    tc = TENSE_CLASS[spec["t"]]
    f.add("T=" + tc)
    s = spec.get("subj")
    if s is None:
        f.add("S=none")
    elif s["k"] == "pro":
        f.add("S=pro")
        f.add("S.var=" + s.get("var", "je"))
        f.add("S.pe=%d%s" % (s["pe"], s["n"]))
        f.add("S.g=" + s["g"])
    else:
        f.add("S=np.pro" if s.get("pro") else "S=np")
        f.add("S.pe=3" + s["n"])
        f.add("S.g=" + s["g"])
    f.add("V=" + verb_class(spec["verb"]))
    ks = []
    for c in spec["comps"]:
        k, st = comp_kind(c), comp_style(c)
        lab = "%s.%s" % (k, st)
        ks.append(lab)
        f.add("C=" + lab)
        if c["k"] == "cl" and "c" in c:
            f.add("C.%s.pe=%s" % (k, "12" if c["pe"] in (1, 2) else "3"))
        elif c["k"] != "cl":
            f.add("C.%s.g=%s" % (k, c["arg"]["g"]))
            f.add("C.%s.n=%s" % (k, c["arg"]["n"]))
    for i in range(len(ks)):
        for j in range(i + 1, len(ks)):
            f.add("C.ord=%s<%s" % (ks[i], ks[j]))
    for k, v in (spec.get("typ") or {}).items():
        if k == "neg":
            f.add("Y=neg")
        elif k == "mod":
            f.add("Y=mod")
            f.add("Y=mod=" + {"poss": "pouvoir", "perm": "pouvoir", "nece": "devoir", "obli": "devoir", "will": "vouloir"}.get(v, str(v)))
        else:
            f.add("Y=%s" % k)
            f.add("Y=%s=%s" % (k, v))
    return f


GENERAL = {"dir.full.f": "dir.full", "dir.full.p": "dir.full", "dir.pro.f": "dir.pro", "dir.pro.p": "dir.pro",
           "dir.cl3": "dir.cl1", "a.cl3": "a.cl1", "np.f": "np", "np.p": "np", "pro3f": None, "pro3p": None, "moi3s": None,
           "pro2s": None, "moi1s": "pro1s", "neg=plus": "neg=True"}
FAMILY = {"int=woi": "int=IND", "int=wai": "int=IND", "int=whe": "int=IND", "int=whn": "int=IND",
          "int=wod": "int=OBJ", "int=wad": "int=OBJ", "int=wos": "int=SUBJ", "int=was": "int=SUBJ",
          "a.full": "pp.full", "de.full": "pp.full", "loc.full": "pp.full", "oth.full": "pp.full", "oth.chez": "pp.full",
          "a.pro": "pp.clitic", "a.cl1": "pp.clitic", "a.cl3": "pp.clitic", "de.pro": "pp.clitic", "de.cl": "pp.clitic",
          "loc.pro": "pp.clitic", "loc.cl": "pp.clitic",
          "dir.full": "dir", "dir.pro": "dir", "dir.cl1": "dir", "dir.cl3": "dir", "dir.full.f": "dir.agr", "dir.full.p": "dir.agr",
          "dir.pro.f": "dir.pro.agr", "dir.pro.p": "dir.pro.agr", "pc": "compound", "bp": "compound",
          "pro1s": "pro12", "pro2s": "pro12", "moi1s": "pro12", "pro3p": "subj.agr", "np.p": "np.agr", "pro3f": "subj.agr",
          "np.f": "np.agr"}


def family_signature(labels, klass):
    """the signature of a root: its atoms abstracted to their family + the class of the first difference"""
    iscomp = lambda l: l.split(".")[0] in ("dir", "a", "de", "loc", "oth")   # oth.chez: a locative preposition outside sur/vers/dans
    fam = sorted(FAMILY.get(l, l) for l in labels if not iscomp(l)) + [FAMILY.get(l, l) for l in labels if iscomp(l)]
    klass = re.sub(r"^(form|lemma|link):.*$", r"\1", klass)
    klass = re.sub(r"Pro\.(dat|acc|y|en)", "Pro.clitic", klass)
    klass = re.sub(r"V\.(main|modal|être|avoir)\.\w+", r"V.\1", klass)
    return "fr|phrase≠dep|root|%s|%s" % ("+".join(fam), klass)


BASE_FEATURES = None


def root_requirements(spec):
    """what a larger specification must share with a root to be explained by it: every feature of the root that
    the base clause does not have, plus the kind of subject"""
    global BASE_FEATURES
    if BASE_FEATURES is None:
        BASE_FEATURES = spec_features({"subj": dict(BASE_SUBJ), "verb": verb_entry("manger"), "t": "p", "comps": [], "typ": {}})
    f = spec_features(spec)
    req = set(x for x in f if x not in BASE_FEATURES)
    req |= set(x for x in f if x.startswith("S=") or x.startswith("C=") or x.startswith("C.ord="))
    # person/number/gender details only matter when they differ from the base
    return req


def c08_roots(ctx, maxk=3):
    """exhaustive small-scope exploration on the real library: {signature: (spec, class, phrase text, dep text)} of
    the MINIMAL disagreeing specifications (no disagreeing specification with fewer of the same atoms)"""
    import multiprocessing
    # agreement variants of the subject (feminine / plural) are explored with every atom in the thorough tier, with
    # the participle-bearing and non-finite tenses only in the quick tier
    specs = [x for b in BASES for x in small_specs(maxk, b, need_tense=(ctx.tier != "thorough" and b not in ("pro", "np")))]
    ctx.notes["c08fr_small_scope_specs"] = len(specs)
    chunk = max(50, len(specs) // 64)
    jobs = [specs[i:i + chunk] for i in range(0, len(specs), chunk)]
    mpctx = multiprocessing.get_context("fork")
    pool = mpctx.Pool(16)
    try:
        found = [x for r in pool.imap_unordered(_small_worker, jobs) for x in r]
    finally:
        pool.close()
        pool.join()
    ctx.cov["evaluations"] += 2 * len(specs)
    bad = {frozenset(l): (l, sp, k, a, b) for (l, sp, k, a, b) in found}
    bad_seq = {}
    for (l, sp, k, a, b) in found:
        bad_seq.setdefault(frozenset(l), []).append(l)
    roots = {}
    for fs, (l, sp, k, a, b) in sorted(bad.items(), key=lambda x: (len(x[0]), sorted(x[0]))):
        minimal = True
        for r in range(len(l)):
            for sub in itertools.combinations(l, r):
                if [x for x in l if x in BASES] != [x for x in sub if x in BASES]:
                    continue        # minimality inside the family of the same base clause
                if frozenset(sub) in bad:
                    minimal = False
                    break
            if not minimal:
                break
        if minimal:
            # a gender / number / person variant of a disagreeing clause is not a root of its own
            for i, lab in enumerate(l):
                g = GENERAL.get(lab, lab)
                if lab in BASES:
                    gen_base = {"pro3f": None, "pro3p": None, "np.f": "np", "np.p": "np"}.get(lab, lab)
                    if gen_base != lab:
                        alt = [x for j, x in enumerate(l) if j != i] + ([gen_base] if gen_base else [])
                        if frozenset(alt) in bad:
                            minimal = False
                            break
                    continue
                if g != lab and not (g is None and any(x in BASES for x in l)):
                    alt = [x for j, x in enumerate(l) if j != i] + ([g] if g else [])
                    if frozenset(alt) in bad:
                        minimal = False
                        break
        if minimal:
            for (l2, sp2, k2, a2, b2) in [x for x in found if frozenset(x[0]) == fs]:
                roots["+".join(l2) if l2 else "base"] = (sp2, k2, a2, b2, family_signature(l2, k2))
    ctx.notes["c08fr_small_scope_disagreeing"] = len(found)
    return roots


# ---- `maje` (typ({"maje": True})): possessive determiners mon/ton/notre… become notre/votre; je / tu subjects

def maje_specs():
    """every clause of the stratum: subject je / tu / nous / il or a noun phrase with a possessive determiner x a direct
    object with a possessive determiner (mon/ton/son/notre/votre x person), alone, pronominalized or followed by a
    prepositional complement with a possessive determiner x maje alone / with one other flag x tense p / pc / ip"""
    def poss(i, lemma, pe, pro=False):
        return dict(_np(i, pro=pro), det={"lemma": lemma, "pe": pe})
    dets = [("mon", 1), ("mon", 2), ("mon", 3), ("notre", 1), ("notre", 2), ("ton", None), ("votre", None)]
    subs = [dict(BASE_SUBJ, pe=1), dict(BASE_SUBJ, pe=2), dict(BASE_SUBJ, pe=1, n="p"), dict(BASE_SUBJ, var="moi", pe=2),
            dict(BASE_SUBJ), poss(0, "mon", 1), poss(0, "mon", 2)]
    typs = [{}, {"neg": True}, {"pas": True}, {"prog": True}, {"mod": "poss"}, {"refl": True}, {"int": "yon"},
            {"int": "wos"}, {"int": "wod"}, {"int": "woi"}, {"int": "tag"}, {"neg": "plus", "int": "why"}]
    out = []
    seen = set()
    for sub in subs:
        for (dl, dp) in dets:
            arrangements = [[{"k": "dir", "arg": poss(1, dl, dp)}],
                            [{"k": "dir", "arg": poss(1, dl, dp, pro=True)}],
                            [{"k": "dir", "arg": poss(1, dl, dp)}, {"k": "pp", "prep": "à", "arg": poss(2, "mon", 2)}],
                            [{"k": "pp", "prep": "avec", "arg": poss(2, dl, dp)}, {"k": "dir", "arg": poss(1, "mon", 1)}]]
            for comps in arrangements:
                for ty in typs:
                    for t in ("p", "pc", "ip"):
                        for maje in (True, False):
                            spec = {"subj": json.loads(json.dumps(sub)), "verb": verb_entry("donner"), "t": t,
                                    "comps": json.loads(json.dumps(comps)), "typ": dict(ty, maje=maje) if maje else dict(ty)}
                            if t == "ip":
                                if sub["k"] != "pro" or sub["pe"] == 3 or ty.get("int"):
                                    continue
                                spec["vpe"], spec["vn"] = sub["pe"], sub["n"]
                                spec["subj"] = None
                            if not canonical(spec):
                                continue
                            key = core.canon(spec)
                            if key not in seen:
                                seen.add(key)
                                out.append((("maje",), spec))
    return out


def _maje_unexplained(spec):
    """the notations disagree on a clause of the stratum, and not in the class in which they already disagree without
    `maje` (the noun phrases are collapsed in the token lists: a possessive determiner that differs gives the class
    `noun-phrase-text`, which no clause without `maje` shows)"""
    k1 = c08_key(spec)
    if k1 is None:
        return False
    tw = dict(spec, typ={k: v for k, v in (spec.get("typ") or {}).items() if k != "maje"})
    return k1 != c08_key(tw)


def maje_sweep(ctx, reqs=()):
    """both notations on every clause of the `maje` stratum (real library only: the possessive determiners are outside
    the clause model, which collapses noun phrases).  A disagreeing clause that contains a root of the small-scope
    exploration (passive with a pronoun agent, wos…) is attributed to it; one that disagrees in the same way without
    `maje` is none of this stratum's; any other is shrunk and reported"""
    import multiprocessing
    specs = maje_specs()
    chunk = max(50, len(specs) // 32)
    jobs = [specs[i:i + chunk] for i in range(0, len(specs), chunk)]
    pool = multiprocessing.get_context("fork").Pool(16)
    try:
        found = [x for r in pool.imap_unordered(_small_worker, jobs) for x in r]
    finally:
        pool.close()
        pool.join()
    ctx.cov["evaluations"] += 2 * len(specs)
    ctx.notes["c08fr_maje_specs"] = len(specs)
    ctx.notes["c08fr_maje_disagreeing"] = len(found)
    rest = []
    for x in found:
        f = spec_features(x[1])
        if not any(req <= f for _sig, req in reqs):
            rest.append(x)
    ctx.notes["c08fr_maje_not_attributed_to_a_root"] = len(rest)
    done = set()
    for (l, sp, k, a, b) in sorted(rest, key=lambda x: (len(core.canon(x[1])), core.canon(x[1]))):
        if len(done) >= 40 or not _maje_unexplained(sp):
            continue
        small = shrink(sp, _maje_unexplained)
        sig = "fr|phrase≠dep|maje-stratum|" + abstract(small)
        if sig in done:
            continue
        done.add(sig)
        texts = {n: (realize(small, n, both=False).get("err") or realize(small, n, both=False).get("text")) for n in ("phrase", "dep")}
        ctx.fail(sig, {"op": "clause", "spec": small}, {"violates": "notations_agree_fr", "class": k, "stratum": "maje", "got": texts})


# --------------------------------------------------------------------------------------------- the sweep

def _is_trivial(spec):
    return (not spec.get("typ") and spec["t"] not in TENSES_COMPOUND
            and all(c["k"] != "cl" and not c["arg"].get("pro") for c in spec["comps"]))


def _worker(args):
    import hashlib
    specs, driver, want = args
    items = []
    for sp in specs:
        items.append((sp, "phrase"))
        items.append((sp, "dep"))
    model = run_model(items, driver)
    res = {"n": 0, "digests": set(), "diffs": [], "c05": {}, "c08": {}, "dist": {}, "samples": [], "nontrivial": 0,
           "errs": {}, "elision_changed_tokens": 0}

    def bump(k):
        res["dist"][k] = res["dist"].get(k, 0) + 1
    for i, sp in enumerate(specs):
        answers = {}
        for j, nota in enumerate(("phrase", "dep")):
            a = realize(sp, nota)
            answers[nota] = a
            m = model[2 * i + j]
            ia = impl_answer(a)
            res["n"] += 1
            if core.canon(m) != core.canon(ia):
                if len(res["diffs"]) < 10:
                    res["diffs"].append({"line": {"op": "clause", "spec": sp, "nota": nota}, "model": m, "impl": ia})
                else:
                    res["dist"]["diffs_truncated"] = res["dist"].get("diffs_truncated", 0) + 1
            if a["err"]:
                res["errs"][a["err"]] = res["errs"].get(a["err"], 0) + 1
            elif [(t[0], t[1]) for t in a["toks"]] != [(t[0], t[1]) for t in a["etoks"]]:
                res["elision_changed_tokens"] += 1
            if not _is_trivial(sp):
                res["digests"].add(hashlib.md5(core.canon([abstract(sp), nota, ia]).encode()).digest()[:8])
            if len(res["samples"]) < 1:
                res["samples"].append({"line": {"op": "clause", "spec": sp, "nota": nota}, "answer": dict(ia, text=a["text"])})
        typ = sp.get("typ") or {}
        bump("tense:" + sp["t"])
        bump("ncomps:%d" % len(sp["comps"]))
        bump("npro:%d" % len([c for c in sp["comps"] if comp_style(c) != "full"]))
        for k in typ:
            bump("typ:" + k)
        bump("subj:" + ("none" if sp["subj"] is None else sp["subj"]["k"]))
        if "c05" in want:
            res["dist"]["cross_language_realizations"] = res["dist"].get("cross_language_realizations", 0) + 2 * len(CROSS_MODES)
            h0 = _state.get("histories", 0)
            keys = c05_keys(sp, answers, cross=True)
            res["dist"]["histories_compared"] = res["dist"].get("histories_compared", 0) + _state.get("histories", 0) - h0
            for (cl, det, notas) in keys:
                extra = ""
                if cl == "clitic_order" and ">" in det:
                    extra = ":input-" + ("canonical" if input_order_canonical(sp) else "shuffled")
                e = res["c05"].setdefault((cl, det + extra, notas), [0, []])
                e[0] += 1
                e[1].append(sp)
                e[1].sort(key=lambda x: len(core.canon(x)))
                del e[1][3:]
        if "c08" in want:
            k = c08_key(sp, answers)
            if k is not None:
                e = res["c08"].setdefault(k, [0, []])
                e[0] += 1
                e[1].append(sp)
                e[1].sort(key=lambda x: len(core.canon(x)))
                del e[1][4:]
    return res


def input_order_canonical(spec):
    """are the cliticizable complements given in the canonical order dir < à < loc < de ?"""
    order = {"dir": 2, "a": 3, "loc": 4, "de": 5}
    ranks = []
    for c in spec["comps"]:
        if comp_style(c) == "full":
            continue
        k = comp_kind(c)
        if k == "oth":
            continue
        r = order[k]
        if c["k"] == "cl" and c.get("pe") in (1, 2):
            r = 1
        ranks.append(r)
    return ranks == sorted(ranks)


def sweep(ctx, specs, want=("c05",), driver="drv_clausefr"):
    """model vs real library on every specification in both notations (multiprocessing), direct oracles;
    returns the merged failure tables {key: [count, smallest specs]}"""
    import multiprocessing
    nproc = min(16, max(1, (len(specs) + 199) // 200))
    chunk = max(50, min(4000, (len(specs) + nproc * 4 - 1) // (nproc * 4)))
    jobs = [(specs[i:i + chunk], driver, tuple(want)) for i in range(0, len(specs), chunk)]
    merged = {"c05": {}, "c08": {}, "dist": {}, "errs": {}, "elision_changed_tokens": 0}
    if nproc == 1:
        results = map(_worker, jobs)
    else:
        mpctx = multiprocessing.get_context("fork")
        pool = mpctx.Pool(nproc)
        results = pool.imap_unordered(_worker, jobs)
    try:
        for r in results:
            ctx.cov["evaluations"] += r["n"]
            ctx.cov["traces_validated_against_impl"] += r["n"]
            ctx.distinct |= r["digests"]
            for d in r["diffs"]:
                ctx.diff(d["line"], d["model"], d["impl"])
            for s in r["samples"]:
                if len(ctx.cov["samples"]) < 6:
                    ctx.cov["samples"].append(s)
            for k, v in r["dist"].items():
                merged["dist"][k] = merged["dist"].get(k, 0) + v
            for k, v in r["errs"].items():
                merged["errs"][k] = merged["errs"].get(k, 0) + v
            merged["elision_changed_tokens"] += r["elision_changed_tokens"]
            for tab in ("c05", "c08"):
                for k, (cnt, reps) in r[tab].items():
                    e = merged[tab].setdefault(k, [0, []])
                    e[0] += cnt
                    e[1].extend(reps)
                    e[1].sort(key=lambda x: len(core.canon(x)))
                    del e[1][3:]
    finally:
        if nproc > 1:
            pool.close()
            pool.join()
    return merged


def report_c05(ctx, merged):
    """one shrunk failing input per (clause, detail, notations) class -> ctx.fail(signature, …)"""
    table = {}
    for (cl, det, nota), (cnt, reps) in sorted(merged["c05"].items()):
        base = det.split(":input-")[0]
        for sp in reps[:2]:
            sig, small, notas = c05_signature(sp, cl, base, nota)
            if ":input-canonical" in det:
                sig += "|input-order=canonical"
            texts = {n: realize(small, n, both=False).get("text") for n in notas.split("+")}
            if cl == "cross_language":
                texts = {"french-current": texts, "english-current": {n: realize_cross(small, n, base) for n in notas.split("+")}}
            if cl == "history":
                texts = {"single-shot": texts, "after-realizing-the-flag-less-clause": {n: realize_history(small, n, base) for n in notas.split("+")}}
            ctx.fail(sig, {"op": "clause", "spec": small, "notas": notas, "clause": cl, "detail": base},
                     {"violates": cl, "detail": base, "got": texts, "failing_inputs_in_run": cnt})
            table[sig] = table.get(sig, 0) + cnt
    ctx.notes["c05_failure_classes"] = {"%s:%s:%s" % k: v[0] for k, v in sorted(merged["c05"].items())}
    return table


def c08_fr(ctx, specs=None, merged=None, prepare=False):
    """French half of C08.  (1) exhaustive small-scope exploration on the real library (every clause within three
    features of « il mange », both notations): each MINIMAL disagreeing clause is a root, reported under its own
    signature; (2) correspondence model vs real library + the direct oracle `phrase text == dependency text` on the
    seeded sweep: a disagreeing clause that contains a root is attributed to it, any other is shrunk and reported.
    `prepare`: regenerate Gen/ClauseFrConsts, build Props/C08Fr + drv_clausefr and audit the axioms of the French
    theorems (for a caller whose META names another driver / Props module)."""
    if prepare:
        from harness import translate
        try:
            translate.run_all(only=["clausefr"])
        except translate.TranslateError as e:
            ctx.proof_failures.append({"theorem": "translator:clausefr", "msg": str(e)[:500]})
        ok, _log, fails = core.lake_build(["Pyrealb.Props.C08Fr", "drv_clausefr"])
        if not ok:
            ctx.proof_failures.extend(fails)
            ok2, _l2, _f2 = core.lake_build(["drv_clausefr"])
            if not ok2:
                ctx.proof_failures.append({"theorem": "driver", "msg": "drv_clausefr could not be built"})
                return None
        else:
            axioms, bad = core.audit_axioms("C08Fr")
            ctx.theorems.update(axioms)
            for b in bad:
                ctx.proof_failures.append({"theorem": b, "msg": "axiom audit"})
    roots = c08_roots(ctx)
    reqs = []
    fams = {}
    for name, (sp, k, a, b, sig) in sorted(roots.items()):
        fams.setdefault(sig, []).append(name)
        reqs.append((sig, root_requirements(sp)))
    for name, (sp, k, a, b, sig) in sorted(roots.items(), key=lambda x: (len(core.canon(x[1][0])), x[0])):
        if fams[sig] and fams[sig][0] is not None:
            ctx.fail(sig, {"op": "clause", "spec": sp}, {"violates": "notations_agree_fr", "class": k, "got": {"phrase": a, "dep": b},
                                                         "roots_of_this_family": sorted(fams[sig])})
            fams[sig] = [None]
    ctx.notes["c08fr_roots"] = len(roots)
    maje_sweep(ctx, reqs)
    if merged is None:
        if specs is None:
            specs = gen_specs(ctx.rng, ctx.tier)
        merged = sweep(ctx, specs, want=("c08",))
    attributed = {}
    unexplained = 0
    for key, (cnt, reps) in sorted(merged["c08"].items()):
        for sp in reps:
            f = spec_features(sp)
            hit = [sig for sig, req in reqs if req <= f]
            if hit:
                attributed[hit[0]] = attributed.get(hit[0], 0) + 1
                continue
            unexplained += 1
            sig, small = c08_signature(sp)
            f2 = spec_features(small)
            hit = [s2 for s2, req in reqs if req <= f2]
            if hit:
                attributed[hit[0]] = attributed.get(hit[0], 0) + 1
                continue
            texts = {n: (realize(small, n, both=False).get("err") or realize(small, n, both=False).get("text")) for n in ("phrase", "dep")}
            ctx.fail(sig, {"op": "clause", "spec": small}, {"violates": "notations_agree_fr", "class": key, "got": texts,
                                                            "failing_inputs_in_run": cnt})
    ctx.notes["c08fr_disagreement_classes"] = {k: v[0] for k, v in sorted(merged["c08"].items())}
    ctx.notes["c08fr_attributed_representatives"] = attributed
    ctx.notes["c08fr_representatives_without_root"] = unexplained
    ctx.notes["c08fr_distribution"] = merged["dist"]
    return merged
