"""French clause specifications (family `clausefr`, properties C05 and the French half of C08).

* a clause SPECIFICATION (DESIGN §4, fragment G restricted to what C05 speaks about) is a plain dict
      {"subj": Arg|None, "verb": {"lemma","tab","aux","pat","h"}, "t": tense, "vpe": pe|None, "vn": n|None,
       "comps": [Comp...], "typ": {...}}
  Arg  ::= {"k":"pro","var":"je"|"moi","pe":1..3,"n":"s"|"p","g":"m"|"f"}         subject pronoun
         | {"k":"np","id":i,"noun":lemma,"g":"m"|"f","n":"s"|"p","pro":bool}       det + noun
  Comp ::= {"k":"dir","arg":np}                                                      direct object
         | {"k":"pp","prep":p,"arg":np(with "pro" = the PP is pronominalized)}       prepositional complement
         | {"k":"cl","c":"acc"|"dat"|"refl","pe","n","g"}                           clitic given as Pro("moi").c(..)
         | {"k":"cl","lemma":"y"|"en"}                                               adverbial clitic given as Pro(..)
* `render_phrase` / `render_dep`: the framework's OWN trivial mapping of a specification into the two notations
  (never the library's toDependent / toConstituent).
* `realize(spec, nota)`: runs the real pyrealb and returns the canonical answer that the model driver also
  produces: {"toks":[[kind,lemma,form,link],…],"err":null|name}; the terminals that come from one noun phrase of
  the specification are collapsed into one symbolic token ["NP", id, "", link].
* `oracle_c05(spec, nota, ans)`: the property text evaluated on the implementation's tokens (independent of
  the model); `c08_fr(ctx)`: notation agreement correspondence + oracle (French half of C08).
"""
import io
import itertools
import json
import os
import re
import sys

from harness import core

TENSES_SIMPLE = ["p", "i", "f", "ps", "c", "s", "si", "ip", "b", "pr", "pp"]
TENSES_COMPOUND = ["pc", "pq", "cp", "pa", "fa", "spa", "spq", "bp"]
TENSES = TENSES_SIMPLE + TENSES_COMPOUND
FINITE = ["p", "i", "f", "ps", "c", "s", "si", "pc", "pq", "cp", "pa", "fa", "spa", "spq"]
INTS = ["yon", "wos", "wod", "woi", "was", "wad", "wai", "whe", "why", "whn", "how", "muc", "tag"]  # + False = 14 values
MODS = ["poss", "perm", "nece", "obli", "will"]
PANEL = ["être", "avoir", "aller", "pouvoir", "devoir", "vouloir", "manger", "finir", "prendre", "enfuir",
         "tomber", "pleuvoir", "aimer", "haïr", "habiter"]
PREPS = ["à", "de", "sur", "vers", "dans", "avec", "pour", "par"]
# (noun, gender): nouns whose lexicon gender is "x" receive an explicit .g(..)
NOUNS = [("chat", "m"), ("chat", "f"), ("pomme", "f"), ("enfant", "m"), ("enfant", "f"), ("hache", "f"), ("homme", "m"),
         ("maison", "f"), ("livre", "m"), ("ami", "f"), ("eau", "f"), ("arbre", "m"), ("héros", "m"), ("idée", "f")]

_state = {}


def data():
    """lexicon / rules of the repository under test (read as JSON, not through the library)"""
    if "lex" not in _state:
        d = os.path.join(core.REPO, "src", "pyrealb", "data")
        _state["lex"] = json.load(open(os.path.join(d, "lexicon-fr.json"), encoding="utf-8"))
        _state["rules"] = json.load(open(os.path.join(d, "rules-fr.json"), encoding="utf-8"))
    return _state["lex"], _state["rules"]


def verb_entry(lemma):
    lex, rules = data()
    e = lex[lemma]["V"]
    ent = {"lemma": lemma, "tab": e.get("tab"), "aux": e.get("aux", "av"), "pat": e.get("pat")}
    return ent


def negs():
    return [True] + list(data()[1]["verb_option"]["neg"]["autres"])


# --------------------------------------------------------------------------------------------- rendering

def _mk_np(P, a, roles):
    """NP(D("le"),N(noun)) ; the terminals are tagged with the id of the argument they come from"""
    d = P.D("le")
    n = P.N(a["noun"])
    if data()[0][a["noun"]]["N"].get("g") == "x":
        n.g(a["g"])
    if a.get("n") == "p":
        n.n("p")
    d._arg = n._arg = a["id"]
    return d, n


def _mk_subj_pro(P, a):
    if a.get("var", "je") == "je":
        return P.Pro("je").pe(a["pe"]).n(a["n"]).g(a["g"])
    return P.Pro("moi").c("nom").pe(a["pe"]).n(a["n"]).g(a["g"])


def _mk_clitic(P, c):
    if "lemma" in c:
        return P.Pro(c["lemma"])
    return P.Pro("moi").c(c["c"]).pe(c["pe"]).n(c["n"]).g(c["g"])


def _mk_verb(P, spec):
    v = P.V(spec["verb"]["lemma"]).t(spec["t"])
    if spec.get("vpe") is not None:
        v.pe(spec["vpe"])
    if spec.get("vn") is not None:
        v.n(spec["vn"])
    return v


def render_phrase(P, spec):
    """S(subj, VP(V, comps…)).typ(typ)"""
    kids = []
    for c in spec["comps"]:
        if c["k"] == "dir":
            d, n = _mk_np(P, c["arg"], None)
            np = P.NP(d, n)
            if c["arg"].get("pro"):
                np.pro()
            kids.append(np)
        elif c["k"] == "pp":
            d, n = _mk_np(P, c["arg"], None)
            pp = P.PP(P.P(c["prep"]), P.NP(d, n))
            if c["arg"].get("pro"):
                pp.pro()
            kids.append(pp)
        else:
            kids.append(_mk_clitic(P, c))
    vp = P.VP(_mk_verb(P, spec), *kids)
    sub = spec.get("subj")
    if sub is None:
        s = P.S(vp)
    elif sub["k"] == "pro":
        s = P.S(_mk_subj_pro(P, sub), vp)
    else:
        d, n = _mk_np(P, sub, None)
        np = P.NP(d, n)
        if sub.get("pro"):
            np.pro()
        s = P.S(np, vp)
    if spec.get("typ"):
        s.typ(dict(spec["typ"]))
    return s


def render_dep(P, spec):
    """root(V, subj(..), comp(..)…).typ(typ)"""
    deps = []
    sub = spec.get("subj")
    if sub is not None:
        if sub["k"] == "pro":
            deps.append(P.subj(_mk_subj_pro(P, sub)))
        else:
            d, n = _mk_np(P, sub, None)
            sd = P.subj(n, P.det(d))
            if sub.get("pro"):
                sd.pro()
            deps.append(sd)
    for c in spec["comps"]:
        if c["k"] == "dir":
            d, n = _mk_np(P, c["arg"], None)
            cd = P.comp(n, P.det(d))
            if c["arg"].get("pro"):
                cd.pro()
            deps.append(cd)
        elif c["k"] == "pp":
            d, n = _mk_np(P, c["arg"], None)
            cd = P.comp(P.P(c["prep"]), P.comp(n, P.det(d)))
            if c["arg"].get("pro"):
                cd.pro()
            deps.append(cd)
        else:
            deps.append(P.comp(_mk_clitic(P, c)))
    r = P.root(_mk_verb(P, spec), *deps)
    if spec.get("typ"):
        r.typ(dict(spec["typ"]))
    return r


# --------------------------------------------------------------------------------------------- adapter

class _Null(io.TextIOBase):
    def __init__(self):
        self.n = 0

    def write(self, x):
        if x.strip():
            self.n += 1
        return len(x)


def pyrealb():
    if "P" not in _state:
        core.ensure_repo_on_path()
        import pyrealb as P
        _state["P"] = P
    return _state["P"]


def _strip_end(r):
    """realization without the punctuation / spaces that doFormat attached to the last token of the clause"""
    return re.sub(r"(, n'est-ce pas)?[?!. ]*$", "", r) if not r.startswith("[[") else re.sub(r"(?<=\]\])(, n'est-ce pas)?[?!. ]*$", "", r)


def canon_tokens(terms, text):
    """terminal list of the real library + detokenized text -> canonical tokens [kind, lemma, form, link];
    link is what detokenize wrote between a `lier` token and its successor ('-' or '-t-'), read back from the text"""
    toks = []
    end = ""
    pos = 0
    low = text.lower()
    live = [t for t in terms if t.realization not in (None, "")]
    for i, t in enumerate(live):
        r = t.realization
        rr = r[1:] if r.startswith(" ") else r
        j = low.find(rr.lower(), pos)
        link = ""
        if j >= 0:
            pos = j + len(rr)
            if i < len(live) - 1 and t.getProp("lier"):
                if text.startswith("-t-", pos):
                    link = "-t-"
                elif text.startswith("-", pos):
                    link = "-"
        else:
            link = "?"
        form = r
        if i == len(live) - 1:
            form = _strip_end(r)
            end = r[len(form):]
        arg = getattr(t, "_arg", None)
        if arg is not None and t.isA("D", "N"):
            if toks and toks[-1][0] == "NP" and toks[-1][1] == str(arg):
                toks[-1][3] = link
                continue
            toks.append(["NP", str(arg), "", link])
            continue
        lemma = t.lemma if isinstance(t.lemma, str) else str(t.lemma)
        toks.append([t.constType, lemma, form, link])
    return toks, end


def _run(P, spec, nota):
    expr = render_phrase(P, spec) if nota == "phrase" else render_dep(P, spec)
    terms = expr.real()
    text = expr.detokenize(terms)
    return terms, text


def realize(spec, nota, both=True):
    """answer of the real library: `toks` = token list with elision/contraction switched off (what the clause model
    produces; elision is property C06's), `etoks`/`text` = the unmodified realization (what the oracles look at)"""
    P = pyrealb()
    P.loadFr()
    from pyrealb.ConstituentFr import ConstituentFr
    old = sys.stderr
    w = _Null()
    sys.stderr = w
    res = {"err": None, "toks": [], "end": "", "text": "", "etoks": [], "eend": ""}
    try:
        try:
            terms, text = _run(P, spec, nota)
            res["etoks"], res["eend"] = canon_tokens(terms, text)
            res["text"] = text
            res["w"] = w.n
        except Exception as e:  # noqa: an exception is an output
            res["err"] = type(e).__name__
            return res
        if both:
            orig = ConstituentFr.doElision
            ConstituentFr.doElision = lambda self, cList: None
            try:
                terms, text = _run(P, spec, nota)
                res["toks"], res["end"] = canon_tokens(terms, text)
            except Exception as e:  # noqa
                res["err"] = "noelision:" + type(e).__name__
            finally:
                ConstituentFr.doElision = orig
    finally:
        sys.stderr = old
    return res
