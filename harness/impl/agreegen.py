"""C03 — generator of agreement structures and the METAMORPHIC DIRECT ORACLE on the real pyrealb.

A job = a construction history (ops of harness/impl/snapshot.World) + the handle to realize + the agreement RELATIONS
the generator knows from the grammar of the structure it built (never from pyrealb's links):
    {"dep": handle, "ctrl": handle, "kind": …, "feats": […], "tags": […]}
Oracle (the property itself): the form(s) the dependent terminal produced INSIDE the tree (captured at the return of
Terminal.real, before elision/formatting of the enclosing phrase) equal the form(s) of the same terminal built ALONE
(same class, lemma, own non-agreement options) with the controller's person/number/gender set explicitly on it —
explicit features given to the word itself win.

Lexical choices are drawn from the WHOLE lexicons, stratified (nouns: gender m/f/x/none × regular / invariable /
always-plural; adjectives: position × table; verbs: auxiliary; every determiner).
"""
import contextlib
import io
import itertools

PENG = ("pe", "n", "g")
COPULAS_FR = ["être", "paraître", "sembler", "devenir", "rester"]
COMPOUND_AUX_TENSE = {"pc": "p", "pq": "i", "fa": "f", "cp": "c", "spa": "s"}

_STRATA = {}


def _invariable_tables(rules):
    res = set()
    for tab, d in rules["declension"].items():
        vals = {x.get("val") for x in d["declension"]}
        if len(vals) == 1:
            res.add(tab)
    return res


def strata(lang):
    """lexical strata of the whole lexicon of `lang` (deterministic order)"""
    if lang in _STRATA:
        return _STRATA[lang]
    import pyrealb
    from pyrealb.Lexicon import getLexicon, getRules
    (pyrealb.loadEn if lang == "en" else pyrealb.loadFr)()
    lex, rules = getLexicon(lang), getRules(lang)
    inv = _invariable_tables(rules)
    with contextlib.redirect_stderr(io.StringIO()):
        always_pl = set(pyrealb.Q("x", lang).noun_always_plural())
    S = {"N": {}, "A": {}, "V": {}, "D": [], "Adv": [], "P": [], "Ncount": set()}
    for w, e in lex.items():
        if not isinstance(e, dict) or not isinstance(w, str) or not w.isalpha():
            continue
        for pos, v in e.items():
            if not isinstance(v, dict) or "tab" not in v:
                continue
            tab = v["tab"]
            if pos == "N":
                if tab not in rules["declension"]:
                    continue
                cls = "pl" if tab in always_pl else "inv" if tab in inv else "reg"
                S["N"].setdefault((v.get("g", "-"), cls), []).append(w)
                if v.get("cnt") in ("yes", "both"):
                    S["Ncount"].add(w)
            elif pos == "A":
                if tab not in rules["declension"] or w == "quelques":
                    continue
                S["A"].setdefault((v.get("pos", "-"), "inv" if tab in inv else "reg"), []).append(w)
            elif pos == "V":
                if tab not in rules["conjugation"]:
                    continue
                pat = v.get("pat")
                if lang == "fr" and (pat == ["réfl"] or w.startswith("s'")):
                    continue
                S["V"].setdefault(v.get("aux", "-"), []).append(w)
            elif pos == "D":
                if "value" in e or tab not in rules["declension"]:
                    continue
                S["D"].append(w)
            elif pos == "Adv":
                S["Adv"].append(w)
            elif pos == "P":
                S["P"].append(w)
    _STRATA[lang] = S
    return S


def lex_class(lang, k, lem):
    """class of a lexical item for signatures"""
    S = strata(lang)
    if k == "N":
        for (g, cls), ws in S["N"].items():
            if lem in ws:
                return "N:%s/%s" % (g, cls)
        return "N:?"
    if k == "V":
        if lang == "fr" and lem in COPULAS_FR:
            return "V:" + lem
        for aux, ws in S["V"].items():
            if lem in ws:
                return "V:" + aux
        return "V:?"
    if k in ("D", "Pro", "C", "NO"):
        return "%s:%s" % (k, lem)
    return k


# ------------------------------------------------------------------------------------------------- generation

class Gen:
    """builds one tree (dict nodes) with its relations; `ids` are turned into handles by `Builder`"""

    def __init__(self, rng, lang):
        self.rng, self.lang = rng, lang
        self.S = strata(lang)
        self.n = 0
        self.rels = []
        self.tags = set()
        self.modelable = True      # False when an option outside the store model's `opt` is used (c, tn, pro, typ)

    # --- nodes
    def _id(self):
        self.n += 1
        return self.n - 1

    def T(self, k, lem, opts=(), late=()):
        return {"id": self._id(), "k": k, "lem": lem, "opts": [list(o) for o in opts], "late": [list(o) for o in late]}

    def P(self, k, kids, opts=(), late=()):
        return {"id": self._id(), "k": k, "kids": list(kids), "opts": [list(o) for o in opts],
                "late": [list(o) for o in late]}

    def Dp(self, k, term, kids=(), opts=(), late=()):
        return {"id": self._id(), "k": k, "term": term, "kids": list(kids), "opts": [list(o) for o in opts],
                "late": [list(o) for o in late]}

    def rel(self, dep, ctrl, kind, feats=PENG, tags=(), **kw):
        r = {"dep": dep["id"], "ctrl": ctrl["id"], "kind": kind, "feats": list(feats), "tags": sorted(tags)}
        r.update(kw)
        self.rels.append(r)

    # --- words
    def noun(self, want=None):
        rng = self.rng
        keys = sorted(self.S["N"])
        if want:
            keys = [k for k in keys if want(k)] or keys
        key = rng.choice(keys)
        return rng.choice(self.S["N"][key]), key

    def adj(self):
        key = self.rng.choice(sorted(self.S["A"]))
        return self.rng.choice(self.S["A"][key])

    def verb(self, aux=None, copula=False):
        if copula and self.lang == "fr":
            return self.rng.choice(COPULAS_FR)
        if copula:
            return "be"
        keys = sorted(self.S["V"])
        if aux:
            keys = [k for k in keys if k in aux] or keys
        return self.rng.choice(self.S["V"][self.rng.choice(keys)])

    def det(self, noun):
        rng = self.rng
        if self.lang == "fr":
            pool = ["le", "un", "ce", "mon", "ton", "son", "notre", "votre", "leur", "quel", "tout", "aucun", "quelque"]
            d = rng.choice(pool) if rng.random() < 0.75 else rng.choice(self.S["D"])
        else:
            pool = ["the", "this", "that", "my", "your", "his", "her", "its", "our", "their", "no", "a", "every", "some"]
            d = rng.choice(pool) if rng.random() < 0.75 else rng.choice(self.S["D"])
            if d == "a" and noun not in self.S["Ncount"]:
                d = "the"
        return d

    def adv(self):
        pool = {"fr": ["déjà", "souvent", "très", "bien", "vite", "toujours"], "en": ["already", "often", "very", "well", "quickly"]}
        return self.rng.choice(pool[self.lang])

    def prep(self):
        return self.rng.choice({"fr": ["de", "à", "sur", "dans", "avec", "pour"], "en": ["of", "in", "on", "with", "for"]}[self.lang])

    def conj(self):
        return self.rng.choice({"fr": ["et", "ou"], "en": ["and", "or"]}[self.lang])

    def feat_opt(self, f):
        rng = self.rng
        if f == "n":
            return ["n", rng.choice(["s", "p"])]
        if f == "g":
            return ["g", rng.choice(["m", "f"])]
        return ["pe", rng.choice([1, 2, 3])]

    # --- noun phrase
    def np(self, depth=0, free=True, rel_ok=True):
        """returns (NP node, head N node).  `free`: the head noun / NP may receive explicit and late features"""
        rng, lang = self.rng, self.lang
        r = rng.random
        lem, key = self.noun()
        head_opts, np_opts, np_late, head_late = [], [], [], []
        fixed_n = key[1] == "pl"          # an always-plural noun carries its own number: nobody else may write one
        numeral = r() < 0.18 and not fixed_n
        has_no = False
        # who sets the number?  at most ONE writer besides the lexicon, so that controller and record agree
        if free and not numeral and not fixed_n:
            x = r()
            if x < 0.22:
                head_opts.append(self.feat_opt("n"))
            elif x < 0.36:
                np_opts.append(self.feat_opt("n"))
            elif x < 0.48:
                np_late.append(self.feat_opt("n"))
            elif x < 0.60:
                head_late.append(self.feat_opt("n"))
        if free and lang == "fr" and key[0] == "x" and r() < 0.5:
            (head_opts if r() < 0.6 else head_late).append(self.feat_opt("g"))
        head = self.T("N", lem, head_opts, head_late)
        head["nfree"] = free and not numeral and not fixed_n and not (head_opts or np_opts or np_late or head_late)
        kids = []
        if r() < 0.8:
            dlem = self.det(lem)
            if numeral and dlem in ("a", "un", "every", "chaque", "aucun", "no"):
                dlem = {"fr": "le", "en": "the"}[lang]
            if dlem == "no" and (fixed_n or head_opts or head_late):
                dlem = "the"
            has_no = dlem == "no"
            if has_no:
                head["nfree"] = False
            dopts = [self.feat_opt(rng.choice(["n", "g"] if lang == "fr" else ["n"]))] if r() < 0.10 else []
            d = self.T("D", dlem, dopts)
            kids.append(d)
            self.rel(d, head, "det", tags=["own-feature"] if dopts else [])
        if numeral:
            val = rng.choice(["0", "1", "2", "3", "17", "1.5", "0.5", "-1", "100", "1000"])
            no = self.T("NO", val)
            kids.append(no)
            self.rel(head, no, "num", feats=["n"])
            self.tags.add("numeral")
        if lang == "en" and not numeral and r() < 0.10:
            # a possessive noun before the head: the head is the first NON-possessive noun
            plem, _ = self.noun()
            kids.append(self.T("N", plem, ([self.feat_opt("n")] if r() < 0.6 else []) + [["poss", True]]))
            self.tags.add("possessive")
        pre = []
        for _ in range(rng.choice([0, 0, 1, 1, 2])):
            aopts = []
            if r() < 0.08:
                aopts.append(self.feat_opt(rng.choice(["n", "g"] if lang == "fr" else ["n"])))
            if r() < 0.25:
                aopts.append(["pos", rng.choice(["pre", "post"])])
            if r() < 0.8:
                a = self.T("A", self.adj(), aopts)
                pre.append(a)
                self.rel(a, head, "adj", tags=["own-feature"] if [o for o in aopts if o[0] in PENG] else [])
            else:
                a = self.T("A", self.adj())
                ap = self.P("AP", [self.T("Adv", self.adv()), a])
                pre.append(ap)
                self.rel(a, head, "adj", tags=["in-AP"])
        kids += pre
        kids.append(head)
        if r() < 0.15:
            a1, a2 = self.T("A", self.adj()), self.T("A", self.adj())
            kids.append(self.P("CP", [self.T("C", self.conj()), a1, a2]))
            self.rel(a1, head, "adj", tags=["in-CP"])
            self.rel(a2, head, "adj", tags=["in-CP"])
        if lang == "fr" and r() < 0.12:
            v = self.T("V", self.verb(), [["t", "pp"]])
            kids.append(v)
            self.rel(v, head, "participle", tags=["in-NP"])
        if depth < 2 and r() < 0.2:
            inner, _ = self.np(depth + 1, rel_ok=False)
            kids.append(self.P("PP", [self.T("P", self.prep()), inner]))
        npn = self.P("NP", kids, np_opts, np_late)
        npn["head"] = head
        if rel_ok and depth < 1 and r() < 0.3:
            self.relative(npn, head)
        if has_no:
            self.tags.add("det-no")
        return npn, head

    def relative(self, npn, head):
        """adds a relative clause to the NP node; the verb of a subject relative agrees with the antecedent"""
        rng, lang = self.rng, self.lang
        r = rng.random
        if r() < 0.6:   # subject relative
            pro = self.T("Pro", rng.choice(["qui", "qui", "lequel"] if lang == "fr" else ["who", "which", "that"]))
            if lang == "fr" and r() < 0.5:
                v = self.T("V", self.verb(copula=True), self.tense_opts())
                vpk = [v]
                if r() < 0.3:
                    vpk.append(self.T("Adv", self.adv()))
                a = self.T("A", self.adj())
                vpk.append(a)
                self.rel(a, head, "attribute", tags=["relative"])
            else:
                v = self.T("V", self.verb(), self.tense_opts())
                vpk = [v]
                if r() < 0.3:
                    o, _ = self.np(2, rel_ok=False)
                    vpk.append(o)
            self.rel(v, head, "verb", tags=["relative-subject", "pro=" + pro["lem"]])
            if pro["lem"] == "lequel":
                self.rel(pro, head, "relpro", feats=["n", "g"])
            sp = self.P("SP", [pro, self.P("VP", vpk)])
        else:
            sp = self.object_relative(head)
        npn["kids"].append(sp)
        self.tags.add("relative")

    def clause_subject(self):
        """the own subject of a non-subject relative: pronoun, noun phrase or COORDINATION (members of persons 1/2 too);
        returns (node, controller)"""
        rng = self.rng
        x = rng.random()
        if x < 0.3:
            p = self.subject_pro()
            return p, p
        if x < 0.5:
            n, hd = self.np(2, rel_ok=False)
            return n, hd
        members = []
        for _ in range(rng.choice([2, 2, 3])):
            if rng.random() < 0.55:
                members.append(self.np(2, free=False, rel_ok=False)[0])
            else:
                members.append(self.subject_pro(late_ok=False))
        cp = self.P("CP", [self.T("C", self.conj())] + members)
        self.tags.add("coord-subject-in-relative")
        return cp, cp

    def object_relative(self, head):
        """SP(relative pronoun that is NOT the subject, own subject, VP): the verb, the French attribute and the
        participle agree with the OWN subject; after `que` the participle of an avoir-verb agrees with the antecedent"""
        rng, lang = self.rng, self.lang
        r = rng.random
        subj, ctrl = self.clause_subject()
        prep = None
        if lang == "fr":
            plem = rng.choice(["que", "que", "où", "dont", "P+qui", "P+lequel", "auquel", "duquel"])
            if plem.startswith("P+"):
                prep, plem = self.T("P", rng.choice(["à", "pour", "avec"])), plem[2:]
        else:
            plem = rng.choice(["that", "that", "which", "whom", "who"])
        pro = self.T("Pro", plem)
        ptag = "pro=" + ("P+" if prep is not None else "") + plem
        tags = ["object-relative", ptag] + (["coord"] if ctrl["k"] == "CP" else [])
        x = r()
        if lang == "fr" and plem == "que":
            vlem = self.verb(aux=["av"])
            if r() < 0.5:
                v = self.T("V", vlem, [["t", rng.choice(["pc", "pq"])]])
                self.rel(v, ctrl, "pp_cod", cod=head["id"], tags=tags + ["que", "compound"])
                vpk = [v]
            elif r() < 0.5:
                aux = self.T("V", "avoir", self.tense_opts(simple=True))
                v = self.T("V", vlem, [["t", "pp"]])
                self.rel(aux, ctrl, "verb", tags=tags + ["que", "aux"])
                self.rel(v, head, "participle", feats=["n", "g"], tags=["que", "avoir+pp", "cod"])
                vpk = [aux, v]
            else:
                v = self.T("V", vlem, self.tense_opts(simple=True))
                self.rel(v, ctrl, "verb", tags=tags)
                vpk = [v]
        elif lang == "fr" and x < 0.35:
            v = self.T("V", self.verb(aux=["êt"]), [["t", rng.choice(["pc", "pq", "fa"])]])
            self.rel(v, ctrl, "verb", tags=tags + ["aux-être", "compound"])
            vpk = [v]
        elif lang == "fr" and x < 0.7:
            v = self.T("V", self.verb(copula=True), self.tense_opts())
            self.rel(v, ctrl, "verb", tags=tags + ["copula"])
            vpk = [v]
            if r() < 0.3:
                vpk.append(self.T("Adv", self.adv()))
            if r() < 0.6:
                a = self.T("A", self.adj())
                self.rel(a, ctrl, "attribute", tags=tags)
            else:
                a = self.T("V", self.verb(), [["t", "pp"]])
                self.rel(a, ctrl, "participle", tags=tags + ["copula"])
            vpk.append(a)
        else:
            v = self.T("V", self.verb(aux=["av", "-"]), self.tense_opts() if lang == "en" else self.tense_opts(simple=r() < 0.5))
            self.rel(v, ctrl, "verb", tags=tags)
            vpk = [v]
        kids = ([prep] if prep is not None else []) + [pro, subj, self.P("VP", vpk)]
        return self.P("SP", kids)

    def coord_subject(self):
        members = []
        for _ in range(self.rng.choice([2, 2, 3])):
            if self.rng.random() < 0.65:
                members.append(self.np(2, free=False, rel_ok=False)[0])
            else:
                members.append(self.subject_pro(late_ok=False))
        return self.P("CP", [self.T("C", self.conj())] + members)

    def postverbal_vp(self, cp, tags):
        """a VP realized BEFORE its coordinated subject `cp`"""
        rng, lang = self.rng, self.lang
        x = rng.random()
        if lang == "fr" and x < 0.3:
            v = self.T("V", self.verb(copula=True), self.tense_opts(simple=True))
            self.rel(v, cp, "verb", tags=tags + ["copula"])
            kids = [v]
            if rng.random() < 0.3:
                kids.append(self.T("Adv", self.adv()))
            if rng.random() < 0.6:
                a = self.T("A", self.adj())
                self.rel(a, cp, "attribute", tags=tags)
            else:
                a = self.T("V", self.verb(), [["t", "pp"]])
                self.rel(a, cp, "participle", tags=tags + ["copula"])
            kids.append(a)
        elif lang == "fr" and x < 0.6:
            v = self.T("V", self.verb(aux=["êt"]), [["t", rng.choice(["pc", "pq", "fa"])]])
            self.rel(v, cp, "verb", tags=tags + ["aux-être", "compound"])
            kids = [v]
        else:
            v = self.T("V", self.verb(aux=["av", "-"]), self.tense_opts(simple=True))
            self.rel(v, cp, "verb", tags=tags)
            kids = [v]
        return self.P("VP", kids)

    def postverbal(self):
        """structures whose coordinated subject comes AFTER the words that agree with it"""
        rng, lang = self.rng, self.lang
        cp = self.coord_subject()
        self.tags.add("postverbal-coord-subject")
        if lang == "fr" and rng.random() < 0.6:
            npn, head = self.np(1, rel_ok=False)
            plem = rng.choice(["que", "où", "dont"])
            vp = self.postverbal_vp(cp, ["postverbal-subject", "inverted-relative", "pro=" + plem])
            npn["kids"].append(self.P("SP", [self.T("Pro", plem), vp, cp]))
            return npn
        adv = self.T("Adv", rng.choice(["alors", "ici", "souvent"]) if lang == "fr" else rng.choice(["here", "there", "then"]))
        vp = self.postverbal_vp(cp, ["postverbal-subject", "verb-first-clause"])
        return self.P("S", [adv, vp, cp])

    def tense_opts(self, simple=False):
        rng = self.rng
        if self.lang == "fr":
            pool = ["p", "i", "f", "c", "s"] if simple else ["p", "p", "i", "f", "c", "s", "pc", "pq", "ps"]
        else:
            pool = ["p", "ps", "f"] if simple else ["p", "p", "ps", "f", "c"]
        t = rng.choice(pool)
        return [] if t == "p" and rng.random() < 0.7 else [["t", t]]

    def subject_pro(self, late_ok=True):
        rng, lang = self.rng, self.lang
        opts, late = [], []
        for f in PENG:
            if rng.random() < 0.6:
                (late if late_ok and rng.random() < 0.3 else opts).append(self.feat_opt(f))
        return self.T("Pro", "je" if lang == "fr" else "I", opts, late)

    # --- clause
    def subject(self, depth):
        """returns (node to put in the clause, controller node whose features the verb must take)"""
        rng = self.rng
        x = rng.random()
        if x < 0.5:
            n, hd = self.np(depth + 1)
            return n, hd
        if x < 0.72:
            p = self.subject_pro()
            return p, p
        if x < 0.8:
            lem, _ = self.noun()
            n = self.T("N", lem, [self.feat_opt("n")] if rng.random() < 0.4 else [])
            return n, n
        members = []
        for _ in range(rng.choice([1, 2, 2, 3])):
            if rng.random() < 0.7:
                members.append(self.np(depth + 1, rel_ok=False)[0])
            else:
                members.append(self.subject_pro(late_ok=False))
        cp = self.P("CP", [self.T("C", self.conj())] + members)
        self.tags.add("coord-subject")
        return cp, cp

    def vp(self, ctrl, depth, tags=()):
        """VP whose verb (and French attributes / participles) agree with `ctrl`"""
        rng, lang = self.rng, self.lang
        r = rng.random
        kids = []
        tags = list(tags)
        x = r()
        if lang == "fr" and x < 0.45:
            # copula + attribute(s) / past participle(s)
            v = self.T("V", self.verb(copula=True), self.tense_opts())
            kids.append(v)
            self.rel(v, ctrl, "verb", tags=tags + ["copula"])
            y = r()
            advs = []
            if r() < 0.35:
                advs.append(self.T("Adv", self.adv()))
            if y < 0.35:
                a = self.T("A", self.adj(), [self.feat_opt("g")] if r() < 0.06 else [])
                kids += advs + [a]
                self.rel(a, ctrl, "attribute", tags=tags + (["adv-between"] if advs else []) +
                         (["own-feature"] if a["opts"] else []))
            elif y < 0.5:
                a = self.T("A", self.adj())
                kids.append(self.P("AP", advs + [a]))
                self.rel(a, ctrl, "attribute", tags=tags + ["in-AP"])
            elif y < 0.65:
                a1, a2 = self.T("A", self.adj()), self.T("A", self.adj())
                m2 = a2
                if r() < 0.3:
                    m2 = self.T("V", self.verb(), [["t", "pp"]])
                    self.rel(m2, ctrl, "participle", tags=tags + ["in-CP", "copula"])
                else:
                    self.rel(a2, ctrl, "attribute", tags=tags + ["in-CP"])
                kids.append(self.P("CP", [self.T("C", self.conj()), a1, m2]))
                self.rel(a1, ctrl, "attribute", tags=tags + ["in-CP"])
            else:
                pps = [self.T("V", self.verb(), [["t", "pp"]])]
                mid = []
                if r() < 0.4:
                    mid.append(self.T("Adv", self.adv()))
                if r() < 0.25:
                    pps.append(self.T("V", self.verb(), [["t", "pp"]]))
                seq = advs + [pps[0]] + (mid + [pps[1]] if len(pps) > 1 else mid)
                kids += seq
                for i, pp in enumerate(pps):
                    before = seq[:seq.index(pp)]
                    t2 = tags + ["copula"] + (["adv-before"] if any(b["k"] == "Adv" for b in before) else []) + \
                        (["second-pp"] if i else [])
                    self.rel(pp, ctrl, "participle", tags=t2)
        elif lang == "fr" and x < 0.6:
            # être-verbs in a compound tense: the participle agrees with the subject
            v = self.T("V", self.verb(aux=["êt"]), [["t", rng.choice(["pc", "pq", "fa"])]])
            kids.append(v)
            self.rel(v, ctrl, "verb", tags=tags + ["aux-être", "compound"])
        else:
            v = self.T("V", self.verb(copula=(r() < 0.2)), self.tense_opts())
            if r() < 0.1:
                kids.append(self.T("Adv", self.adv()))
            kids.append(v)
            self.rel(v, ctrl, "verb", tags=tags)
            if r() < 0.45 and depth < 2:
                kids.append(self.np(depth + 1, rel_ok=False)[0])
            if lang == "en" and v["lem"] == "be" and r() < 0.5:
                kids.append(self.T("A", self.adj()))
            if r() < 0.2 and depth < 2:
                kids.append(self.P("PP", [self.T("P", self.prep()), self.np(depth + 1, rel_ok=False)[0]]))
        late = []
        hd = ctrl
        if hd.get("nfree") and r() < 0.06:
            late = [self.feat_opt("n")]        # a number given to the VP is written into the subject's record
            hd["nfree"] = False
            self.tags.add("vp-late-n")
        return self.P("VP", kids, late=late)

    def clause(self, depth=0):
        rng = self.rng
        subj, ctrl = self.subject(depth)
        x = rng.random()
        if x < 0.85:
            body = [self.vp(ctrl, depth)]
        else:
            body = [self.P("CP", [self.T("C", self.conj()), self.vp(ctrl, depth + 1, ["coord-vp"]),
                                  self.vp(ctrl, depth + 1, ["coord-vp"])])]
        kids = [subj] + body
        if rng.random() < 0.08:
            kids.insert(0, self.T("Adv", self.adv()))
        return self.P("S", kids)

    # --- dependency notation
    def dep_np(self, rel, depth=0, free=True):
        """a nominal dependent; returns (node, controller = its terminal)"""
        rng, lang = self.rng, self.lang
        r = rng.random
        lem, key = self.noun()
        hopts, dopts, dlate, hlate = [], [], [], []
        fixed_n = key[1] == "pl"
        numeral = r() < 0.12 and not fixed_n
        if free and not numeral and not fixed_n:
            x = r()
            if x < 0.2:
                hopts.append(self.feat_opt("n"))
            elif x < 0.35:
                dopts.append(self.feat_opt("n"))
            elif x < 0.47:
                dlate.append(self.feat_opt("n"))
            elif x < 0.57:
                hlate.append(self.feat_opt("n"))
        head = self.T("N", lem, hopts, hlate)
        kids = []
        if r() < 0.8:
            dlem = self.det(lem)
            if numeral and dlem in ("a", "un", "every", "chaque", "aucun", "no"):
                dlem = {"fr": "le", "en": "the"}[lang]
            if dlem == "no":
                dlem = "the"       # English `no` is not special-cased in dependency notation
            d = self.T("D", dlem)
            kids.append(self.Dp("det", d))
            self.rel(d, head, "det")
        if numeral:
            no = self.T("NO", rng.choice(["0", "1", "2", "3", "17", "1.5"]))
            kids.append(self.Dp("det", no))
            self.rel(head, no, "num", feats=["n"])
            self.tags.add("numeral")
        for _ in range(rng.choice([0, 0, 1, 2])):
            a = self.T("A", self.adj())
            kids.append(self.Dp("mod", a))
            self.rel(a, head, "adj")
        if lang == "fr" and r() < 0.1:
            v = self.T("V", self.verb(), [["t", "pp"]])
            kids.append(self.Dp("mod", v))
            self.rel(v, head, "participle", tags=["in-NP"])
        if depth < 1 and r() < 0.2:
            inner, _ = self.dep_np("comp", depth + 1)
            kids.append(self.Dp("mod", self.T("P", self.prep()), [inner]))
        if depth < 1 and r() < 0.2:
            pro = self.T("Pro", rng.choice(["qui"] if lang == "fr" else ["who", "which", "that"]))
            v = self.T("V", self.verb(), self.tense_opts(simple=True))
            kids.append(self.Dp("mod", v, [self.Dp("subj", pro)]))
            self.rel(v, head, "verb", tags=["relative-subject", "pro=" + pro["lem"]])
            self.tags.add("relative")
        node = self.Dp(rel, head, kids, dopts, dlate)
        return node, head

    def dep_root(self):
        rng, lang = self.rng, self.lang
        r = rng.random
        x = r()
        kids = []
        if x < 0.55:
            sd, ctrl = self.dep_np("subj")
            kids.append(sd)
            vtags = []
        elif x < 0.75:
            p = self.subject_pro()
            kids.append(self.Dp("subj", p))
            ctrl = p
            vtags = []
        else:
            members = [self.dep_np("subj", 1, free=True)[0] for _ in range(rng.choice([2, 2, 3]))]
            co = self.Dp("coord", self.T("C", self.conj()), members)
            kids.append(co)
            ctrl = co
            vtags = ["coord-subject"]
            self.tags.add("coord-subject")
        copula = lang == "fr" and r() < 0.45
        v = self.T("V", self.verb(copula=copula) if copula else self.verb(copula=(r() < 0.15)), self.tense_opts())
        self.rel(v, ctrl, "verb", tags=vtags + (["copula"] if copula else []))
        if copula:
            y = r()
            if y < 0.5:
                a = self.T("A", self.adj())
                kids.append(self.Dp(rng.choice(["comp", "mod"]), a))
                if ctrl["k"] != "coord":
                    self.rel(a, ctrl, "attribute", tags=vtags)
            elif y < 0.7:
                ppv = self.T("V", self.verb(), [["t", "pp"]])
                kids.append(self.Dp("comp", ppv))
                if ctrl["k"] != "coord":
                    self.rel(ppv, ctrl, "participle", tags=vtags + ["copula"])
            elif y < 0.85:
                a1, a2 = self.T("A", self.adj()), self.T("A", self.adj())
                kids.append(self.Dp("coord", self.T("C", self.conj()), [self.Dp("comp", a1), self.Dp("comp", a2)]))
                if ctrl["k"] != "coord":
                    self.rel(a1, ctrl, "attribute", tags=vtags + ["in-coord"])
                    self.rel(a2, ctrl, "attribute", tags=vtags + ["in-coord"])
        else:
            if r() < 0.45:
                kids.append(self.dep_np("comp", 1)[0])
            if r() < 0.15:
                kids.append(self.Dp("mod", self.T("Adv", self.adv())))
        return self.Dp("root", v, kids)


# ------------------------------------------------------------------------------------------------- ops

def is_term(n):
    return "lem" in n


class Builder:
    """tree -> ops of snapshot.World.  strat: {"late_add": {node id: k} (the last k children are add()ed later),
    "topdown": bool (these adds happen after the root has been built), "late_order": permutation of the late opts}"""

    def __init__(self, lang, tree, strat=None):
        self.lang, self.tree, self.strat = lang, tree, strat or {}
        self.ops, self.h, self.late, self.deferred = [], {}, [], []
        self.n = 0

    def new(self, node):
        self.h[node["id"]] = self.n
        self.n += 1
        return self.n - 1

    def emit(self, node):
        if is_term(node):
            self.ops.append(["mkT", {"k": node["k"], "lang": self.lang, "lem": node["lem"]}])
            h = self.new(node)
            for o in node["opts"]:
                self.ops.append(["opt", h, o[0], o[1]])
            for o in node["late"]:
                self.late.append(["opt", h, o[0], o[1]])
            return h
        first = []
        if "term" in node:
            first.append(self.emit(node["term"]))
        kids = node["kids"]
        k_late = max(0, min(self.strat.get("late_add", {}).get(node["id"], 0), len(kids) - 1))
        if node.get("head") is not None and node["head"] in kids:
            # a noun phrase is attached with its head noun (a headless subject raises in S.linkProperties: not C03's matter)
            k_late = min(k_late, len(kids) - 1 - kids.index(node["head"]))
        now, later = kids[:len(kids) - k_late], kids[len(kids) - k_late:]
        hs = [self.emit(k) for k in now]
        self.ops.append(["mkD" if "term" in node else "mkP", node["k"], self.lang, first + hs])
        h = self.new(node)
        if not later:
            for o in node["opts"]:
                self.ops.append(["opt", h, o[0], o[1]])
        for o in node["late"]:
            self.late.append(["opt", h, o[0], o[1]])

        def complete(h=h, later=later, node=node):
            for k in later:
                c = self.emit(k)
                self.ops.append(["add", h, c, None])
            # features are given to COMPLETE phrases (what an option set on a headless phrase does is C11's subject)
            for o in node["opts"]:
                self.ops.append(["opt", h, o[0], o[1]])
        if later:
            if self.strat.get("topdown"):
                self.deferred.append(complete)
            else:
                complete()
        return h

    def build(self):
        root = self.emit(self.tree)
        while self.deferred:
            self.deferred.pop(0)()
        late = self.late
        order = self.strat.get("late_order")
        if order is not None and sorted(order) == list(range(len(late))):
            late = [late[i] for i in order]
        self.ops += late
        return self.ops, root, self.h


def nodes_of(tree):
    yield tree
    if "term" in tree:
        yield from nodes_of(tree["term"])
    for k in tree.get("kids", []):
        yield from nodes_of(k)


def make_job(lang, notation, tree, rels, tags, strat=None, modelable=True, extra_ops=None, root=None):
    ops, r, hmap = Builder(lang, tree, strat).build()
    kinds = {n["id"]: (n["k"], n.get("lem")) for n in nodes_of(tree)}
    rr = []
    for x in rels:
        y = dict(x)
        y["dep"], y["ctrl"] = hmap[x["dep"]], hmap[x["ctrl"]]
        if "cod" in y:
            y["cod"] = hmap[y["cod"]]
        y["depk"], y["ctrlk"] = kinds[x["dep"]], kinds[x["ctrl"]]
        rr.append(y)
    return {"lang": lang, "notation": notation, "ops": ops + (extra_ops or []), "root": r if root is None else root,
            "rels": rr, "tags": sorted(tags), "modelable": modelable, "strat": strat or {}}


def gen_tree(rng, lang=None, notation=None):
    lang = lang or rng.choice(["fr", "fr", "en"])
    notation = notation or rng.choice(["phrase", "phrase", "dep"])
    g = Gen(rng, lang)
    if notation == "dep":
        t = g.dep_root()
    else:
        x = rng.random()
        t = g.clause() if x < 0.7 else g.np()[0]
    return lang, notation, t, g


def strategies(rng, tree, n_late, exhaustive_late=4, budget=6):
    """construction / option-order variants of one tree"""
    res = [{}]
    inner = [n for n in nodes_of(tree) if not is_term(n) and len(n["kids"]) >= 1]
    for _ in range(budget):
        st = {}
        if inner and rng.random() < 0.8:
            la = {}
            for n in rng.sample(inner, min(len(inner), rng.choice([1, 1, 2, 3]))):
                la[n["id"]] = rng.randint(1, len(n["kids"]))
            st["late_add"] = la
            st["topdown"] = rng.random() < 0.6
        if n_late >= 2:
            st["late_order"] = rng.sample(range(n_late), n_late)
        if st:
            res.append(st)
    if 2 <= n_late <= exhaustive_late:
        for perm in itertools.permutations(range(n_late)):
            res.append({"late_order": list(perm)})
    return res


# ------------------------------------------------------------------------------------------------- oracle

_CAP = []


def install_capture():
    from pyrealb.Terminal import Terminal
    if getattr(Terminal, "_c03_capture", False):
        return
    orig = Terminal.real

    def real(self):
        res = orig(self)
        try:
            _CAP.append((self, [getattr(t, "realization", None) for t in res]))
        except Exception:  # noqa
            pass
        return res
    Terminal.real = real
    Terminal._c03_capture = True


def explicit_feats(ops, h):
    """features given explicitly to the node of handle h by its own option calls (last value per feature)"""
    res = {}
    for op in ops:
        if op[0] == "opt" and op[1] == h and op[2] in PENG:
            res[op[2]] = op[3]
    return res


def own_other_opts(ops, h):
    return [(op[2], op[3]) for op in ops if op[0] == "opt" and op[1] == h and op[2] not in PENG]


def alone_forms(lang, k, lem, other_opts, feats):
    """the terminal built ALONE with `feats` set explicitly: list of realized forms"""
    import pyrealb
    (pyrealb.loadEn if lang == "en" else pyrealb.loadFr)()
    with contextlib.redirect_stderr(io.StringIO()):
        t = getattr(pyrealb, k)(lem, lang)
        for name, val in other_opts:
            getattr(t, name)(val)
        for f in PENG:
            if f in feats and feats[f] is not None:
                getattr(t, f)(feats[f])
        n0 = len(_CAP)
        t.real()
        forms = None
        for obj, fs in _CAP[n0:]:
            if obj is t:
                forms = fs
        del _CAP[n0:]
    return forms


def _special_relation(out, job, w, r, fresh):
    """pronominalized phrase / French passive: the dependent words are created by the realization"""
    from harness.impl import snapshot
    lang = job["lang"]
    ctrl = w.objs[r["ctrl"]]
    if r["kind"] == "pro":
        pros = [(o, f) for o, f in fresh if o.constType == "Pro"]
        if not pros:
            return
        o, got = pros[-1]                           # the pronoun that is placed (getTonicPro may realize a draft first)
        gp = out["gp"][r["ctrl"]]                   # the features of the phrase BEFORE realization
        feats = dict(zip(PENG, gp))
        other = [(k, o.props[k]) for k in ("c", "tn") if k in o.props]
        try:
            # the tonic pronoun of the phrase's person/number/gender, then its form in the case the realizer chose
            tonic = alone_forms(lang, "Pro", "moi" if lang == "fr" else "me", [], feats)
            exp = alone_forms(lang, "Pro", tonic[0], other, {})
        except Exception as e:  # noqa
            out["fails"].append({"rel": r, "why": "alone-raises:" + type(e).__name__, "got": got, "exp": None})
            return
        out["checked"] += 1
        if exp != got:
            out["fails"].append({"rel": r, "why": "form", "got": got, "exp": exp, "feats": feats, "desync": []})
        return
    # passive (French): auxiliary and participle created by passive_agree_auxiliary agree with the new subject
    vs = [(o, f) for o, f in fresh if o.constType == "V"]
    if len(vs) < 2:
        return
    (aux, got_aux), (pp, got_pp) = vs[0], vs[1]
    with contextlib.redirect_stderr(io.StringIO()):
        cf = {f: ctrl.getProp(f) for f in PENG}
    other = own_other_opts(job["ops"], r["dep"])
    try:
        exp_aux = alone_forms(lang, "V", aux.lemma, other, cf)
        exp_pp = alone_forms(lang, "V", pp.lemma, [("t", "pp")], {"n": cf["n"], "g": cf["g"]})
    except Exception as e:  # noqa
        out["fails"].append({"rel": r, "why": "alone-raises:" + type(e).__name__, "got": got_aux + got_pp, "exp": None})
        return
    out["checked"] += 1
    if exp_aux != got_aux or exp_pp != got_pp:
        out["fails"].append({"rel": r, "why": "form", "got": got_aux + got_pp, "exp": exp_aux + exp_pp,
                             "feats": {f: snapshot._val(v) for f, v in cf.items()}, "desync": []})


def run_job(job, want_snaps=True):
    """executes a job on the REAL pyrealb: returns {"specs", "snaps", "end", "gp", "text", "fails": [...], "stats"}"""
    from harness.impl import snapshot
    install_capture()
    lang = job["lang"]
    w = snapshot.World()
    snaps, end = w.run(job["ops"], snaps=want_snaps)
    out = {"specs": w.specs, "snaps": snaps if want_snaps else None, "end": end, "fails": [], "checked": 0,
           "crash": w.last_exc if end != "ok" else None, "text": None, "gp": None}
    if end != "ok":
        return out
    out["gp"] = [[snapshot._val(o.getProp(f)) for f in PENG] for o in w.objs]
    del _CAP[:]
    snapshot.load(lang)
    root = w.objs[job["root"]]
    try:
        with contextlib.redirect_stderr(io.StringIO()):
            out["text"] = str(root.realize())
    except Exception as e:  # noqa
        out["text"] = "!" + type(e).__name__
        out["crash"] = snapshot.crash_site(e)
        del _CAP[:]
        return out
    cap = list(_CAP)
    del _CAP[:]
    if job.get("switch"):
        # the same history, the OTHER language made current just before realize(): every constituent knows its own
        # language since its construction, so the text (hence every agreeing form) must be the same
        w2 = snapshot.World()
        _, end2 = w2.run(job["ops"], snaps=False)
        snapshot.load("en" if lang == "fr" else "fr")
        try:
            with contextlib.redirect_stderr(io.StringIO()):
                text2 = str(w2.objs[job["root"]].realize()) if end2 == "ok" else "!" + end2
        except Exception as e:  # noqa
            text2 = "!" + type(e).__name__
        del _CAP[:]
        snapshot.load(lang)
        out["checked"] += 1
        if text2 != out["text"]:
            out["fails"].append({"rel": {"kind": "pro", "depk": ["Pro", None], "ctrlk": ["NP", None], "tags": ["current-language-switched"],
                                         "dep": job["root"], "ctrl": job["root"], "feats": []},
                                 "why": "lang-switch", "got": text2, "exp": out["text"]})
    forms_of = {}
    for obj, forms in cap:
        forms_of.setdefault(id(obj), forms)      # first realization of the object
    fresh = [(o, f) for o, f in cap if id(o) not in w.idx]     # terminals created by the realization itself
    for r in job["rels"]:
        dep, ctrl = w.objs[r["dep"]], w.objs[r["ctrl"]]
        if r["kind"] in ("pro", "passive"):
            _special_relation(out, job, w, r, fresh)
            continue
        got = forms_of.get(id(dep))
        if got is None:
            continue                               # the dependent was not realized (removed by a transformation)
        if getattr(dep, "constType", None) != r["depk"][0]:
            continue                               # morphoError turned it into a Q: no form to compare
        own = explicit_feats(job["ops"], r["dep"])
        other = own_other_opts(job["ops"], r["dep"])
        with contextlib.redirect_stderr(io.StringIO()):
            if r["kind"] == "num":
                cf = {"n": ctrl.grammaticalNumber()}
            elif r["kind"] == "plural":
                cf = {"n": "p"}
            else:
                cf = {f: ctrl.getProp(f) for f in r["feats"]}
        feats = {f: own.get(f, cf.get(f)) for f in PENG if f in own or f in cf}
        k, lem = r["depk"]
        try:
            if r["kind"] == "pp_cod":
                cod = w.objs[r["cod"]]
                t = dict(other).get("t")
                aux_t = COMPOUND_AUX_TENSE.get(t)
                if aux_t is None or len(got) != 2:
                    continue
                sf = {f: own.get(f, ctrl.getProp(f)) for f in ("pe", "n")}
                exp = alone_forms(lang, "V", "avoir", [("t", aux_t)], sf) + \
                    alone_forms(lang, "V", lem, [("t", "pp")], {"n": cod.getProp("n"), "g": cod.getProp("g")})
            else:
                exp = alone_forms(lang, k, lem, other, feats)
        except Exception as e:  # noqa
            out["fails"].append({"rel": r, "why": "alone-raises:" + type(e).__name__, "got": got, "exp": None})
            continue
        out["checked"] += 1
        if exp != got:
            # diagnostic: does the controller carry an own value that differs from its record?
            desync = []
            pg = getattr(ctrl, "peng", None)
            for f in r["feats"]:
                if f in getattr(ctrl, "props", {}) and isinstance(pg, dict) and pg.get(f) != ctrl.props[f]:
                    desync.append(f)
            out["fails"].append({"rel": r, "why": "form", "got": got, "exp": exp, "feats": {f: snapshot._val(v) for f, v in feats.items()},
                                 "desync": desync, "ctrl_n_before": out["gp"][r["ctrl"]][1]})
    return out
