"""Adapter for histories over the REAL pyrealb objects (C11; reusable by C03/C13).

A history is a list of ops over integer handles (handle = index of creation):
  ["mkT", {"k","lang","lem"}]                    terminal  (completed here with what the real constructor produced)
  ["mkP", kind, lang, args] / ["mkD", kind, lang, args]      args: nested lists of handles / None / {"bad":1};
                                                  a list written {"t":[…]} is passed as a tuple
  ["add", parent, arg, pos|None]                  arg: handle | None | nested list
  ["opt", x, name, value]   ["typ", x, [[k,v],…] | "notdict"]
`World.run(ops)` executes them one by one and returns after EVERY op the abstraction of the live object graph
(tree, own props, partition of the nodes by `id(x.peng)` / `id(x.taux)`, record contents) read from the Python
objects — no source hook.  Class ids are the smallest handle of the class, so only the PARTITION is compared.
"""
import contextlib
import io
import sys

SCALAR = (str, int, bool, type(None))
_state = {"warns": 0, "depth": 0, "patched": False}


def _patch():
    """count calls of Constituent.warn (top level only: the realization of a warning may warn itself)"""
    if _state["patched"]:
        return
    from pyrealb.Constituent import Constituent
    orig = Constituent.warn

    def warn(self, *args):
        if _state["depth"] == 0:
            _state["warns"] += 1
        _state["depth"] += 1
        try:
            with contextlib.redirect_stderr(io.StringIO()):
                return orig(self, *args)
        finally:
            _state["depth"] -= 1
    Constituent.warn = warn
    _state["patched"] = True


def load(lang):
    import pyrealb
    (pyrealb.loadEn if lang == "en" else pyrealb.loadFr)()


def err_name(e):
    n = type(e).__name__
    return n if n in ("KeyError", "IndexError", "AttributeError", "TypeError", "ValueError") else "Exception"


def crash_site(e):
    """(exception type, file, function, stripped source line) of the innermost pyrealb frame"""
    import linecache
    import traceback
    site = None
    for fr, ln in traceback.walk_tb(e.__traceback__):
        fn = fr.f_code.co_filename
        if "pyrealb" in fn and "harness" not in fn:
            site = (fn.rsplit("/", 1)[-1], fr.f_code.co_name, linecache.getline(fn, ln).strip())
    return (type(e).__name__,) + (site or ("?", "?", "?"))


class World:
    def __init__(self):
        import pyrealb  # noqa
        _patch()
        _state["warns"] = 0
        self.objs = []
        self.idx = {}
        self.lang_of = []
        self.specs = []      # completed op list (what the model receives)
        self.last_exc = None
        self.cells = []      # caller-owned argument objects (dicts / lists), C13
        self.with_cells = False

    # ---------------------------------------------------------------- argument decoding
    def _arg(self, a):
        if a is None:
            return None
        if isinstance(a, int):
            return self.objs[a]
        if isinstance(a, list):
            return [self._arg(x) for x in a]
        if isinstance(a, dict):
            if "t" in a:
                return tuple(self._arg(x) for x in a["t"])
            if "q" in a:
                return a["q"]                       # a str child
            return 12345                             # not a Constituent
        raise ValueError(a)

    @staticmethod
    def model_arg(a):
        """the same argument in the model's notation (a tuple is a list; a str child is outside the model)"""
        if isinstance(a, list):
            return [World.model_arg(x) for x in a]
        if isinstance(a, dict) and "t" in a:
            return [World.model_arg(x) for x in a["t"]]
        return a

    @staticmethod
    def model_add_arg(a):
        """argument of add(): only a `list` is iterated by the code, a tuple is not a Constituent"""
        if isinstance(a, list):
            return [World.model_add_arg(x) for x in a]
        if isinstance(a, dict) and "t" in a:
            return {"bad": 1}
        return a

    def _new(self, o, lang):
        self.idx[id(o)] = len(self.objs)
        self.objs.append(o)
        self.lang_of.append(lang)

    # ---------------------------------------------------------------- one op
    def run_op(self, op):
        """returns None or the exception name; appends the model's version of the op to self.specs"""
        import pyrealb
        tag = op[0]
        try:
            if tag == "mkT":
                sp = op[1]
                load(sp["lang"])
                w0 = _state["warns"]
                o = getattr(pyrealb, sp["k"])(sp["lem"], sp["lang"])
                self._new(o, sp["lang"])
                d = self.term_spec(o, sp)
                d["w"] = _state["warns"] - w0
                self.specs.append(["mkT", d])
            elif tag in ("mkP", "mkD"):
                load(op[2])
                self.specs.append([tag, op[1], op[2], self.model_arg(op[3])])
                args = [self._arg(a) for a in op[3]]
                o = getattr(pyrealb, op[1])(*args, lang=op[2])
                self._new(o, op[2])
            elif tag == "add":
                load(self.lang_of[op[1]])
                self.specs.append(["add", op[1], self.model_add_arg(op[2]), op[3]])
                if op[3] is None:
                    self.objs[op[1]].add(self._arg(op[2]))
                else:
                    self.objs[op[1]].add(self._arg(op[2]), op[3])
            elif tag == "opt":
                load(self.lang_of[op[1]])
                self.specs.append(op)
                getattr(self.objs[op[1]], op[2])(op[3])
            elif tag == "typ":
                load(self.lang_of[op[1]])
                self.specs.append(op)
                arg = dict((k, v) for k, v in op[2]) if isinstance(op[2], list) else op[2]
                self.objs[op[1]].typ(arg)
            elif tag == "clone":
                load(self.lang_of[op[1]])
                self.specs.append(op)
                self._clone(op[1])
            elif tag == "cell":
                self.specs.append(op)
                c = op[1]
                self.cells.append(dict((k, v) for k, v in c["dict"]) if "dict" in c else [self._arg(a) for a in c["list"]])
            elif tag == "mut":
                self.specs.append(op)
                c, obj = op[2], self.cells[op[1]]
                if isinstance(obj, dict):
                    obj.clear()
                    obj.update(dict((k, v) for k, v in c["dict"]))
                else:
                    obj[:] = [self._arg(a) for a in c["list"]]
            elif tag == "typC":
                load(self.lang_of[op[1]])
                self.specs.append(op)
                self.objs[op[1]].typ(self.cells[op[2]])
            elif tag == "mkPC":
                load(op[2])
                self.specs.append(op)
                o = getattr(pyrealb, op[1])(self.cells[op[3]], lang=op[2])
                self._new(o, op[2])
            elif tag == "addC":
                load(self.lang_of[op[1]])
                self.specs.append(op)
                if op[3] is None:
                    self.objs[op[1]].add(self.cells[op[2]])
                else:
                    self.objs[op[1]].add(self.cells[op[2]], op[3])
            else:
                raise ValueError("unknown op %r" % (tag,))
        except Exception as e:  # noqa
            if isinstance(e, ValueError) and "unknown op" in str(e):
                raise
            self.last_exc = crash_site(e)
            return err_name(e)
        return None

    def term_spec(self, o, sp):
        d = {"k": sp["k"], "lang": sp["lang"], "lem": sp["lem"],
             "props": sorted([k, v] for k, v in o.props.items() if isinstance(v, SCALAR) and k != "typ")}
        pg = getattr(o, "peng", None)
        if isinstance(pg, dict):
            for k in ("pe", "n", "g"):
                d[k] = pg.get(k)
        tx = getattr(o, "taux", None)
        if isinstance(tx, dict):
            d["t"] = tx.get("t")
            if "aux" in tx:
                d["aux"] = tx["aux"]
        if sp["k"] == "NO":
            dopt = o.props.get("dOpt", {})
            d["ord"] = bool(dopt.get("ord"))
            try:
                saved = o.props.pop("n", None)
                o.props.setdefault("dOpt", {})
                keep = o.props["dOpt"].get("ord")
                o.props["dOpt"]["ord"] = False
                d["gram0"] = o.grammaticalNumber()
                if keep is None:
                    o.props["dOpt"].pop("ord", None)
                else:
                    o.props["dOpt"]["ord"] = keep
                if saved is not None:
                    o.props["n"] = saved
            except Exception:  # noqa
                d["gram0"] = None
        return d

    # ---------------------------------------------------------------- clone (C13)
    @staticmethod
    def _edges(o):
        """the constituents directly referenced by o, in a fixed order"""
        kids = getattr(o, "elements", None)
        if kids is None:
            kids = getattr(o, "dependents", [])
        res = list(kids)
        for a in ("terminal", "parentConst", "cod", "subject"):
            v = o.__dict__.get(a)
            if v is not None and hasattr(v, "constType"):
                res.append(v)
        return res

    def _clone(self, x):
        """x.clone(); the copies of the nodes of the connected tree of x are registered in the order of the handles of
        their originals (what Model/HeapClone.cloneRegion does)"""
        orig = self.objs[x]
        cp = orig.clone()
        pair = {id(orig): (orig, cp)}
        todo = [(orig, cp)]
        while todo:
            a, b = todo.pop()
            ea, eb = self._edges(a), self._edges(b)
            if len(ea) != len(eb):
                raise AssertionError("clone: different shapes")
            for u, v in zip(ea, eb):
                if id(u) not in pair:
                    pair[id(u)] = (u, v)
                    todo.append((u, v))
        hs = sorted(self.idx[i] for i in pair if i in self.idx)
        if len(hs) != len(pair):
            raise AssertionError("clone: a node outside the handle table is reachable")
        for hdl in hs:
            self._new(pair[id(self.objs[hdl])][1], self.lang_of[hdl])

    def _cell_notation(self, c):
        if isinstance(c, dict):
            return {"dict": sorted([k, _val(v)] for k, v in c.items())}

        def conv(a):
            if a is None:
                return None
            if isinstance(a, (list, tuple)):
                return [conv(x) for x in a]
            h = self.idx.get(id(a))
            return h if h is not None else {"bad": 1}
        return {"list": [conv(a) for a in c]}

    # ---------------------------------------------------------------- abstraction
    def _h(self, o):
        if o is None:
            return None
        return self.idx.get(id(o), -1)

    def snap(self):
        objs = self.objs

        def cls(attr, o):
            r = getattr(o, attr, None)
            if r is None and not hasattr(o, attr):
                return None
            for i, p in enumerate(objs):
                if hasattr(p, attr) and getattr(p, attr) is r:
                    return i
            return None
        nodes = []
        recs, trecs = {}, {}
        for i, o in enumerate(objs):
            kids = getattr(o, "elements", None)
            if kids is None:
                kids = getattr(o, "dependents", [])
            props = sorted([k, v] for k, v in o.props.items() if isinstance(v, SCALAR) and k != "typ")
            typ = o.props.get("typ")
            pc, tc = cls("peng", o), cls("taux", o)
            sub = o.__dict__.get("subject", "-")
            nodes.append({"k": o.constType, "kids": [self._h(k) for k in kids],
                          "term": self._h(getattr(o, "terminal", None)), "par": self._h(o.parentConst),
                          "props": props,
                          "typ": sorted([k, _val(v)] for k, v in typ.items()) if isinstance(typ, dict) else None,
                          "pc": pc, "tc": tc, "cod": self._h(o.__dict__.get("cod")),
                          "subj": sub if sub == "-" else self._h(sub)})
            if pc == i:
                pg = o.peng
                recs[str(i)] = {k: _val(pg[k]) for k in ("pe", "n", "g") if k in pg} if isinstance(pg, dict) \
                    else {"notdict": repr(pg)}
            if tc == i:
                tx = o.taux
                trecs[str(i)] = {k: _val(tx[k]) for k in ("t", "aux") if k in tx}
        res = {"nodes": nodes, "recs": recs, "trecs": trecs, "w": _state["warns"]}
        if self.with_cells:
            res["cells"] = [self._cell_notation(c) for c in self.cells]
            res["loc"] = True
        return res

    def run(self, ops, snaps=True):
        """returns (list of snapshots after each successful op, "ok" | exception name)"""
        out = []
        for op in ops:
            e = self.run_op(op)
            if e is not None:
                return out, e
            if snaps:
                out.append(self.snap())
        return out, "ok"

    def realize(self, h):
        """text of handle h (realize() transforms the tree: call it last)"""
        load(self.lang_of[h])
        try:
            with contextlib.redirect_stderr(io.StringIO()):
                return str(self.objs[h].realize())
        except Exception as e:  # noqa
            return "!" + err_name(e)


def _val(v):
    if isinstance(v, SCALAR):
        return v
    return {"other": True}
