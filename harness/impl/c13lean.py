"""C13, Lean side of the tie: histories with `clone`, interleaved operations on an expression and its clone(s) / on
separately built expressions, and caller-owned argument objects (a dict given to typ(), a list given to a constructor or
to add()) are executed on the REAL objects (harness/impl/snapshot.World) and on the store model (drv_tree, op `chist`:
Model/HeapClone.runCOps).  After EVERY step the whole abstraction is compared: tree, own props, partition of the nodes by
shared peng/taux record (a copy never shares a record with its original), record contents, back references cod/subject,
and the content of the caller's objects.  The model also reports, for every state, that the link plan of every node stays
inside the connected tree of that node (`loc`, the locality the frame theorem op_frame rests on).

`lean_correspondence(ctx)` is called at the end of harness/props/C13.run."""
import multiprocessing
import os
import random

from harness import core


def _gen_history(seed):
    """one adaptive history; returns (model line, impl snapshots, end, stats)"""
    core.ensure_repo_on_path()
    from harness.impl import snapshot
    from harness.props import C11 as G
    rng = random.Random(seed)
    w = snapshot.World()
    w.with_cells = True
    snaps = []
    stats = {"clone": 0, "opt": 0, "add": 0, "typ": 0, "typC": 0, "addC": 0, "mkPC": 0, "mut": 0}

    def do(op):
        e = w.run_op(op)
        if e is not None:
            return e
        snaps.append(w.snap())
        return None
    lang, tree = G.gtree(rng)
    ops, root = G.Builder(lang, tree, {}, rng).build()
    end = "ok"
    for op in ops:
        end = do(op) or "ok"
        if end != "ok":
            break
    roots = [root]
    dict_cells, list_cells = [], []
    steps = rng.randint(5, 14)
    k = 0
    while end == "ok" and k < steps:
        k += 1
        n = len(w.objs)
        kinds = [o.constType for o in w.objs]
        nonterm = [i for i in range(n) if kinds[i] in G.PHRASES + G.DEPS]
        phrases = [i for i in range(n) if kinds[i] in G.PHRASES]
        sent = [i for i in range(n) if kinds[i] in ("S", "SP", "VP", "root")]
        c = rng.random()
        if c < 0.18 and stats["clone"] < 3:
            x = rng.choice(roots) if rng.random() < 0.6 else rng.randrange(n)
            before = n
            end = do(["clone", x]) or "ok"
            stats["clone"] += 1
            if end == "ok" and len(w.objs) > before:
                roots.append(w.idx[id(_root_of(w.objs[-1]))])
        elif c < 0.45:
            x = rng.randrange(n)
            name = rng.choice(["n", "n", "g", "pe", "t"])
            val = {"n": rng.choice(["p", "s"]), "g": rng.choice(["f", "m"]), "pe": rng.choice([1, 2, 3]),
                   "t": rng.choice(["p", "ps", "f", "pp"])}[name]
            end = do(["opt", x, name, val]) or "ok"
            stats["opt"] += 1
        elif c < 0.62 and phrases:
            p = rng.choice(phrases)
            kk = rng.choice(["N", "A", "D", "V", "Adv"])
            end = do(["mkT", {"k": kk, "lang": w.lang_of[p], "lem": G.word(rng, w.lang_of[p], kk)}]) or "ok"
            if end == "ok":
                nk = len(getattr(w.objs[p], "elements", []))
                end = do(["add", p, len(w.objs) - 1, rng.choice([None, 0, rng.randint(0, nk)])]) or "ok"
            stats["add"] += 1
        elif c < 0.72 and sent:
            end = do(["typ", rng.choice(sent), G.gtyp(rng)[0]]) or "ok"
            stats["typ"] += 1
        elif c < 0.84 and sent:
            if not dict_cells or rng.random() < 0.4:
                end = do(["cell", {"dict": G.gtyp(rng)[0]}]) or "ok"
                dict_cells.append(len(w.cells) - 1)
            if end == "ok":
                end = do(["typC", rng.choice(sent), rng.choice(dict_cells)]) or "ok"
                stats["typC"] += 1
        elif c < 0.92 and phrases:
            # a list of fresh terminals owned by the caller, given to add() or to a constructor
            p = rng.choice(phrases)
            hs = []
            for _ in range(rng.randint(1, 3)):
                kk = rng.choice(["N", "A", "Adv"])
                end = do(["mkT", {"k": kk, "lang": w.lang_of[p], "lem": G.word(rng, w.lang_of[p], kk)}]) or "ok"
                if end != "ok":
                    break
                hs.append(len(w.objs) - 1)
            if end == "ok":
                shape = hs if rng.random() < 0.6 else [hs[0], None, hs[1:]]
                end = do(["cell", {"list": shape}]) or "ok"
                a = len(w.cells) - 1
                list_cells.append(a)
                if end == "ok":
                    if rng.random() < 0.7:
                        nk = len(w.objs[p].elements)
                        end = do(["addC", p, a, rng.choice([None, 0, rng.randint(0, nk)])]) or "ok"
                        stats["addC"] += 1
                    else:
                        end = do(["mkPC", rng.choice(["NP", "AP", "CP"]), w.lang_of[p], a]) or "ok"
                        stats["mkPC"] += 1
        else:
            # the caller mutates one of its objects afterwards: nothing in the store may change
            if dict_cells and (not list_cells or rng.random() < 0.6):
                end = do(["mut", rng.choice(dict_cells), {"dict": G.gtyp(rng)[0]}]) or "ok"
                stats["mut"] += 1
            elif list_cells:
                end = do(["mut", rng.choice(list_cells), {"list": [None]}]) or "ok"
                stats["mut"] += 1
    return {"op": "chist", "ops": w.specs}, snaps, end, stats


def _root_of(o):
    seen = set()
    while o.parentConst is not None and id(o) not in seen:
        seen.add(id(o))
        o = o.parentConst
    return o


def _work(seeds):
    core.ensure_repo_on_path()
    lines, impls, stats = [], [], {}
    for sd in seeds:
        line, snaps, end, st = _gen_history(sd)
        lines.append(line)
        impls.append((snaps, end))
        for k, v in st.items():
            stats[k] = stats.get(k, 0) + v
    model = core.run_driver(lines, "drv_tree")
    diffs, n_ok, n_out, n_steps = [], 0, 0, 0
    for l, m, (snaps, end) in zip(lines, model, impls):
        if "driver_error" in m:
            diffs.append((l, m, {"end": end}))
            continue
        ms = m["snaps"]
        if m["end"] == "outside":
            n_out += 1
            snaps = snaps[:len(ms)]
        elif m["end"] != end or len(ms) != len(snaps):
            diffs.append((l, {"end": m["end"], "n": len(ms)}, {"end": end, "n": len(snaps)}))
            continue
        k = 0
        while k < len(ms) and core.canon(ms[k]) == core.canon(snaps[k]):
            k += 1
        n_steps += k
        if k < len(ms):
            diffs.append(({"op": "chist", "ops": l["ops"][:k + 1]}, {"snap": ms[k]}, {"snap": snaps[k]}))
        else:
            n_ok += 1
    return {"diffs": diffs[:10], "ndiffs": len(diffs), "ok": n_ok, "outside": n_out, "steps": n_steps, "stats": stats,
            "n": len(lines)}


def lean_correspondence(ctx):
    """clone / interleaving / argument-object histories: model (drv_tree) vs the live objects, after every step"""
    thorough = ctx.tier == "thorough" or getattr(ctx, "deep", False)
    n = 240 if not thorough else 3000
    nproc = min(16, os.cpu_count() or 4)
    base = ctx.rng.randrange(10 ** 9)
    seeds = [base + i for i in range(n)]
    chunks = [seeds[i::nproc] for i in range(nproc)]
    with multiprocessing.get_context("fork").Pool(nproc) as pool:
        res = pool.map(_work, [c for c in chunks if c])
    tot = {"histories": 0, "agree": 0, "outside": 0, "steps_compared": 0, "diffs": 0, "ops": {}}
    for r in res:
        tot["histories"] += r["n"]
        tot["agree"] += r["ok"]
        tot["outside"] += r["outside"]
        tot["steps_compared"] += r["steps"]
        tot["diffs"] += r["ndiffs"]
        for k, v in r["stats"].items():
            tot["ops"][k] = tot["ops"].get(k, 0) + v
        for l, m, a in r["diffs"]:
            ctx.diff(l, m, a)
    ctx.cov["traces_validated_against_impl"] += tot["histories"]
    ctx.cov["evaluations"] += tot["steps_compared"]
    ctx.notes["lean_clone_histories"] = tot
    return tot
