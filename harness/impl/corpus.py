"""A corpus of realistic pyrealb expressions (as SOURCE STRINGS), harvested by AST from /repo/tests/*.py
(each test is `assert (<expr>.realize()) == '<expected>'`), without importing or running the test modules.
Used as raw material by the history-based checks (C13, C14, C07 …).  Entries: {"lang","src","file","setup"}
where setup = the module-level addToLexicon(...) statements of the file (source strings)."""
import ast
import os

from harness import core

_cache = {}
# expressions that use helper functions/variables local to a test file are not self-contained: skipped
API_NAMES = {"A", "Adv", "C", "D", "DT", "N", "NO", "P", "Pro", "Q", "V", "AP", "AdvP", "CP", "NP", "PP", "VP", "S", "SP",
             "root", "subj", "det", "mod", "comp", "coord", "fromJSON", "oneOf", "choice", "mix", "True", "False", "None",
             "datetime", "getLanguage"}


def _segment(lines, node):
    """ast.get_source_segment is quadratic on large files; slice with precomputed lines instead (col offsets are
    UTF-8 byte offsets)"""
    a, b = node.lineno - 1, node.end_lineno - 1
    if a == b:
        return lines[a].encode("utf-8")[node.col_offset:node.end_col_offset].decode("utf-8")
    first = lines[a].encode("utf-8")[node.col_offset:].decode("utf-8")
    last = lines[b].encode("utf-8")[:node.end_col_offset].decode("utf-8")
    return "\n".join([first] + lines[a + 1:b] + [last])


def load(repo=None):
    repo = repo or core.REPO
    if repo in _cache:
        return _cache[repo]
    d = os.path.join(repo, "tests")
    out = []
    for fn in sorted(os.listdir(d)) if os.path.isdir(d) else []:
        if not (fn.startswith("test_") and fn.endswith(".py")):
            continue
        try:
            src = open(os.path.join(d, fn), encoding="utf-8").read()
            tree = ast.parse(src)
            lines = src.split("\n")
        except (OSError, SyntaxError):
            continue
        lang, setup = None, []
        for node in tree.body:
            if isinstance(node, ast.Expr) and isinstance(node.value, ast.Call):
                f = node.value.func
                name = f.id if isinstance(f, ast.Name) else None
                if name == "load" and node.value.args and isinstance(node.value.args[0], ast.Constant):
                    lang = node.value.args[0].value
                elif name == "loadEn":
                    lang = "en"
                elif name == "loadFr":
                    lang = "fr"
                elif name in ("addToLexicon", "updateLexicon"):
                    setup.append(_segment(lines, node))
        if lang not in ("en", "fr"):
            continue
        for node in ast.walk(tree):
            if isinstance(node, ast.Assert) and isinstance(node.test, ast.Compare):
                left = node.test.left
                if (isinstance(left, ast.Call) and isinstance(left.func, ast.Attribute) and left.func.attr == "realize"
                        and not left.args):
                    seg = _segment(lines, left.func.value)
                    exp = node.test.comparators[0]
                    names = {n.id for n in ast.walk(left.func.value) if isinstance(n, ast.Name)}
                    if seg and len(seg) < 4000 and names <= API_NAMES:
                        out.append({"lang": lang, "src": " ".join(seg.split()), "file": fn, "setup": setup,
                                    "expected": exp.value if isinstance(exp, ast.Constant) else None})
    _cache[repo] = out
    return out


def namespace():
    """globals for eval() of a corpus expression: the public API of the pyrealb under test"""
    core.ensure_repo_on_path()
    import pyrealb
    ns = {k: getattr(pyrealb, k) for k in pyrealb.__all__ if hasattr(pyrealb, k)}
    import datetime
    ns["datetime"] = datetime
    return ns


if __name__ == "__main__":
    c = load()
    from collections import Counter
    print(len(c), Counter((e["lang"], bool(e["setup"])) for e in c))
    print(c[0], c[-1])
