"""Seeded grammar-based generator of pyrealb expressions as Python SOURCE STRINGS over the public API (both
notations, both languages, every terminal kind incl. DT/NO/Q), with a valid stream and a malformed stream
(unknown words, wrong-typed or missing children, illegal option values, options on illegal receivers, empty
phrases, every subset of date fields, every interrogative type).  Lemmas are drawn from the whole lexicons of the
tree under test, stratified by part of speech and declension/conjugation table."""
import json
import os

from harness import core

_lex = {}

TENSES = ["p", "i", "f", "ps", "c", "s", "si", "ip", "pr", "pp", "b", "b-to", "pc", "pq", "cp", "pa", "fa", "spa", "spq", "bp", "bp-to"]
INTS = ["yon", "wos", "wod", "woi", "was", "wad", "wai", "whe", "why", "whn", "how", "muc", "tag"]
MODS = ["poss", "perm", "nece", "obli", "will"]
DATE_FIELDS = ["year", "month", "date", "day", "hour", "minute", "second"]
SIGNS = [",", ".", "!", "?", ":", ";", "(", "[", '"', "'", "«", "-", "*", "…", "{"]


def lex(lang):
    """pos -> table id -> [lemmas]"""
    if lang in _lex:
        return _lex[lang]
    p = os.path.join(core.REPO, "src", "pyrealb", "data", "lexicon-%s.json" % lang)
    raw = json.load(open(p, encoding="utf-8"))
    by = {}
    for lemma, e in raw.items():
        if not isinstance(e, dict):
            continue
        for pos, info in e.items():
            if pos in ("N", "A", "Adv", "V", "D", "Pro", "P", "C") and isinstance(info, dict):
                by.setdefault(pos, {}).setdefault(info.get("tab", "-"), []).append(lemma)
    _lex[lang] = by
    return by


def word(rng, lang, pos):
    by = lex(lang).get(pos)
    if not by:
        return "x"
    tab = rng.choice(sorted(by))
    return rng.choice(by[tab])


def q(x):
    return json.dumps(x, ensure_ascii=False)


def call(name, args, larg):
    """name(args, lang=..) with either part possibly empty"""
    if not args:
        return "%s(%s)" % (name, larg.lstrip(","))
    return "%s(%s%s)" % (name, args, larg)


class Gen:
    def __init__(self, rng, lang, malformed=0.0, depth=3):
        self.rng = rng
        self.lang = lang
        self.p_bad = malformed
        self.depth = depth
        self.explicit_lang = rng.random() < 0.15

    def bad(self):
        return self.rng.random() < self.p_bad

    def larg(self):
        return "" if not self.explicit_lang else ',lang="%s"' % self.lang

    # ---------------------------------------------------------------- terminals
    def lemma(self, pos):
        r = self.rng
        if self.bad():
            return r.choice(['"zzqx"', "None", "3", '["a"]', '""', q(word(r, self.lang, r.choice(["N", "A", "V", "Adv"]))),
                             q(word(r, "en" if self.lang == "fr" else "fr", pos if pos in ("N", "A", "V") else "N"))])
        return q(word(r, self.lang, pos))

    def fmt_opts(self):
        r = self.rng
        s = ""
        while r.random() < 0.12:
            k = r.random()
            if k < 0.45:
                s += ".%s(%s)" % (r.choice(["a", "b", "en", "ba"]), q(r.choice(SIGNS)))
            elif k < 0.65:
                s += ".tag(%s%s)" % (q(r.choice(["b", "i", "a", "span"])), r.choice(["", ',{"class":"x"}', ',{"href":"u","id":"y"}', ",{}"]))
            elif k < 0.85:
                s += ".cap(%s)" % r.choice(["", "True", "False", '"tit"'] + (['"zz"', "3"] if self.bad() else []))
            else:
                s += ".lier(%s)" % r.choice(["", "True", "False"])
        return s

    def bad_opt(self):
        r = self.rng
        return r.choice(['.n("zz")', '.g(3)', '.pe(7)', '.t("zzz")', '.f("xx")', '.tn("bad")', '.c("zz")', '.typ({"neg":True})',
                         '.typ("neg")', '.dOpt({"year":False})', '.dOpt(3)', '.nat(3)', '.pro()', '.pos("mid")', '.aux("zz")',
                         '.ow("q")', '.maje(1)', '.n()', '.pe()', '.t()', '.poss()', '.typ({"zzz":True,"int":"zzz","mod":3})',
                         '.dOpt({"zzz":True})', '.dOpt({"rtime":3})', '.nat("x")', '.add(3)', '.add(None)',
                         '.a(3)', '.b(None)', '.en(3)', '.ba(None)', '.tag(3)', '.tag("b",3)', '.dOpt({"mprecision":"x"})',
                         '.dOpt({"mprecision":-1})', '.remove(0)', '.remove(1)', '.remove(7)', '.remove("x")', '.lier(3)',
                         '.cap(3)', '.poss(3)', '.pro(3)', '.t(None)', '.a(["!"])', '.tag("b",{"x":3})'])

    def T(self, pos):
        r = self.rng
        s = "%s(%s%s)" % (pos, self.lemma(pos), self.larg())
        if pos == "N":
            if r.random() < 0.4:
                s += '.n("%s")' % r.choice("sp")
            if r.random() < 0.1:
                s += '.g("%s")' % r.choice("mf")
            if r.random() < 0.05:
                s += ".poss()"
        elif pos == "A":
            if r.random() < 0.2:
                s += '.f("%s")' % r.choice(["co", "su"])
            if r.random() < 0.1:
                s += '.pos("%s")' % r.choice(["pre", "post"])
        elif pos == "Adv":
            if r.random() < 0.15:
                s += '.f("%s")' % r.choice(["co", "su"])
        elif pos == "V":
            if r.random() < 0.7:
                s += '.t("%s")' % r.choice(TENSES)
            if r.random() < 0.3:
                s += ".pe(%s)" % r.choice(["1", "2", "3", '"1"'])
            if r.random() < 0.2:
                s += '.n("%s")' % r.choice("sp")
            if self.lang == "fr" and r.random() < 0.1:
                s += '.aux("%s")' % r.choice(["av", "êt", "aê"])
        elif pos in ("Pro", "D"):
            if r.random() < 0.4:
                s += ".pe(%d)" % r.choice([1, 2, 3])
            if r.random() < 0.4:
                s += '.n("%s")' % r.choice("sp")
            if r.random() < 0.3:
                s += '.g("%s")' % r.choice("mfn" if self.lang == "en" else "mf")
            if pos == "Pro" and r.random() < 0.2:
                s += '.c("%s")' % r.choice(["nom", "acc", "dat", "refl", "gen"])
            if pos == "Pro" and r.random() < 0.15:
                s += '.tn("%s")' % r.choice(["", "refl"])
            if r.random() < 0.1:
                s += '.ow("%s")' % r.choice("sp")
            if r.random() < 0.05:
                s += ".maje(%s)" % r.choice(["True", "False"])
        if self.bad():
            s += self.bad_opt()
        return s + self.fmt_opts()

    def NO(self):
        r = self.rng
        v = r.choice(["0", "1", "2", "-1", "8", "11", "18", "800", "8000", "21", "71", "80", "100", "1000", "1001", "1.5", "3.14159", "1000000", '"12"', '"1,5"', '"huit"', '"onze"', '"eight"',
                      '"three"', "10**21", "-10**20", "2**53+1", '"abc"', "None", "1e3"])
        s = call("NO", v, self.larg())
        k = r.random()
        if k < 0.3:
            s += ".nat(%s)" % r.choice(["", "True", "False"])
        elif k < 0.6:
            s += ".dOpt({%s})" % ",".join('"%s":%s' % (f, r.choice(["True", "False"])) for f in r.sample(["raw", "nat", "ord", "rom"], r.randint(1, 2)))
        elif k < 0.7:
            s += '.dOpt({"mprecision":%d})' % r.randint(0, 6)
        if self.bad():
            s += self.bad_opt()
        return s + self.fmt_opts()

    def DT(self):
        r = self.rng
        d = r.choice(['"2024-02-29T12:00:00"', '"1999-12-31T23:59:59"', '"2023-01-01"', '"2024-06-15T00:00:00"', '"2021-07-04T13:05:09"',
                      "datetime.datetime(2020,3,1,0,30)", '"not a date"', '"2024-13-45"', "None", "3"] if self.bad() else
                     ['"2024-02-29T12:00:00"', '"1999-12-31T23:59:59"', '"2023-01-01"', '"2024-06-15T00:00:00"', '"2021-07-04T13:05:09"',
                      "datetime.datetime(2020,3,1,0,30)"])
        s = call("DT", d, self.larg())
        if r.random() < 0.8:
            fields = [f for f in DATE_FIELDS if r.random() < 0.5]
            extra = []
            if r.random() < 0.3:
                extra.append('"det":%s' % r.choice(["True", "False"]))
            if r.random() < 0.25:
                extra.append('"rtime":%s' % r.choice(['"2024-03-01T12:00:00"', "datetime.datetime(2020,3,3,1,0)", "False"]))
            s += ".dOpt({%s})" % ",".join(['"%s":False' % f for f in fields] + extra)
        if r.random() < 0.5:
            s += ".nat(%s)" % r.choice(["True", "False"])
        if self.bad():
            s += self.bad_opt()
        return s + self.fmt_opts()

    def Q(self):
        return call("Q", self.rng.choice(['"hello"', '"USA"', '"«x»"', '"a b"', '""', "None", "3", '"l\'ami"']), self.larg()) + self.fmt_opts()

    # ---------------------------------------------------------------- phrases
    def junk(self):
        return self.rng.choice(["None", "3", '"plain string"', "[]", "[None]", "{}", "root(V(%s))" % q(word(self.rng, self.lang, "V")),
                                "N", "3.5"])

    def NP(self, d):
        r = self.rng
        kids = []
        if r.random() < 0.85:
            kids.append(self.T("D"))
        if r.random() < 0.15:
            kids.append(self.NO())
        for _ in range(r.choice([0, 0, 1, 1, 2])):
            kids.append(self.T("A"))
        if r.random() < 0.93 or not self.bad():
            kids.append(self.T("N"))
        if d > 0 and r.random() < 0.25:
            kids.append(self.PP(d - 1))
        if d > 0 and r.random() < 0.12:
            kids.append(self.SP(d - 1))
        if self.bad():
            kids.insert(r.randrange(len(kids) + 1), self.junk())
        if self.bad() and r.random() < 0.3:
            kids = []
        s = call("NP", self.args(kids), self.larg())
        if r.random() < 0.2:
            s += '.n("%s")' % r.choice("sp")
        if r.random() < 0.08:
            s += ".pro(%s)" % r.choice(["", "True"])
        if self.bad():
            s += self.bad_opt()
        return s + self.fmt_opts()

    def args(self, kids):
        r = self.rng
        if len(kids) >= 2 and r.random() < 0.1:  # nested lists / None are accepted by the constructors
            i = r.randrange(len(kids))
            kids = kids[:i] + ["[%s]" % ",".join(kids[i:i + 2]), "None"] + kids[i + 2:]
        return ",".join(kids)

    def PP(self, d):
        kids = [self.T("P")]
        if self.rng.random() < 0.95 or not self.bad():
            kids.append(self.NP(d - 1) if self.rng.random() < 0.8 else self.T("Pro"))
        s = call("PP", ",".join(kids), self.larg())
        if self.rng.random() < 0.06:
            s += ".pro()"
        return s + self.fmt_opts()

    def AP(self, d):
        kids = ([self.T("Adv")] if self.rng.random() < 0.3 else []) + [self.T("A")]
        return call("AP", ",".join(kids), self.larg()) + self.fmt_opts()

    def VP(self, d):
        r = self.rng
        kids = []
        if r.random() < 0.95 or not self.bad():
            kids.append(self.T("V"))
        if r.random() < 0.15:
            kids.append(self.T("Adv"))
        k = r.random()
        if k < 0.5:
            kids.append(self.NP(d - 1))
        elif k < 0.6:
            kids.append(self.T("Pro"))
        elif k < 0.7:
            kids.append(self.AP(d - 1))
        for _ in range(r.choice([0, 0, 0, 1, 2])):
            kids.append(self.PP(d - 1))
        if d > 0 and r.random() < 0.07:
            kids.append(self.CP(d - 1, "NP"))
        if self.bad():
            kids.insert(r.randrange(len(kids) + 1), self.junk())
        if self.bad() and r.random() < 0.3:
            kids = []
        return call("VP", self.args(kids), self.larg()) + self.fmt_opts()

    def CP(self, d, of):
        r = self.rng
        n = r.choice([0, 1, 2, 2, 3, 4])
        kids = []
        if r.random() < 0.8:
            kids.append("C(%s%s)" % (q({"en": r.choice(["and", "or", "but"]), "fr": r.choice(["et", "ou", "mais"])}[self.lang]), self.larg()))
        for _ in range(n):
            kids.append({"NP": self.NP, "AP": self.AP, "VP": self.VP}[of](d - 1) if r.random() < 0.8 else self.T(r.choice(["Pro", "N", "A"])))
        s = call("CP", ",".join(kids), self.larg())
        if r.random() < 0.15:
            s += r.choice(['.n("p")', '.g("f")', ".pe(2)", '.t("ps")', '.f("co")', '.ow("p")', '.c("gen")', '.tn("")', '.aux("êt")', ".pe('1')"])
        return s + self.fmt_opts()

    def subject(self, d):
        k = self.rng.random()
        if k < 0.55:
            return self.NP(d - 1)
        if k < 0.8:
            return self.T("Pro")
        if k < 0.9:
            return self.CP(d - 1, "NP")
        return self.T("N")

    def typ(self):
        r = self.rng
        items = []
        for f in ["neg", "pas", "prog", "perf", "refl", "contr", "exc", "maje"]:
            if r.random() < 0.18:
                items.append('"%s":%s' % (f, r.choice(["True", "True", "False"])))
        if self.lang == "fr" and r.random() < 0.08:
            items.append('"neg":%s' % q(r.choice(["plus", "jamais", "rien", "personne", "guère"])))
        if r.random() < 0.25:
            items.append('"mod":%s' % q(r.choice(MODS)))
        if r.random() < 0.35:
            items.append('"int":%s' % q(r.choice(INTS)))
        if self.bad():
            items.append(r.choice(['"zzz":True', '"int":"zzz"', '"neg":3', '"mod":True', '"pas":"yes"',
                                   # falsy values that EQUAL False (0, 0.0) or are merely falsy ("" , None): typ() validates with `in`
                                   '"mod":0', '"int":0', '"neg":0', '"pas":0', '"prog":0', '"perf":0', '"mod":0.0', '"int":""', '"mod":""',
                                   '"mod":None', '"int":None', '"mod":False', '"int":False', '"contr":0', '"refl":0']))
        return ".typ({%s})" % ",".join(items) if items else ""

    def S(self, d):
        r = self.rng
        kids = []
        if r.random() < 0.92:
            kids.append(self.subject(d))
        if r.random() < 0.95 or not self.bad():
            kids.append(self.VP(d - 1))
        if self.bad():
            kids.insert(r.randrange(len(kids) + 1), self.junk())
        if self.bad() and r.random() < 0.25:
            kids = []
        s = call("S", self.args(kids), self.larg())
        if r.random() < 0.3:
            s += '.t("%s")' % r.choice(TENSES)
        s += self.typ()
        if r.random() < 0.05:
            s += ".add(%s%s)" % (self.T("Adv"), r.choice(["", ",0", ",1", ",5", ",-1"]))
        if r.random() < 0.04:
            s += ".remove(%d)" % r.choice([0, 1, 1, 2])
        return s + self.fmt_opts()

    def SP(self, d):
        r = self.rng
        rel = {"en": ["that", "who", "which", "whom", "whose"], "fr": ["qui", "que", "dont", "où", "lequel"]}[self.lang]
        kids = ["Pro(%s%s)" % (q(r.choice(rel)), self.larg())]
        if r.random() < 0.5:
            kids.append(self.subject(d))
        kids.append(self.VP(d - 1))
        return call("SP", ",".join(kids), self.larg())

    # ---------------------------------------------------------------- dependencies
    def dnoun(self, rel, d):
        r = self.rng
        kids = [self.T("N") if r.random() < 0.8 else self.T("Pro")]
        if r.random() < 0.8:
            kids.append("det(%s)" % self.T("D"))
        for _ in range(r.choice([0, 0, 1])):
            kids.append("mod(%s)%s" % (self.T("A"), r.choice(["", '.pos("pre")', '.pos("post")'])))
        if d > 0 and r.random() < 0.2:
            kids.append("mod(%s,%s)" % (self.T("P"), self.dnoun("comp", d - 1)))
        if self.bad():
            kids.append(self.junk())
        return "%s(%s%s)" % (rel, ",".join(kids), self.larg()) + self.fmt_opts()

    def root(self, d):
        r = self.rng
        kids = []
        if r.random() < 0.96 or not self.bad():
            kids.append(self.T("V"))
        if r.random() < 0.9:
            kids.append(self.dnoun("subj", d - 1) if r.random() < 0.85 else
                        "coord(C(%s),%s,%s)" % (q({"en": "and", "fr": "et"}[self.lang]), self.dnoun("subj", d - 1), self.dnoun("subj", d - 1)))
        if r.random() < 0.6:
            kids.append(self.dnoun("comp", d - 1))
        for _ in range(r.choice([0, 0, 1])):
            kids.append("comp(%s,%s)" % (self.T("P"), self.dnoun("comp", d - 1)))
        if r.random() < 0.15:
            kids.append("mod(%s)" % self.T("Adv"))
        if self.bad() and r.random() < 0.3:
            kids = []
        s = call("root", ",".join(kids), self.larg())
        if r.random() < 0.3:
            s += '.t("%s")' % r.choice(TENSES)
        return s + self.typ() + self.fmt_opts()

    def any(self):
        r = self.rng
        k = r.random()
        d = self.depth
        if k < 0.30:
            return self.S(d)
        if k < 0.50:
            return self.root(d)
        if k < 0.60:
            return self.NP(d)
        if k < 0.66:
            return self.VP(d)
        if k < 0.70:
            return self.PP(d)
        if k < 0.74:
            return self.CP(d, r.choice(["NP", "AP", "VP"]))
        if k < 0.80:
            return self.NO()
        if k < 0.86:
            return self.DT()
        if k < 0.88:
            return self.Q()
        return self.T(r.choice(["N", "A", "V", "Pro", "D", "Adv", "P", "C"]))


def generate(rng, n, malformed=0.0):
    """n entries {"lang","src","malformed"}"""
    out = []
    for i in range(n):
        lang = rng.choice(["en", "fr"])
        g = Gen(rng, lang, malformed=malformed, depth=rng.choice([1, 2, 2, 3]))
        out.append({"lang": lang, "src": g.any(), "malformed": malformed > 0})
    return out
