"""Observation of the real pyrealb from outside (no source hook): wraps ConstituentFr/En.doElision and
Constituent.detokenize, and reads off a Terminal what `doElision` reads of it (the "token facts" sent to the model).

Used by harness/props/C06.py (and usable by any other check that realizes sentences: every call of the real
doElision made while the wrappers are installed is recorded and can be replayed through the model)."""
import re

_installed = None

# first word of a realization, stated independently of the implementation's regex (alternation instead of the
# nested star); compared with the model's `sep` op and with the real `sepWordREC` by C06
SEP = re.compile(r"((?:[^<\w'-]|<[^>]+>)*)([\w'-]+)?(.*)")


def first_word(r):
    m = SEP.match(r)
    return m.group(2)


def hflag(lex, lemma, pos, arg):
    """the answer of the lexicon to the aspirated-h question of isElidableFr(arg, lemma, pos), for an h-initial arg:
    "m" elide (mute / unknown), "a" aspirated (`"h": 1`), "x" outside the model (a lexicon entry whose first value is
    not a dict).  Since /repo commit fa11862 the lower-case fallback also uses the realization when the lemma is not a
    str (a number, a date), so the former "c" answer (AttributeError on `lemma.lower()`) is never produced."""
    key = lemma if isinstance(lemma, str) else arg
    info = lex.get(key)
    if info is None:
        info = lex.get(key.lower())
        if info is None:
            return "m"
    if pos not in info:
        pos = next(iter(info))
    e = info.get(pos)
    if not isinstance(e, dict):
        return "x"
    return "a" if e.get("h") == 1 else "m"


def tokfacts(t, lex):
    """what doElision reads of the Terminal t.  lex = the lexicon isElidableFr consults: since /repo commit 8586a6a
    the FRENCH lexicon (getLemma(..., "fr")), whatever the current language (it was the current one before)"""
    r = t.realization
    lemma = getattr(t, "lemma", None)
    ct = t.constType
    hw = hr = "m"
    if isinstance(r, str):
        w = first_word(r)
        if w and w[0] in "hH":
            hw = hflag(lex, lemma, ct, w)
        # hr is read only when the RAW realization starts with h (look-ahead); elsewhere it is set to hw so that
        # TokWF's `hR = hW` is not failed by an irrelevant field
        hr = hflag(lex, lemma, ct, r) if r[:1] in ("h", "H") else hw
    return {"r": r if (r is None or isinstance(r, str)) else str(r), "ct": ct, "lier": bool(t.getProp("lier")),
            "sg": t.getProp("n") == "s", "hw": hw, "hr": hr, "fr": bool(t.isFr()),
            "lemma": lemma if isinstance(lemma, str) else None}


def model_tok(f):
    return {"r": f["r"], "ct": f["ct"], "lier": f["lier"], "sg": f["sg"], "hw": f["hw"], "hr": f["hr"], "fr": f["fr"]}


class Capture:
    """records every doElision call (input facts, output realizations or exception) and every top-level detokenize"""

    def __init__(self, keep_calls=True, keep_texts=True, max_records=2_000_000):
        self.calls = []
        self.texts = []
        self.keep_calls = keep_calls
        self.keep_texts = keep_texts
        self.max = max_records
        self.n_calls = 0

    def clear(self):
        self.calls = []
        self.texts = []


def install(cap):
    """idempotent: the wrappers are installed once per process, `cap` becomes the current sink (None: off)"""
    global _installed
    from pyrealb.ConstituentFr import ConstituentFr
    from pyrealb.ConstituentEn import ConstituentEn
    from pyrealb.Constituent import Constituent
    from pyrealb.Lexicon import getLexicon
    if _installed is None:
        _installed = {"cap": cap}
        st = _installed

        def wrap(cls, lang):
            orig = cls.doElision

            def doElision(self, cList):
                c = st["cap"]
                if c is None or not c.keep_calls or len(cList) < 2:
                    return orig(self, cList)
                c.n_calls += 1
                try:
                    facts = [tokfacts(t, getLexicon("fr")) for t in cList]
                except Exception:  # noqa: never disturb the observed program
                    return orig(self, cList)
                contr = bool(lang == "en" and hasattr(self, "contraction") and self.contraction == True)  # noqa: E712
                try:
                    res = orig(self, cList)
                except Exception as e:
                    if len(c.calls) < c.max:
                        c.calls.append({"lang": lang, "contr": contr, "toks": facts, "out": {"err": type(e).__name__}})
                    raise
                if len(c.calls) < c.max:
                    c.calls.append({"lang": lang, "contr": contr, "toks": facts,
                                    "out": {"r": [t.realization for t in cList]}})
                return res
            doElision.__wrapped__ = orig
            cls.doElision = doElision
        wrap(ConstituentFr, "fr")
        wrap(ConstituentEn, "en")
        orig_detok = Constituent.detokenize

        def detokenize(self, terminals):
            c = st["cap"]
            if c is not None and c.keep_texts and len(terminals) >= 2 and len(c.texts) < c.max:
                try:
                    c.texts.append({"lang": self.lang(), "toks": [tokfacts(t, getLexicon("fr")) for t in terminals]})
                except Exception:  # noqa
                    pass
            return orig_detok(self, terminals)
        detokenize.__wrapped__ = orig_detok
        Constituent.detokenize = detokenize
    else:
        _installed["cap"] = cap
    return cap
