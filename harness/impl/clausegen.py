"""English clause specifications (DESIGN §4, fragment G restricted to what C04/C08 quantify over):
generator, the framework's OWN trivial rendering of one specification into both notations, the adapter that runs
the real pyrealb, the direct oracle (the text of C04 / C08 evaluated on the tokens the library produced), the
shrinker and the finding signatures, and the parallel sweep shared by C04 and the English half of C08.

A specification is a plain dict
  {"subj": Arg, "verb": lemma, "t": "p|ps|f|c", "obj": Arg|None, "pps": [{"prep": p, "arg": NPArg}]}
  Arg = {"k":"np","det":d,"noun":n,"n":"s|p"} | {"k":"pro","pe":1|2|3,"n":"s|p","g":"m|f|n"}
and `typ` a dict of sentence-type flags.  Nothing here calls the library's toDependent/toConstituent.
"""
import contextlib
import io
import itertools
import json
import multiprocessing
import os
import random
import re
import sys

from harness import core
from harness.translate import clauseen as TR

TENSES = ["p", "ps", "f", "c"]
MODS = [False, "poss", "perm", "nece", "obli", "will"]
INTS = [False, "yon", "wos", "wod", "woi", "was", "wad", "wai", "whe", "why", "whn", "how", "muc", "tag"]
BOOLS = ["neg", "pas", "perf", "prog", "contr", "exc"]
PANEL = ["be", "have", "do", "can", "will", "go", "eat", "try", "stop", "love", "watch", "cut", "pay", "see"]
CLOSED = ["be", "have", "do", "can", "will", "shall", "may", "must"]
MODALS = ["can", "will", "shall", "may", "must"]
INT_GROUPS = [["yon", "how", "why", "muc"], ["wos", "was"], ["wod", "wad"], ["woi", "wai", "whe", "whn"], ["tag"]]
DETS = ["the", "this", "that"]


def np_(noun, n="s", det="the"):
    return {"k": "np", "det": det, "noun": noun, "n": n}


def pro_(pe, n="s", g="n"):
    return {"k": "pro", "pe": pe, "n": n, "g": g}


SUBJECTS = [pro_(1, "s", "m"), pro_(2, "s", "f"), pro_(3, "s", "f"), pro_(1, "p", "m"), np_("cat", "s"), np_("dog", "p")]

_DATA = {}


def data():
    """lexicon / rules of the tree under test, read as DATA (json), plus the constants lifted by the translator"""
    if _DATA:
        return _DATA
    d = os.path.join(core.REPO, "src", "pyrealb", "data")
    lex = json.load(open(os.path.join(d, "lexicon-en.json"), encoding="utf-8"))
    rules = json.load(open(os.path.join(d, "rules-en.json"), encoding="utf-8"))
    # non-strict: when a code-shape constant can no longer be lifted (broken tie) the oracle still needs the data part
    consts = TR.extract(strict=False)
    missing = [k for k in ("compoundAux", "compoundPart", "intPrefix", "contractionEnTable", "prepositionList", "closedParadigms")
               if k not in consts]
    if missing:
        from harness.translate import TranslateError
        raise TranslateError("clauseen: %s could not be lifted (%s): not even the model-independent oracle can run"
                             % (", ".join(missing), consts.get("_error")))
    _DATA.update(lex=lex, rules=rules, consts=consts)
    verbs = {}
    for w, e in lex.items():
        if "V" in e and e["V"].get("tab") in rules["conjugation"] and re.fullmatch(r"[a-z]+", w):
            p = TR.paradigm(w, rules["conjugation"][e["V"]["tab"]])
            # a form that is the empty string (`ought`: b = "") gives an empty token that doFormat deletes: outside G
            if p is not None and "" not in [p["b"], p["pp"], p["pr"]] + (p["p"] or []) + (p["ps"] or []):
                verbs[w] = p
    _DATA["verbs"] = verbs
    bytab = {}
    for w in sorted(verbs):
        bytab.setdefault(lex[w]["V"]["tab"], []).append(w)
    _DATA["verbs_by_tab"] = bytab
    nouns = {}
    for w, e in lex.items():
        if "N" in e and e["N"].get("cnt") == "yes" and re.fullmatch(r"[a-z]+", w):
            t = rules["declension"].get(e["N"].get("tab"))
            if not t:
                continue
            forms = {r.get("n"): r["val"] for r in t["declension"]}
            if set(forms) != {"s", "p"} or not w.endswith(t["ending"]):
                continue
            stem = w[:len(w) - len(t["ending"])] if t["ending"] else w
            nouns[w] = {"s": stem + forms["s"], "p": stem + forms["p"], "g": e["N"].get("g", "n"), "tab": e["N"]["tab"]}
    _DATA["nouns"] = nouns
    nb = {}
    for w in sorted(nouns):
        nb.setdefault((nouns[w]["tab"], nouns[w]["g"]), []).append(w)
    _DATA["nouns_by"] = nb
    dets = {}
    for dname in DETS:
        t = rules["declension"][lex[dname]["D"]["tab"]]
        stem = dname[:len(dname) - len(t["ending"])] if t["ending"] else dname
        f = {r.get("n"): stem + r["val"] for r in t["declension"]}
        dets[dname] = {"s": f.get("s", f.get("x")), "p": f.get("p", f.get("x"))}
    _DATA["dets"] = dets
    preps = sorted(w for w, e in lex.items() if "P" in e and re.fullmatch(r"[a-z]+", w))
    pl = _DATA["consts"]["prepositionList"]
    cls = {}
    for p in preps:
        cls.setdefault((p in pl["all"], p in pl["whe"], p in pl["whn"]), []).append(p)
    _DATA["preps_by"] = cls
    _DATA["contr"] = dict(_DATA["consts"]["contractionEnTable"])
    _DATA["int_prefix"] = dict(_DATA["consts"]["intPrefix"])
    return _DATA


def verb_class(lemma):
    return lemma if lemma in CLOSED else "other"


# --------------------------------------------------------------------------------------------- model lines

POSS = {(1, "s"): "my", (1, "p"): "our", (2, "s"): "your", (2, "p"): "your", (3, "s"): "its", (3, "p"): "their"}


def det_word(a, maje=False):
    """the determiner's form: the/this/that by number of the noun; the possessive D("my").pe(pe).ow(ow) by owner — with
    typ maje a first-person singular owner becomes plural (TerminalEn.check_majestic), the only effect of maje in English"""
    if a["det"] == "my":
        pe, ow = a.get("dpe", 1), a.get("dow", "s")
        if maje and pe == 1 and ow == "s":
            ow = "p"
        return POSS[(pe, ow)]
    return data()["dets"][a["det"]][a["n"]]


def arg_line(a, ids, maje=False):
    if a["k"] == "np":
        D = data()
        i = ids.setdefault((a["det"], a["noun"], a["n"]), len(ids))
        return {"k": "np", "id": i, "n": a["n"], "g": D["nouns"][a["noun"]]["g"],
                "words": [det_word(a, maje), D["nouns"][a["noun"]][a["n"]]]}
    return {"k": "pro", "pe": a["pe"], "n": a["n"], "g": a["g"]}


def typ_clean(typ):
    return {k: v for k, v in typ.items() if v is not False and v is not None}


def model_line(spec, typ, notation):
    D = data()
    ids = {}
    p = D["verbs"][spec["verb"]]
    # every noun phrase gets its own id, also when two are lexically equal
    maje = bool(typ.get("maje"))
    subj = arg_line(spec["subj"], ids, maje)
    obj = None
    if spec.get("obj"):
        obj = arg_line(spec["obj"], {} if spec["obj"]["k"] != "np" else ids, maje)
        if obj["k"] == "np":
            obj["id"] = 100
    pps = []
    for j, pp in enumerate(spec.get("pps", [])):
        a = arg_line(pp["arg"], {}, maje)
        a["id"] = 200 + j
        pps.append({"prep": pp["prep"], "arg": a})
    if subj["k"] == "np":
        subj["id"] = 1
    return {"op": "clause", "notation": notation,
            "spec": {"subj": subj, "verb": {"lemma": spec["verb"], "forms": p}, "t": spec["t"], "obj": obj, "pps": pps},
            "typ": typ_clean(typ)}


# --------------------------------------------------------------------------------------------- real library

def _P():
    import pyrealb
    return pyrealb


def _det(P, a, L):
    if a["det"] == "my":
        return P.D("my", *L).pe(a.get("dpe", 1)).ow(a.get("dow", "s"))
    return P.D(a["det"], *L)


def render_phrase(spec, lang=None):
    """S(subj, VP(V, obj, PP(P, NP)...)); lang="en": every constructor gets the explicit language"""
    P = _P()
    L = (lang,) if lang else ()
    K = {"lang": lang} if lang else {}

    def arg(a):
        if a["k"] == "np":
            return P.NP(_det(P, a, L), P.N(a["noun"], *L).n(a["n"]), **K)
        lemma = a.get("lemma", "I")
        return P.Pro(lemma, *L).pe(a["pe"]).n(a["n"]).g(a["g"])
    vp = [P.V(spec["verb"], *L).t(spec["t"])]
    if spec.get("obj"):
        o = dict(spec["obj"])
        if o["k"] == "pro":
            o["lemma"] = "me"
        vp.append(arg(o))
    for pp in spec.get("pps", []):
        vp.append(P.PP(P.P(pp["prep"], *L), arg(pp["arg"]), **K))
    return P.S(arg(spec["subj"]), P.VP(*vp, **K), **K)


def render_dep(spec, lang=None):
    """root(V, subj(N, det(D)), comp(N, det(D)), comp(P, comp(N, det(D)))...)"""
    P = _P()
    L = (lang,) if lang else ()
    K = {"lang": lang} if lang else {}

    def arg(rel, a, lemma):
        if a["k"] == "np":
            return rel(P.N(a["noun"], *L).n(a["n"]), P.det(_det(P, a, L), **K), **K)
        return rel(P.Pro(lemma, *L).pe(a["pe"]).n(a["n"]).g(a["g"]), **K)
    deps = [arg(P.subj, spec["subj"], "I")]
    if spec.get("obj"):
        deps.append(arg(P.comp, spec["obj"], "me"))
    for pp in spec.get("pps", []):
        deps.append(P.comp(P.P(pp["prep"], *L), arg(P.comp, pp["arg"], "me"), **K))
    return P.root(P.V(spec["verb"], *L).t(spec["t"]), *deps, **K)


def alter(k, v):
    """another legal value of flag k (the value an earlier .typ() call gave before a later call overrode it)"""
    if k == "int":
        return "wos" if v == "yon" else "yon"
    if k == "mod":
        return "obli" if v == "poss" else "poss"
    return not bool(v)


def derive_calls(typ, hist):
    """the .typ() history of a variant: a first call that gives the flags of `hist` ANOTHER value, then one call per such
    flag that sets the final value (False when the flag is finally absent); the final state equals `typ`"""
    final = dict(typ)
    first = dict(final)
    for k in hist:
        first[k] = alter(k, final.get(k, False))
    return [first] + [{k: final.get(k, False)} for k in hist]


def impl_eval(spec, typ, notation):
    """runs the real library; returns (canonical answer, raw tokens [(constType, lemma, realization)]).
    spec["var"] (optional): {"cur": "fr-late"} = built under loadEn(), realized while French is current;
    {"cur": "fr-all"} = French current all along, every constructor with lang="en"; {"hist": [flags]} = the flags are set
    by several .typ() calls, later calls overriding earlier values (derive_calls)"""
    P = _P()
    var = spec.get("var") or {}
    cur = var.get("cur")
    err = io.StringIO()
    try:
        with contextlib.redirect_stderr(err):
            if cur == "fr-all":
                P.loadFr()
                lang = "en"
            else:
                P.loadEn()
                lang = None
            e = render_phrase(spec, lang) if notation == "phrase" else render_dep(spec, lang)
            if var.get("hist"):
                for c in derive_calls(typ, var["hist"]):
                    e = e.typ(dict(c))
            else:
                e = e.typ(dict(typ))
            if cur == "fr-late":
                P.loadFr()
            toks = e.real()
            raw = [(t.constType, t.lemma, t.realization) for t in toks]
            text = e.detokenize(toks)
    except Exception as ex:  # noqa
        P.loadEn()
        return {"err": type(ex).__name__}, None
    finally:
        P.loadEn()
    return {"toks": [r[2] for r in raw], "text": text, "w": err.getvalue().count("\n")}, raw


# --------------------------------------------------------------------------------------------- direct oracle (C04)

def expected_group(spec, typ):
    """the verb group the property text prescribes: lemmas, and the form each element must carry"""
    c = data()["consts"]
    comp = dict(c["compoundAux"])
    part = dict(c["compoundPart"])
    v = spec["verb"]
    aux = []
    if typ.get("mod"):
        aux.append((comp[typ["mod"]], "b"))
    elif spec["t"] in ("f", "c"):
        aux.append((comp["future"], "b"))
    if typ.get("perf"):
        aux.append((comp["perfect"], part["perfect"]))
    if typ.get("prog"):
        aux.append((comp["continuous"], part["continuous"]))
    if typ.get("pas"):
        aux.append((comp["passive"], part["passive"]))
    lexical = v not in ("be", "have") and v not in [a for _, a in c["compoundAux"]]
    i = typ.get("int")
    questioned = bool(i) and i not in ("wos", "was", "tag")
    do = (not aux) and lexical and (bool(typ.get("neg")) or questioned)
    if do:
        aux = [("do", "b")]
    lemmas = [a for a, _ in aux] + [v]
    forms = ["fin"] + [f for _, f in aux]
    return lemmas, forms, do


def subject_features(spec, typ):
    """(pe, n) the finite element must agree with: the subject, or the promoted object in a passive"""
    a = spec["subj"]
    if typ.get("pas"):
        a = spec.get("obj")
        if a is None:
            return (3, "s")          # dummy `it`
    if a["k"] == "np":
        return (3, a["n"])
    return (a["pe"], a["n"])


def forms_of(lemma):
    D = data()
    if lemma in D["consts"]["closedParadigms"]:
        return D["consts"]["closedParadigms"][lemma]
    return D["verbs"][lemma]


def arg_words(a, case=None):
    D = data()
    if a["k"] == "np":
        dets = sorted({det_word(a, False), det_word(a, True)})
        return [[d, D["nouns"][a["noun"]][a["n"]]] for d in dets]
    nom = {(1, "s"): "I", (1, "p"): "we", (3, "p"): "they"}.get((a["pe"], a["n"]))
    acc = {(1, "s"): "me", (1, "p"): "us", (3, "p"): "them"}.get((a["pe"], a["n"]))
    if a["pe"] == 2:
        nom = acc = "you"
    if nom is None:
        nom = {"m": "he", "f": "she"}.get(a["g"], "it")
        acc = {"m": "him", "f": "her"}.get(a["g"], "it")
    return [[nom], [acc]]


def nom_words(a):
    """the forms an argument takes in subject position: a noun phrase as it is, a pronoun in the nominative"""
    w = arg_words(a)
    return w if a["k"] == "np" else w[:1]


def word_of(r):
    m = re.match(r"[^\w'\[-]*([\w'\[\]-]+)", r)
    return m.group(1) if m else ""


UNCONTR = None


def uncontract(w):
    """(first, second) words a contracted form of the table stands for, possibly several candidates"""
    global UNCONTR
    if UNCONTR is None:
        UNCONTR = {}
        for k, v in data()["contr"].items():
            UNCONTR.setdefault(v, []).append(tuple(k.split("+")))
        UNCONTR.setdefault("can't", []).append(("cannot", ""))
    return UNCONTR.get(w, [])


def is_verbish(t):
    return t[0] == "V" or (t[0] == "Q" and isinstance(t[2], str) and t[2].startswith("[["))


def oracle_c04(spec, typ, notation, ans, raw):
    """returns a list of (clause, detail): the clauses of C04 the real output violates.
    Independent of the model: it only reads the tokens the library produced, the specification, and DATA of the
    repository (rules-en.json, lexicon tables, the literal contraction table and preposition lists)."""
    if "err" in ans:
        return [("exception:" + ans["err"], "the realization raised")]
    out = []
    D = data()
    contr_tbl = D["contr"]
    contr_vals = set(contr_tbl.values()) | {"can't"}
    i = typ.get("int") or None
    words = [word_of(r[2]) for r in raw]
    kinds = [r[0] for r in raw]
    lemmas = [r[1] for r in raw]
    n = len(raw)

    def own_form(k):
        if kinds[k] == "V" and (lemmas[k] in D["verbs"] or lemmas[k] in D["consts"]["closedParadigms"]):
            f = forms_of(lemmas[k])
            return words[k] in [f["b"], f["pp"], f["pr"]] + (f["p"] or []) + (f["ps"] or [])
        return False
    # ---- the tag (V [not] Pro at the very end) is not part of the clause the property describes
    main_end = n
    if i == "tag":
        k = n - 1
        while k >= 0 and not (kinds[k] == "V" or (kinds[k] == "Q" and (lemmas[k] == "cannot" or raw[k][2].startswith("[[")))):
            k -= 1
        if k <= 0:
            return [("tag_shape", "no auxiliary found in the tag")]
        if not any(kinds[j] == "V" or (kinds[j] == "Q" and (lemmas[j] == "cannot" or raw[j][2].startswith("[[")))
                   for j in range(k)):
            # the only verb of the output is the clause's own: the tag question was silently not produced
            return [("tag_missing", "int=tag but no tag after the clause: %r" % ans.get("text"))]
        main_end = k
    # ---- contraction: exactly the table, only with contr (the tag is always contracted)
    spec_words = set(x for a in [spec["subj"], spec.get("obj")] + [q["arg"] for q in spec.get("pps", [])] if a
                     for c in arg_words(a) for x in c)
    for k in range(n):
        w = words[k]
        if "'" in w and not own_form(k) and w not in spec_words:
            if w not in contr_vals:
                out.append(("contraction_exact", "%r is not a contraction of the table" % w))
            elif not typ.get("contr") and k < main_end:
                out.append(("contraction_exact", "%r produced without contr" % w))
    if typ.get("contr"):
        seq = [w for w in words if w]
        for a, b in zip(seq, seq[1:]):
            if a + "+" + b in contr_tbl or a == "cannot":
                out.append(("contraction_exact", "%s %s left uncontracted" % (a, b)))
                break
    # ---- read the clause: expand the contractions
    toks = []          # (kind, lemma, word | list of candidate words, raw index)
    for k in range(main_end):
        w = words[k]
        if not w:
            continue
        if own_form(k):
            toks.append((kinds[k], lemmas[k], w, k))
        elif kinds[k] == "V" and w in contr_vals and w.endswith("n't"):
            first = [c for c in uncontract(w) if c[1] == "not"]
            toks.append(("V", lemmas[k], first[0][0] if first else w, k))
            toks.append(("Adv", "not", "not", k))
        elif w in ("can't", "cannot") and lemmas[k] == "cannot":
            toks.append(("V", "can", "cannot", k))
            toks.append(("Adv", "not", "not", k))
        elif kinds[k] != "V" and "'" in w and w in contr_vals and w not in spec_words:
            toks.append((kinds[k], lemmas[k], w.split("'")[0], k))
            if k + 1 < main_end and kinds[k + 1] == "V" and not words[k + 1]:
                # subject/prefix + auxiliary (I'm, he's, what's): the emptied auxiliary follows
                toks.append(("V", lemmas[k + 1], sorted(set(c[1] for c in uncontract(w))), k))
        else:
            toks.append((kinds[k], lemmas[k], w, k))
    exp_lemmas, exp_forms, exp_do = expected_group(spec, typ)
    vpos = [k for k, t in enumerate(toks) if is_verbish(t)]
    verbs = [toks[k] for k in vpos]
    got_lemmas = [t[1] for t in verbs]
    pe, num = subject_features(spec, typ)
    group_ok = got_lemmas == exp_lemmas
    if not group_ok:
        got_do = len(got_lemmas) >= 1 and got_lemmas[0] == "do" and (len(got_lemmas) < 2 or got_lemmas[1:] != exp_lemmas[1:] or not exp_do)
        if (got_lemmas[1:] == exp_lemmas and got_lemmas[:1] == ["do"]) or (exp_do and exp_lemmas[1:] == got_lemmas):
            out.append(("do_support_iff", "verb group %r, the property prescribes %r" % (got_lemmas, exp_lemmas)))
        else:
            out.append(("verb_group_order", "verb group %r, the property prescribes %r" % (got_lemmas, exp_lemmas)))
    else:
        for j, (t, lem, form) in enumerate(zip(verbs, exp_lemmas, exp_forms)):
            f = forms_of(lem)
            w = t[2]
            cand = w if isinstance(w, list) else [w]
            if form == "fin":
                tense = {"p": "p", "ps": "ps", "f": "p", "c": "ps"}[spec["t"]]
                cells = f[tense]
                if not cells or i in ("wos", "was"):
                    continue          # defective verb (C01) / subject = the question word: left open by the property
                want = cells[pe - 1 + (3 if num == "p" else 0)]
                if want is None:
                    continue
                if lem == "can" and cand == ["cannot"] and tense == "p":
                    cand = ["can"]
                if want not in cand:
                    finite = set(x for key in ("p", "ps") for x in (f[key] or []) if x)
                    if set(cand) & finite:
                        out.append(("agreement", "first element %r, expected %r (pe=%s n=%s)" % (w, want, pe, num)))
                    else:
                        out.append(("only_first_finite", "first element %r is not a finite form of %s" % (w, lem)))
            else:
                want = f[form]
                if want is not None and want not in cand:
                    out.append(("only_first_finite", "element %d is %r, expected the %s form %r" % (j, w, form, want)))
        npos = [k for k, t in enumerate(toks) if t[0] == "Adv" and t[1] == "not"]
        if typ.get("neg"):
            if len(npos) != 1:
                out.append(("not_after_first", "%d occurrences of not" % len(npos)))
            elif vpos:
                between = toks[vpos[0] + 1:npos[0]]
                if npos[0] < vpos[0] or any(t[0] in ("V", "P", "Adv") or is_verbish(t) for t in between):
                    out.append(("not_after_first", "not is at %d, the first verb at %d" % (npos[0], vpos[0])))
        elif npos:
            out.append(("not_after_first", "not without neg"))
    # ---- word order: prefix, fronting, dropped constituent, passive swap
    seqw = [t[2] if isinstance(t[2], str) else "'" for t in toks]
    subj_arg = spec["subj"]
    obj_arg = spec.get("obj")
    new_subj = obj_arg if typ.get("pas") else subj_arg
    first_v = vpos[0] if vpos else None
    last_v = vpos[-1] if vpos else None

    def find_sub(cands, lo=0, hi=None):
        hi = len(seqw) if hi is None else hi
        for c in cands:
            for k in range(lo, hi - len(c) + 1):
                if seqw[k:k + len(c)] == c:
                    return k
        return None
    if typ.get("pas") and obj_arg is not None:
        if i not in ("wos", "was", "wod", "wad"):
            # the promoted object stands where a subject stands: before the main verb, in its nominative form
            if find_sub(nom_words(obj_arg), 0, last_v) is None:
                out.append(("passive_swap", "the object is not the subject of the passive"))
        by = [k for k, t in enumerate(toks) if t[0] == "P" and t[2] == "by"]
        prefixed_by = i in ("woi", "wai") and seqw[:1] == ["by"]
        if prefixed_by:
            pass          # the by-phrase itself is what is questioned
        elif not by:
            out.append(("passive_swap", "no by-phrase"))
        elif not any(seqw[b + 1:b + 1 + len(c)] == c for b in by for c in arg_words(subj_arg)):
            out.append(("passive_swap", "by is not followed by the demoted subject"))
    if i and i != "tag":
        pref = D["int_prefix"].get(i, "")
        head = raw[0][2].strip().rstrip("?! ") if raw else ""
        removed_prep = None
        if i != "yon":
            allowed = {pref}
            if i == "wod":
                allowed.add("whom")
            if i in ("woi", "wai"):
                wh = "whom" if i == "woi" else "what"
                for p in [q["prep"] for q in spec.get("pps", [])] + (["by"] if typ.get("pas") else []):
                    allowed.add(p + " " + wh)
            h = head
            if typ.get("contr") and "'" in h.split(" ")[-1] and h.split(" ")[-1] in contr_vals:
                h = h[:h.rindex("'")]
            if not raw or raw[0][0] != "Q" or h not in allowed:
                out.append(("interrogative_fronting", "the clause starts with %r, expected one of %r" % (head, sorted(allowed))))
            elif i in ("woi", "wai") and h != pref:
                removed_prep = h.split(" ")[0]
        if i in ("wos", "was"):
            # the questioned subject is gone (the same words inside a by-phrase or an object do not count)
            if new_subj is not None and first_v is not None and find_sub(arg_words(new_subj), 0, first_v) is not None:
                out.append(("questioned_constituent_dropped", "the subject is still there"))
        elif group_ok and first_v is not None:
            sw = nom_words(new_subj) if new_subj is not None else [["it"]]
            sp = find_sub(sw, 0, last_v)
            if sp is not None and first_v > sp:
                out.append(("interrogative_fronting", "the subject precedes the first element of the verb group"))
        if i in ("wod", "wad") and obj_arg is not None and last_v is not None:
            ow = arg_words(obj_arg)
            if typ.get("pas"):
                if find_sub(ow[:1], 0, last_v) is not None:
                    out.append(("questioned_constituent_dropped", "the (promoted) direct object is still there"))
            else:
                # the object's place: after the main verb (and a subject that follows a fronted main verb), before
                # the first preposition
                lo = last_v + 1
                for c in nom_words(subj_arg):
                    if seqw[lo:lo + len(c)] == c:
                        lo += len(c)
                if lo < len(toks) and toks[lo][0] == "Adv":
                    lo += 1
                pk = [k for k in range(lo, len(toks)) if toks[k][0] == "P"]
                if find_sub(ow, lo, pk[0] if pk else None) is not None:
                    out.append(("questioned_constituent_dropped", "the direct object is still there"))
        if i in ("woi", "wai", "whe", "whn"):
            pl = D["consts"]["prepositionList"]
            have = [p["prep"] for p in spec.get("pps", [])] + (["by"] if typ.get("pas") else [])
            left = [t[2] for t in toks[1:] if t[0] == "P"]
            gone = list(have)
            for p in left:
                if p in gone:
                    gone.remove(p)
            key = {"whe": "whe", "whn": "whn"}.get(i, "all")
            if len(left) + len(gone) != len(have) or len(gone) > 1 or any(p not in pl[key] for p in gone):
                out.append(("questioned_constituent_dropped", "prepositional phrases %r became %r" % (have, left)))
            elif i in ("woi", "wai") and gone != ([removed_prep] if removed_prep else []) and \
                    not (gone and head == gone[0] + " " + ("whom" if i == "woi" else "what")):
                out.append(("questioned_constituent_dropped", "prefix %r but the phrases removed are %r" % (head, gone)))
    seen = set()
    res = []
    for c, dt in out:
        if c not in seen:
            seen.add(c)
            res.append((c, dt))
    return res


# --------------------------------------------------------------------------------------------- evaluation, shrinking

def subj_desc(a, role="subj"):
    """class of an argument; a lexical item that survived shrinking (it could not be replaced by the first of its
    class without losing the failure) is part of the class"""
    if a is None:
        return "none"
    if a["k"] == "np":
        g = data()["nouns"][a["noun"]]["g"]
        d = "np:" + a["n"] + (":" + g if g != "n" else "")
        if a["noun"] not in ("cat", "mouse", "house", "man", "woman", "child"):
            d += ":noun=" + a["noun"]
        if a["det"] != "the":
            d += ":det=" + a["det"] + ("%d%s" % (a.get("dpe", 1), a.get("dow", "s")) if a["det"] == "my" else "")
        return d
    return "pro:%d%s%s" % (a["pe"], a["n"], a["g"] if (a["pe"] == 3 and a["n"] == "s") else "")


def prep_class(p):
    pl = data()["consts"]["prepositionList"]
    return "".join(c for c, k in (("a", "all"), ("w", "whe"), ("n", "whn")) if p in pl[k]) or "-"


def abstract_key(spec, typ):
    return (spec["verb"], json.dumps(spec["subj"], sort_keys=True), json.dumps(spec.get("obj"), sort_keys=True),
            json.dumps(spec.get("pps", []), sort_keys=True), spec["t"], json.dumps(typ_clean(typ), sort_keys=True),
            json.dumps(spec.get("var") or None, sort_keys=True))


class Evaluator:
    """realizes one specification in both notations with the real library, memoized: the set of failed clauses"""

    def __init__(self):
        self.memo = {}
        self.amemo = {}

    def run(self, spec, typ):
        key = abstract_key(spec, typ)
        r = self.memo.get(key)
        if r is None:
            res = {}
            for nota in ("phrase", "dep"):
                ans, raw = impl_eval(spec, typ, nota)
                res[nota] = (ans, raw, oracle_c04(spec, typ, nota, ans, raw))
            fails = set()
            for nota in ("phrase", "dep"):
                for c, _ in res[nota][2]:
                    fails.add(("C04", nota, c))
            a, b = res["phrase"][0], res["dep"][0]
            if a.get("text") != b.get("text") or ("err" in a) != ("err" in b) or a.get("err") != b.get("err"):
                fails.add(("C08", "both", c08_kind(a, b)))
            # metamorphic clauses: the same clause realized plainly (English current, one .typ() call) is the reference
            var = spec.get("var") or {}
            if var:
                base = dict(spec)
                base.pop("var")
                bres = self.answers(base, typ)
                for nota in ("phrase", "dep"):
                    x, y = res[nota][0], bres[nota]
                    if x.get("text") != y.get("text") or x.get("toks") != y.get("toks") or x.get("err") != y.get("err"):
                        if var.get("cur"):
                            fails.add(("C04", nota, "other_language_current"))
                        if var.get("hist"):
                            fails.add(("C04", nota, "typ_history"))
            if typ.get("maje") and not has_majestic_possessive(spec):
                t0 = {k: v for k, v in typ.items() if k != "maje"}
                bres = self.answers(spec, t0)
                for nota in ("phrase", "dep"):
                    x, y = res[nota][0], bres[nota]
                    if x.get("text") != y.get("text") or x.get("err") != y.get("err"):
                        fails.add(("C04", nota, "maje_inert"))
            r = (res, fails)
            if len(self.memo) < 400000:
                self.memo[key] = (None, fails)      # keep the memo small: only the verdicts
            return r
        return r

    def fails(self, spec, typ):
        return self.run(spec, typ)[1]

    def answers(self, spec, typ):
        """canonical answers of both notations (small memo of its own: references of the metamorphic clauses)"""
        key = abstract_key(spec, typ)
        r = self.amemo.get(key)
        if r is None:
            r = {nota: impl_eval(spec, typ, nota)[0] for nota in ("phrase", "dep")}
            if len(self.amemo) < 200000:
                self.amemo[key] = r
        return r


def has_majestic_possessive(spec):
    """a first-person-singular possessive determiner: the one word of an English clause that typ maje changes"""
    args = [spec["subj"], spec.get("obj")] + [p["arg"] for p in spec.get("pps", [])]
    return any(a and a["k"] == "np" and a["det"] == "my" and a.get("dpe", 1) == 1 and a.get("dow", "s") == "s" for a in args)


def c08_kind(a, b):
    if "err" in a or "err" in b:
        return "exception:%s/%s" % (a.get("err", "-"), b.get("err", "-"))
    return "text"


CANON_NOUN = {"m": "man", "f": "woman", "x": "child"}


def canon_arg(a, role, keep_gender=True):
    if a is None:
        return None
    if a["k"] == "np":
        g = data()["nouns"][a["noun"]]["g"]
        noun = {"subj": "cat", "obj": "mouse", "pp": "house"}[role]
        if keep_gender and g in CANON_NOUN:
            noun = CANON_NOUN[g]
        return np_(noun, a["n"])
    return a


def canon_spec(spec, keep_gender=True, keep_prep=True):
    """every lexical item replaced by the first of its class (verb: lemma class; noun: gender class; determiner: the;
    preposition: membership class in preposition_list)"""
    v = spec["verb"]
    s2 = dict(spec)
    s2["verb"] = v if v in CLOSED else "eat"
    s2["subj"] = canon_arg(spec["subj"], "subj", keep_gender)
    s2["obj"] = canon_arg(spec.get("obj"), "obj", keep_gender)
    pps = []
    for pp in spec.get("pps", []):
        base = {"a": "with", "aw": "in", "an": "after", "awn": "before", "w": "via", "-": "out"}[prep_class(pp["prep"])]
        pps.append({"prep": base if keep_prep else "in", "arg": canon_arg(pp["arg"], "pp", keep_gender)})
    s2["pps"] = pps
    return s2


def shrink_candidates(spec, typ):
    """smaller inputs, simplest first: all lexical items at once by the first of their class, drop a flag, drop a
    complement, simpler flag values, then single lexical items"""
    t = typ_clean(typ)
    var = spec.get("var") or {}
    if var:
        s2 = dict(spec)
        s2.pop("var")
        yield s2, t
        for k in sorted(var):
            v2 = {kk: vv for kk, vv in var.items() if kk != k}
            if v2:
                s2 = dict(spec)
                s2["var"] = v2
                yield s2, t
        if var.get("cur") == "fr-all":
            s2 = dict(spec)
            s2["var"] = dict(var, cur="fr-late")
            yield s2, t
        if len(var.get("hist") or []) > 1:
            for k in var["hist"]:
                s2 = dict(spec)
                s2["var"] = dict(var, hist=[k])
                yield s2, t
    for kg, kp in ((False, False), (True, False), (True, True)):
        c = canon_spec(spec, kg, kp)
        if c != spec:
            yield c, t
    for k in sorted(t):
        t2 = dict(t)
        del t2[k]
        yield spec, t2
    if spec.get("pps"):
        for j in range(len(spec["pps"])):
            s2 = dict(spec)
            s2["pps"] = spec["pps"][:j] + spec["pps"][j + 1:]
            yield s2, t
    if spec.get("obj"):
        s2 = dict(spec)
        s2["obj"] = None
        yield s2, t
    if spec["t"] != "p":
        s2 = dict(spec)
        s2["t"] = "p"
        yield s2, t
    # a flag value: the first of its group, then the simplest value
    if t.get("int"):
        for g in INT_GROUPS:
            if t["int"] in g:
                for v in [g[0], "yon"]:
                    if v != t["int"]:
                        t2 = dict(t)
                        t2["int"] = v
                        yield spec, t2
    if t.get("mod") and t["mod"] != "poss":
        t2 = dict(t)
        t2["mod"] = "poss"
        yield spec, t2
    # single lexical items
    v = spec["verb"]
    for first in ["eat", "can" if v in MODALS else (v if v in CLOSED else "eat")]:
        if v != first:
            s2 = dict(spec)
            s2["verb"] = first
            yield s2, t
    for role in ("subj", "obj"):
        a = spec.get(role)
        if not a:
            continue
        noun = "cat" if role == "subj" else "mouse"
        simpler = [np_(noun, "s")]
        if a["k"] == "np":
            simpler += [np_(noun, a["n"]), canon_arg(a, role), np_(a["noun"], a["n"])]
        else:
            simpler += [np_(noun, a["n"]), pro_(3, "s", "n"), pro_(a["pe"], "s", "n"), pro_(a["pe"], a["n"], "n"), pro_(a["pe"], "s", a["g"])]
        seen = []
        for b in simpler:
            if b != a and b not in seen:
                seen.append(b)
                s2 = dict(spec)
                s2[role] = b
                yield s2, t
    for j, pp in enumerate(spec.get("pps", [])):
        base = {"a": "with", "aw": "in", "an": "after", "awn": "before", "w": "via", "-": "out"}[prep_class(pp["prep"])]
        order = ["in", "out", "after", base]
        rank = order.index(pp["prep"]) if pp["prep"] in order else len(order)
        for b in ({"prep": "in", "arg": np_("house", "s")}, {"prep": "out", "arg": np_("house", "s")},
                  {"prep": "after", "arg": np_("house", "s")}, {"prep": base, "arg": np_("house", "s")},
                  {"prep": pp["prep"], "arg": np_("house", "s")}, {"prep": base, "arg": pp["arg"]}):
            # strictly simpler only: an earlier preposition of the list, or the same one with the canonical noun
            if pp != b and (order.index(b["prep"]) if b["prep"] in order else len(order)) <= rank \
                    and not (b["prep"] == pp["prep"] and b["arg"] == pp["arg"]) \
                    and (b["prep"] != pp["prep"] or pp["arg"] != np_("house", "s")):
                s2 = dict(spec)
                s2["pps"] = spec["pps"][:j] + [b] + spec["pps"][j + 1:]
                yield s2, t


class Shrinker:
    def __init__(self, ev):
        self.ev = ev
        self.memo = {}

    def shrink(self, spec, typ, fail):
        key = (abstract_key(spec, typ), fail)
        r = self.memo.get(key)
        if r is not None:
            return r
        path = []
        visited = set()
        cur = (spec, typ_clean(typ))
        while True:
            k = (abstract_key(*cur), fail)
            if k in self.memo:
                res = self.memo[k]
                break
            path.append(k)
            visited.add(k[0])
            nxt = None
            for s2, t2 in shrink_candidates(*cur):
                if abstract_key(s2, t2) in visited:
                    continue          # never walk back (two lexical items of one class may both fail)
                if fail in self.ev.fails(s2, t2):
                    nxt = (s2, t2)
                    break
            if nxt is None:
                res = cur
                break
            cur = nxt
        for k in path:
            self.memo[k] = res
        return res


def signature(fail, spec, typ):
    """language + notation(s) + the minimal flags/structure that still fail, lexical items by class"""
    prop, nota, clause = fail
    t = typ_clean(typ)
    flags = ",".join("%s=%s" % (k, t[k]) if not isinstance(t[k], bool) else k for k in sorted(t))
    canon_prep = {"a": "with", "aw": "in", "an": "after", "awn": "before", "w": "via", "-": "out"}
    pps = "+".join(prep_class(p["prep"]) + ("" if p["prep"] == canon_prep[prep_class(p["prep"])] else ":" + p["prep"])
                   + ("" if p["arg"] == np_("house", "s") else "(" + subj_desc(p["arg"]) + ")")
                   for p in spec.get("pps", [])) or "0"
    vcls = verb_class(spec["verb"]) + ("" if spec["verb"] in CLOSED + ["eat"] else ":" + spec["verb"])
    head = "en|%s|%s" % ("phrase+dep" if nota == "both" else nota, clause)
    if prop == "C08":
        head = "C08-" + head
    sig = "%s|t=%s|%s|v=%s|s=%s|o=%s|pp=%s" % (head, spec["t"], flags or "-", vcls,
                                             subj_desc(spec["subj"]), subj_desc(spec.get("obj")), pps)
    var = spec.get("var") or {}
    if var:
        sig += "|var=" + ",".join("%s:%s" % (k, "+".join(var[k]) if isinstance(var[k], list) else var[k]) for k in sorted(var))
    return sig


# --------------------------------------------------------------------------------------------- generation

def full_product(verb, subj):
    """the complete flag product for one verb and one subject (object of the opposite number, one PP)"""
    objn = "s" if (subj["n"] == "p") else "p"
    spec0 = {"subj": subj, "verb": verb, "obj": np_("mouse", objn), "pps": [{"prep": "in", "arg": np_("house", "s")}]}
    for t in TENSES:
        spec = dict(spec0)
        spec["t"] = t
        for mod in MODS:
            for perf, prog, pas, neg, contr in itertools.product([False, True], repeat=5):
                for i in INTS:
                    yield spec, {"mod": mod, "perf": perf, "prog": prog, "pas": pas, "neg": neg, "contr": contr, "int": i}


def random_spec(rng, lexicon_wide=True):
    D = data()
    r = rng.random()
    if r < 0.45 or not lexicon_wide:
        verb = rng.choice(PANEL + ["shall", "may", "must"])
    else:
        tab = rng.choice(sorted(D["verbs_by_tab"]))
        verb = rng.choice(D["verbs_by_tab"][tab])

    def rnoun():
        k = rng.choice(sorted(D["nouns_by"]))
        return rng.choice(D["nouns_by"][k])

    def rnp(poss=False):
        a = np_(rnoun(), rng.choice("sp"), rng.choice(DETS))
        if poss and rng.random() < 0.12:
            a.update(det="my", dpe=rng.choice([1, 1, 2]), dow=rng.choice("sp"))
        return a

    def rpro():
        return pro_(rng.choice([1, 2, 3]), rng.choice("sp"), rng.choice("mfn"))
    subj = rpro() if rng.random() < 0.5 else rnp()
    o = rng.random()
    obj = None if o < 0.25 else (rnp(True) if o < 0.8 else rpro())
    pps = []
    for _ in range(rng.choice([0, 0, 1, 1, 2])):
        k = rng.choice(sorted(D["preps_by"]))
        pps.append({"prep": rng.choice(D["preps_by"][k]), "arg": rnp(True)})
    spec = {"subj": subj, "verb": verb, "t": rng.choice(TENSES), "obj": obj, "pps": pps}
    typ = {}
    for b in BOOLS:
        if rng.random() < (0.3 if b != "exc" else 0.1):
            typ[b] = True
        elif rng.random() < 0.05:
            typ[b] = False
    if rng.random() < 0.35:
        typ["mod"] = rng.choice(MODS[1:])
    if rng.random() < 0.6:
        typ["int"] = rng.choice(INTS[1:])
    if rng.random() < 0.12:
        typ["maje"] = True
    return spec, typ


HIST_KEYS = ["neg", "pas", "int", "mod", "perf", "prog", "contr"]


def random_variant(rng):
    """a clause specification with a variant: realized while the OTHER language is current (both ways of getting
    there), or its flags set by 2-3 .typ() calls of which the later override the earlier"""
    spec, typ = random_spec(rng)
    r = rng.random()
    if r < 0.2:
        # majestic stratum: first/second-person singular pronoun subject, few flags, verbs whose finite form shows number
        spec["subj"] = pro_(rng.choice([1, 1, 2]), "s", rng.choice("mfn"))
        spec["verb"] = rng.choice(["be", "be", "be", "have", "do", "eat"])
        spec["t"] = rng.choice(["p", "p", "ps"])
        typ = {k: v for k, v in typ.items() if k in ("neg", "int", "contr") and rng.random() < 0.4}
        typ["maje"] = True
        return spec, typ
    if r < 0.6:
        # language stratum, biased to what reads the lexicon late: passives, pronoun arguments, tags
        if rng.random() < 0.5:
            typ["pas"] = True
        if rng.random() < 0.6:
            spec["subj"] = pro_(rng.choice([1, 2, 3]), rng.choice("sp"), rng.choice("mfn"))
        spec["var"] = {"cur": rng.choice(["fr-late", "fr-all"])}
    else:
        ks = rng.sample(HIST_KEYS[:4], 1) if rng.random() < 0.7 else rng.sample(HIST_KEYS, 2)
        for k in ks:            # make the final value of an overridden flag interesting half of the time
            if rng.random() < 0.5:
                typ[k] = {"int": rng.choice(INTS[1:]), "mod": rng.choice(MODS[1:])}.get(k, True)
        spec["var"] = {"hist": ks}
    return spec, typ


# --------------------------------------------------------------------------------------------- the sweep

def _work(task):
    """one chunk: correspondence model/implementation in both notations + oracles + shrinking"""
    kind, arg, driver, want, oracle_only = task
    core.ensure_repo_on_path()
    if kind == "product":
        items = list(full_product(*arg))
    elif kind == "variants":
        seed, n = arg
        rng = random.Random(seed)
        items = [random_variant(rng) for _ in range(n)]
    else:
        seed, n, wide = arg
        rng = random.Random(seed)
        items = [random_spec(rng, wide) for _ in range(n)]
    lines = []
    for spec, typ in items:
        for nota in ("phrase", "dep"):
            lines.append(model_line(spec, typ, nota))
    # oracle-only mode: the model (translator or driver) is unavailable; the library is still realized in both
    # notations and judged by the direct oracles
    model = None if oracle_only else core.run_driver(lines, driver)
    ev = Evaluator()
    sh = Shrinker(ev)
    res = {"n": 0, "diffs": [], "ndiffs": 0, "fails": {}, "digests": [], "samples": [], "dist": {}, "nontrivial": 0, "errs": 0}
    import hashlib
    li = 0
    for spec, typ in items:
        full, fails = ev.run(spec, typ)
        if full is None:      # memo hit without answers (duplicate sample): recompute the answers
            full = {}
            for nota in ("phrase", "dep"):
                ans, raw = impl_eval(spec, typ, nota)
                full[nota] = (ans, raw, [])
        tc = typ_clean(typ)
        for nota in ("phrase", "dep"):
            line = lines[li]
            ans = full[nota][0]
            if model is None or (spec.get("var") or {}).get("cur"):
                m2 = ans          # the model has no notion of a current language: that stratum is judged by the oracle
            else:
                m = model[li]
                if "driver_error" in m:
                    raise core.Infra("driver error: %s on %s" % (m["driver_error"], core.canon(line)[:300]))
                m2 = {k: v for k, v in m.items() if k != "sym"}
            li += 1
            res["n"] += 1
            if "err" in ans:
                res["errs"] += 1
            if core.canon(m2) != core.canon(ans):
                res["ndiffs"] += 1
                if len(res["diffs"]) < 20:
                    res["diffs"].append({"line": line, "model": m2, "impl": ans})
            if tc:
                res["digests"].append(int.from_bytes(hashlib.md5(core.canon([line["spec"], line["typ"], nota, ans]).encode()).digest()[:7], "big"))
            if len(res["samples"]) < 2:
                res["samples"].append({"line": line, "answer": ans})
            for k, v in (spec.get("var") or {}).items():
                key = "var:%s=%s" % (k, v if isinstance(v, str) else "+".join(v))
                res["dist"][key] = res["dist"].get(key, 0) + 1
            if tc.get("maje"):
                res["dist"]["maje"] = res["dist"].get("maje", 0) + 1
            for k in ("int", "mod"):
                key = "%s=%s" % (k, tc.get(k, "-"))
                res["dist"][key] = res["dist"].get(key, 0) + 1
            for k in BOOLS:
                if tc.get(k):
                    res["dist"][k] = res["dist"].get(k, 0) + 1
            res["dist"]["v=" + verb_class(spec["verb"])] = res["dist"].get("v=" + verb_class(spec["verb"]), 0) + 1
        for f in fails:
            if f[0] not in want:
                continue
            ms, mt = sh.shrink(spec, typ, f)
            sig = signature(f, ms, mt)
            old = res["fails"].get(sig)
            inp = {"spec": ms, "typ": mt, "found_on": {"spec": spec, "typ": tc}}
            if old is None:
                full2, _ = ev.run(ms, mt)
                det = {}
                if full2 is None:
                    full2 = {nota: (impl_eval(ms, mt, nota)[0], None, None) for nota in ("phrase", "dep")}
                for nota in ("phrase", "dep"):
                    det[nota] = full2[nota][0].get("text", full2[nota][0].get("err"))
                if f[0] == "C04":
                    a, raw = impl_eval(ms, mt, f[1])
                    det["clause"] = [d for c, d in oracle_c04(ms, mt, f[1], a, raw) if c == f[2]]
                    if f[2] in ("other_language_current", "typ_history", "maje_inert"):
                        ref = {k: v for k, v in ms.items() if k != "var"}
                        rt = {k: v for k, v in mt.items() if not (f[2] == "maje_inert" and k == "maje")}
                        det["clause"] = ["the same clause realized plainly (English current, one .typ() call%s) gives %r"
                                         % (", no maje" if f[2] == "maje_inert" else "",
                                            impl_eval(ref, rt, f[1])[0].get("text"))]
                res["fails"][sig] = {"sig": sig, "input": inp, "detail": det, "count": 1}
            else:
                old["count"] += 1
    return res


def model_unavailable(ctx):
    """why the model side cannot be trusted/run in this check, or None: the translator broke (Gen/* is stale) or the
    driver could not be built"""
    for pf in ctx.proof_failures:
        if pf.get("theorem") in ("translator", "driver"):
            return "%s: %s" % (pf.get("theorem"), str(pf.get("msg"))[:200])
    if ctx.notes.get("driver_build_failed"):
        return "driver build failed"
    if not os.path.exists(os.path.join(core.BIN, ctx.driver)):
        return "driver not built"
    if "_error" in data()["consts"]:
        return "translator: " + data()["consts"]["_error"][:200]
    return None


def sweep(ctx, want=("C04", "C08"), label="clause", oracle_only=None):
    """the correspondence + oracle sweep; fills ctx (diffs, failures, coverage).
    oracle_only (default: decided by model_unavailable): no model comparison, only the real library in both notations
    judged by the direct oracles — so that a concrete failing clause is still found when the tie itself is broken"""
    import time
    t0 = time.time()
    core.ensure_repo_on_path()
    data()
    if oracle_only is None:
        why = model_unavailable(ctx)
        oracle_only = why is not None
        if why:
            ctx.notes["oracle_only(%s)" % label] = why
    tasks = []
    if ctx.tier == "thorough" or getattr(ctx, "deep", False) and os.environ.get("VERIF_DEEP_FULL"):
        for v in PANEL:
            for sj in SUBJECTS:
                tasks.append(("product", (v, sj), ctx.driver, want, oracle_only))
        for k in range(48):
            tasks.append(("sample", (ctx.rng.getrandbits(48), 2000, True), ctx.driver, want, oracle_only))
        for k in range(32):
            tasks.append(("variants", (ctx.rng.getrandbits(48), 1500), ctx.driver, want, oracle_only))
        ctx.exhaustive = True
        ctx.notes["exhaustive_scope"] = ("4 tenses x 6 mod x perf x prog x pas x neg x contr x 14 int, for each of the %d panel verbs "
                                         "x %d subjects (object of the opposite number, one prepositional complement), both notations"
                                         % (len(PANEL), len(SUBJECTS)))
    else:
        n = 10000 if not getattr(ctx, "deep", False) else 40000
        per = 500
        for k in range(n // per):
            tasks.append(("sample", (ctx.rng.getrandbits(48), per, True), ctx.driver, want, oracle_only))
        for k in range(max(4, n // 2500)):
            tasks.append(("variants", (ctx.rng.getrandbits(48), 400), ctx.driver, want, oracle_only))
    nproc = min(16, os.cpu_count() or 1)
    with multiprocessing.get_context("fork").Pool(nproc) as pool:
        results = pool.map(_work, tasks, chunksize=1)
    dist = {}
    total = 0
    for r in results:
        total += r["n"]
        ctx.cov["evaluations"] += r["n"]
        if not oracle_only:
            ctx.cov["traces_validated_against_impl"] += r["n"]
        ctx.distinct.update(r["digests"])
        for smp in r["samples"]:
            if len(ctx.cov["samples"]) < 8:
                ctx.cov["samples"].append(smp)
        for d in r["diffs"]:
            ctx.diff(d["line"], d["model"], d["impl"])
        if r["ndiffs"] > len(r["diffs"]):
            ctx.notes["corr_diffs_truncated"] = ctx.notes.get("corr_diffs_truncated", 0) + r["ndiffs"] - len(r["diffs"])
        for k, v in r["dist"].items():
            dist[k] = dist.get(k, 0) + v
        dist["exceptions"] = dist.get("exceptions", 0) + r["errs"]
        for sig, f in r["fails"].items():
            ctx.fail(sig, f["input"], f["detail"])
            key = "failing_inputs_by_signature"
            ctx.notes.setdefault(key, {})
            ctx.notes[key][sig] = ctx.notes[key].get(sig, 0) + f["count"]
    ctx.notes["distribution(%s)" % label] = dict(sorted(dist.items()))
    ctx.notes["sweep_wall_s(%s)" % label] = round(time.time() - t0, 1)
    return total


def c08_en(ctx):
    """English half of C08: correspondence of both notation models with the library + the oracle
    `phrase text == dependency text` on every specification of the sweep"""
    return sweep(ctx, want=("C08",), label="C08-en")
