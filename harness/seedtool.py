#!/venv/bin/python
"""Integrator's tool for seeded breakage (independent sub-agents wrote the changes knowing nothing of /verif).

  seedtool.py confirm Cnn X     in the scratch worktree /tmp/seed/Cnn: demo passes on the clean tree, fails with
                                 _out/X.diff applied, the pinned baseline still passes with it; then copies patch, demo
                                 and meta.json to /verif/seeded/Cnn-X/
  seedtool.py run Cnn X [prop]  applies seeded/Cnn-X/patch.diff to /repo, runs ./check <prop> (default Cnn) quick,
                                 undoes the patch, records the outcome in seeded/Cnn-X/meta.json
"""
import json
import os
import shutil
import subprocess
import sys

VERIF = os.path.dirname(os.path.dirname(os.path.abspath(__file__)))


def sh(cmd, cwd=None, env=None, timeout=3000):
    e = dict(os.environ)
    if env:
        e.update(env)
    p = subprocess.run(cmd, cwd=cwd, env=e, capture_output=True, text=True, timeout=timeout, shell=isinstance(cmd, str))
    return p.returncode, (p.stdout + p.stderr)


ROOT = os.environ.get("SEED_ROOT", "/tmp/seed")
# round 2 (SEED_ROOT=/tmp/seed2): the agents' A/B are stored as C/D
RENAME = ({"A": "C", "B": "D"} if ROOT.rstrip("/").endswith("seed2") else
          {"A": "E", "B": "F"} if ROOT.rstrip("/").endswith("seed3") else
          {"A": "G", "B": "H"} if ROOT.rstrip("/").endswith("seed4") else {"A": "A", "B": "B", "C": "C", "D": "D"})


def confirm(pid, x):
    wt = ROOT + "/" + pid
    out = os.path.join(wt, "_out")
    env = {"PYTHONPATH": os.path.join(wt, "src")}
    sh("git checkout -- .", cwd=wt)
    rc0, o0 = sh(["/venv/bin/python", os.path.join(out, "demo_%s.py" % x)], cwd=wt, env=env)
    rca, oa = sh(["git", "apply", os.path.join(out, x + ".diff")], cwd=wt)
    if rca != 0:
        print("patch does not apply:", oa)
        return 1
    rc1, o1 = sh(["/venv/bin/python", os.path.join(out, "demo_%s.py" % x)], cwd=wt, env=env)
    rcb, ob = sh(["/venv/bin/python", os.path.join(VERIF, "harness", "baseline.py"), wt])
    sh("git checkout -- .", cwd=wt)
    ok = (rc0 == 0 and rc1 != 0 and rcb == 0)
    print("demo clean rc=%d, demo patched rc=%d, baseline rc=%d (%s)" % (rc0, rc1, rcb, ob.strip().split("\n")[-1]))
    if not ok:
        print("NOT CONFIRMED")
        print(o0[-500:], o1[-500:])
        return 1
    dst = os.path.join(VERIF, "seeded", "%s-%s" % (pid, RENAME[x]))
    os.makedirs(dst, exist_ok=True)
    shutil.copy(os.path.join(out, x + ".diff"), os.path.join(dst, "patch.diff"))
    shutil.copy(os.path.join(out, "demo_%s.py" % x), os.path.join(dst, "demo.py"))
    notes = {}
    try:
        notes = json.load(open(os.path.join(out, "notes.json"))).get(x, {})
    except Exception:
        pass
    meta = {"property": pid, "summary": notes.get("summary"), "needs_to_manifest": notes.get("needs_to_manifest"),
            "confirmed": {"demo_on_clean_tree": "exit 0", "demo_with_patch": "exit %d" % rc1,
                          "baseline_with_patch": ob.strip().split("\n")[-1],
                          "how": "harness/seedtool.py confirm (scratch worktree %s/%s, PYTHONPATH=<worktree>/src)" % (ROOT, pid)},
            "demo_output_with_patch": o1[-600:], "checks": {}}
    json.dump(meta, open(os.path.join(dst, "meta.json"), "w"), indent=1, ensure_ascii=False)
    print("CONFIRMED ->", dst)
    return 0


def scratch_worktree(name):
    """fresh scratch worktree of /repo's HEAD outside /repo and /verif; the caller removes it with drop_worktree"""
    wt = "/tmp/vwt/" + name
    sh(["git", "-C", "/repo", "worktree", "remove", "--force", wt])
    os.makedirs("/tmp/vwt", exist_ok=True)
    rc, o = sh(["git", "-C", "/repo", "worktree", "add", "--detach", wt, "HEAD"])
    if rc != 0:
        raise RuntimeError("worktree: " + o)
    return wt


def drop_worktree(wt):
    sh(["git", "-C", "/repo", "worktree", "remove", "--force", wt])
    sh(["git", "-C", "/repo", "worktree", "prune"])


def apply_patch(wt, patch):
    rca, oa = sh(["git", "apply", patch], cwd=wt)
    if rca != 0:
        rca, oa = sh("patch -p1 --fuzz=3 --no-backup-if-mismatch < %s" % patch, cwd=wt)
    return rca, oa


def check_lines(o):
    return [l for l in o.strip().split("\n") if l.startswith(("VIOLATION", "KNOWN", "OK", "FAIL", "INFRA"))]


def run_wt(pid, x, prop=None, tier="quick"):
    """same as run but against a fresh scratch worktree of /repo's HEAD through PYREALB_REPO (used while other work is
    going on in /repo); the worktree is removed afterwards"""
    prop = prop or pid
    dst = os.path.join(VERIF, "seeded", "%s-%s" % (pid, x))
    wt = scratch_worktree("%s-%s-%s" % (pid, x, prop))
    try:
        rca, oa = apply_patch(wt, os.path.join(dst, "patch.diff"))
        if rca != 0:
            print("patch does not apply:", oa)
            return 2
        rc, o = sh([os.path.join(VERIF, "check"), prop, "--tier", tier], cwd=VERIF, timeout=3600, env={"PYREALB_REPO": wt})
    finally:
        drop_worktree(wt)
    tail = check_lines(o)
    print("\n".join(tail[-6:]))
    meta = json.load(open(os.path.join(dst, "meta.json")))
    viol = [l for l in tail if l.startswith("VIOLATION")]
    meta["checks"][prop + ":" + tier] = {"exit": rc, "caught": rc == 1 and bool(viol), "lines": tail[-4:], "via": "PYREALB_REPO=scratch worktree"}
    json.dump(meta, open(os.path.join(dst, "meta.json"), "w"), indent=1, ensure_ascii=False)
    return 0


def benign(name, props=None, tier="quick"):
    """behaviour-preserving change benign/<name>/patch.diff: every check must stay quiet (exit 0, no VIOLATION)"""
    dst = os.path.join(VERIF, "benign", name)
    claimed = json.load(open(os.path.join(VERIF, "harness", "claimed.json")))
    props = props or claimed
    wt = scratch_worktree("benign-" + name)
    meta = json.load(open(os.path.join(dst, "meta.json")))
    meta.setdefault("checks", {})
    try:
        rca, oa = apply_patch(wt, os.path.join(dst, "patch.diff"))
        if rca != 0:
            print("patch does not apply:", oa)
            return 2
        for prop in props:
            rc, o = sh([os.path.join(VERIF, "check"), prop, "--tier", tier], cwd=VERIF, timeout=3600, env={"PYREALB_REPO": wt})
            tail = check_lines(o)
            viol = [l for l in tail if l.startswith("VIOLATION")]
            meta["checks"][prop + ":" + tier] = {"exit": rc, "quiet": rc == 0 and not viol, "lines": [l for l in tail if not l.startswith("KNOWN")][-3:]}
            print(name, prop, "rc=%d" % rc, "quiet" if rc == 0 and not viol else "ALARM", " | ".join(viol)[:300])
            json.dump(meta, open(os.path.join(dst, "meta.json"), "w"), indent=1, ensure_ascii=False)
    finally:
        drop_worktree(wt)
    return 0


def run(pid, x, prop=None, tier="quick"):
    prop = prop or pid
    dst = os.path.join(VERIF, "seeded", "%s-%s" % (pid, x))
    rc, o = sh(["git", "-C", "/repo", "status", "--porcelain"])
    if o.strip():
        print("/repo is not clean; refusing")
        return 2
    rca, oa = sh(["git", "-C", "/repo", "apply", os.path.join(dst, "patch.diff")])
    if rca != 0:
        print("patch does not apply to /repo:", oa)
        return 2
    try:
        rc, o = sh([os.path.join(VERIF, "check"), prop, "--tier", tier], cwd=VERIF, timeout=3600)
    finally:
        sh(["git", "-C", "/repo", "checkout", "--", "."])
    tail = [l for l in o.strip().split("\n") if l.startswith(("VIOLATION", "KNOWN", "OK", "FAIL", "INFRA"))]
    print("\n".join(tail[-6:]))
    meta = json.load(open(os.path.join(dst, "meta.json")))
    viol = [l for l in tail if l.startswith("VIOLATION")]
    meta["checks"][prop + ":" + tier] = {"exit": rc, "caught": rc == 1 and bool(viol), "lines": tail[-4:]}
    json.dump(meta, open(os.path.join(dst, "meta.json"), "w"), indent=1, ensure_ascii=False)
    # leave generated Lean files as the real tree dictates
    return 0


def full_pass(only=None):
    """final record: every seeded change against its own property's check and every other check recorded for it before"""
    import glob
    for d in sorted(glob.glob(os.path.join(VERIF, "seeded", "*"))):
        name = os.path.basename(d)
        if only and not any(name.startswith(o) for o in only):
            continue
        pid, x = name.split("-")
        meta = json.load(open(os.path.join(d, "meta.json")))
        if meta.get("neutralised"):
            print(name, "neutralised (the repaired tree no longer has the code the change edits)")
            continue
        props = [pid] + sorted(set(k.split(":")[0] for k in meta.get("checks", {})) - {pid})
        for prop in props:
            print("==", name, "checked by", prop, flush=True)
            run_wt(pid, x, prop)
    return 0


if __name__ == "__main__":
    if sys.argv[1] == "pass":
        sys.exit(full_pass(sys.argv[2:]))
    cmd = sys.argv[1]
    if cmd == "confirm":
        sys.exit(confirm(sys.argv[2], sys.argv[3]))
    if cmd == "run":
        sys.exit(run(sys.argv[2], sys.argv[3], *(sys.argv[4:])))
    if cmd == "benign":
        sys.exit(benign(sys.argv[2], sys.argv[3].split(",") if len(sys.argv) > 3 else None))
    if cmd == "runwt":
        sys.exit(run_wt(sys.argv[2], sys.argv[3], *(sys.argv[4:])))
