"""The translator: regenerates lean/Pyrealb/Gen/*.lean from /repo's working tree on every run.
Each generator module exposes generate() -> {relative path under lean/: content}."""
import importlib
import os

from harness import core

GENERATORS = []  # module names under harness.translate, filled below


def run_all(only=None):
    changed = []
    for name in GENERATORS:
        if only and name not in only:
            continue
        mod = importlib.import_module("harness.translate." + name)
        for rel, content in mod.generate().items():
            if core.write_if_changed(os.path.join(core.LEAN, rel), content):
                changed.append(rel)
    return changed
