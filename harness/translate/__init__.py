"""The translator: regenerates lean/Pyrealb/Gen/*.lean from /repo's working tree on every run.
Every module harness/translate/<name>.py exposing generate() -> {path relative to lean/: content} is run
(auto-discovered); a file is rewritten only when its content changes so that Lake's cache stays valid.
A generator that can no longer find what it extracts raises TranslateError: a broken tie (DESIGN §2.2)."""
import importlib
import os
import pkgutil

from harness import core


class TranslateError(Exception):
    pass


def generators():
    here = os.path.dirname(os.path.abspath(__file__))
    return sorted(m.name for m in pkgutil.iter_modules([here]) if not m.name.startswith("_"))


def run_all(only=None):
    changed = []
    for name in generators():
        if only is not None and name not in only:
            continue
        mod = importlib.import_module("harness.translate." + name)
        if not hasattr(mod, "generate"):
            continue
        for rel, content in mod.generate().items():
            if core.write_if_changed(os.path.join(core.LEAN, rel), content):
                changed.append(rel)
    return changed
