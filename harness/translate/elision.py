"""Translator for the elision family (C06): lifts, by Python `ast`/`re` only (pyrealb is NOT executed), the tables
and regular-expression alternatives used by ConstituentFr.doElision / ConstituentEn.doElision into
lean/Pyrealb/Gen/ElisionTables.lean, so that the finite facts of Props/C06 are re-proved against the current source.

What is lifted (TranslateError when a constant or the expected shape is gone):
  ConstituentFr.py : sepWordREC (shape checked, extra class characters), elidableWordFrRE, euphonieFrRE alternatives,
                     euphonieFrTable, contractionFrTable, the vowel class and the `^h` test of isElidableFr, the
                     `^\\s*\\w` look-behind test, the `ce` + (est|étai…|a) special case, the euphony exceptions list
  ConstituentEn.py : sepWordREC, hAnRE, uLikeYouRE, acronymRE, the six inline regexes of the a/an condition,
                     contractionEnTable, the literals "a"/"A"/"cannot"/"can't"
  alphabet facts   : for the finite alphabet (characters of the two lexicons' keys, of the lifted tables and of a fixed
                     pool used by the generators) Python's `\\w`, `\\s` membership and str.lower (computed by running
                     Python's `re`/`str`: a recorded primitive, DESIGN §8)
"""
import ast
import json
import os
import re

from harness import core

POOL = " !\"#$%&'()*+,-./0123456789:;<=>?@[\\]^_`{|}~\t\n\u00a0«»…–—’œŒæÆçÇ"


def _err(msg):
    from harness import translate
    raise translate.TranslateError("elision: " + msg)


def _src(name):
    p = os.path.join(core.REPO, "src", "pyrealb", name)
    try:
        return ast.parse(open(p, encoding="utf-8").read()), p
    except OSError as e:
        _err("cannot read %s: %s" % (p, e))


def _find_class(tree, name):
    for n in tree.body:
        if isinstance(n, ast.ClassDef) and n.name == name:
            return n
    _err("class %s not found" % name)


def _find_func(cls, name):
    for n in cls.body:
        if isinstance(n, ast.FunctionDef) and n.name == name:
            return n
    _err("%s.%s not found" % (cls.name, name))


def _re_compile_args(call):
    """(pattern, flags-is-re.I) of a `re.compile(pattern[, re.I])` call node, else None"""
    if (isinstance(call, ast.Call) and isinstance(call.func, ast.Attribute) and call.func.attr == "compile"
            and call.args and isinstance(call.args[0], ast.Constant) and isinstance(call.args[0].value, str)):
        flag = len(call.args) > 1 and isinstance(call.args[1], ast.Attribute) and call.args[1].attr in ("I", "IGNORECASE")
        return call.args[0].value, flag
    return None


def _assigns(node):
    """name -> value node for every simple assignment directly inside `node` (function or class body)"""
    res = {}
    for n in ast.walk(node):
        if isinstance(n, ast.Assign) and len(n.targets) == 1 and isinstance(n.targets[0], ast.Name):
            res.setdefault(n.targets[0].id, n.value)
    return res


def _dict(node, what):
    if not isinstance(node, ast.Dict):
        _err("%s is no longer a dict literal" % what)
    out = []
    for k, v in zip(node.keys, node.values):
        if not (isinstance(k, ast.Constant) and isinstance(v, ast.Constant) and isinstance(k.value, str) and isinstance(v.value, str)):
            _err("%s has a non-literal entry" % what)
        out.append((k.value, v.value))
    return out


def _alts(pattern, what, anchored_end):
    """alternatives of ^(a|b|c)$ (anchored_end) or ^(a|b|c) ; optional parts `x?` and `(xyz)?` are expanded"""
    m = re.fullmatch(r"\^\((.*)\)" + (r"\$" if anchored_end else ""), pattern)
    if not m:
        _err("%s has not the shape ^(...)%s: %r" % (what, "$" if anchored_end else "", pattern))
    out = []
    for a in m.group(1).split("|"):
        out.extend(_expand(a, what))
    return out


def _expand(a, what):
    """expands `u?` and `(able)?` ; a trailing `.*` (prefix match) is dropped"""
    if a.endswith(".*"):
        a = a[:-2]
    res = [""]
    i = 0
    while i < len(a):
        if a[i] == "(":
            j = a.index(")", i)
            grp = a[i + 1:j]
            if not (j + 1 < len(a) and a[j + 1] == "?") or not re.fullmatch(r"[\w']+", grp):
                _err("%s: unsupported group in %r" % (what, a))
            res = [r + x for r in res for x in ("", grp)]
            i = j + 2
        elif i + 1 < len(a) and a[i + 1] == "?":
            res = [r + x for r in res for x in ("", a[i])]
            i += 2
        elif re.match(r"[\w'çàâéèêëîïôöùü-]", a[i]):
            res = [r + a[i] for r in res]
            i += 1
        else:
            _err("%s: unsupported regex syntax in %r" % (what, a))
    return res


def _re_match_patterns(node):
    """patterns (in source order) of every re.match(<literal>, ...) call inside node, with its flag"""
    out = []
    for n in ast.walk(node):
        if (isinstance(n, ast.Call) and isinstance(n.func, ast.Attribute) and n.func.attr == "match"
                and isinstance(n.func.value, ast.Name) and n.func.value.id == "re"
                and n.args and isinstance(n.args[0], ast.Constant) and isinstance(n.args[0].value, str)):
            flag = len(n.args) > 2 and isinstance(n.args[2], ast.Attribute) and n.args[2].attr in ("I", "IGNORECASE")
            out.append((n.lineno, n.col_offset, n.args[0].value, flag))
    out.sort()
    return [(p, f) for _, _, p, f in out]


SEP_SHAPE = re.compile(r"\(\(\?:\[\^<\\w(?P<x1>[^\]]*)\]\*\(\?:<\[\^>\]\+>\)\?\)\*\)\(\[\\w(?P<x2>[^\]]*)\]\+\)\?\(\.\*\)")


def _sep(cls, what):
    a = _assigns(cls)
    if "sepWordREC" not in a:
        _err("%s.sepWordREC not found" % what)
    r = _re_compile_args(a["sepWordREC"])
    if r is None:
        _err("%s.sepWordREC is not re.compile(<literal>)" % what)
    pat, flag = r
    m = SEP_SHAPE.fullmatch(pat)
    if not m or m.group("x1") != m.group("x2"):
        _err("%s.sepWordREC changed shape: %r" % (what, pat))
    return pat, m.group("x1"), flag


def extract():
    fr_tree, _ = _src("ConstituentFr.py")
    en_tree, _ = _src("ConstituentEn.py")
    fr = _find_class(fr_tree, "ConstituentFr")
    en = _find_class(en_tree, "ConstituentEn")
    d = {}
    d["sepFrPattern"], d["sepFrExtra"], d["sepFrI"] = _sep(fr, "ConstituentFr")
    d["sepEnPattern"], d["sepEnExtra"], d["sepEnI"] = _sep(en, "ConstituentEn")
    # ---- French
    f = _find_func(fr, "doElision")
    a = _assigns(f)
    for name in ("elidableWordFrRE", "euphonieFrRE", "euphonieFrTable", "contractionFrTable"):
        if name not in a:
            _err("ConstituentFr.doElision: %s not found" % name)
    p, fl = _re_compile_args(a["elidableWordFrRE"]) or _err("elidableWordFrRE is not re.compile(<literal>)")
    if not fl:
        _err("elidableWordFrRE lost re.I")
    d["elidableFr"] = _alts(p, "elidableWordFrRE", True)
    p, fl = _re_compile_args(a["euphonieFrRE"]) or _err("euphonieFrRE is not re.compile(<literal>)")
    if not fl:
        _err("euphonieFrRE lost re.I")
    d["euphonicFr"] = _alts(p, "euphonieFrRE", True)
    d["euphonieFrTable"] = _dict(a["euphonieFrTable"], "euphonieFrTable")
    d["contractionFrTable"] = _dict(a["contractionFrTable"], "contractionFrTable")
    pats = _re_match_patterns(f)
    want = {"vowel": None, "h": None, "w3": None, "ce": None, "ceverb": None}
    for p, fl in pats:
        m = re.fullmatch(r"\^\[([^\]\\^-]+)\]", p)
        if m and fl:
            want["vowel"] = m.group(1)
        elif p == "^h" and fl:
            want["h"] = "h"
        elif p == r"^\s*\w":
            want["w3"] = p
        elif p == "ce" and fl:
            want["ce"] = "ce"
        elif fl and re.fullmatch(r"(\(\^[^()|]+\$?\)\|?)+", p):
            alts = []
            for x in re.findall(r"\(\^([^()|$]+)(\$?)\)", p):
                alts.append((x[0], bool(x[1])))
            want["ceverb"] = alts
    for k, v in want.items():
        if v is None:
            _err("ConstituentFr.doElision: the %s test was not found (regex changed)" % k)
    d["vowelsFr"] = want["vowel"]
    d["ceVerbFr"] = want["ceverb"]
    exc = None
    for n in ast.walk(f):
        if isinstance(n, ast.Compare) and len(n.ops) == 1 and isinstance(n.ops[0], ast.NotIn) and isinstance(n.comparators[0], ast.List):
            vals = [e.value for e in n.comparators[0].elts if isinstance(e, ast.Constant)]
            if vals and all(isinstance(v, str) for v in vals) and isinstance(n.left, ast.Name) and n.left.id == "w2":
                exc = vals
    if exc is None:
        _err("ConstituentFr.doElision: euphony exception list (w2 not in [...]) not found")
    d["euphExceptionsFr"] = exc
    # ---- English
    f = _find_func(en, "doElision")
    a = _assigns(f)
    for name in ("hAnRE", "uLikeYouRE", "acronymRE", "contractionEnTable"):
        if name not in a:
            _err("ConstituentEn.doElision: %s not found" % name)
    p, fl = _re_compile_args(a["hAnRE"]) or _err("hAnRE")
    if not fl:
        _err("hAnRE lost re.I")
    d["hAnEn"] = _alts(p, "hAnRE", False)
    p, fl = _re_compile_args(a["uLikeYouRE"]) or _err("uLikeYouRE")
    if not fl:
        _err("uLikeYouRE lost re.I")
    d["uLikeYouEn"] = _alts(p, "uLikeYouRE", False)
    p, fl = _re_compile_args(a["acronymRE"]) or _err("acronymRE")
    if p != "^[A-Z]+$" or fl:
        _err("acronymRE changed: %r" % p)
    d["contractionEnTable"] = _dict(a["contractionEnTable"], "contractionEnTable")
    pats = _re_match_patterns(f)
    shape = [p for p, fl in pats]
    if len(shape) != 6 or not all(fl for _, fl in pats):
        _err("ConstituentEn.doElision: the a/an condition no longer has its six re.match tests: %r" % (shape,))
    m = re.fullmatch(r"\^\[([a-z]+)\]", shape[0])
    if not m:
        _err("a/an: first test is not ^[..]: %r" % shape[0])
    d["anFirstEn"] = m.group(1)
    for k, want_ in ((1, "^e"), (3, "^o"), (5, "^u")):
        if shape[k] != want_:
            _err("a/an: expected %s, found %r" % (want_, shape[k]))
    d["notEEn"] = _expand(shape[2][1:], "a/an ^eu") if shape[2].startswith("^") else _err("a/an ^eu")
    d["notOEn"] = _expand(shape[4][1:], "a/an ^onc?e") if shape[4].startswith("^") else _err("a/an ^onc?e")
    lits = [n.value for n in ast.walk(f) if isinstance(n, ast.Constant) and isinstance(n.value, str)]
    for lit in ("a", "A", "cannot", "can't", "n", "+", "D"):
        if lit not in lits:
            _err("ConstituentEn.doElision: literal %r not found" % lit)
    # the boolean structure of the condition:  A or (B and not C or D and not E or F and not G or H or I)
    cond = None
    for n in ast.walk(f):
        if isinstance(n, ast.If) and isinstance(n.test, ast.BoolOp) and isinstance(n.test.op, ast.Or) and len(_re_match_patterns(n.test)) == 6:
            cond = n.test
    if cond is None:
        _err("a/an: the `or` condition was not found")
    inner = cond.values[1] if len(cond.values) == 2 else None
    ok = (inner is not None and isinstance(inner, ast.BoolOp) and isinstance(inner.op, ast.Or) and len(inner.values) == 5
          and all(isinstance(v, ast.BoolOp) and isinstance(v.op, ast.And) and len(v.values) == 2
                  and isinstance(v.values[1], ast.UnaryOp) and isinstance(v.values[1].op, ast.Not) for v in inner.values[:3]))
    if not ok:
        _err("a/an: boolean structure of the condition changed")
    # ---- alphabet
    alpha = set(POOL)
    for lang in ("fr", "en"):
        p = os.path.join(core.REPO, "src", "pyrealb", "data", "lexicon-%s.json" % lang)
        try:
            lex = json.load(open(p, encoding="utf-8"))
        except OSError as e:
            _err("cannot read %s: %s" % (p, e))
        for k in lex:
            alpha.update(k)
    for k in ("sepFrExtra", "sepEnExtra", "vowelsFr"):
        alpha.update(d[k])
    for k in ("elidableFr", "euphonicFr", "euphExceptionsFr", "hAnEn", "uLikeYouEn"):
        for w in d[k]:
            alpha.update(w)
    for k in ("euphonieFrTable", "contractionFrTable", "contractionEnTable"):
        for a_, b_ in d[k]:
            alpha.update(a_)
            alpha.update(b_)
    more = set()
    for c in alpha:
        for x in (c.lower(), c.upper()):
            if len(x) == 1:
                more.add(x)
    alpha |= more
    d["alphabet"] = "".join(sorted(alpha))
    d["wordNonAscii"] = "".join(sorted(c for c in alpha if ord(c) > 127 and re.match(r"\w", c)))
    d["spaceNonAscii"] = "".join(sorted(c for c in alpha if ord(c) > 127 and re.match(r"\s", c)))
    d["lowerPairs"] = sorted((c, c.lower()) for c in alpha if ord(c) > 127 and c.lower() != c and len(c.lower()) == 1)
    # re.I on a class: a character matches when one of its case variants is in the class
    def closure(s):
        out = []
        for c in s:
            for x in (c, c.lower(), c.upper()):
                if len(x) == 1 and x not in out:
                    out.append(x)
        return "".join(out)
    d["sepFrExtraClosed"] = closure(d["sepFrExtra"]) if d["sepFrI"] else d["sepFrExtra"]
    d["sepEnExtraClosed"] = closure(d["sepEnExtra"]) if d["sepEnI"] else d["sepEnExtra"]
    return d


def lean_char(c):
    o = ord(c)
    if c == "'":
        return "'\\''"
    if c == "\\":
        return "'\\\\'"
    if 32 < o < 127 or o > 160:
        return "'%s'" % c
    return "Char.ofNat %d" % o


def lean_chars(s):
    return "[" + ", ".join(lean_char(c) for c in s) + "]"


def lean_str(s):
    """a Python str as an explicit `List Char` literal (reduces under `decide` without unfolding String)"""
    return lean_chars(s) if s else "([] : List Char)"


def lean_strs(l):
    return "[" + ", ".join(lean_str(x) for x in l) + "]"


def lean_pairs(l):
    return "[" + ",\n   ".join("(%s, %s)" % (lean_str(a), lean_str(b)) for a, b in l) + "]"


def generate():
    d = extract()
    o = []
    o.append("/-! GENERATED by harness/translate/elision.py from src/pyrealb/ConstituentFr.py and ConstituentEn.py — do not edit.")
    o.append("    Tables and regular-expression alternatives of doElision (both languages) and the alphabet facts. -/")
    o.append("namespace Pyrealb.Gen.Elision")
    o.append("")
    o.append("/-- the source text of the two `sepWordREC` patterns (shape checked by the translator) -/")
    o.append("def sepFrPattern : String := %s" % json.dumps(d["sepFrPattern"], ensure_ascii=False))
    o.append("def sepEnPattern : String := %s" % json.dumps(d["sepEnPattern"], ensure_ascii=False))
    o.append("/-- characters added to `\\w` in the word class of `sepWordREC` (closed under case when the regex has re.I) -/")
    o.append("def sepFrExtra : List Char := %s" % lean_chars(d["sepFrExtraClosed"]))
    o.append("def sepEnExtra : List Char := %s" % lean_chars(d["sepEnExtraClosed"]))
    o.append("")
    o.append("/-- alternatives of `elidableWordFrRE` (`^(…)$`, re.I) -/")
    o.append("def elidableFr : List (List Char) := %s" % lean_strs(d["elidableFr"]))
    o.append("/-- alternatives of `euphonieFrRE` (`^(…)$`, re.I) -/")
    o.append("def euphonicFr : List (List Char) := %s" % lean_strs(d["euphonicFr"]))
    o.append("def euphonieFrTable : List (List Char × List Char) :=\n  %s" % lean_pairs(d["euphonieFrTable"]))
    o.append("def contractionFrTable : List (List Char × List Char) :=\n  %s" % lean_pairs(d["contractionFrTable"]))
    o.append("/-- the class of `^[aeiouy…]` in isElidableFr (re.I) -/")
    o.append("def vowelsFr : List Char := %s" % lean_chars(d["vowelsFr"]))
    o.append("/-- `(^est$)|(^étai)|(^a$)`: (text, anchored at the end) -/")
    o.append("def ceVerbFr : List (List Char × Bool) := [%s]" % ", ".join(
        "(%s, %s)" % (lean_str(t), "true" if e else "false") for t, e in d["ceVerbFr"]))
    o.append("def euphExceptionsFr : List (List Char) := %s" % lean_strs(d["euphExceptionsFr"]))
    o.append("")
    o.append("/-- prefixes of `hAnRE` (optional parts expanded), re.I -/")
    o.append("def hAnEn : List (List Char) := %s" % lean_strs(d["hAnEn"]))
    o.append("/-- prefixes of `uLikeYouRE`, re.I -/")
    o.append("def uLikeYouEn : List (List Char) := %s" % lean_strs(d["uLikeYouEn"]))
    o.append("/-- `^[ai]` -/")
    o.append("def anFirstEn : List Char := %s" % lean_chars(d["anFirstEn"]))
    o.append("/-- `^eu` and `^onc?e` (expanded) -/")
    o.append("def notEEn : List (List Char) := %s" % lean_strs(d["notEEn"]))
    o.append("def notOEn : List (List Char) := %s" % lean_strs(d["notOEn"]))
    o.append("def contractionEnTable : List (List Char × List Char) :=\n  %s" % lean_pairs(d["contractionEnTable"]))
    o.append("")
    o.append("/-- alphabet facts recorded from Python (`re` `\\w`, `\\s`, `str.lower`) for the non-ASCII characters of the")
    o.append("    finite alphabet (lexicon keys, the tables above, the generators' pool) -/")
    o.append("def alphabetNonAscii : List Char := %s" % lean_chars("".join(c for c in d["alphabet"] if ord(c) > 127)))
    o.append("def wordNonAscii : List Char := %s" % lean_chars(d["wordNonAscii"]))
    o.append("def spaceNonAscii : List Char := %s" % lean_chars(d["spaceNonAscii"]))
    o.append("def lowerPairs : List (Char × Char) := [%s]" % ", ".join("(%s, %s)" % (lean_char(a), lean_char(b)) for a, b in d["lowerPairs"]))
    o.append("")
    o.append("end Pyrealb.Gen.Elision")
    return {"Pyrealb/Gen/ElisionTables.lean": "\n".join(o) + "\n"}
