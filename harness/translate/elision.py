"""Translator for the elision family (C06): lifts, by Python `ast`/`re` only (pyrealb is NOT executed), the tables
and regular-expression alternatives used by ConstituentFr.doElision / ConstituentEn.doElision into
lean/Pyrealb/Gen/ElisionTables.lean, so that the finite facts of Props/C06 are re-proved against the current source.

What is lifted (TranslateError when a constant or the expected shape is gone):
  ConstituentFr.py : sepWordREC (shape checked, extra class characters), elidableWordFrRE, euphonieFrRE alternatives,
                     euphonieFrTable, contractionFrTable, the vowel class and the `^h` test of isElidableFr, the
                     `^\\s*\\w` look-behind test, the `ce` + (est|étai…|a) special case, the euphony exceptions list
  ConstituentEn.py : sepWordREC, hAnRE, uLikeYouRE, acronymRE, the six inline regexes of the a/an condition,
                     contractionEnTable, the literals "a"/"A"/"cannot"/"can't"
  alphabet facts   : for the finite alphabet (characters of the two lexicons' keys, of the lifted tables and of a fixed
                     pool used by the generators) Python's `\\w`, `\\s` membership and str.lower (computed by running
                     Python's `re`/`str`: a recorded primitive, DESIGN §8)
"""
import ast
import json
import os
import re

from harness import core

POOL = " !\"#$%&'()*+,-./0123456789:;<=>?@[\\]^_`{|}~\t\n\u00a0«»…–—’œŒæÆçÇ"


def _err(msg):
    from harness import translate
    raise translate.TranslateError("elision: " + msg)


def _src(name):
    p = os.path.join(core.REPO, "src", "pyrealb", name)
    try:
        return ast.parse(open(p, encoding="utf-8").read()), p
    except OSError as e:
        _err("cannot read %s: %s" % (p, e))


def _find_class(tree, name):
    for n in tree.body:
        if isinstance(n, ast.ClassDef) and n.name == name:
            return n
    _err("class %s not found" % name)


def _find_func(cls, name):
    for n in cls.body:
        if isinstance(n, ast.FunctionDef) and n.name == name:
            return n
    _err("%s.%s not found" % (cls.name, name))


def _re_compile_args(call):
    """(pattern, flags-is-re.I) of a `re.compile(pattern[, re.I])` call node, else None"""
    if (isinstance(call, ast.Call) and isinstance(call.func, ast.Attribute) and call.func.attr == "compile"
            and call.args and isinstance(call.args[0], ast.Constant) and isinstance(call.args[0].value, str)):
        flag = len(call.args) > 1 and isinstance(call.args[1], ast.Attribute) and call.args[1].attr in ("I", "IGNORECASE")
        return call.args[0].value, flag
    return None


def _assigns(node):
    """name -> value node for every simple assignment directly inside `node` (function or class body)"""
    res = {}
    for n in ast.walk(node):
        if isinstance(n, ast.Assign) and len(n.targets) == 1 and isinstance(n.targets[0], ast.Name):
            res.setdefault(n.targets[0].id, n.value)
    return res


def _dict(node, what):
    if not isinstance(node, ast.Dict):
        _err("%s is no longer a dict literal" % what)
    out = []
    for k, v in zip(node.keys, node.values):
        if not (isinstance(k, ast.Constant) and isinstance(v, ast.Constant) and isinstance(k.value, str) and isinstance(v.value, str)):
            _err("%s has a non-literal entry" % what)
        out.append((k.value, v.value))
    return out


def _alts(pattern, what, anchored_end):
    """alternatives of ^(a|b|c)$ (anchored_end) or ^(a|b|c) ; optional parts `x?` and `(xyz)?` are expanded"""
    m = re.fullmatch(r"\^\((.*)\)" + (r"\$" if anchored_end else ""), pattern)
    if not m:
        _err("%s has not the shape ^(...)%s: %r" % (what, "$" if anchored_end else "", pattern))
    out = []
    for a in m.group(1).split("|"):
        out.extend(_expand(a, what))
    return out


def _expand(a, what):
    """expands `u?` and `(able)?` ; a trailing `.*` (prefix match) is dropped"""
    if a.endswith(".*"):
        a = a[:-2]
    res = [""]
    i = 0
    while i < len(a):
        if a[i] == "(":
            j = a.index(")", i)
            grp = a[i + 1:j]
            if not (j + 1 < len(a) and a[j + 1] == "?") or not re.fullmatch(r"[\w']+", grp):
                _err("%s: unsupported group in %r" % (what, a))
            res = [r + x for r in res for x in ("", grp)]
            i = j + 2
        elif i + 1 < len(a) and a[i + 1] == "?":
            res = [r + x for r in res for x in ("", a[i])]
            i += 2
        elif re.match(r"[\w'çàâéèêëîïôöùü-]", a[i]):
            res = [r + a[i] for r in res]
            i += 1
        else:
            _err("%s: unsupported regex syntax in %r" % (what, a))
    return res


def _re_match_patterns(node):
    """patterns (in source order) of every re.match(<literal>, ...) call inside node, with its flag"""
    out = []
    for n in ast.walk(node):
        if (isinstance(n, ast.Call) and isinstance(n.func, ast.Attribute) and n.func.attr == "match"
                and isinstance(n.func.value, ast.Name) and n.func.value.id == "re"
                and n.args and isinstance(n.args[0], ast.Constant) and isinstance(n.args[0].value, str)):
            flag = len(n.args) > 2 and isinstance(n.args[2], ast.Attribute) and n.args[2].attr in ("I", "IGNORECASE")
            out.append((n.lineno, n.col_offset, n.args[0].value, flag))
    out.sort()
    return [(p, f) for _, _, p, f in out]


SEP_SHAPE = re.compile(r"\(\(\?:\[\^<\\w(?P<x1>[^\]]*)\]\*\(\?:<\[\^>\]\+>\)\?\)\*\)\(\[\\w(?P<x2>[^\]]*)\]\+\)\?\(\.\*\)")


class _Mod:
    """one source file: every assignment (`name = value`, `self.name = value`, class attribute) wherever it is written
    — module level, class body, function body —, every regex (re.compile(<literal>), re.match/search(<literal>, …),
    <name>.match/search(…) resolved through the assignments), every dict / list / tuple / set display of strings.
    Constants are then recognised by CONTENT and SHAPE, never by their name or position."""

    def __init__(self, fname):
        self.tree, self.path = _src(fname)
        self.fname = fname
        self.assigns = {}
        for n in ast.walk(self.tree):
            if isinstance(n, ast.Assign) and len(n.targets) == 1:
                t = n.targets[0]
                name = t.id if isinstance(t, ast.Name) else (t.attr if isinstance(t, ast.Attribute) else None)
                if name:
                    self.assigns.setdefault(name, n.value)
            elif isinstance(n, ast.AnnAssign) and n.value is not None and isinstance(n.target, ast.Name):
                self.assigns.setdefault(n.target.id, n.value)

    def resolve(self, node, depth=0):
        """the value a Name / Attribute refers to (through simple aliases), else the node itself"""
        while depth < 5:
            name = node.id if isinstance(node, ast.Name) else (node.attr if isinstance(node, ast.Attribute) else None)
            if name is None or name not in self.assigns:
                return node
            node = self.assigns[name]
            depth += 1
        return node

    def compiled(self):
        """[(pattern, re.I?)] of every re.compile(<literal>[, re.I]) of the file"""
        out = []
        for n in ast.walk(self.tree):
            r = _re_compile_args(n)
            if r is not None:
                out.append(r)
        return out

    def regex_of_call(self, n):
        """(pattern, re.I?) tested by a call: re.match/search/fullmatch(<literal>, x[, re.I]) or R.match/search(x)
        where R resolves to re.compile(<literal>…); else None"""
        if not (isinstance(n, ast.Call) and isinstance(n.func, ast.Attribute) and n.func.attr in ("match", "search", "fullmatch")):
            return None
        base = n.func.value
        if isinstance(base, ast.Name) and base.id == "re":
            if n.args and isinstance(self.resolve(n.args[0]), ast.Constant) and isinstance(self.resolve(n.args[0]).value, str):
                flag = len(n.args) > 2 and isinstance(n.args[2], ast.Attribute) and n.args[2].attr in ("I", "IGNORECASE")
                return self.resolve(n.args[0]).value, flag
            return None
        return _re_compile_args(self.resolve(base))

    def tested(self, node=None):
        """[(pattern, re.I?)] of every regex test inside `node` (default: the file), in source order"""
        out = []
        for n in ast.walk(node if node is not None else self.tree):
            r = self.regex_of_call(n)
            if r is not None:
                out.append((n.lineno, n.col_offset, r))
        out.sort()
        return [r for _, _, r in out]

    def all_regexes(self):
        seen, out = set(), []
        for r in self.compiled() + self.tested():
            if r not in seen:
                seen.add(r)
                out.append(r)
        return out

    def dicts(self):
        """every dict display whose keys and values are all str literals, as a list of pairs"""
        out = []
        for n in ast.walk(self.tree):
            if isinstance(n, ast.Dict) and n.keys and all(
                    isinstance(k, ast.Constant) and isinstance(k.value, str) and isinstance(v, ast.Constant)
                    and isinstance(v.value, str) for k, v in zip(n.keys, n.values)):
                out.append([(k.value, v.value) for k, v in zip(n.keys, n.values)])
        return out

    def str_seq(self, node):
        """the strings of a list / tuple / set display (possibly behind a name, frozenset(…), tuple(…)), else None"""
        node = self.resolve(node)
        if isinstance(node, ast.Call) and isinstance(node.func, ast.Name) and node.func.id in ("frozenset", "set", "tuple", "list") and node.args:
            node = self.resolve(node.args[0])
        if isinstance(node, (ast.List, ast.Tuple, ast.Set)) and node.elts and all(
                isinstance(e, ast.Constant) and isinstance(e.value, str) for e in node.elts):
            return [e.value for e in node.elts]
        return None


def _one(cands, what, fname):
    cands = [c for i, c in enumerate(cands) if c not in cands[:i]]
    if len(cands) != 1:
        _err("%s: %s %s (recognised by content/shape)" % (fname, what, "not found" if not cands else "is ambiguous: %r" % (cands[:3],)))
    return cands[0]


def _sep(mod):
    c = [(p, fl) for p, fl in mod.compiled() if SEP_SHAPE.fullmatch(p)]
    if not c:
        _err("%s: no regex of the shape of sepWordREC (`((?:[^<\\w…]*(?:<[^>]+>)?)*)([\\w…]+)?(.*)`) — it changed shape"
             % mod.fname)
    pat, flag = _one(c, "sepWordREC", mod.fname)
    m = SEP_SHAPE.fullmatch(pat)
    if m.group("x1") != m.group("x2"):
        _err("%s: sepWordREC changed shape: %r" % (mod.fname, pat))
    return pat, m.group("x1"), flag


def _anchored_alts(mod, must, end_anchor, what):
    """the regex `^(a|b|…)` (+ `$` when end_anchor), re.I, one alternative of which is `must`"""
    c = []
    for p, fl in mod.all_regexes():
        m = re.fullmatch(r"\^\((.*)\)" + (r"\$" if end_anchor else ""), p)
        if m and fl:
            try:
                alts = _alts(p, what, end_anchor)
            except Exception:  # noqa: another regex of a different syntax
                continue
            if must in alts:
                c.append(tuple(alts))
    return list(_one(c, what, mod.fname))


def extract():
    fr = _Mod("ConstituentFr.py")
    en = _Mod("ConstituentEn.py")
    d = {}
    d["sepFrPattern"], d["sepFrExtra"], d["sepFrI"] = _sep(fr)
    d["sepEnPattern"], d["sepEnExtra"], d["sepEnI"] = _sep(en)
    # ---- French (each constant is recognised by what it contains, wherever and under whatever name it is defined)
    d["elidableFr"] = _anchored_alts(fr, "le", True, "the regex of the elidable words (elidableWordFrRE)")
    d["euphonicFr"] = _anchored_alts(fr, "beau", True, "the regex of the euphonic words (euphonieFrRE)")
    d["euphonieFrTable"] = _one([t for t in fr.dicts() if dict(t).get("beau") and "+" not in "".join(k for k, _ in t)],
                                "the euphony table (euphonieFrTable)", fr.fname)
    d["contractionFrTable"] = _one([t for t in fr.dicts() if all("+" in k for k, _ in t)],
                                   "the contraction table (contractionFrTable)", fr.fname)
    want = {"vowel": None, "h": None, "w3": None, "ce": None, "ceverb": None}
    for p, fl in fr.all_regexes():
        m = re.fullmatch(r"\^\[([^\]\\^-]+)\]", p)
        if m and fl and "a" in m.group(1) and "e" in m.group(1):
            want["vowel"] = m.group(1)
        elif p == "^h" and fl:
            want["h"] = "h"
        elif p == r"^\s*\w":
            want["w3"] = p
        elif p == "ce" and fl:
            want["ce"] = "ce"
        elif fl and re.fullmatch(r"(\(\^[^()|]+\$?\)\|?)+", p):
            alts = []
            for x in re.findall(r"\(\^([^()|$]+)(\$?)\)", p):
                alts.append((x[0], bool(x[1])))
            want["ceverb"] = alts
    for k, v in want.items():
        if v is None:
            _err("ConstituentFr.py: the %s test was not found (regex changed)" % k)
    d["vowelsFr"] = want["vowel"]
    d["ceVerbFr"] = want["ceverb"]
    exc = []
    for n in ast.walk(fr.tree):
        if isinstance(n, ast.Compare) and len(n.ops) == 1 and isinstance(n.ops[0], (ast.NotIn, ast.In)):
            vals = fr.str_seq(n.comparators[0])
            if vals and "et" in vals and "ou" in vals:
                exc.append(tuple(vals))
    d["euphExceptionsFr"] = list(_one(exc, "the euphony exception list (w2 not in [\"et\", \"ou\", …])", fr.fname))
    # ---- English
    d["hAnEn"] = _anchored_alts(en, "heir", False, "the silent-h regex (hAnRE)")
    d["uLikeYouEn"] = _anchored_alts(en, "uni", False, "the u-like-you regex (uLikeYouRE)")
    if not any(p == "^[A-Z]+$" and not fl for p, fl in en.all_regexes()):
        _err("ConstituentEn.py: the acronym regex ^[A-Z]+$ (acronymRE) was not found")
    d["contractionEnTable"] = _one([t for t in en.dicts() if all("+" in k for k, _ in t)],
                                   "the contraction table (contractionEnTable)", en.fname)
    # the a/an condition: the `if … or (…)` whose test contains the nine regex tests
    special = {"hAn", "uLike", "acr"}

    def classify(p, fl):
        if p == "^[A-Z]+$":
            return "acr"
        try:
            alts = _alts(p, "", False)
        except Exception:  # noqa
            return None
        return "hAn" if "heir" in alts else ("uLike" if "uni" in alts else None)
    cond = None
    for n in ast.walk(en.tree):
        if isinstance(n, ast.If) and isinstance(n.test, ast.BoolOp) and isinstance(n.test.op, ast.Or):
            t = en.tested(n.test)
            if len([1 for p, fl in t if classify(p, fl) not in special]) == 6 and len(t) >= 6:
                cond = n.test
    if cond is None:
        _err("ConstituentEn.py: the a/an condition (six inline regex tests + hAn/uLikeYou/acronym) was not found")
    pats = [(p, fl) for p, fl in en.tested(cond) if classify(p, fl) not in special]
    shape = [p for p, fl in pats]
    if not all(fl for _, fl in pats):
        _err("a/an: one of the six tests lost re.I: %r" % (shape,))
    m = re.fullmatch(r"\^\[([a-z]+)\]", shape[0])
    if not m:
        _err("a/an: first test is not ^[..]: %r" % shape[0])
    d["anFirstEn"] = m.group(1)
    for k, want_ in ((1, "^e"), (3, "^o"), (5, "^u")):
        if shape[k] != want_:
            _err("a/an: expected %s, found %r" % (want_, shape[k]))
    d["notEEn"] = _expand(shape[2][1:], "a/an ^eu") if shape[2].startswith("^") else _err("a/an ^eu")
    d["notOEn"] = _expand(shape[4][1:], "a/an ^onc?e") if shape[4].startswith("^") else _err("a/an ^onc?e")
    lits = [n.value for n in ast.walk(en.tree) if isinstance(n, ast.Constant) and isinstance(n.value, str)]
    for lit in ("a", "A", "cannot", "can't", "n", "+", "D"):
        if lit not in lits:
            _err("ConstituentEn.py: literal %r not found" % lit)
    # the boolean structure of the condition:  A or (B and not C or D and not E or F and not G or H or I)
    inner = cond.values[1] if len(cond.values) == 2 else None
    ok = (inner is not None and isinstance(inner, ast.BoolOp) and isinstance(inner.op, ast.Or) and len(inner.values) == 5
          and all(isinstance(v, ast.BoolOp) and isinstance(v.op, ast.And) and len(v.values) == 2
                  and isinstance(v.values[1], ast.UnaryOp) and isinstance(v.values[1].op, ast.Not) for v in inner.values[:3]))
    if not ok:
        _err("a/an: boolean structure of the condition changed")
    # ---- alphabet
    alpha = set(POOL)
    for lang in ("fr", "en"):
        p = os.path.join(core.REPO, "src", "pyrealb", "data", "lexicon-%s.json" % lang)
        try:
            lex = json.load(open(p, encoding="utf-8"))
        except OSError as e:
            _err("cannot read %s: %s" % (p, e))
        for k in lex:
            alpha.update(k)
    for k in ("sepFrExtra", "sepEnExtra", "vowelsFr"):
        alpha.update(d[k])
    for k in ("elidableFr", "euphonicFr", "euphExceptionsFr", "hAnEn", "uLikeYouEn"):
        for w in d[k]:
            alpha.update(w)
    for k in ("euphonieFrTable", "contractionFrTable", "contractionEnTable"):
        for a_, b_ in d[k]:
            alpha.update(a_)
            alpha.update(b_)
    more = set()
    for c in alpha:
        for x in (c.lower(), c.upper()):
            if len(x) == 1:
                more.add(x)
    alpha |= more
    d["alphabet"] = "".join(sorted(alpha))
    d["wordNonAscii"] = "".join(sorted(c for c in alpha if ord(c) > 127 and re.match(r"\w", c)))
    d["spaceNonAscii"] = "".join(sorted(c for c in alpha if ord(c) > 127 and re.match(r"\s", c)))
    d["lowerPairs"] = sorted((c, c.lower()) for c in alpha if ord(c) > 127 and c.lower() != c and len(c.lower()) == 1)
    # re.I on a class: a character matches when one of its case variants is in the class
    def closure(s):
        out = []
        for c in s:
            for x in (c, c.lower(), c.upper()):
                if len(x) == 1 and x not in out:
                    out.append(x)
        return "".join(out)
    d["sepFrExtraClosed"] = closure(d["sepFrExtra"]) if d["sepFrI"] else d["sepFrExtra"]
    d["sepEnExtraClosed"] = closure(d["sepEnExtra"]) if d["sepEnI"] else d["sepEnExtra"]
    return d


def lean_char(c):
    o = ord(c)
    if c == "'":
        return "'\\''"
    if c == "\\":
        return "'\\\\'"
    if 32 < o < 127 or o > 160:
        return "'%s'" % c
    return "Char.ofNat %d" % o


def lean_chars(s):
    return "[" + ", ".join(lean_char(c) for c in s) + "]"


def lean_str(s):
    """a Python str as an explicit `List Char` literal (reduces under `decide` without unfolding String)"""
    return lean_chars(s) if s else "([] : List Char)"


def lean_strs(l):
    return "[" + ", ".join(lean_str(x) for x in l) + "]"


def lean_pairs(l):
    return "[" + ",\n   ".join("(%s, %s)" % (lean_str(a), lean_str(b)) for a, b in l) + "]"


def generate():
    d = extract()
    o = []
    o.append("/-! GENERATED by harness/translate/elision.py from src/pyrealb/ConstituentFr.py and ConstituentEn.py — do not edit.")
    o.append("    Tables and regular-expression alternatives of doElision (both languages) and the alphabet facts. -/")
    o.append("namespace Pyrealb.Gen.Elision")
    o.append("")
    o.append("/-- the source text of the two `sepWordREC` patterns (shape checked by the translator) -/")
    o.append("def sepFrPattern : String := %s" % json.dumps(d["sepFrPattern"], ensure_ascii=False))
    o.append("def sepEnPattern : String := %s" % json.dumps(d["sepEnPattern"], ensure_ascii=False))
    o.append("/-- characters added to `\\w` in the word class of `sepWordREC` (closed under case when the regex has re.I) -/")
    o.append("def sepFrExtra : List Char := %s" % lean_chars(d["sepFrExtraClosed"]))
    o.append("def sepEnExtra : List Char := %s" % lean_chars(d["sepEnExtraClosed"]))
    o.append("")
    o.append("/-- alternatives of `elidableWordFrRE` (`^(…)$`, re.I) -/")
    o.append("def elidableFr : List (List Char) := %s" % lean_strs(d["elidableFr"]))
    o.append("/-- alternatives of `euphonieFrRE` (`^(…)$`, re.I) -/")
    o.append("def euphonicFr : List (List Char) := %s" % lean_strs(d["euphonicFr"]))
    o.append("def euphonieFrTable : List (List Char × List Char) :=\n  %s" % lean_pairs(d["euphonieFrTable"]))
    o.append("def contractionFrTable : List (List Char × List Char) :=\n  %s" % lean_pairs(d["contractionFrTable"]))
    o.append("/-- the class of `^[aeiouy…]` in isElidableFr (re.I) -/")
    o.append("def vowelsFr : List Char := %s" % lean_chars(d["vowelsFr"]))
    o.append("/-- `(^est$)|(^étai)|(^a$)`: (text, anchored at the end) -/")
    o.append("def ceVerbFr : List (List Char × Bool) := [%s]" % ", ".join(
        "(%s, %s)" % (lean_str(t), "true" if e else "false") for t, e in d["ceVerbFr"]))
    o.append("def euphExceptionsFr : List (List Char) := %s" % lean_strs(d["euphExceptionsFr"]))
    o.append("")
    o.append("/-- prefixes of `hAnRE` (optional parts expanded), re.I -/")
    o.append("def hAnEn : List (List Char) := %s" % lean_strs(d["hAnEn"]))
    o.append("/-- prefixes of `uLikeYouRE`, re.I -/")
    o.append("def uLikeYouEn : List (List Char) := %s" % lean_strs(d["uLikeYouEn"]))
    o.append("/-- `^[ai]` -/")
    o.append("def anFirstEn : List Char := %s" % lean_chars(d["anFirstEn"]))
    o.append("/-- `^eu` and `^onc?e` (expanded) -/")
    o.append("def notEEn : List (List Char) := %s" % lean_strs(d["notEEn"]))
    o.append("def notOEn : List (List Char) := %s" % lean_strs(d["notOEn"]))
    o.append("def contractionEnTable : List (List Char × List Char) :=\n  %s" % lean_pairs(d["contractionEnTable"]))
    o.append("")
    o.append("/-- alphabet facts recorded from Python (`re` `\\w`, `\\s`, `str.lower`) for the non-ASCII characters of the")
    o.append("    finite alphabet (lexicon keys, the tables above, the generators' pool) -/")
    o.append("def alphabetNonAscii : List Char := %s" % lean_chars("".join(c for c in d["alphabet"] if ord(c) > 127)))
    o.append("def wordNonAscii : List Char := %s" % lean_chars(d["wordNonAscii"]))
    o.append("def spaceNonAscii : List Char := %s" % lean_chars(d["spaceNonAscii"]))
    o.append("def lowerPairs : List (Char × Char) := [%s]" % ", ".join("(%s, %s)" % (lean_char(a), lean_char(b)) for a, b in d["lowerPairs"]))
    o.append("")
    o.append("end Pyrealb.Gen.Elision")
    return {"Pyrealb/Gen/ElisionTables.lean": "\n".join(o) + "\n"}
