"""Translator for the English clause model (C04, C08-en): lifts from /repo, WITHOUT executing it,
  * rules-en.json: sentence_type (interrogative prefixes, punctuation), compound (auxiliaries and participles),
    verb_option, the punctuation rule of the signs `?`, `!`, `,` (lexicon `Pc` entry + rules `punctuation`),
    the conjugation tables of the closed-class verbs the clause code names, the personal-pronoun declension tables;
  * Python AST: `negMod` (NonTerminalEn.py), `contractionEnTable` (ConstituentEn.doElision), the lemma lists that
    affixHopping / tag_question / move_object / checkAdverbPos compare the verb with, `preposition_list` (PhraseEn),
    `tonic_forms`, `relative_pronouns`, the int-value groups of Phrase.processInt / Dependent.processTypInt,
    and whether DependentEn defines `preposition_list` at all.
into lean/Pyrealb/Gen/ClauseEnConsts.lean."""
import ast
import json
import os

from harness import core
from harness.translate import TranslateError

OUT = "Pyrealb/Gen/ClauseEnConsts.lean"


def _src(name):
    p = os.path.join(core.REPO, "src", "pyrealb", name)
    try:
        return ast.parse(open(p, encoding="utf-8").read()), p
    except (OSError, SyntaxError) as e:
        raise TranslateError("cannot parse %s: %s" % (p, e))


def _find_func(tree, cls, fn, path):
    for node in ast.walk(tree):
        if isinstance(node, ast.ClassDef) and node.name == cls:
            for f in node.body:
                if isinstance(f, ast.FunctionDef) and f.name == fn:
                    return f
    raise TranslateError("%s: %s.%s not found" % (path, cls, fn))


def _has_func(tree, cls, fn):
    for node in ast.walk(tree):
        if isinstance(node, ast.ClassDef) and node.name == cls:
            return any(isinstance(f, ast.FunctionDef) and f.name == fn for f in node.body)
    return False


def _lit(node, what):
    try:
        return ast.literal_eval(node)
    except Exception:
        raise TranslateError("%s is no longer a literal" % what)


def _assign_in(func, name, what):
    for node in ast.walk(func):
        if isinstance(node, ast.Assign) and len(node.targets) == 1 and isinstance(node.targets[0], ast.Name) \
                and node.targets[0].id == name:
            return _lit(node.value, what)
    raise TranslateError("%s not found" % what)


def _assigned_value(name, func, tree):
    """the expression assigned to `name`: in the function, else at class level, else at module level (last assignment)"""
    scopes = []
    if func is not None:
        scopes.append(ast.walk(func))
    scopes.append(n for c in ast.walk(tree) if isinstance(c, ast.ClassDef) for n in c.body)
    scopes.append(iter(tree.body))
    for scope in scopes:
        found = None
        for node in scope:
            if isinstance(node, ast.Assign):
                for t in node.targets:
                    if isinstance(t, ast.Name) and t.id == name:
                        found = node.value
            elif isinstance(node, ast.AnnAssign) and isinstance(node.target, ast.Name) and node.target.id == name \
                    and node.value is not None:
                found = node.value
        if found is not None:
            return found
    return None


def _resolve(node, func, tree, depth=0):
    """a constant collection of strings wherever and however it is written: a list/tuple/set display, frozenset(...)/
    set(...)/tuple(...)/list(...) of one, a dict display (-> dict), or a name / self.attr / Class.attr bound to one of
    these in the function, the class or the module.  None when the expression is not such a constant."""
    if depth > 6 or node is None:
        return None
    if isinstance(node, (ast.List, ast.Tuple, ast.Set)):
        if all(isinstance(e, ast.Constant) and isinstance(e.value, str) for e in node.elts):
            return [e.value for e in node.elts]
        return None
    if isinstance(node, ast.Dict):
        if all(isinstance(k, ast.Constant) and isinstance(k.value, str) for k in node.keys) and \
                all(isinstance(v, ast.Constant) and isinstance(v.value, str) for v in node.values):
            return {k.value: v.value for k, v in zip(node.keys, node.values)}
        return None
    if isinstance(node, ast.Call) and isinstance(node.func, ast.Name) and node.func.id in ("frozenset", "set", "tuple", "list", "dict") \
            and len(node.args) == 1 and not node.keywords:
        return _resolve(node.args[0], func, tree, depth + 1)
    if isinstance(node, ast.Name):
        return _resolve(_assigned_value(node.id, func, tree), func, tree, depth + 1)
    if isinstance(node, ast.Attribute) and isinstance(node.value, ast.Name):
        return _resolve(_assigned_value(node.attr, None, tree), func, tree, depth + 1)
    return None


def _memberships(func, tree):
    """every test of an expression against a constant collection inside func, in source order:
    (left expression as source text, collection).  Covers `x in C` / `x not in C` with C resolved by _resolve, and the
    chains `x == "a" or x == "b"` / `x != "a" and x != "b"`."""
    res = []
    for node in ast.walk(func):
        if isinstance(node, ast.Compare) and len(node.ops) == 1 and isinstance(node.ops[0], (ast.In, ast.NotIn)):
            val = _resolve(node.comparators[0], func, tree)
            if val is not None:
                res.append((node.lineno, node.col_offset, ast.unparse(node.left), val))
        elif isinstance(node, ast.BoolOp) and len(node.values) >= 2:
            want = ast.Eq if isinstance(node.op, ast.Or) else ast.NotEq
            if all(isinstance(v, ast.Compare) and len(v.ops) == 1 and isinstance(v.ops[0], want)
                   and isinstance(v.comparators[0], ast.Constant) and isinstance(v.comparators[0].value, str) for v in node.values):
                lefts = {ast.unparse(v.left) for v in node.values}
                if len(lefts) == 1:
                    res.append((node.lineno, node.col_offset, lefts.pop(), [v.comparators[0].value for v in node.values]))
    res.sort(key=lambda r: (r[0], r[1]))
    return [(r[2], r[3]) for r in res]


def _tested(func, tree, left_pred, what, n=0, want_dict=False, has=None):
    """the n-th constant collection (dict when want_dict; containing `has` when given) that an expression accepted by
    left_pred is tested against"""
    hits = [v for l, v in _memberships(func, tree) if left_pred(l) and isinstance(v, dict) == want_dict
            and (has is None or has in v)]
    if len(hits) <= n:
        raise TranslateError("%s: expected at least %d membership test(s) against a constant %s, found %d — the test changed shape"
                             % (what, n + 1, "dict" if want_dict else "collection", len(hits)))
    return hits[n]


def _dict_by_content(tree, pred, what):
    """the one constant str->str dict display of the module (wherever it is defined or however it is used: `in`,
    `.get`, subscript) that satisfies pred"""
    hits = []
    for node in ast.walk(tree):
        if isinstance(node, ast.Dict):
            d = _resolve(node, None, tree)
            if isinstance(d, dict) and d and pred(d) and d not in hits:
                hits.append(d)
    if len(hits) != 1:
        raise TranslateError("%s: expected exactly one constant dict of that content in the module, found %d" % (what, len(hits)))
    return hits[0]


def _members(v):
    """a collection used for membership only: sorted and deduplicated (independent of list / tuple / set writing)"""
    return sorted(set(v))


def _str_lists_compared_with(func, tree=None):
    """all constant collections of strings tested with `in` / `not in` (or ==-chains) inside func, in source order"""
    if tree is None:
        tree = ast.Module(body=[], type_ignores=[])
    return [v for _, v in _memberships(func, tree) if not isinstance(v, dict)]


def _eq_strings(func, var_pred):
    """string constants compared with ==/!= to an expression accepted by var_pred"""
    res = []
    for node in ast.walk(func):
        if isinstance(node, ast.Compare) and len(node.ops) == 1 and isinstance(node.ops[0], (ast.Eq, ast.NotEq)):
            l, r = node.left, node.comparators[0]
            if isinstance(r, ast.Constant) and isinstance(r.value, str) and var_pred(l):
                res.append((node.lineno, node.col_offset, r.value))
    res.sort()
    out = []
    for _, _, v in res:
        if v not in out:
            out.append(v)
    return out


def _return_lit(tree, cls, fn, path):
    f = _find_func(tree, cls, fn, path)
    for node in ast.walk(f):
        if isinstance(node, ast.Return) and node.value is not None:
            v = node.value
            if isinstance(v, ast.Name) or (isinstance(v, ast.Attribute) and isinstance(v.value, ast.Name)):
                v = _assigned_value(v.id if isinstance(v, ast.Name) else v.attr, f if isinstance(v, ast.Name) else None, tree) or v
            if isinstance(v, ast.Call) and isinstance(v.func, ast.Name) and v.func.id == "dict" and v.keywords:
                out = {}
                for k in v.keywords:
                    r = _resolve(k.value, f, tree)
                    out[k.arg] = r if r is not None else _lit(k.value, "%s.%s" % (cls, fn))
                return out
            if isinstance(v, ast.Dict) and all(isinstance(k, ast.Constant) for k in v.keys):
                out = {}
                for k, x in zip(v.keys, v.values):
                    r = _resolve(x, f, tree)
                    out[k.value] = r if r is not None else _lit(x, "%s.%s" % (cls, fn))
                return out
            r = _resolve(v, f, tree)
            return r if r is not None else _lit(v, "%s.%s" % (cls, fn))
    raise TranslateError("%s.%s has no literal return" % (cls, fn))


def _nth(lists, n, what):
    """n-th literal list compared with `in` in a function, or a TranslateError naming the construct"""
    if len(lists) <= n:
        raise TranslateError("%s: expected at least %d literal list(s) after `in`/`not in`, found %d — the test changed shape"
                             % (what, n + 1, len(lists)))
    return lists[n]


def _lemma_set_tested(func, tree, what):
    """the lemmas a test on `<x>.lemma` accepts: `in <constant collection>` (any writing), an ==-chain, or a single =="""
    for l, v in _memberships(func, tree):
        if l.endswith(".lemma") and not isinstance(v, dict):
            return v
    found = []
    for node in ast.walk(func):
        if isinstance(node, ast.Compare) and len(node.ops) == 1 and isinstance(node.ops[0], ast.Eq) \
                and isinstance(node.left, ast.Attribute) and node.left.attr == "lemma" \
                and isinstance(node.comparators[0], ast.Constant) and isinstance(node.comparators[0].value, str):
            found.append((node.lineno, node.col_offset, [node.comparators[0].value]))
    if not found:
        raise TranslateError("%s: no test of `.lemma` against a constant collection or string found — the construct changed" % what)
    found.sort()
    return found[0][2]


def lq(x):
    """Lean string literal"""
    return '"' + x.replace("\\", "\\\\").replace('"', '\\"') + '"'


def lstrs(xs):
    return "[" + ", ".join(lq(x) for x in xs) + "]"


def lpairs(d):
    return "[" + ", ".join("(%s, %s)" % (lq(k), lq(v)) for k, v in d) + "]"


def extract(strict=True):
    """everything lifted, as a python dict (also used by the harness for its own, model-independent oracle).
    Any unexpected shape of the source is a TranslateError naming the construct, never a bare IndexError/KeyError.
    strict=False (oracle-only mode of the harness): what could be lifted is returned, the error text under "_error"."""
    res = {}
    try:
        return _extract(res)
    except TranslateError as e:
        if strict:
            raise
        res["_error"] = str(e)
        return res
    except (IndexError, KeyError, AttributeError, TypeError, ValueError) as e:
        import traceback
        tb = traceback.extract_tb(e.__traceback__)[-1]
        msg = "clauseen: the source no longer has the shape expected at translate/clauseen.py:%d (`%s`): %s: %s" % (
            tb.lineno, (tb.line or "").strip(), type(e).__name__, e)
        if strict:
            raise TranslateError(msg)
        res["_error"] = msg
        return res


def _extract(res):
    rp = os.path.join(core.REPO, "src", "pyrealb", "data", "rules-en.json")
    lp = os.path.join(core.REPO, "src", "pyrealb", "data", "lexicon-en.json")
    try:
        rules = json.load(open(rp, encoding="utf-8"))
        lex = json.load(open(lp, encoding="utf-8"))
    except (OSError, ValueError) as e:
        raise TranslateError("cannot read English rules/lexicon: %s" % e)
    try:
        st = rules["sentence_type"]
        res["intPrefix"] = [(k, v) for k, v in st["int"]["prefix"].items()]
        res["intPunct"] = st["int"]["punctuation"]
        res["excPunct"] = st["exc"]["punctuation"]
        comp = rules["compound"]
        res["compoundAux"] = [(k, v["aux"]) for k, v in comp.items() if isinstance(v, dict) and "aux" in v]
        res["compoundPart"] = [(k, v["participle"]) for k, v in comp.items() if isinstance(v, dict) and "participle" in v]
        res["verbOptionNeg"] = rules["verb_option"]["neg"]["prep1"]
        punct = rules["punctuation"]

        def after(sign):
            tab = lex[sign]["Pc"]["tab"]
            if "compl" in lex[sign]["Pc"]:
                raise TranslateError("sign %r became a paired sign" % sign)
            r = punct[tab[0]]
            return r["b"] + sign + r["a"]
        res["signAfter"] = [(s, after(s)) for s in sorted({res["intPunct"], res["excPunct"], ","})]
    except KeyError as e:
        raise TranslateError("rules-en.json: missing %s" % e)

    # (stages are ordered so that everything the model-independent oracle needs — rules, closed-class paradigms,
    #  contraction table, preposition lists — is lifted BEFORE the code-shape constants that only the model needs)
    # --- closed-class verbs and pronoun tables (data)
    closed = []
    for w in ["be", "have", "do"] + [v for _, v in res["compoundAux"]]:
        if w not in closed:
            closed.append(w)
    res["closedVerbs"] = closed
    par = {}
    for w in closed:
        try:
            tab = lex[w]["V"]["tab"]
            ct_ = rules["conjugation"][tab]
        except KeyError as e:
            raise TranslateError("closed-class verb %s: %s" % (w, e))
        par[w] = paradigm(w, ct_)
    res["closedParadigms"] = par
    pro = {}
    for w in ["I", "me", "you", "her", "him", "it", "us", "them"]:
        try:
            tab = lex[w]["Pro"]["tab"]
            d = rules["declension"][tab]
        except KeyError as e:
            raise TranslateError("pronoun %s: %s" % (w, e))
        stem = w[:len(w) - len(d["ending"])] if d["ending"] else w
        rows = []
        for r in d["declension"]:
            rows.append([(k, (stem + str(v)) if k == "val" else str(v)) for k, v in r.items()])
        pro[w] = rows
    res["proTables"] = pro
    # --- ConstituentEn.py
    t5, p5 = _src("ConstituentEn.py")
    ct = _dict_by_content(t5, lambda d: all("+" in k for k in d) and "do+not" in d,
                          "ConstituentEn.py (English contraction table: keys `word+word`)")
    if not isinstance(ct, dict) or not all(isinstance(k, str) and isinstance(v, str) for k, v in ct.items()):
        raise TranslateError("contractionEnTable is not a dict of strings")
    res["contractionEnTable"] = sorted(ct.items())
    res["tonicForms"] = sorted(_return_lit(t5, "ConstituentEn", "tonic_forms", p5))
    res["tonicPe1"] = _return_lit(t5, "ConstituentEn", "tonic_pe_1", p5)
    res["relativePronouns"] = sorted(_return_lit(t5, "ConstituentEn", "relative_pronouns", p5))
    # --- PhraseEn.py / DependentEn.py
    t, p = _src("PhraseEn.py")
    # `preposition_list` lives in PhraseEn, or (once shared with the dependency notation) in the NonTerminalEn mixin
    tn, pn = _src("NonTerminalEn.py")
    if _has_func(t, "PhraseEn", "preposition_list"):
        pl = _return_lit(t, "PhraseEn", "preposition_list", p)
    else:
        pl = _return_lit(tn, "NonTerminalEn", "preposition_list", pn)
    res["prepositionList"] = {k: sorted(v) for k, v in pl.items()}
    # --- NonTerminalEn.py
    tb, pb = _src("NonTerminalEn.py")
    ah = _find_func(tb, "NonTerminalEn", "affixHopping", pb)
    neg = _dict_by_content(tb, lambda d: d.get("can") == "cannot",
                           "NonTerminalEn.py (negated modals: dict with can -> cannot)")
    res["negMod"] = sorted(neg.items())
    # [interrogatives without do-support; tenses without do-support; tenses with the special negation]
    res["affixLists"] = [
        _members(_tested(ah, tb, lambda l: l == "interro", "NonTerminalEn.affixHopping (interrogatives without do-support)")),
        _members(_tested(ah, tb, lambda l: l == "t", "NonTerminalEn.affixHopping (tenses without do-support)", n=0, has="pp")),
        _members(_tested(ah, tb, lambda l: l == "t", "NonTerminalEn.affixHopping (tenses with the special negation)", n=1, has="pp"))]

    def is_lemma_or_vaux(e):
        return (isinstance(e, ast.Attribute) and e.attr == "lemma") or (isinstance(e, ast.Name) and e.id == "vAux")
    res["affixLemmas"] = _eq_strings(ah, is_lemma_or_vaux)     # be, have, can, do (order of first occurrence)
    cap = _find_func(tb, "NonTerminalEn", "checkAdverbPos", pb)
    res["adverbAux"] = _members(max(_str_lists_compared_with(cap, tb) + [[]], key=len))
    for call in ast.walk(cap):
        if isinstance(call, ast.Call) and isinstance(call.func, ast.Name) and call.func.id == "moveAfterAux" and call.args:
            r = _resolve(call.args[0], cap, tb)
            if r is None:
                raise TranslateError("NonTerminalEn.checkAdverbPos: the argument of moveAfterAux is no longer a constant collection")
            res["adverbAux"] = _members(r)
    pho = _find_func(tb, "NonTerminalEn", "passive_human_object", pb)
    res["passiveHumanGenders"] = _members(_tested(pho, tb, lambda l: "getProp('g')" in l,
                                                  "NonTerminalEn.passive_human_object (genders of a human object)"))
    tq = _find_func(t, "PhraseEn", "tag_question", p)
    res["tagAuxPhrase"] = _members(_tested(tq, t, lambda l: l == "currV.lemma",
                                           "PhraseEn.tag_question (lemmas that are their own tag auxiliary)"))
    mo = _find_func(t, "PhraseEn", "move_object", p)
    res["moveObjectNoMoveTensesPhrase"] = _members(_tested(mo, t, lambda l: "getProp('t')" in l,
                                                           "PhraseEn.move_object (tenses that do not invert)"))
    pops = [c for c in ast.walk(mo) if isinstance(c, ast.Call) and isinstance(c.func, ast.Attribute) and c.func.attr == "pop"]
    if len(pops) != 1 or len(pops[0].args) != 1:
        raise TranslateError("PhraseEn.move_object: the pop call changed")
    a0 = pops[0].args[0]
    res["moveObjectPopsIndex0"] = isinstance(a0, ast.Constant) and a0.value == 0
    t2, p2 = _src("DependentEn.py")
    res["depHasPrepositionList"] = _has_func(t2, "DependentEn", "preposition_list") or \
        _has_func(tn, "NonTerminalEn", "preposition_list")
    tq2 = _find_func(t2, "DependentEn", "tag_question", p2)
    res["tagAuxDep"] = _members(_tested(tq2, t2, lambda l: l == "currV.lemma",
                                        "DependentEn.tag_question (lemmas that are their own tag auxiliary)"))
    mo2 = _find_func(t2, "DependentEn", "move_object", p2)
    res["moveObjectNoMoveTensesDep"] = _members(_tested(mo2, t2, lambda l: "getProp('t')" in l,
                                                        "DependentEn.move_object (tenses that do not invert)"))
    # the "no auxiliary" inversion branch: `self.terminal.lemma in ["be", "have"]` (a list or a single string)
    res["moveObjectAloneDep"] = _members(_lemma_set_tested(mo2, t2, "DependentEn.move_object (verbs inverted without auxiliary)"))
    # --- Phrase.py: is the builtin `int` passed to passive_human_object ?
    t3, p3 = _src("Phrase.py")
    pi = _find_func(t3, "Phrase", "processInt", p3)
    arg = None
    for c in ast.walk(pi):
        if isinstance(c, ast.Call) and isinstance(c.func, ast.Attribute) and c.func.attr == "passive_human_object":
            arg = c.args[0].id if isinstance(c.args[0], ast.Name) else None
    if arg is None:
        raise TranslateError("Phrase.processInt: call of passive_human_object not found")
    res["phraseHumanObjectGetsIntValue"] = (arg != "int")
    res["intGroupsPhrase"] = sorted(_members(l) for l in _str_lists_compared_with(pi, t3)
                                    if set(l) & {"yon", "wos", "wod", "woi"})
    t4, p4 = _src("Dependent.py")
    di = _find_func(t4, "Dependent", "processTypInt", p4)
    res["intGroupsDep"] = sorted(_members(l) for l in _str_lists_compared_with(di, t4)
                                 if set(l) & {"yon", "wos", "wod", "woi"})
    arg = None
    for c in ast.walk(di):
        if isinstance(c, ast.Call) and isinstance(c.func, ast.Attribute) and c.func.attr == "passive_human_object":
            arg = c.args[0].id if isinstance(c.args[0], ast.Name) else None
    res["depHumanObjectGetsIntValue"] = (arg is not None and arg != "int")
    return res


def paradigm(lemma, ct):
    """full forms of a verb from its conjugation table (harness-side table lookup: stem + ending)"""
    end = ct["ending"]
    if not lemma.endswith(end):
        return None
    stem = lemma[:len(lemma) - len(end)] if end else lemma
    out = {}
    for t in ("b", "pp", "pr"):
        v = ct["t"].get(t)
        out[t] = (stem + v) if isinstance(v, str) else None
    for t in ("p", "ps"):
        v = ct["t"].get(t)
        if isinstance(v, str):
            out[t] = [stem + v] * 6
        elif isinstance(v, list) and len(v) == 6:
            out[t] = [(stem + x) if isinstance(x, str) else None for x in v]
        else:
            out[t] = None
    return out


def lopt(x):
    return "none" if x is None else "(some %s)" % lq(x)


def lparadigm(p):
    def six(v):
        if v is None:
            return "none"
        return "(some [" + ", ".join(lopt(x) for x in v) + "])"
    return "{ b := %s, p := %s, ps := %s, pp := %s, pr := %s }" % (lopt(p["b"]), six(p["p"]), six(p["ps"]), lopt(p["pp"]), lopt(p["pr"]))


def generate():
    r = extract()
    L = []
    A = L.append
    A("/- GENERATED by harness/translate/clauseen.py from the working tree of the repository: do not edit. -/")
    A("namespace Pyrealb.Gen.ClauseEn")
    A("")
    A("/-- full forms of a verb: `b`, the six present and past forms (1s 2s 3s 1p 2p 3p), `pp`, `pr`; `none` = no such form -/")
    A("structure Paradigm where")
    A("  b : Option String")
    A("  p : Option (List (Option String))")
    A("  ps : Option (List (Option String))")
    A("  pp : Option String")
    A("  pr : Option String")
    A("  deriving Repr, DecidableEq")
    A("")
    A("/-- rules-en.json: sentence_type.int.prefix -/")
    A("def intPrefix : List (String × String) := " + lpairs(r["intPrefix"]))
    A("def intPunct : String := " + lq(r["intPunct"]))
    A("def excPunct : String := " + lq(r["excPunct"]))
    A("/-- what `.a(sign)` appends: punctuation rule of the sign's `Pc` table around the sign -/")
    A("def signAfter : List (String × String) := " + lpairs(r["signAfter"]))
    A("/-- rules-en.json: compound.<key>.aux / .participle -/")
    A("def compoundAux : List (String × String) := " + lpairs(r["compoundAux"]))
    A("def compoundPart : List (String × String) := " + lpairs(r["compoundPart"]))
    A("def verbOptionNeg : String := " + lq(r["verbOptionNeg"]))
    A("/-- NonTerminalEn.negMod -/")
    A("def negMod : List (String × String) := " + lpairs(r["negMod"]))
    A("/-- affixHopping: interrogatives without do-support; tenses without do-support; tenses with the special negation -/")
    A("def noDoInt : List String := " + lstrs(r["affixLists"][0]))
    A("def noDoTenses : List String := " + lstrs(r["affixLists"][1]))
    A("def nonFiniteNegTenses : List String := " + lstrs(r["affixLists"][2]))
    A("/-- the lemmas affixHopping compares the verb / first auxiliary with -/")
    A("def affixLemmas : List String := " + lstrs(r["affixLemmas"]))
    A("def adverbAux : List String := " + lstrs(r["adverbAux"]))
    A("def passiveHumanGenders : List String := " + lstrs(r["passiveHumanGenders"]))
    A("/-- tag_question: lemmas that are their own tag auxiliary (phrase / dependency twin) -/")
    A("def tagAuxPhrase : List String := " + lstrs(r["tagAuxPhrase"]))
    A("def tagAuxDep : List String := " + lstrs(r["tagAuxDep"]))
    A("def moveObjectNoMoveTensesPhrase : List String := " + lstrs(r["moveObjectNoMoveTensesPhrase"]))
    A("def moveObjectNoMoveTensesDep : List String := " + lstrs(r["moveObjectNoMoveTensesDep"]))
    A("def moveObjectAloneDep : List String := " + lstrs(r["moveObjectAloneDep"]))
    A("/-- PhraseEn.move_object pops element 0 of the VP (not the index of the first V) -/")
    A("def moveObjectPopsIndex0 : Bool := " + ("true" if r["moveObjectPopsIndex0"] else "false"))
    A("/-- does DependentEn define `preposition_list` (else int ∈ woi/wai/whe/whn raises AttributeError) -/")
    A("def depHasPrepositionList : Bool := " + ("true" if r["depHasPrepositionList"] else "false"))
    A("/-- is the interrogative value (and not the builtin `int`) passed to passive_human_object -/")
    A("def phraseHumanObjectGetsIntValue : Bool := " + ("true" if r["phraseHumanObjectGetsIntValue"] else "false"))
    A("def depHumanObjectGetsIntValue : Bool := " + ("true" if r["depHumanObjectGetsIntValue"] else "false"))
    A("/-- groups of interrogative values handled together by Phrase.processInt / Dependent.processTypInt -/")
    A("def intGroupsPhrase : List (List String) := [" + ", ".join(lstrs(g) for g in r["intGroupsPhrase"]) + "]")
    A("def intGroupsDep : List (List String) := [" + ", ".join(lstrs(g) for g in r["intGroupsDep"]) + "]")
    A("/-- PhraseEn.preposition_list -/")
    for k in ("all", "whe", "whn"):
        if k not in r["prepositionList"]:
            raise TranslateError("preposition_list: key %s missing" % k)
        A("def prepositions%s : List String := %s" % (k.capitalize(), lstrs(r["prepositionList"][k])))
    A("/-- ConstituentEn.doElision: contractionEnTable (insertion order) -/")
    A("def contractionEnTable : List (String × String) := " + lpairs(r["contractionEnTable"]))
    A("def tonicForms : List String := " + lstrs(r["tonicForms"]))
    A("def tonicPe1 : String := " + lq(r["tonicPe1"]))
    A("def relativePronouns : List String := " + lstrs(r["relativePronouns"]))
    A("/-- conjugation of the closed-class verbs (lexicon-en.json tab → rules-en.json conjugation), full forms -/")
    for w in r["closedVerbs"]:
        if r["closedParadigms"][w] is None:
            raise TranslateError("closed-class verb %s does not end with its table's ending" % w)
        A("def paradigm_%s : Paradigm := %s" % (w, lparadigm(r["closedParadigms"][w])))
    A("def closedParadigms : List (String × Paradigm) := [" + ", ".join("(%s, paradigm_%s)" % (lq(w), w) for w in r["closedVerbs"]) + "]")
    A("/-- declension tables of the personal pronouns (rows of key/value pairs; `val` is the full form) -/")
    for w, rows in r["proTables"].items():
        A("def proTable_%s : List (List (String × String)) := [" % w + ",\n  ".join(lpairs(row) for row in rows) + "]")
    A("def proTables : List (String × List (List (String × String))) := [" + ", ".join("(%s, proTable_%s)" % (lq(w), w) for w in r["proTables"]) + "]")
    A("")
    A("end Pyrealb.Gen.ClauseEn")
    return {OUT: "\n".join(L) + "\n"}
