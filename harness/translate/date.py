"""Translator of the `date` family (property C17).

Regenerates lean/Pyrealb/Gen/DateRules.lean from the working tree of the repository:
  * the `date` sections of data/rules-en.json and data/rules-fr.json (format tables natural / non_natural /
    relative_time, weekday and month names, meridiem words) as association lists in file order;
  * constants lifted by `ast` (no execution) from Terminal.dateFormat, Terminal.setLemma and Constituent.dOpt:
    the format regular expression, the placeholder dictionary (key and source text of each lambda), the two field
    lists, the literal keys of the natural-time simplification, the allowed dOpt keys and the DT defaults.
The Lean theorems about format cells are `decide +kernel` over these tables, i.e. re-proved on every run.
"""
import ast
import copy
import json
import os

from harness import core


def _err(msg):
    from harness import translate
    raise translate.TranslateError("translate/date: " + msg)


def lchar(c):
    if c == "'":
        return "'\\''"
    if c == "\\":
        return "'\\\\'"
    if c == "\n":
        return "'\\n'"
    if c == "\t":
        return "'\\t'"
    if ord(c) < 32 or ord(c) == 127:
        return "(Char.ofNat %d)" % ord(c)
    return "'%s'" % c


def lstr(x):
    if not isinstance(x, str):
        _err("expected a string, found %r" % (x,))
    return "[" + ",".join(lchar(c) for c in x) + "]"


def lpairs(d):
    if not isinstance(d, dict):
        _err("expected an object, found %r" % (d,))
    return "[" + ",\n   ".join("(%s, %s)" % (lstr(k), lstr(v)) for k, v in d.items()) + "]"


def llist(l):
    if not isinstance(l, list):
        _err("expected a list, found %r" % (l,))
    return "[" + ", ".join(lstr(x) for x in l) + "]"


def rules(lang):
    p = os.path.join(core.REPO, "src", "pyrealb", "data", "rules-%s.json" % lang)
    try:
        j = json.load(open(p, encoding="utf-8"))
    except (OSError, ValueError) as e:
        _err("cannot read %s: %s" % (p, e))
    try:
        d = j["date"]
        fmt, txt = d["format"], d["text"]
        return {"natural": fmt["natural"], "non_natural": fmt["non_natural"], "relative_time": fmt["relative_time"],
                "weekday": txt["weekday"], "month": txt["month"], "meridiem": txt.get("meridiem")}
    except (KeyError, TypeError) as e:
        _err("rules-%s.json: date section lacks %s" % (lang, e))


# ------------------------------------------------------------------------------------------------ AST lifting

def _find_func(tree, cls, name):
    for n in ast.walk(tree):
        if isinstance(n, ast.ClassDef) and n.name == cls:
            for f in n.body:
                if isinstance(f, ast.FunctionDef) and f.name == name:
                    return f
    _err("%s.%s not found" % (cls, name))


def _const_strs(n):
    """elements of a list / tuple / set display of string constants, else None"""
    if isinstance(n, (ast.List, ast.Tuple, ast.Set)) and n.elts and \
            all(isinstance(e, ast.Constant) and isinstance(e.value, str) for e in n.elts):
        return [e.value for e in n.elts]
    return None


class _Norm(ast.NodeTransformer):
    """brings behaviour-preserving spellings to one form before the source text is lifted:
       * a list display that is only iterated (`for x in [..]`, comprehension) or tested (`x in [..]`) = the tuple display;
       * a local zero-argument helper `def h(): return e` of the function = its expression (`h()` -> `e`, a bare `h`
         stored as a dictionary value -> `lambda: e`)."""

    def __init__(self, helpers, mod_funcs=None):
        self.helpers = helpers
        self.mod_funcs = mod_funcs or {}

    @staticmethod
    def _tup(n):
        if isinstance(n, ast.List) and isinstance(n.ctx, ast.Load):
            return ast.copy_location(ast.Tuple(elts=n.elts, ctx=ast.Load()), n)
        return n

    def visit_comprehension(self, node):
        self.generic_visit(node)
        node.iter = self._tup(node.iter)
        return node

    def visit_For(self, node):
        self.generic_visit(node)
        node.iter = self._tup(node.iter)
        return node

    def visit_Compare(self, node):
        self.generic_visit(node)
        node.comparators = [self._tup(c) if isinstance(op, (ast.In, ast.NotIn)) else c
                            for op, c in zip(node.ops, node.comparators)]
        return node

    def visit_Call(self, node):
        self.generic_visit(node)
        if isinstance(node.func, ast.Name) and node.func.id in self.helpers and not node.args and not node.keywords:
            return copy.deepcopy(self.helpers[node.func.id])
        if isinstance(node.func, ast.Name) and node.func.id in self.mod_funcs and not node.keywords:
            params, expr = self.mod_funcs[node.func.id]
            if len(params) == len(node.args) and not any(isinstance(a, ast.Starred) for a in node.args):
                return _Subst(dict(zip(params, node.args))).visit(copy.deepcopy(expr))
        return node

    def visit_Dict(self, node):
        self.generic_visit(node)
        vals = []
        for v in node.values:
            if isinstance(v, ast.Name) and v.id in self.helpers:
                v = ast.copy_location(ast.Lambda(args=ast.arguments(posonlyargs=[], args=[], kwonlyargs=[], kw_defaults=[],
                                                                       defaults=[]),
                                                 body=copy.deepcopy(self.helpers[v.id])), v)
            vals.append(v)
        node.values = vals
        return node


class _Subst(ast.NodeTransformer):
    """parameter -> argument expression"""

    def __init__(self, mapping):
        self.mapping = mapping

    def visit_Name(self, node):
        if isinstance(node.ctx, ast.Load) and node.id in self.mapping:
            return copy.deepcopy(self.mapping[node.id])
        return node


def _single_return(st):
    """the expression of a function whose body is (a docstring and) one `return e`, else None"""
    b = [x for x in st.body if not (isinstance(x, ast.Expr) and isinstance(x.value, ast.Constant))]
    if len(b) == 1 and isinstance(b[0], ast.Return) and b[0].value is not None and not st.decorator_list:
        return b[0].value
    return None


def _module_env(mod):
    """module-level single assignments `name = expr` and single-return functions with plain positional parameters"""
    consts, funcs = {}, {}
    for st in mod.body:
        if isinstance(st, ast.Assign) and len(st.targets) == 1 and isinstance(st.targets[0], ast.Name):
            consts[st.targets[0].id] = st.value
        elif isinstance(st, ast.FunctionDef):
            a = st.args
            e = _single_return(st)
            if e is not None and not (a.vararg or a.kwarg or a.kwonlyargs or a.defaults or a.posonlyargs):
                funcs[st.name] = ([x.arg for x in a.args], e)
    return consts, funcs


def _dfs(node):
    """pre-order traversal in field order (independent of line numbers, which inlining disturbs)"""
    yield node
    for c in ast.iter_child_nodes(node):
        yield from _dfs(c)


def _str_collection(n, consts, depth=0):
    """strings of a list/tuple/set display, of frozenset/set/tuple/list(<display>), or of a module-level name bound to
    one; else None"""
    if _const_strs(n) is not None:
        return _const_strs(n)
    if isinstance(n, ast.Call) and isinstance(n.func, ast.Name) and n.func.id in ("frozenset", "set", "tuple", "list") \
            and len(n.args) == 1 and not n.keywords:
        return _str_collection(n.args[0], consts, depth + 1)
    if isinstance(n, ast.Name) and n.id in consts and depth < 4:
        return _str_collection(consts[n.id], consts, depth + 1)
    return None


def _normalise(fn, mod=None):
    """a normalised deep copy of the function `fn` (see _Norm); local zero-argument single-return helpers are inlined
    and removed; calls of module-level single-return functions are replaced by their expression (parameters
    substituted)"""
    fn = copy.deepcopy(fn)
    helpers = {}
    body = []
    for st in fn.body:
        if isinstance(st, ast.FunctionDef) and not (st.args.args or st.args.posonlyargs or st.args.kwonlyargs
                                                     or st.args.vararg or st.args.kwarg) and not st.decorator_list:
            e = _single_return(st)
            if e is not None:
                helpers[st.name] = e
                continue
        body.append(st)
    fn.body = body
    mod_funcs = _module_env(mod)[1] if mod is not None else {}
    for _ in range(3):      # helpers may use each other
        norm = _Norm(helpers, mod_funcs)
        helpers = {k: norm.visit(copy.deepcopy(v)) for k, v in helpers.items()}
        mod_funcs = {k: (ps, norm.visit(copy.deepcopy(e))) for k, (ps, e) in mod_funcs.items()}
    fn = _Norm(helpers, mod_funcs).visit(fn)
    ast.fix_missing_locations(fn)
    return fn


def lift_python():
    src = os.path.join(core.REPO, "src", "pyrealb")
    try:
        term = ast.parse(open(os.path.join(src, "Terminal.py"), encoding="utf-8").read())
        cons = ast.parse(open(os.path.join(src, "Constituent.py"), encoding="utf-8").read())
    except (OSError, SyntaxError) as e:
        _err("cannot parse the Python source: %s" % e)
    df = _normalise(_find_func(term, "Terminal", "dateFormat"), term)
    tconsts = _module_env(term)[0]
    res = {}
    # the pattern of the regular expression whose .finditer scans the format: a local or module-level
    # `name = re.compile(<literal>)`, or re.compile(<literal>).finditer(...) directly
    local = {n.targets[0].id: n.value for n in ast.walk(df)
             if isinstance(n, ast.Assign) and len(n.targets) == 1 and isinstance(n.targets[0], ast.Name)}
    for n in _dfs(df):
        if isinstance(n, ast.Call) and isinstance(n.func, ast.Attribute) and n.func.attr == "finditer":
            v = n.func.value
            if isinstance(v, ast.Name):
                v = local.get(v.id, tconsts.get(v.id))
            if isinstance(v, ast.Call) and isinstance(v.func, ast.Attribute) and v.func.attr == "compile" and v.args \
                    and isinstance(v.args[0], ast.Constant) and isinstance(v.args[0].value, str):
                res["fmtRE"] = v.args[0].value
    if "fmtRE" not in res:
        _err("the regular expression scanned with .finditer in Terminal.dateFormat is not a re.compile(<literal>)")
    # the placeholder dictionary: the dict literal whose values are all lambdas
    ph = None
    for n in _dfs(df):
        if isinstance(n, ast.Dict) and n.keys and all(isinstance(v, ast.Lambda) for v in n.values) \
                and all(isinstance(k, ast.Constant) and isinstance(k.value, str) for k in n.keys):
            ph = [(k.value, ast.unparse(v.body)) for k, v in zip(n.keys, n.values)]
    if ph is None:
        _err("placeholder dictionary of lambdas not found in Terminal.dateFormat")
    res["placeholders"] = ph
    # list literals of field names and string constants compared with / assigned to timeFields
    lists = []
    for n in _dfs(df):
        if _const_strs(n) is not None:
            lists.append(_const_strs(n))
    date_l = [l for l in lists if "year" in l]
    time_l = [l for l in lists if "hour" in l]
    if len(date_l) != 1 or len(time_l) != 1:
        _err("field lists of Terminal.dateFormat not found (%r)" % (lists,))
    res["dateFields"], res["timeFields"] = date_l[0], time_l[0]
    tf = []
    for n in _dfs(df):
        if isinstance(n, ast.Compare) and isinstance(n.left, ast.Name) and n.left.id == "timeFields":
            tf += ["==" + c.value for c in n.comparators if isinstance(c, ast.Constant)]
        if isinstance(n, ast.Assign) and isinstance(n.targets[0], ast.Name) and n.targets[0].id == "timeFields" \
                and isinstance(n.value, ast.Constant):
            tf.append("=" + n.value.value)
    res["natSimplification"] = tf
    # separators of the two joins and the relative-time statements (source text)
    rel = []
    for n in _dfs(df):
        if isinstance(n, ast.Assign) and isinstance(n.targets[0], ast.Name) and n.targets[0].id in ("diffDays", "sign", "dateS", "fmt", "fmts"):
            rel.append(ast.unparse(n))
        if isinstance(n, ast.Return):
            rel.append(ast.unparse(n))
    res["statements"] = sorted(set(rel))
    # the tests of every `if` / `elif` / conditional expression of dateFormat, in source order
    res["conditions"] = [ast.unparse(n.test) for n in _dfs(df) if isinstance(n, (ast.If, ast.IfExp))]
    # the DT branch of Terminal.real() and the DT factory of utils.py
    rl = _find_func(term, "Terminal", "real")
    real_dt = None
    for n in ast.walk(rl):
        if isinstance(n, ast.If) and ast.unparse(n.test) == "self.isA('DT')":
            real_dt = [ast.unparse(x) for x in n.body]
    if real_dt is None:
        _err("branch `self.isA('DT')` of Terminal.real not found")
    res["realDT"] = real_dt
    try:
        ut = ast.parse(open(os.path.join(src, "utils.py"), encoding="utf-8").read())
    except (OSError, SyntaxError) as e:
        _err("cannot parse utils.py: %s" % e)
    fac = [n for n in ut.body if isinstance(n, ast.FunctionDef) and n.name == "DT"]
    if len(fac) != 1:
        _err("factory DT not found in utils.py")
    res["factoryDT"] = ["def DT(%s)" % ast.unparse(fac[0].args)] + [ast.unparse(x) for x in fac[0].body]
    # DT defaults in Terminal.setLemma
    sl = _find_func(term, "Terminal", "setLemma")
    dflt = None
    for n in ast.walk(sl):
        if isinstance(n, ast.Dict) and any(isinstance(k, ast.Constant) and k.value == "rtime" for k in n.keys):
            try:
                dflt = [(k.value, ast.literal_eval(v)) for k, v in zip(n.keys, n.values)]
            except ValueError:
                _err("DT default dOpt is not a literal")
    if dflt is None or not all(isinstance(v, bool) for _, v in dflt):
        _err("DT default dOpt dictionary not found in Terminal.setLemma")
    res["defaults"] = dflt
    # the allowed dOpt keys of a DT, found BY CONTENT: the string collection containing "rtime" that Constituent.dOpt
    # assigns (under any name) or tests with in / not in (a display, or a name bound at module level)
    do = _find_func(cons, "Constituent", "dOpt")
    cconsts = _module_env(cons)[0]
    ak = None
    for n in _dfs(do):
        cands = []
        if isinstance(n, ast.Assign):
            cands.append(n.value)
        if isinstance(n, ast.Compare):
            cands += [c for op, c in zip(n.ops, n.comparators) if isinstance(op, (ast.In, ast.NotIn))]
        for c in cands:
            vals = _str_collection(c, cconsts)
            if vals is not None and "rtime" in vals and ak is None:
                ak = vals
    if ak is None:
        _err("no string collection containing 'rtime' is assigned or tested with `in` in Constituent.dOpt")
    res["allowedKeys"] = ak
    # the ISO pattern of parseDateString
    pd = _find_func(cons, "Constituent", "parseDateString")
    iso = None
    for n in ast.walk(pd):
        if isinstance(n, ast.Call) and isinstance(n.func, ast.Attribute) and n.func.attr == "match" and n.args \
                and isinstance(n.args[0], ast.Constant):
            iso = n.args[0].value
    if iso is None:
        _err("re.match(<literal>) not found in Constituent.parseDateString")
    res["isoRE"] = iso
    return res


def generate():
    out = ["import Pyrealb.Model.Basic",
           "/-! GENERATED by harness/translate/date.py from data/rules-{en,fr}.json (`date` sections) and, by `ast`, from",
           "    Terminal.dateFormat / Terminal.setLemma / Constituent.dOpt / Constituent.parseDateString.  Do not edit. -/",
           "namespace Pyrealb.Gen.DateRules", "open Pyrealb", ""]
    for lang in ("en", "fr"):
        r = rules(lang)
        for tab in ("natural", "non_natural", "relative_time"):
            for k, v in r[tab].items():
                if "\n" in k or "\n" in v:
                    _err("newline in a %s format cell of rules-%s.json (the format scanner model assumes none)" % (tab, lang))
        out.append("def %sNatural : List (Str × Str) :=\n  %s\n" % (lang, lpairs(r["natural"])))
        out.append("def %sNonNatural : List (Str × Str) :=\n  %s\n" % (lang, lpairs(r["non_natural"])))
        out.append("def %sRelative : List (Str × Str) :=\n  %s\n" % (lang, lpairs(r["relative_time"])))
        out.append("def %sWeekday : List Str :=\n  %s\n" % (lang, llist(r["weekday"])))
        out.append("def %sMonth : List (Str × Str) :=\n  %s\n" % (lang, lpairs(r["month"])))
        if r["meridiem"] is None:
            out.append("def %sMeridiem : Option (List Str) := none\n" % lang)
        else:
            out.append("def %sMeridiem : Option (List Str) :=\n  some %s\n" % (lang, llist(r["meridiem"])))
    py = lift_python()
    out.append("/-- pattern of `fmtRE` in Terminal.dateFormat -/\ndef pyFmtRE : Str := %s\n" % lstr(py["fmtRE"]))
    out.append("/-- pattern of `re.match` in Constituent.parseDateString -/\ndef pyIsoRE : Str := %s\n" % lstr(py["isoRE"]))
    out.append("/-- the placeholder dictionary of Terminal.dateFormat: key, source text of the lambda body -/\n"
               "def pyPlaceholders : List (Str × Str) :=\n  %s\n" % lpairs(dict(py["placeholders"])))
    if len(dict(py["placeholders"])) != len(py["placeholders"]):
        _err("duplicate key in the placeholder dictionary")
    out.append("def pyDateFields : List Str := %s\n" % llist(py["dateFields"]))
    out.append("def pyTimeFields : List Str := %s\n" % llist(py["timeFields"]))
    out.append("/-- literal keys compared with (`==`) / assigned to (`=`) `timeFields` in the natural-time simplification, in source order -/\n"
               "def pyNatSimplification : List Str := %s\n" % llist(py["natSimplification"]))
    out.append("/-- source text of the assignments to fmts/fmt/diffDays/sign/dateS and of the returns of Terminal.dateFormat (sorted) -/\n"
               "def pyStatements : List Str :=\n  [%s]\n" % ",\n   ".join(lstr(x) for x in py["statements"]))
    out.append("/-- source text of the tests of every if / elif / conditional expression of Terminal.dateFormat, in source order -/\n"
               "def pyConditions : List Str :=\n  [%s]\n" % ",\n   ".join(lstr(x) for x in py["conditions"]))
    out.append("/-- statements of the `self.isA('DT')` branch of Terminal.real -/\n"
               "def pyRealDT : List Str := [%s]\n" % ", ".join(lstr(x) for x in py["realDT"]))
    out.append("/-- signature and body of the factory `DT` of utils.py -/\n"
               "def pyFactoryDT : List Str := [%s]\n" % ", ".join(lstr(x) for x in py["factoryDT"]))
    out.append("def pyAllowedKeys : List Str := %s\n" % llist(py["allowedKeys"]))
    out.append("/-- defaults set by Terminal.setLemma for a DT -/\ndef pyDefaults : List (Str × Bool) :=\n  [%s]\n"
               % ", ".join("(%s, %s)" % (lstr(k), "true" if v else "false") for k, v in py["defaults"]))
    out.append("end Pyrealb.Gen.DateRules\n")
    return {"Pyrealb/Gen/DateRules.lean": "\n".join(out)}
