"""Gen/CoordConsts.lean — constants of the coordination code lifted from /repo by `ast` (no execution):

* every `makeOptionMethod(name, validVals, allowedConsts[, optionName])` call of Constituent.py (name -> allowedConsts,
  `*deprels` expanded from the module constant),
* the option names excluded from propagation in the `isA("CP")` / `isA("coord")` branches of `makeOptionMethod._method`,
* the constituent types counted by Phrase.findGenderNumberPerson / Dependent.findGenderNumberPerson,
* what `and_conj()` returns in NonTerminalEn / NonTerminalFr.
"""
import ast
import os

from harness import core
from harness.translate import TranslateError


def _src(name):
    p = os.path.join(core.REPO, "src", "pyrealb", name)
    try:
        return ast.parse(open(p, encoding="utf-8").read())
    except OSError as e:
        raise TranslateError("coordconsts: cannot read %s: %s" % (p, e))


def _strs(node, consts):
    """list literal of strings, `*name` expanded"""
    if not isinstance(node, (ast.List, ast.Tuple)):
        raise TranslateError("coordconsts: expected a list literal, got %s" % ast.dump(node)[:80])
    out = []
    for e in node.elts:
        if isinstance(e, ast.Constant) and isinstance(e.value, str):
            out.append(e.value)
        elif isinstance(e, ast.Starred) and isinstance(e.value, ast.Name) and e.value.id in consts:
            out.extend(consts[e.value.id])
        else:
            raise TranslateError("coordconsts: unexpected element %s" % ast.dump(e)[:80])
    return out


def _func(tree, cls, name):
    for n in ast.walk(tree):
        if isinstance(n, ast.ClassDef) and n.name == cls:
            for f in n.body:
                if isinstance(f, ast.FunctionDef) and f.name == name:
                    return f
    raise TranslateError("coordconsts: %s.%s not found" % (cls, name))


def extract():
    cons = _src("Constituent.py")
    consts = {}
    for n in cons.body:
        if isinstance(n, ast.Assign) and len(n.targets) == 1 and isinstance(n.targets[0], ast.Name) \
                and n.targets[0].id == "deprels":
            consts["deprels"] = _strs(n.value, {})
    if "deprels" not in consts:
        raise TranslateError("coordconsts: `deprels` not found in Constituent.py")
    table = []
    for n in ast.walk(cons):
        if isinstance(n, ast.Call) and isinstance(n.func, ast.Name) and n.func.id == "makeOptionMethod":
            if len(n.args) < 3 or not isinstance(n.args[0], ast.Constant):
                raise TranslateError("coordconsts: unexpected makeOptionMethod call")
            table.append((n.args[0].value, _strs(n.args[2], consts)))
    if len(table) < 10:
        raise TranslateError("coordconsts: only %d makeOptionMethod calls found" % len(table))
    # the two `option not in [...]` lists of _method
    mk = [n for n in cons.body if isinstance(n, ast.FunctionDef) and n.name == "makeOptionMethod"]
    if not mk:
        raise TranslateError("coordconsts: makeOptionMethod not found")
    excl = {}
    for n in ast.walk(mk[0]):
        if isinstance(n, ast.If) and isinstance(n.test, ast.BoolOp) and isinstance(n.test.op, ast.And):
            kind, lst = None, None
            for v in n.test.values:
                if isinstance(v, ast.Call) and isinstance(v.func, ast.Attribute) and v.func.attr == "isA" \
                        and len(v.args) == 1 and isinstance(v.args[0], ast.Constant):
                    kind = v.args[0].value
                if isinstance(v, ast.Compare) and len(v.ops) == 1 and isinstance(v.ops[0], ast.NotIn) \
                        and isinstance(v.left, ast.Name) and v.left.id == "option":
                    lst = _strs(v.comparators[0], consts)
            if kind in ("CP", "coord") and lst is not None:
                excl[kind] = lst
    if set(excl) != {"CP", "coord"}:
        raise TranslateError("coordconsts: propagation branches of makeOptionMethod not found (%r)" % sorted(excl))

    def counted(fname, cls):
        f = _func(_src(fname), cls, "findGenderNumberPerson")
        for n in ast.walk(f):
            if isinstance(n, ast.If) and isinstance(n.test, ast.Call) and isinstance(n.test.func, ast.Attribute) \
                    and n.test.func.attr == "isA" and isinstance(n.test.func.value, ast.Name) and n.test.func.value.id == "e":
                return [a.value for a in n.test.args if isinstance(a, ast.Constant)]
        raise TranslateError("coordconsts: isA test of %s.findGenderNumberPerson not found" % cls)

    def andconj(fname, cls):
        f = _func(_src(fname), cls, "and_conj")
        for n in ast.walk(f):
            if isinstance(n, ast.Return) and isinstance(n.value, ast.Constant) and isinstance(n.value.value, str):
                return n.value.value
        raise TranslateError("coordconsts: %s.and_conj does not return a literal" % cls)

    def defaults(fname, cls):
        f = _func(_src(fname), cls, "defaultProps")
        for n in ast.walk(f):
            if isinstance(n, ast.Return) and isinstance(n.value, ast.Dict):
                d = {k.value: v.value for k, v in zip(n.value.keys, n.value.values)
                     if isinstance(k, ast.Constant) and isinstance(v, ast.Constant)}
                if {"g", "n", "pe"} <= set(d):
                    return d
        raise TranslateError("coordconsts: %s.defaultProps does not return a literal dict with g, n, pe" % cls)

    return {
        "defEn": defaults("ConstituentEn.py", "ConstituentEn"), "defFr": defaults("ConstituentFr.py", "ConstituentFr"),
        "table": table, "cpNoProp": excl["CP"], "coordNoProp": excl["coord"],
        "cpCounted": counted("Phrase.py", "Phrase"), "coordCounted": counted("Dependent.py", "Dependent"),
        "andEn": andconj("NonTerminalEn.py", "NonTerminalEn"), "andFr": andconj("NonTerminalFr.py", "NonTerminalFr"),
    }


def pronoun_entries():
    """every Pro entry of both lexicons with the person/number/gender columns of its declension table"""
    import json
    res = []
    d = os.path.join(core.REPO, "src", "pyrealb", "data")
    for lang in ("en", "fr"):
        try:
            lex = json.load(open(os.path.join(d, "lexicon-%s.json" % lang), encoding="utf-8"))
            decl = json.load(open(os.path.join(d, "rules-%s.json" % lang), encoding="utf-8"))["declension"]
        except (OSError, KeyError, ValueError) as e:
            raise TranslateError("coordconsts: cannot read the %s lexicon/rules: %s" % (lang, e))
        for lemma in sorted(lex):
            e = lex[lemma].get("Pro") if isinstance(lex[lemma], dict) else None
            if e is None:
                continue
            tab = e.get("tab")
            rows = decl.get(tab, {}).get("declension", [])
            res.append({"lang": lang, "lemma": lemma, "tab": tab or "", "pe": e.get("pe"), "n": e.get("n"), "g": e.get("g"),
                        "rows": [(r.get("pe"), r.get("n"), r.get("g")) for r in rows]})
    if len(res) < 50:
        raise TranslateError("coordconsts: only %d pronoun entries found" % len(res))
    return res


def _chars(x):
    def ch(c):
        if c == "'":
            return "'\\''"
        if c == "\\":
            return "'\\\\'"
        return "'%s'" % c
    return "[" + ", ".join(ch(c) for c in x) + "]"


def _strlist(l):
    return "[" + ", ".join(_chars(x) for x in l) + "]"


def generate():
    d = extract()
    out = ["import Pyrealb.Model.Basic",
           "/-! GENERATED by harness/translate/coordconsts.py from /repo/src/pyrealb (Constituent.py, Phrase.py,",
           "    Dependent.py, NonTerminalEn.py, NonTerminalFr.py) — do not edit. -/",
           "namespace Pyrealb.Gen.CoordConsts",
           "open Pyrealb",
           "",
           "/-- `makeOptionMethod(name, validVals, allowedConsts)`: option method name ↦ allowedConsts -/",
           "def optionTable : List (Str × List Str) := ["]
    out.append(",\n".join("  (%s, %s)" % (_chars(n), _strlist(a)) for n, a in d["table"]))
    out.append("]")
    out.append("/-- `if self.isA(\"CP\") and option not in [...]` -/")
    out.append("def cpNoPropagate : List Str := %s" % _strlist(d["cpNoProp"]))
    out.append("/-- `if self.isA(\"coord\") and option not in [...]` -/")
    out.append("def coordNoPropagate : List Str := %s" % _strlist(d["coordNoProp"]))
    out.append("/-- `e.isA(...)` of Phrase.findGenderNumberPerson -/")
    out.append("def cpCounted : List Str := %s" % _strlist(d["cpCounted"]))
    out.append("/-- `e.isA(...)` of Dependent.findGenderNumberPerson (e = the dependent's terminal) -/")
    out.append("def coordCounted : List Str := %s" % _strlist(d["coordCounted"]))
    out.append("def andEn : Str := %s" % _chars(d["andEn"]))
    out.append("def andFr : Str := %s" % _chars(d["andFr"]))
    out.append("/-- `defaultProps()` of ConstituentEn / ConstituentFr: (g, n, pe) -/")
    for nm, dd in (("En", d["defEn"]), ("Fr", d["defFr"])):
        if not isinstance(dd["pe"], int):
            raise TranslateError("coordconsts: default pe is not an int")
        out.append("def default%s : Str × Str × Nat := (%s, %s, %d)" % (nm, _chars(dd["g"]), _chars(dd["n"]), dd["pe"]))

    def ostr(x):
        return "none" if x is None else "some %s" % _chars(str(x))

    def onat(x):
        if x is None:
            return "none"
        if not isinstance(x, int) or isinstance(x, bool) or x < 0:
            raise TranslateError("coordconsts: person %r is not a natural number" % (x,))
        return "some %d" % x
    out.append("")
    out.append("/-- a `Pro` entry of a lexicon: the features it carries, and the (pe, n, g) columns of its declension table -/")
    out.append("structure ProEntry where")
    out.append("  lang : Str")
    out.append("  lemma : Str")
    out.append("  tab : Str")
    out.append("  pe : Option Nat")
    out.append("  n : Option Str")
    out.append("  g : Option Str")
    out.append("  rows : List (Option Nat × Option Str × Option Str)")
    out.append("  deriving DecidableEq, Repr")
    out.append("")
    names = []
    for i, e in enumerate(pronoun_entries()):
        nm = "pro_%s_%d" % (e["lang"], i)
        names.append(nm)
        rows = ", ".join("(%s, %s, %s)" % (onat(a), ostr(b), ostr(c)) for a, b, c in e["rows"])
        out.append("def %s : ProEntry := ProEntry.mk %s %s %s (%s) (%s) (%s) [%s]" % (
            nm, _chars(e["lang"]), _chars(e["lemma"]), _chars(e["tab"]), onat(e["pe"]), ostr(e["n"]), ostr(e["g"]), rows))
    out.append("")
    out.append("/-- every `Pro` entry of lexicon-en.json and lexicon-fr.json -/")
    out.append("def proEntries : List ProEntry := [%s]" % ", ".join(names))
    out.append("")
    out.append("end Pyrealb.Gen.CoordConsts")
    return {"Pyrealb/Gen/CoordConsts.lean": "\n".join(out) + "\n"}
