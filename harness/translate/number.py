"""Translator for C16: lifts, with `ast` only (nothing of pyrealb is executed), every word list and string/number
constant that src/pyrealb/Number.py uses (both languages), the number-related constants of Terminal*.py and the
`number.symbol` entries of rules-{en,fr}.json into lean/Pyrealb/Gen/NumberWords.lean.

How it ties: each function of Number.py is flattened to the source-order sequence of its literals (`print(...)`
calls skipped).  That sequence is matched against a *shape*: a literal that steers control flow (`"0"`, `"001"`,
`3`, `"sing"` ...) is pinned to its expected value, a literal that is a *word or separator* is a named slot whose
current value is emitted as a Lean `def`.  A missing function, a different number of literals, or a pinned literal
with another value raises TranslateError (a broken tie, DESIGN §2.2) - the check then searches for a failing input.
"""
import ast
import json
import os

from harness import core


def _TE(msg):
    from harness import translate
    return translate.TranslateError("translate/number: " + msg)


# ------------------------------------------------------------------------------------------ flattening

def _items(node):
    """source-order literals of a function body, nested function definitions and print(...) calls excluded;
    a list or tuple display of string literals is one item"""
    out = []

    def go(n):
        if isinstance(n, ast.Call) and isinstance(n.func, ast.Name) and n.func.id == "print":
            return
        if isinstance(n, ast.FunctionDef) and n is not node:
            return
        if isinstance(n, (ast.List, ast.Tuple)) and n.elts and all(isinstance(e, ast.Constant) and isinstance(e.value, str) for e in n.elts):
            out.append([e.value for e in n.elts])
            return
        if isinstance(n, ast.Constant):
            out.append(n.value)
            return
        for c in ast.iter_child_nodes(n):
            go(c)
    for c in ast.iter_child_nodes(node):
        go(c)
    return out


class P:  # pinned literal
    def __init__(self, v):
        self.v = v


def _match(where, items, shape, env):
    # a display of strings where the shape has scalar slots (`s in ("zéro","zero")` for `s=="zéro" or s=="zero"`)
    # stands for its elements
    flat, j = [], 0
    for it in items:
        sh = shape[j] if j < len(shape) else None
        if isinstance(it, list) and not (isinstance(sh, tuple) and sh[1].startswith("list")):
            flat.extend(it)
            j += len(it)
        else:
            flat.append(it)
            j += 1
    items = flat
    if len(items) != len(shape):
        raise _TE("%s: %d literals found, %d expected (the function was restructured): %r" % (where, len(items), len(shape), items))
    for k, (it, sh) in enumerate(zip(items, shape)):
        if isinstance(sh, P):
            if it != sh.v or type(it) is not type(sh.v):
                raise _TE("%s: literal #%d is %r, expected the control constant %r" % (where, k, it, sh.v))
        else:
            name, typ = sh
            if typ == "str" and not isinstance(it, str):
                raise _TE("%s: literal #%d (%s) is %r, a string was expected" % (where, k, name, it))
            if typ == "int" and (not isinstance(it, int) or isinstance(it, bool)):
                raise _TE("%s: literal #%d (%s) is %r, an int was expected" % (where, k, name, it))
            if typ.startswith("list"):
                n = int(typ[4:])
                if not isinstance(it, list) or len(it) != n:
                    raise _TE("%s: literal #%d (%s) is %r, a list of %d strings was expected" % (where, k, name, it, n))
            if name in env and env[name] != it:
                raise _TE("%s: slot %s has two different values %r / %r" % (where, name, env[name], it))
            env[name] = it


def _func(body, name, where):
    for n in body:
        if isinstance(n, ast.FunctionDef) and n.name == name:
            return n
    raise _TE("function %s not found in %s" % (name, where))


def _all_functions(tree):
    return [n for n in ast.walk(tree) if isinstance(n, ast.FunctionDef)]


def _reachable(tree, root):
    """names of the functions called (by plain name) from `root`, transitively through the functions of the module,
    nested or not"""
    by_name = {}
    for f in _all_functions(tree):
        by_name.setdefault(f.name, []).append(f)
    seen, todo = set(), [root]
    while todo:
        f = todo.pop()
        for n in ast.walk(f):
            if isinstance(n, ast.Call) and isinstance(n.func, ast.Name) and n.func.id in by_name and n.func.id not in seen:
                seen.add(n.func.id)
                todo.extend(by_name[n.func.id])
    return seen


def _helper_by_shape(tree, root, what, shape, env):
    """the helper of `root` whose literals have the given shape: found by CONTENT wherever it is defined (nested in
    `root`, or a module-level function under any name) and required to be called from `root` (directly or through
    other helpers).  Its slots are stored in env."""
    reach = _reachable(tree, root)
    found = []
    for f in _all_functions(tree):
        if f is root or f.name not in reach:
            continue
        trial = dict(env)
        try:
            _match(what, _items(f), shape, trial)
        except Exception:  # noqa  (TranslateError: not this one)
            continue
        found.append((f, trial))
    if len(found) != 1:
        raise _TE("%s: %d functions called from %s have the expected content (%s)" % (
            what, len(found), root.name, ", ".join(f.name for f, _ in found) or "none; the helper was rewritten or removed"))
    env.update(found[0][1])
    return found[0][0]


def S(name):
    return (name, "str")


# ------------------------------------------------------------------------------------------ shapes

SCALE_NAMES = ["Thousand", "Million", "Billion", "Trillion", "Quadrillion", "Quintillion"]

SHAPE_MAIN = ([P("en"), P(False)]
              + sum([[P("sing"), P("plur"), S("frSing%d" % k), S("frPlur%d" % k)] for k in range(6)], [])
              + sum([[P("sing"), P("plur"), S("enSing%d" % k), S("enPlur%d" % k)] for k in range(6)], [])
              + [("maxLong", "int"), P("^-?\\d+$"), P(False), P(0), P("-"), P(True), P(1), S("minusEn"), S("moinsFr")])
SHAPE_SPLITS = [P(3), P(3), P(3), P(1), P("00"), P(2), P("0")]
SHAPE_TOUSZERO = [P(0), P(True), P(0), P("000"), P(1)]
SHAPE_GROUPER = [P(0), P(1), P(1), P("000"), P("001"), P(2), P("sing"), S("grpSep1"), P(2), P("plur"), S("grpSep2"), S("grpEmpty")]
SHAPE_CENTAINES = [P(1), P(2), P(0), P(1), P("0"), S("hundredEn"), S("centFr"), P("00"), P("1"),
                   S("oneHundredPreEn"), S("oneHundredPreFr"), S("centSep"), S("centPluralEn"), S("centPluralFr"),
                   P("1"), S("oneHundredPre2En"), S("oneHundredPre2Fr"), S("centSep1"), S("centSep2"),
                   S("andEn"), S("andFr")]
SHAPE_DIZAINES = [P(0), P(1), P("0"), P("1"), ("teensEn", "list10"), ("teensFr", "list10"), P("23456"),
                  ("tensEn", "list5"), ("tensFr", "list5"), P(2), P("0"), P("1"), S("oneSufEn"), S("etUnFr"), S("hyphen"),
                  P("7"), P("0"), S("seventyEn"), S("soixanteDixFr"), S("seventyPreEn"), S("soixanteFr"), P("1"),
                  S("etFr"), S("hyphen7Fr"), P("1"),
                  P("8"), P("0"), S("eightyEn"), S("quatreVingtsFr"), S("eightyPreEn"), S("quatreVingtPre8Fr"),
                  P("9"), P("0"), S("ninetyEn"), S("quatreVingtDixFr"), S("ninetyPreEn"), S("quatreVingtPre9Fr"), P("1")]
SHAPE_UNITES = [("unitsEn", "list10"), ("unitsFr", "list10")]
SHAPE_ORDINAL = [P("en"), S("ordZeroFr"), S("ordZeroEn"), P("(.*?)(\\w+)$"), P(2), P(1), P(1), S("ordYEn"), P(1), S("ordIethEn"),
                 S("ordThEn"), S("ordUnFr"), P("f"), S("ordPremiereFr"), S("ordPremierFr"), S("ordUn2Fr"), S("ordIeme1Fr"),
                 P(1), P(1), S("ordEFr"), S("ordPluralRE"), P(1), S("ordIeme2Fr"), S("ordIeme3Fr")]
SHAPE_ROMAN = [P(0), S("romanTooSmall"), P(10), S("romI1"), S("romV1"), S("romX1"), P(100), S("romI2"), S("romV2"), S("romX2"),
               P(10), P(10), P(1000), S("romI3"), S("romV3"), S("romX3"), P(100), P(100), ("romanLimit", "int"), S("romanM"),
               P(1000), P(1000), S("romanTooBig")]

NUMBER_RE = "^[-+]?[0-9]+([., ][0-9]*)?([Ee][-+][0-9]+)?$"


# ------------------------------------------------------------------------------------------ Lean emission

def lean_char(c):
    if c == "'":
        return "'\\''"
    if c == "\\":
        return "'\\\\'"
    if c == "\n":
        return "'\\n'"
    if c == " ":
        return "' '"
    if ord(c) < 32 or ord(c) == 127 or c.isspace():
        if ord(c) > 0xFFFF:
            raise _TE("unexpected character U+%X" % ord(c))
        return "'\\u%04x'" % ord(c)
    return "'%s'" % c


def lean_str(x):
    return "[" + ",".join(lean_char(c) for c in x) + "]"


def lean_list(xs):
    return "[" + ", ".join(lean_str(x) for x in xs) + "]"


def _roman_units(fn):
    """the list literal of `units(i,v,x,value)`: each element a concatenation of the parameters -> word over i/v/x"""
    params = [a.arg for a in fn.args.args]
    if len(params) != 4:
        raise _TE("roman.units: 4 parameters expected, found %r" % (params,))
    lst = None
    for n in ast.walk(fn):
        if isinstance(n, ast.Subscript) and isinstance(n.value, (ast.List, ast.Tuple)):
            lst = n
    if lst is None or not (isinstance(lst.slice, ast.Name) and lst.slice.id == params[3]):
        raise _TE("roman.units: `[...][value]` not found")

    def word(e):
        if isinstance(e, ast.Constant) and e.value == "":
            return ""
        if isinstance(e, ast.Name) and e.id in params[:3]:
            return "ivx"[params.index(e.id)]
        if isinstance(e, ast.BinOp) and isinstance(e.op, ast.Add):
            return word(e.left) + word(e.right)
        raise _TE("roman.units: unexpected element " + ast.dump(e))
    return [word(e) for e in lst.value.elts]


def _dict_of_str(tree, name, where):
    for n in tree.body:
        if isinstance(n, ast.Assign) and len(n.targets) == 1 and isinstance(n.targets[0], ast.Name) and n.targets[0].id == name:
            d = n.value
            if not isinstance(d, ast.Dict):
                break
            out = []
            for k, v in zip(d.keys, d.values):
                if not (isinstance(k, ast.Constant) and isinstance(v, ast.Constant) and isinstance(k.value, str) and isinstance(v.value, str)):
                    raise _TE("%s: non-literal entry" % name)
                out.append((k.value, v.value))
            return out
    raise _TE("dict %s not found in %s" % (name, where))


def _class_method(tree, cls, meth, where):
    for n in tree.body:
        if isinstance(n, ast.ClassDef) and n.name == cls:
            for m in n.body:
                if isinstance(m, ast.FunctionDef) and m.name == meth:
                    return m
    raise _TE("%s.%s not found in %s" % (cls, meth, where))


def _return_const(fn, where):
    rets = [n for n in ast.walk(fn) if isinstance(n, ast.Return)]
    if len(rets) != 1 or not isinstance(rets[0].value, ast.Constant) or not isinstance(rets[0].value.value, str):
        raise _TE("%s: `return <string literal>` expected" % where)
    return rets[0].value.value


def _parse(path):
    try:
        with open(path, encoding="utf-8") as f:
            return ast.parse(f.read())
    except (OSError, SyntaxError) as e:
        raise _TE("cannot parse %s: %s" % (path, e))


def extract(repo=None):
    repo = repo or core.REPO
    src = os.path.join(repo, "src", "pyrealb")
    env = {}
    tree = _parse(os.path.join(src, "Number.py"))
    etl = _func(tree.body, "enToutesLettres", "Number.py")
    _match("enToutesLettres", _items(etl), SHAPE_MAIN, env)
    for name, shape in (("splitS", SHAPE_SPLITS), ("tousZero", SHAPE_TOUSZERO), ("grouper", SHAPE_GROUPER),
                        ("centaines", SHAPE_CENTAINES), ("dizaines", SHAPE_DIZAINES), ("unites", SHAPE_UNITES)):
        _helper_by_shape(tree, etl, name, shape, env)
    _match("ordinal", _items(_func(tree.body, "ordinal", "Number.py")), SHAPE_ORDINAL, env)
    import re as _re
    mre = _re.match(r"^\((\w+(?:\|\w+)*)\)(\w)\$$", env["ordPluralRE"])
    if not mre:
        raise _TE("ordinal: the plural-mark expression %r is not of the form (a|b|...)s$" % env["ordPluralRE"])
    env["ordPluralStems"] = mre.group(1).split("|")
    env["ordPluralMark"] = mre.group(2)
    rom = _func(tree.body, "roman", "Number.py")
    _match("roman", _items(rom), SHAPE_ROMAN, env)
    reach = _reachable(tree, rom)
    cands = []
    for f in _all_functions(tree):
        if f is not rom and f.name in reach:
            try:
                cands.append(_roman_units(f))
            except Exception:  # noqa
                pass
    if len(cands) != 1:
        raise _TE("roman: %d helpers called from roman are of the form `[\"\",i,i+i,...][value]`" % len(cands))
    env["romanUnits"] = cands[0]
    if len(env["romanUnits"]) != 11:
        raise _TE("roman.units: 11 patterns expected, found %d" % len(env["romanUnits"]))
    env["ordEnExceptions"] = _dict_of_str(tree, "ordEnExceptions", "Number.py")
    env["ordFrExceptions"] = _dict_of_str(tree, "ordFrExceptions", "Number.py")

    # Terminal*.py
    tEn = _parse(os.path.join(src, "TerminalEn.py"))
    tFr = _parse(os.path.join(src, "TerminalFr.py"))
    env["thousandsSepEn"] = _return_const(_class_method(tEn, "TerminalEn", "thousands_separator", "TerminalEn.py"), "TerminalEn.thousands_separator")
    env["thousandsSepFr"] = _return_const(_class_method(tFr, "TerminalFr", "thousands_separator", "TerminalFr.py"), "TerminalFr.thousands_separator")
    # French: "s" if LOW < self.value < HIGH else "p"
    g = _class_method(tFr, "TerminalFr", "grammaticalNumber", "TerminalFr.py")
    cmpn = [n for n in ast.walk(g) if isinstance(n, ast.Compare) and len(n.ops) == 2]
    ok = False
    if len(cmpn) == 1:
        c = cmpn[0]
        try:
            lo = ast.literal_eval(c.left)
            hi = ast.literal_eval(c.comparators[1])
            mid = c.comparators[0]
            ok = (isinstance(c.ops[0], ast.Lt) and isinstance(c.ops[1], ast.Lt) and isinstance(lo, int) and isinstance(hi, int)
                  and isinstance(mid, ast.Attribute) and mid.attr == "value")
        except (ValueError, SyntaxError):
            ok = False
    if not ok:
        raise _TE("TerminalFr.grammaticalNumber: `LOW < self.value < HIGH` not found")
    env["frSingLow"], env["frSingHigh"] = lo, hi
    ife = [n for n in ast.walk(g) if isinstance(n, ast.IfExp)]
    if len(ife) != 1 or [getattr(ife[0].body, "value", None), getattr(ife[0].orelse, "value", None)] != ["s", "p"]:
        raise _TE("TerminalFr.grammaticalNumber: `\"s\" if ... else \"p\"` not found")
    # English: "s" if abs(self.value) == ONE and self.nbDecimals == ZERO else "p"
    g = _class_method(tEn, "TerminalEn", "grammaticalNumber", "TerminalEn.py")
    ife = [n for n in ast.walk(g) if isinstance(n, ast.IfExp)]
    ok = False
    if len(ife) == 1 and [getattr(ife[0].body, "value", None), getattr(ife[0].orelse, "value", None)] == ["s", "p"]:
        t = ife[0].test
        if isinstance(t, ast.BoolOp) and isinstance(t.op, ast.And) and len(t.values) == 2:
            a, b = t.values
            if (isinstance(a, ast.Compare) and isinstance(a.ops[0], ast.Eq) and isinstance(a.left, ast.Call)
                    and getattr(a.left.func, "id", None) == "abs" and isinstance(a.comparators[0], ast.Constant)
                    and isinstance(b, ast.Compare) and isinstance(b.ops[0], ast.Eq) and isinstance(b.left, ast.Attribute)
                    and b.left.attr == "nbDecimals" and isinstance(b.comparators[0], ast.Constant)):
                env["enSingAbs"], env["enSingDecimals"] = a.comparators[0].value, b.comparators[0].value
                ok = isinstance(env["enSingAbs"], int) and isinstance(env["enSingDecimals"], int)
    if not ok:
        raise _TE("TerminalEn.grammaticalNumber: `\"s\" if abs(self.value) == 1 and self.nbDecimals == 0 else \"p\"` not found")
    # Terminal.py: the number-literal regular expression and the format specification of numberFormatter
    tT = _parse(os.path.join(src, "Terminal.py"))
    consts = [n.value for n in ast.walk(_class_method(tT, "Terminal", "setLemma", "Terminal.py"))
              if isinstance(n, ast.Constant) and isinstance(n.value, str)]
    res = [c for c in consts if c.startswith("^[-+]?")]
    if len(res) != 1:
        raise _TE("Terminal.setLemma: the number regular expression was not found")
    env["numberRE"] = res[0]
    nf = _class_method(tT, "Terminal", "numberFormatter", "Terminal.py")
    consts = [n.value for n in ast.walk(nf) if isinstance(n, ast.Constant) and isinstance(n.value, str)]
    fm = [c for c in consts if c.startswith("{:")]
    if sorted(fm) != ["{:,.", "{:,}"] or "f}" not in consts:
        raise _TE("Terminal.numberFormatter: `\"{:,}\"` for an int and `\"{:,.\"+precision+\"f}\"` otherwise expected, found %r" % (fm,))
    env["formatSpecInt"] = "{:,}"
    env["formatSpecHead"] = "{:,."
    env["formatSpecTail"] = "f}"
    ints = [n.value for n in ast.walk(nf) if isinstance(n, ast.Constant) and isinstance(n.value, int) and not isinstance(n.value, bool)]
    if ints != [2]:
        raise _TE("Terminal.numberFormatter: the default precision 2 was expected, found %r" % (ints,))
    env["defaultPrecision"] = 2
    # numberToRoman / numberToOrdinal guards
    ntr = _class_method(tT, "Terminal", "numberToRoman", "Terminal.py")
    ints = [n.value for n in ast.walk(ntr) if isinstance(n, ast.Constant) and isinstance(n.value, int) and not isinstance(n.value, bool)]
    cmps = [type(o).__name__ for n in ast.walk(ntr) if isinstance(n, ast.Compare) for o in n.ops]
    if len(ints) != 2 or ints[0] != 0 or sorted(cmps) != ["GtE", "Lt"]:
        raise _TE("Terminal.numberToRoman: guard `self.value<0 or self.value>=LIMIT` not found (%r, %r)" % (ints, cmps))
    env["romanGuard"] = ints[1]
    def _const_int(e):
        """an int literal, or LIT ** LIT"""
        if isinstance(e, ast.Constant) and isinstance(e.value, int) and not isinstance(e.value, bool):
            return e.value
        if isinstance(e, ast.BinOp) and isinstance(e.op, ast.Pow):
            a, b = _const_int(e.left), _const_int(e.right)
            if a is not None and b is not None and 0 <= b <= 100:
                return a ** b
        return None

    def _guard(fn, where):
        """the test of the first `if` of numberToWord / numberToOrdinal: `not isinstance(self.value,int)` possibly
        or-ed with `self.value<0` and with an upper limit `abs(self.value)>=LIMIT` / `self.value>=LIMIT`;
        returns (has_negative_test, limit or None)"""
        first = fn.body[0]
        if not isinstance(first, ast.If):
            raise _TE("%s: leading `if` not found" % where)
        parts = first.test.values if (isinstance(first.test, ast.BoolOp) and isinstance(first.test.op, ast.Or)) else [first.test]
        if not (isinstance(parts[0], ast.UnaryOp) and isinstance(parts[0].op, ast.Not) and isinstance(parts[0].operand, ast.Call)
                and getattr(parts[0].operand.func, "id", None) == "isinstance"):
            raise _TE("%s: `not isinstance(self.value,int)` not found" % where)
        neg, limit = False, None
        for c in parts[1:]:
            if not (isinstance(c, ast.Compare) and len(c.ops) == 1):
                raise _TE("%s: unexpected guard %s" % (where, ast.unparse(c)))
            v = _const_int(c.comparators[0])
            if isinstance(c.ops[0], ast.Lt) and v == 0 and isinstance(c.left, ast.Attribute):
                neg = True
            elif isinstance(c.ops[0], ast.GtE) and v is not None and v > 0:
                limit = v
            else:
                raise _TE("%s: unexpected guard %s" % (where, ast.unparse(c)))
        return neg, limit
    neg, env["ordLimit"] = _guard(_class_method(tT, "Terminal", "numberToOrdinal", "Terminal.py"), "Terminal.numberToOrdinal")
    if not neg:
        raise _TE("Terminal.numberToOrdinal: guard `self.value<0` not found")
    neg, env["wordLimit"] = _guard(_class_method(tT, "Terminal", "numberToWord", "Terminal.py"), "Terminal.numberToWord")
    if neg:
        raise _TE("Terminal.numberToWord: unexpected guard `self.value<0`")
    # shape of the NO branch of setLemma / real(): which of the defensive repairs are present
    sl0 = _class_method(tT, "Terminal", "setLemma", "Terminal.py")
    no_if = None
    for n in ast.walk(sl0):
        if isinstance(n, ast.If) and isinstance(n.test, ast.Compare) and isinstance(n.test.comparators[0], ast.Constant) \
                and n.test.comparators[0].value == "NO" and getattr(n.test.left, "id", None) == "terminalType":
            no_if = n
    if no_if is None or not no_if.body or not isinstance(no_if.body[0], ast.If):
        raise _TE("Terminal.setLemma: the `terminalType==\"NO\"` branch was not found")
    bad_type = no_if.body[0]
    tgt = [t.attr for n in bad_type.body if isinstance(n, ast.Assign) for t in n.targets if isinstance(t, ast.Attribute)]
    if "lemma" not in tgt:
        raise _TE("Terminal.setLemma: `self.lemma=0` for a lemma of a wrong type not found")
    env["fixOtherSetsValue"] = "value" in tgt
    handlers = [h for n in ast.walk(no_if) if isinstance(n, ast.Try) for h in n.handlers
                if getattr(h.type, "id", None) == "ValueError"]
    if not handlers:
        raise _TE("Terminal.setLemma: `except ValueError` around int(self.lemma) not found")
    env["fixFloatGuarded"] = any(isinstance(n, ast.Try) for n in ast.walk(ast.Module(body=handlers[0].body, type_ignores=[])))
    rl = _class_method(tT, "Terminal", "real", "Terminal.py")
    calls = [n for n in ast.walk(rl) if isinstance(n, ast.Call) and isinstance(n.func, ast.Attribute) and n.func.attr == "numberFormatter"]
    if len(calls) != 1 or len(calls[0].args) != 1:
        raise _TE("Terminal.real: the call of numberFormatter was not found")
    a = calls[0].args[0]
    if isinstance(a, ast.Subscript):
        env["fixMPrecisionGet"] = False
    elif isinstance(a, ast.Call) and isinstance(a.func, ast.Attribute) and a.func.attr == "get" and len(a.args) == 1:
        env["fixMPrecisionGet"] = True
    else:
        raise _TE("Terminal.real: unexpected argument of numberFormatter: " + ast.unparse(a))
    for sep in ("thousandsSepEn", "thousandsSepFr"):
        if len(env[sep]) != 1 or env[sep] in ".^$*+?{}[]\\|()":
            raise _TE("%s = %r: a single character that is not special in a regular expression was expected (it is the "
                      "pattern of re.sub)" % (sep, env[sep]))
    # dOpt defaults of NO
    sl = _class_method(tT, "Terminal", "setLemma", "Terminal.py")
    dflt = None
    for n in ast.walk(sl):
        if isinstance(n, ast.Dict) and [getattr(k, "value", None) for k in n.keys] == ["mprecision", "raw", "ord"]:
            dflt = [getattr(v, "value", None) for v in n.values]
    if dflt is None or dflt[1:] != [False, False] or not isinstance(dflt[0], int):
        raise _TE("Terminal.setLemma: default dOpt {mprecision,raw,ord} of NO not found")
    env["defaultMPrecision"] = dflt[0]

    # Constituent.dOpt: which values of "mprecision" are accepted
    tC = _parse(os.path.join(src, "Constituent.py"))
    dopt = _class_method(tC, "Constituent", "dOpt", "Constituent.py")
    mp_if = None
    for n in ast.walk(dopt):
        if isinstance(n, ast.If) and isinstance(n.test, ast.Compare) and getattr(n.test.left, "id", None) == "key" \
                and isinstance(n.test.comparators[0], ast.Constant) and n.test.comparators[0].value == "mprecision":
            mp_if = n
    if mp_if is None or not mp_if.body or not isinstance(mp_if.body[0], ast.If):
        raise _TE("Constituent.dOpt: the `key==\"mprecision\"` branch was not found")
    t = ast.unparse(mp_if.body[0].test).replace(" ", "")
    if t == "isinstance(val,int)":
        env["fixMPrecisionChecked"] = False
    elif t in ("isinstance(val,int)andnotisinstance(val,bool)andval>=0", "isinstance(val,int)and(notisinstance(val,bool))and(val>=0)"):
        env["fixMPrecisionChecked"] = True
    else:
        raise _TE("Constituent.dOpt: unexpected test of the mprecision value: " + ast.unparse(mp_if.body[0].test))
    # rules-*.json : number.symbol
    for lang in ("en", "fr"):
        p = os.path.join(src, "data", "rules-%s.json" % lang)
        try:
            with open(p, encoding="utf-8") as f:
                sym = json.load(f)["number"]["symbol"]
            env["group" + lang.capitalize()] = sym["group"]
            env["decimal" + lang.capitalize()] = sym["decimal"]
        except (OSError, KeyError, ValueError) as e:
            raise _TE("rules-%s.json number.symbol: %r" % (lang, e))
        if not (isinstance(sym["group"], str) and isinstance(sym["decimal"], str)):
            raise _TE("rules-%s.json number.symbol: strings expected" % lang)
    return env


STR_SLOTS = ["minusEn", "moinsFr", "grpSep1", "grpSep2", "grpEmpty", "hundredEn", "centFr", "oneHundredPreEn", "oneHundredPreFr",
             "centSep", "centPluralEn", "centPluralFr", "oneHundredPre2En", "oneHundredPre2Fr", "centSep1", "centSep2", "andEn",
             "andFr", "oneSufEn", "etUnFr", "hyphen", "seventyEn", "soixanteDixFr", "seventyPreEn", "soixanteFr", "etFr",
             "hyphen7Fr", "eightyEn", "quatreVingtsFr", "eightyPreEn", "quatreVingtPre8Fr", "ninetyEn", "quatreVingtDixFr",
             "ninetyPreEn", "quatreVingtPre9Fr", "ordZeroFr", "ordZeroEn", "ordYEn", "ordIethEn", "ordThEn", "ordUnFr",
             "ordPremiereFr", "ordPremierFr", "ordUn2Fr", "ordIeme1Fr", "ordEFr", "ordPluralRE", "ordPluralMark", "ordIeme2Fr", "ordIeme3Fr",
             "romanTooSmall", "romanTooBig", "romanM", "thousandsSepEn", "thousandsSepFr", "numberRE", "formatSpecInt", "formatSpecHead",
             "formatSpecTail", "groupEn", "decimalEn", "groupFr", "decimalFr"]
LIST_SLOTS = ["unitsEn", "unitsFr", "teensEn", "teensFr", "tensEn", "tensFr", "romanUnits", "ordPluralStems"]
INT_SLOTS = ["maxLong", "romanLimit", "frSingLow", "frSingHigh", "enSingAbs", "enSingDecimals", "defaultPrecision", "defaultMPrecision", "romanGuard"]


def render(env):
    L = []
    L.append("/-! GENERATED by harness/translate/number.py from src/pyrealb/Number.py, Terminal.py, TerminalEn.py, TerminalFr.py and")
    L.append("    data/rules-{en,fr}.json (Python `ast`, nothing executed).  DO NOT EDIT: rewritten on every run of `./check C16`. -/")
    L.append("namespace Pyrealb.Gen.NumberWords")
    L.append("")
    for k in LIST_SLOTS:
        L.append("def %s : List (List Char) := %s" % (k, lean_list(env[k])))
    L.append("")
    for lang in ("en", "fr"):
        L.append("/-- `%s` of enToutesLettres: (sing, plur) for 10^3, 10^6, ... -/" % ("unitsM" if lang == "en" else "unitesM"))
        L.append("def scale%s : List (List Char × List Char) := [%s]" % (
            lang.capitalize(), ", ".join("(%s, %s)" % (lean_str(env["%sSing%d" % (lang, k)]), lean_str(env["%sPlur%d" % (lang, k)])) for k in range(6))))
    L.append("")
    for k in STR_SLOTS:
        L.append("def %s : List Char := %s" % (k, lean_str(env[k])))
    L.append("")
    for k in INT_SLOTS:
        L.append("def %s : Int := %d" % (k, env[k]))
    L.append("")
    L.append("/-- upper limits of numberToWord / numberToOrdinal (`none`: the method has no such guard) -/")
    for k in ("wordLimit", "ordLimit"):
        L.append("def %s : Option Int := %s" % (k, "none" if env[k] is None else "some %d" % env[k]))
    L.append("/-- which defensive repairs of the NO branch of Terminal.setLemma / Terminal.real are present in the code -/")
    for k in ("fixOtherSetsValue", "fixFloatGuarded", "fixMPrecisionGet", "fixMPrecisionChecked"):
        L.append("def %s : Bool := %s" % (k, "true" if env[k] else "false"))
    L.append("")
    L.append("/-- the three symbol triples (i, v, x) of `roman`, units / tens / hundreds -/")
    L.append("def romanLevels : List (List Char × List Char × List Char) := [%s]" % ", ".join(
        "(%s, %s, %s)" % (lean_str(env["romI%d" % k]), lean_str(env["romV%d" % k]), lean_str(env["romX%d" % k])) for k in (1, 2, 3)))
    L.append("")
    for k in ("ordEnExceptions", "ordFrExceptions"):
        L.append("def %s : List (List Char × List Char) := [%s]" % (k, ", ".join("(%s, %s)" % (lean_str(a), lean_str(b)) for a, b in env[k])))
    L.append("")
    # the alphabet of the lifted tables and, for it, Python's `\w` (an external function recorded as a table)
    import re
    alpha = set()
    for v in env.values():
        for x in (v if isinstance(v, list) else [v]):
            for y in (x if isinstance(x, tuple) else [x]):
                if isinstance(y, str):
                    alpha.update(y)
    alpha = sorted(alpha)
    L.append("/-- every character that occurs in the constants above -/")
    L.append("def alphabet : List Char := %s" % lean_str("".join(alpha)))
    L.append("/-- those of them that Python's `re` matches with `\\w` -/")
    L.append("def wordChars : List Char := %s" % lean_str("".join(c for c in alpha if re.match(r"\w", c))))
    L.append("")
    L.append("end Pyrealb.Gen.NumberWords")
    return "\n".join(L) + "\n"


def generate():
    return {"Pyrealb/Gen/NumberWords.lean": render(extract())}


if __name__ == "__main__":
    import sys
    sys.stdout.write(render(extract(sys.argv[1] if len(sys.argv) > 1 else None)))
