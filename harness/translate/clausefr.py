"""Translator for the French clause family (C05, C08-fr): lifts from /repo (json + ast, no execution) the data the
clause model is stated against and writes lean/Pyrealb/Gen/ClauseFrConsts.lean.

rules-fr.json : sentence_type, verb_option, compound, the declension tables pn1 / pn4 (personal pronouns), the
                conjugation tables of the auxiliaries and modality verbs the transformations create
lexicon-fr.json: the verb entries of these verbs, the Pro entries of the tonic forms
NonTerminalFr.py: the four proclitiqueOrdre* tables, the tests of doPronounPlacement
TerminalFr.py : the compound-tense list and tempsAux ; PhraseFr.py / DependentFr.py : proLikeNoun, the Académie list,
                the prepositions pronominalized by `y`, preposition_list ; ConstituentFr.py : tonic_forms, check_for_t ;
                Phrase.py : the groups of `int` values of processInt
"""
import ast
import json
import os
import re

from harness import core


def _err(msg):
    from harness import translate
    raise translate.TranslateError("clausefr: " + msg)


def _src(name):
    p = os.path.join(core.REPO, "src", "pyrealb", name)
    try:
        return ast.parse(open(p, encoding="utf-8").read())
    except (OSError, SyntaxError) as e:
        _err("cannot parse %s: %s" % (name, e))


def _func(tree, cls, fn):
    for node in ast.walk(tree):
        if isinstance(node, ast.ClassDef) and node.name == cls:
            for f in node.body:
                if isinstance(f, ast.FunctionDef) and f.name == fn:
                    return f
    _err("%s.%s not found" % (cls, fn))


def _lit(node):
    try:
        return ast.literal_eval(node)
    except Exception:
        return None


def _module_dict(tree, name):
    for node in tree.body:
        if isinstance(node, ast.Assign) and len(node.targets) == 1 and getattr(node.targets[0], "id", None) == name:
            v = _lit(node.value)
            if isinstance(v, dict):
                return v
    _err("module constant %s not found" % name)


_COLL_CALLS = ("set", "frozenset", "tuple", "list", "sorted")


def _strs(v):
    """a literal collection of strings as a list (source order; a set sorted), else None"""
    if isinstance(v, (list, tuple)) and v and all(isinstance(x, str) for x in v):
        return list(v)
    if isinstance(v, (set, frozenset)) and v and all(isinstance(x, str) for x in v):
        return sorted(v)
    return None


def _coll(node, env=None):
    """the constant collection of strings an expression denotes: a list / tuple / set literal, `set((..))`,
    `frozenset([..])`…, or a name bound to one of those (in the function, its class or its module)"""
    v = _strs(_lit(node))
    if v is not None:
        return v
    if isinstance(node, ast.Call) and getattr(node.func, "id", None) in _COLL_CALLS and len(node.args) == 1 and not node.keywords:
        return _coll(node.args[0], env)
    if env is not None:
        if isinstance(node, ast.Name) and node.id in env:
            return env[node.id]
        if isinstance(node, ast.Attribute) and node.attr in env:          # self.NAME / Class.NAME
            return env[node.attr]
    return None


def _env(fn, trees=()):
    """name -> constant collection of strings, from the assignments of the function and the module / class level of
    the given trees (a literal membership list that a refactoring moved into a named constant)"""
    env = {}
    scopes = []
    for t in trees:
        scopes.append(t.body)
        scopes.extend(n.body for n in t.body if isinstance(n, ast.ClassDef))
    nodes = [n for body in scopes for n in body] + list(ast.walk(fn))
    for _ in range(2):      # a name bound to another name
        for node in nodes:
            tgt = val = None
            if isinstance(node, ast.Assign) and len(node.targets) == 1:
                tgt, val = node.targets[0], node.value
            elif isinstance(node, ast.AnnAssign) and node.value is not None:
                tgt, val = node.target, node.value
            if isinstance(tgt, ast.Name):
                v = _coll(val, env)
                if v is not None:
                    env[tgt.id] = v
    return env


def _in_lists(fn, trees=()):
    """the constant collections of strings a function tests membership in, in source order: the right-hand side of
    `in` / `not in` (a literal list / tuple / set, or a name bound to one), chains `x == "a" or x == "b"` /
    `x != "a" and x != "b"`; after them every other literal collection of strings of the function"""
    env = _env(fn, trees)
    res = []
    seen = set()
    for node in ast.walk(fn):
        if isinstance(node, ast.Compare) and len(node.ops) == 1 and isinstance(node.ops[0], (ast.In, ast.NotIn)):
            v = _coll(node.comparators[0], env)
            if v is not None:
                res.append((0, node.lineno, node.col_offset, v))
                seen.add(id(node.comparators[0]))
        if isinstance(node, ast.BoolOp):
            want = ast.Eq if isinstance(node.op, ast.Or) else ast.NotEq
            groups = {}
            for c in node.values:
                if isinstance(c, ast.Compare) and len(c.ops) == 1 and isinstance(c.ops[0], want):
                    a, b = c.left, c.comparators[0]
                    if isinstance(a, ast.Constant) and isinstance(a.value, str):
                        a, b = b, a
                    if isinstance(b, ast.Constant) and isinstance(b.value, str):
                        groups.setdefault(ast.dump(a), []).append(b.value)
            for vals in groups.values():
                if len(vals) >= 2:
                    res.append((0, node.lineno, node.col_offset, vals))
    for node in ast.walk(fn):
        if isinstance(node, (ast.List, ast.Tuple, ast.Set)) and id(node) not in seen:
            v = _strs(_lit(node))
            if v is not None:
                res.append((1, node.lineno, node.col_offset, v))
    res.sort(key=lambda r: r[:3])
    return [r[3] for r in res]


def _assigned_list(fn, name, pred=None, trees=()):
    """the constant collection bound to `name` in the function (list / tuple / set literal, set(..)…); when the name is
    gone (inlined or renamed), the collection of the function that satisfies `pred`"""
    env = _env(fn, trees)
    if name in env:
        return env[name]
    if pred is not None:
        for l in _in_lists(fn, trees):
            if pred(l):
                return l
    _err("%s: list %s not found" % (fn.name, name))


def _member(xs):
    """a collection only ever used for membership: order and repetitions are not part of the behaviour"""
    return sorted(set(xs))


def _find(lists, pred, what):
    for l in lists:
        if pred(l):
            return l
    _err(what + " not found")


# ------------------------------------------------------------------------------------------- Lean printing

def lstr(x):
    """a Lean `Str` (List Char) literal"""
    if x == "":
        return "([] : Str)"
    out = []
    for ch in x:
        if ch == "'":
            out.append("'\\''")
        elif ch == "\\":
            out.append("'\\\\'")
        else:
            out.append("'" + ch + "'")
    return "[" + ",".join(out) + "]"


def lstrs(xs):
    return "[" + ", ".join(lstr(x) for x in xs) + "]"


def lopt(x):
    return "none" if x is None else "(some %s)" % lstr(x)


def lrank(d, order):
    return "[" + ", ".join("(%s, %d)" % (lstr(k), d[k]) for k in order) + "]"


def extract():
    """everything lifted from the repository, as plain Python data (also used by the harness)"""
    d = os.path.join(core.REPO, "src", "pyrealb", "data")
    try:
        rules = json.load(open(os.path.join(d, "rules-fr.json"), encoding="utf-8"))
        lex = json.load(open(os.path.join(d, "lexicon-fr.json"), encoding="utf-8"))
    except (OSError, ValueError) as e:
        _err("cannot read the French rules/lexicon: %s" % e)
    res = {}
    for k in ("sentence_type", "verb_option", "compound", "declension", "conjugation"):
        if k not in rules:
            _err("rules-fr.json: %s is gone" % k)
    st = rules["sentence_type"]
    try:
        res["prefix"] = dict(st["int"]["prefix"])
        res["int_punct"] = st["int"]["punctuation"]
        vo = rules["verb_option"]
        res["neg1"] = vo["neg"]["prep1"]
        res["neg2"] = vo["neg"]["prep2"]
        res["neg_autres"] = list(vo["neg"]["autres"])
        res["prog_aux"] = vo["prog"]["aux"]
        res["prog_keyword"] = vo["prog"]["keyword"]
        res["modality"] = list(vo["modalityVerb"].items())
        comp = rules["compound"]
        res["compound_aux"] = dict(comp["aux"])
        res["compound_tenses"] = {k: v["auxTense"] for k, v in comp.items() if isinstance(v, dict) and "auxTense" in v}
        res["pn4"] = rules["declension"]["pn4"]["declension"]
        res["pn1"] = rules["declension"]["pn1"]["declension"]
    except (KeyError, TypeError, AttributeError) as e:
        _err("rules-fr.json: unexpected shape (%s)" % e)
    # NonTerminalFr
    nt = _src("NonTerminalFr.py")
    for name in ("proclitiqueOrdre", "proclitiqueOrdreImperatifNeg", "proclitiqueOrdreImperatifPos", "proclitiqueOrdreInfinitif"):
        res[name] = _module_dict(nt, name)
        if not all(isinstance(v, int) for v in res[name].values()):
            _err(name + ": ranks are not integers")
    dpp = _func(nt, "NonTerminalFr", "doPronounPlacement")
    ls = _in_lists(dpp, (nt,))
    res["clitic_cases"] = _member(_find(ls, lambda l: "acc" in l and "dat" in l, "doPronounPlacement: clitic case list"))
    res["relative_stop"] = _member(_find(ls, lambda l: "dont" in l, "doPronounPlacement: relative pronoun list"))
    # the sort key of the clitics: does it look the realization (a string) up, or the Terminal itself?
    key_on_string = None
    neg_as_pas = False
    for node in ast.walk(dpp):
        if isinstance(node, ast.Call) and isinstance(node.func, ast.Attribute) and node.func.attr == "sort":
            for kw in node.keywords:
                keyfn = kw.value if kw.arg == "key" else None
                if isinstance(keyfn, (ast.Name, ast.Attribute)):        # key=rank / key=self.rank: a named function
                    nm = keyfn.id if isinstance(keyfn, ast.Name) else keyfn.attr
                    defs = [f for f in ast.walk(nt) if isinstance(f, ast.FunctionDef) and f.name == nm]
                    keyfn = defs[0] if defs else None
                if isinstance(keyfn, (ast.Lambda, ast.FunctionDef)):
                    args = [a.arg for a in keyfn.args.args if a.arg != "self"]
                    arg = args[0]
                    on_obj = on_str = False
                    body = [keyfn.body] if isinstance(keyfn, ast.Lambda) else keyfn.body
                    for sub in (x for b in body for x in ast.walk(b)):
                        if isinstance(sub, ast.Subscript) and isinstance(sub.slice, ast.Name) and sub.slice.id == arg:
                            on_obj = True
                        if isinstance(sub, ast.Attribute) and isinstance(sub.value, ast.Name) and sub.value.id == arg \
                                and sub.attr == "realization":
                            on_str = True
                        if isinstance(sub, ast.Constant) and sub.value == "pas":
                            neg_as_pas = True
                    if on_obj == on_str:
                        _err("doPronounPlacement: cannot tell what the sort key of the clitics looks up")
                    key_on_string = on_str
    if key_on_string is None:
        _err("doPronounPlacement: pros.sort(key=lambda …) not found")
    # the "already elided" guard of loop 2: the end of the whole realization, or (since commit c4595d2) the end of its
    # first word in the sense of sepWordREC
    first_word = whole = False
    for node in ast.walk(dpp):
        if isinstance(node, ast.Call) and isinstance(node.func, ast.Attribute):
            f = node.func
            if f.attr == "match" and isinstance(f.value, ast.Call) and isinstance(f.value.func, ast.Attribute) \
                    and f.value.func.attr == "sepWordRE":
                first_word = True
            if f.attr == "endswith" and isinstance(f.value, ast.Attribute) and f.value.attr == "realization" \
                    and node.args and _lit(node.args[0]) == "'":
                whole = True
    if first_word == whole:
        _err("doPronounPlacement: cannot tell how an already elided pronoun is recognised")
    res["elided_first_word"] = first_word
    pat = None
    for node in ast.walk(_src("ConstituentFr.py")):
        if isinstance(node, ast.Assign) and any(isinstance(t, ast.Name) and t.id == "sepWordREC" for t in node.targets) \
                and isinstance(node.value, ast.Call) and node.value.args and isinstance(node.value.args[0], ast.Constant) \
                and isinstance(node.value.args[0].value, str):
            pat = node.value.args[0].value
    if pat is None:
        _err("ConstituentFr.sepWordREC not found")
    m2 = re.fullmatch(r"\(\(\?:\[\^<\\w(.*?)\]\*\(\?:<\[\^>\]\+>\)\?\)\*\)\(\[\\w(.*?)\]\+\)\?\(\.\*\)", pat)
    if not m2 or m2.group(1) != m2.group(2):
        _err("ConstituentFr.sepWordREC: unexpected shape " + pat)
    res["sep_word_extra"] = m2.group(2)
    res["sort_neg_as_pas"] = neg_as_pas
    res["sort_key_on_string"] = key_on_string
    # Terminal.isReflexive: is a verb without `pat` guarded (`pat is None or "réfl" not in pat`) or does `"réfl" not in None` raise?
    isr = _func(_src("Terminal.py"), "Terminal", "isReflexive")
    guarded = None
    # any membership test of "réfl" in `pat` … guarded as soon as the function also tests `pat` for None / emptiness
    # (`pat is None or …`, `pat is not None and …`, `if not pat: return …`, `pat and …`, `(pat or [])`)
    has_member = has_guard = False
    for node in ast.walk(isr):
        if isinstance(node, ast.Compare) and len(node.ops) == 1 and isinstance(node.ops[0], (ast.NotIn, ast.In)) \
                and _lit(node.left) == "réfl":
            has_member = True
            c = node.comparators[0]
            if isinstance(c, ast.BoolOp) and isinstance(c.op, ast.Or):        # "réfl" in (pat or [])
                has_guard = True
        if isinstance(node, ast.Compare) and len(node.ops) == 1 and isinstance(node.ops[0], (ast.Is, ast.IsNot)) \
                and isinstance(node.left, ast.Name) and node.left.id == "pat" and _lit(node.comparators[0]) is None \
                and isinstance(node.comparators[0], ast.Constant):
            has_guard = True
        if isinstance(node, ast.UnaryOp) and isinstance(node.op, ast.Not) and isinstance(node.operand, ast.Name) \
                and node.operand.id == "pat":
            has_guard = True
        if isinstance(node, (ast.BoolOp,)) and any(isinstance(v, ast.Name) and v.id == "pat" for v in node.values):
            has_guard = True
        if isinstance(node, (ast.If, ast.IfExp)) and isinstance(node.test, ast.Name) and node.test.id == "pat":
            has_guard = True
    if has_member:
        guarded = has_guard
    if guarded is None:
        _err("Terminal.isReflexive: the test `\"réfl\" not in pat` was not found")
    res["refl_guards_no_pat"] = guarded
    # TerminalFr.conjugate
    tf = _src("TerminalFr.py")
    cj = _func(tf, "TerminalFr", "conjugate")
    res["compound_list"] = _member(_find(_in_lists(cj, (tf,)), lambda l: "pc" in l and "bp" in l, "conjugate: compound tense list"))
    # a participle / infinitive that the table marks non-existent (`"pr": null`: falloir, occire): guarded by
    # `conjugation[t] is None` → morphoError (since commit c6b9f39), or `self.stem + None` → TypeError
    res["nonfinite_none_is_morpho"] = any(
        isinstance(n, ast.Compare) and len(n.ops) == 1 and isinstance(n.ops[0], (ast.Is, ast.IsNot))
        and isinstance(n.comparators[0], ast.Constant) and n.comparators[0].value is None
        and isinstance(n.left, ast.Subscript) and isinstance(n.left.slice, ast.Name) and n.left.slice.id == "t"
        for n in ast.walk(cj))
    ta = None
    for node in ast.walk(cj):
        if isinstance(node, ast.Dict):
            v = _lit(node)
            if isinstance(v, dict) and "pc" in v and "spq" in v:
                ta = v
    if ta is None:
        _err("conjugate: tempsAux not found")
    res["tempsAux"] = ta
    # PhraseFr / DependentFr
    pf = _src("PhraseFr.py")
    df = _src("DependentFr.py")
    mo = _func(pf, "PhraseFr", "move_object")
    is_pln = lambda l: "aucun" in l and "tout" in l
    res["proLikeNoun"] = _member(_assigned_list(mo, "proLikeNoun", is_pln, (pf,)))
    res["academie"] = _member(_find(_in_lists(mo, (pf,)), lambda l: "pouvoir" in l and "dire" in l, "move_object: Académie list"))
    mod = _func(df, "DependentFr", "move_object")
    res["proLikeNoun_dep"] = _member(_assigned_list(mod, "proLikeNoun", is_pln, (df,)))
    res["academie_dep"] = _member(_find(_in_lists(mod, (df,)), lambda l: "pouvoir" in l and "dire" in l, "DependentFr.move_object: Académie list"))
    res["y_preps"] = _member(_find(_in_lists(_func(pf, "PhraseFr", "pronominalize"), (pf,)), lambda l: "sur" in l, "pronominalize: y prepositions"))
    res["y_preps_dep"] = _member(_find(_in_lists(_func(df, "DependentFr", "pronominalize"), (df,)), lambda l: "sur" in l, "DependentFr.pronominalize: y prepositions"))
    pl = None
    for tree, cls in ((nt, "NonTerminalFr"), (pf, "PhraseFr")):
        for node in ast.walk(tree):
            if isinstance(node, ast.ClassDef) and node.name == cls:
                for f in node.body:
                    if isinstance(f, ast.FunctionDef) and f.name == "preposition_list" and pl is None:
                        pl = f
    if pl is None:
        _err("preposition_list not found in NonTerminalFr / PhraseFr")
    preps = None
    penv = _env(pl, (nt, pf))
    for node in ast.walk(pl):
        kw = None
        if isinstance(node, ast.Call) and getattr(node.func, "id", None) == "dict" and not node.args:
            kw = {k.arg: _coll(k.value, penv) for k in node.keywords}
        elif isinstance(node, ast.Dict) and all(isinstance(k, ast.Constant) for k in node.keys):
            kw = {k.value: _coll(v, penv) for k, v in zip(node.keys, node.values)}
        if kw and {"all", "whe", "whn"} <= set(kw) and all(v is not None for v in kw.values()):
            preps = {k: _member(v) for k, v in kw.items()}
    if preps is None:
        _err("preposition_list: the dictionary all= / whe= / whn= of preposition sets was not found")
    res["preps"] = preps
    res["dep_has_preposition_list"] = any(
        isinstance(n, ast.FunctionDef) and n.name == "preposition_list"
        for t in (df, nt, _src("Dependent.py"), _src("ConstituentFr.py"), _src("Constituent.py")) for n in ast.walk(t))
    cf = _src("ConstituentFr.py")
    tff = _func(cf, "ConstituentFr", "tonic_forms")
    tfm = None
    for l in _in_lists(tff, (cf,)) + list(_env(tff, (cf,)).values()):
        if "toi" in l and "lui" in l:
            tfm = _member(l)
            break
    if tfm is None:
        _err("ConstituentFr.tonic_forms not found")
    res["tonic_forms"] = tfm
    ct = _func(cf, "ConstituentFr", "check_for_t")
    res["t_pronouns"] = _member(_find(_in_lists(ct, (cf,)), lambda l: "il" in l and "elle" in l, "check_for_t: pronoun list"))
    pats = [n.value for n in ast.walk(ct) if isinstance(n, ast.Constant) and isinstance(n.value, str) and n.value.endswith("$")]
    m = [re.fullmatch(r"\[\^(\w+)\]\$", p) for p in pats]
    m = [x for x in m if x]
    if not m:
        _err("check_for_t: the `[^dt]$` test was not found")
    res["t_not_after"] = sorted(m[0].group(1))
    ph = _src("Phrase.py")
    pi = _func(ph, "Phrase", "processInt")
    ls = _in_lists(pi, (ph,))
    res["int_groups"] = [_member(_find(ls, lambda l: "yon" in l and "why" in l, "processInt yon group")),
                         _member(_find(ls, lambda l: set(l) == {"wos", "was"}, "processInt wos group")),
                         _member(_find(ls, lambda l: set(l) == {"wod", "wad"}, "processInt wod group")),
                         _member(_find(ls, lambda l: "woi" in l and "whe" in l, "processInt woi group"))]
    # lexical entries the transformations create
    aux_verbs = sorted(set(["avoir", "être"] + [v for _, v in res["modality"]]))
    res["aux_verbs"] = {}
    for lemma in aux_verbs:
        e = lex.get(lemma, {}).get("V")
        if e is None or e.get("tab") not in rules["conjugation"]:
            _err("verb %s missing from the lexicon/rules" % lemma)
        res["aux_verbs"][lemma] = {"lemma": lemma, "aux": e.get("aux", "av"), "pat": e.get("pat"), "tab": e["tab"],
                                   "table": rules["conjugation"][e["tab"]]}
    res["tonic_lex"] = {}
    for lemma in sorted(set(r["val"] for r in res["pn4"] if r.get("tn") == "") | {"moi"}):
        e = lex.get(lemma, {}).get("Pro")
        if e is not None:
            res["tonic_lex"][lemma] = {"pe": e.get("pe", 3), "n": e.get("n", "s"), "g": e.get("g", "m")}
    return res


def verb_lex_lean(e):
    """a VerbLex literal (the model's view of a lexicon verb entry + its conjugation table)"""
    t = e["table"]["t"]

    def cells(x):
        if not isinstance(x, list):
            return "[]"
        return "[" + ", ".join(lopt(c) for c in x) + "]"
    pp = t.get("pp")
    if pp is None:
        ppc = "PPCell.none"
    elif isinstance(pp, str):
        ppc = "PPCell.str %s" % lstr(pp)
    else:
        ppc = "PPCell.list %s" % cells(pp)
    pat = "none" if e.get("pat") is None else "(some %s)" % lstrs(e["pat"])
    return ("{ lemma := %s, aux := %s, pat := %s, hasTab := true, ending := %s,\n      p := %s, i := %s, f := %s, ps := %s,\n"
            "      c := %s, s := %s, si := %s, ip := %s,\n      b := %s, pr := %s, pp := %s }") % (
        lstr(e["lemma"]), lstr(e.get("aux", "av")), pat, lstr(e["table"]["ending"]), cells(t["p"]), cells(t["i"]), cells(t["f"]),
        cells(t["ps"]), cells(t["c"]), cells(t["s"]), cells(t["si"]), cells(t["ip"]), lopt(t.get("b")), lopt(t.get("pr")), ppc)


def generate():
    r = extract()
    o = []
    w = o.append
    w("import Pyrealb.Model.ClauseFrTypes")
    w("/-! GENERATED by harness/translate/clausefr.py from the repository under test — do not edit.")
    w("    rules-fr.json (sentence_type, verb_option, compound, pn1/pn4, conjugation tables of the auxiliaries),")
    w("    lexicon-fr.json (entries of these verbs and of the tonic pronouns), and constants lifted by `ast` from")
    w("    NonTerminalFr.py, TerminalFr.py, PhraseFr.py, DependentFr.py, ConstituentFr.py, Phrase.py. -/")
    w("namespace Pyrealb.Gen.ClauseFr")
    w("open Pyrealb Pyrealb.ClauseFr")
    w("")
    for name in ("proclitiqueOrdre", "proclitiqueOrdreImperatifNeg", "proclitiqueOrdreImperatifPos", "proclitiqueOrdreInfinitif"):
        d = r[name]
        w("/-- NonTerminalFr.py `%s` -/" % name)
        w("def %s : List (Str × Nat) :=\n  %s" % (name, lrank(d, list(d.keys()))))
    w("/-- does `pros.sort(key=…)` of doPronounPlacement look a *string* up in the rank table (true) or the Terminal (false)? -/")
    w("def sortKeyOnString : Bool := %s" % ("true" if r["sort_key_on_string"] else "false"))
    w("/-- does that key rank the second negative word (a Q: plus, jamais…) like `pas`? -/")
    w("def sortNegAsPas : Bool := %s" % ("true" if r["sort_neg_as_pas"] else "false"))
    w("/-- Terminal.isReflexive: `pat is None or \"réfl\" not in pat` (true) or the bare `\"réfl\" not in pat` that raises TypeError on a verb without `pat` (false) -/")
    w("def reflGuardsNoPat : Bool := %s" % ("true" if r["refl_guards_no_pat"] else "false"))
    w("/-- the guard « already elided » of doPronounPlacement tests the first word of the realization (true, since commit c4595d2) or the end of the whole realization (false) -/")
    w("def elidedFirstWord : Bool := %s" % ("true" if r["elided_first_word"] else "false"))
    w("/-- ConstituentFr.sepWordREC: the characters of the word class beside `\\w` -/")
    w("def sepWordExtra : List Char := [%s]" % ", ".join("'%s'" % ("\\'" if c == "'" else c) for c in r["sep_word_extra"]))
    w("/-- TerminalFr.conjugate, tenses b / pr whose table entry is null: `[[lemma]]` with a warning (true, since commit c6b9f39) or TypeError from `stem + None` (false) -/")
    w("def nonFiniteNoneIsMorpho : Bool := %s" % ("true" if r["nonfinite_none_is_morpho"] else "false"))
    w("def cliticCases : List Str := %s" % lstrs(r["clitic_cases"]))
    w("def relativeStop : List Str := %s" % lstrs(r["relative_stop"]))
    w("def compoundList : List Str := %s" % lstrs(r["compound_list"]))
    w("def tempsAux : List (Str × Str) := [%s]" % ", ".join("(%s, %s)" % (lstr(k), lstr(v)) for k, v in r["tempsAux"].items()))
    w("/-- rules-fr.json `compound` (not read by the code: TerminalFr.conjugate has its own `tempsAux`) -/")
    w("def compoundRules : List (Str × Str) := [%s]" % ", ".join("(%s, %s)" % (lstr(k), lstr(v)) for k, v in r["compound_tenses"].items()))
    w("def compoundAux : List (Str × Str) := [%s]" % ", ".join("(%s, %s)" % (lstr(k), lstr(v)) for k, v in r["compound_aux"].items()))
    w("def intPrefix : List (Str × Str) := [%s]" % ", ".join("(%s, %s)" % (lstr(k), lstr(v)) for k, v in r["prefix"].items()))
    w("def intPunct : Str := %s" % lstr(r["int_punct"]))
    w("def negPrep1 : Str := %s" % lstr(r["neg1"]))
    w("def negPrep2 : Str := %s" % lstr(r["neg2"]))
    w("def negAutres : List Str := %s" % lstrs(r["neg_autres"]))
    w("def progAux : Str := %s" % lstr(r["prog_aux"]))
    w("def progKeyword : Str := %s" % lstr(r["prog_keyword"]))
    w("def modalityVerb : List (Str × Str) := [%s]" % ", ".join("(%s, %s)" % (lstr(k), lstr(v)) for k, v in r["modality"]))
    w("def proLikeNoun : List Str := %s" % lstrs(r["proLikeNoun"]))
    w("def proLikeNounDep : List Str := %s" % lstrs(r["proLikeNoun_dep"]))
    w("def academie : List Str := %s" % lstrs(r["academie"]))
    w("def academieDep : List Str := %s" % lstrs(r["academie_dep"]))
    w("def yPreps : List Str := %s" % lstrs(r["y_preps"]))
    w("def yPrepsDep : List Str := %s" % lstrs(r["y_preps_dep"]))
    w("def prepsAll : List Str := %s" % lstrs(r["preps"]["all"]))
    w("def prepsWhe : List Str := %s" % lstrs(r["preps"]["whe"]))
    w("def prepsWhn : List Str := %s" % lstrs(r["preps"]["whn"]))
    w("/-- is `preposition_list` defined on the dependency side? (today only PhraseFr has it: AttributeError) -/")
    w("def depHasPrepositionList : Bool := %s" % ("true" if r["dep_has_preposition_list"] else "false"))
    w("def tonicForms : List Str := %s" % lstrs(r["tonic_forms"]))
    w("def tPronouns : List Str := %s" % lstrs(r["t_pronouns"]))
    w("/-- check_for_t: no `-t-` after a form ending in one of these letters (regex `[^…]$`) -/")
    w("def tNotAfter : List Char := [%s]" % ", ".join("'%s'" % c for c in r["t_not_after"]))
    w("def intGroupMove : List Str := %s" % lstrs(r["int_groups"][0]))
    w("def intGroupSubj : List Str := %s" % lstrs(r["int_groups"][1]))
    w("def intGroupObj : List Str := %s" % lstrs(r["int_groups"][2]))
    w("def intGroupInd : List Str := %s" % lstrs(r["int_groups"][3]))

    def rows(rs):
        out = []
        for x in rs:
            def fld(k):
                v = x.get(k)
                if v is None:
                    return "none"
                return "(some %s)" % lstr(str(v))
            out.append("  { val := %s, pe := %s, g := %s, n := %s, c := %s, tn := %s }" % (
                lstr(x["val"]), "none" if x.get("pe") is None else "(some %d)" % x["pe"], fld("g"), fld("n"), fld("c"), fld("tn")))
        return "[\n" + ",\n".join(out) + "]"
    w("set_option maxRecDepth 10000 in")
    w("/-- rules-fr.json declension `pn4` (moi/toi/lui…: tonic and clitic forms) -/")
    w("def pn4 : List DeclRow := " + rows(r["pn4"]))
    w("/-- rules-fr.json declension `pn1` (je/tu/il…) -/")
    w("def pn1 : List DeclRow := " + rows(r["pn1"]))
    w("/-- lexicon-fr.json: person / number / gender the lexicon gives the tonic lemmas -/")
    w("def tonicLex : List (Str × (Nat × Str × Str)) := [%s]" % ", ".join(
        "(%s, (%d, %s, %s))" % (lstr(k), v["pe"], lstr(v["n"]), lstr(v["g"])) for k, v in r["tonic_lex"].items()))
    names = []
    for lemma, e in r["aux_verbs"].items():
        nm = "verb_" + re.sub(r"[^a-z]", "_", lemma.replace("ê", "e"))
        names.append((lemma, nm))
        w("/-- lexicon + conjugation table %s of `%s` -/" % (e["tab"], lemma))
        w("def %s : VerbLex :=\n    %s" % (nm, verb_lex_lean(e)))
    w("def auxVerbs : List (Str × VerbLex) := [%s]" % ", ".join("(%s, %s)" % (lstr(l), nm) for l, nm in names))
    w("")
    w("end Pyrealb.Gen.ClauseFr")
    return {"Pyrealb/Gen/ClauseFrConsts.lean": "\n".join(o) + "\n"}
