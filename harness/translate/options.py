"""Lifts by `ast` (no execution) from src/pyrealb the tables the C12 model depends on, into
lean/Pyrealb/Gen/OptionTable.lean:

* Constituent.py: every `setattr(Constituent, name, makeOptionMethod(option, validVals, allowedConsts[, optionName]))`,
  `optionListMethods`, `deprels`, the options a CP / coord does not propagate, the props `setJSONprops` skips
  silently, the alias `addJSONprops` applies (`own` -> `ow`), `typ`'s allowedTypes and allowed constituents,
  `dOpt`'s allowed keys for DT and NO, the kinds `nat` and `maje` accept;
* Terminal.py: the default `dOpt` dictionaries of DT and NO and the ones of a NO written in letters;
* utils.py: the constituent types `fromJSON` accepts.
`extract()` returns the same data as a Python dict (the generator of harness/props/C12.py uses it)."""
import ast
import os

from harness import core


def _err(msg):
    from harness import translate
    raise translate.TranslateError("options: " + msg)


def _parse(name):
    p = os.path.join(core.REPO, "src", "pyrealb", name)
    try:
        return ast.parse(open(p, encoding="utf-8").read())
    except OSError as e:
        _err("cannot read %s: %s" % (p, e))


def _lit(node, env):
    """literal value of an AST node; `*deprels` is expanded from env"""
    if isinstance(node, ast.Constant):
        return node.value
    if isinstance(node, ast.Call) and getattr(node.func, "id", None) in ("tuple", "list", "set", "frozenset") and len(node.args) == 1:
        return _lit(node.args[0], env)
    if isinstance(node, (ast.List, ast.Tuple, ast.Set)):
        res = []
        for e in node.elts:
            if isinstance(e, ast.Starred):
                if isinstance(e.value, ast.Name) and e.value.id in env:
                    res.extend(env[e.value.id])
                else:
                    _err("cannot expand starred " + ast.dump(e))
            else:
                res.append(_lit(e, env))
        return res
    if isinstance(node, ast.Dict):
        return {_lit(k, env): _lit(v, env) for k, v in zip(node.keys, node.values)}
    if isinstance(node, ast.Name) and node.id in env:
        return env[node.id]
    _err("not a literal: " + ast.dump(node)[:200])


def _func(tree, name, cls=None):
    for n in ast.walk(tree):
        if isinstance(n, ast.ClassDef) and cls and n.name == cls:
            for m in n.body:
                if isinstance(m, ast.FunctionDef) and m.name == name:
                    return m
        if not cls and isinstance(n, ast.FunctionDef) and n.name == name:
            return n
    _err("function %s%s not found" % ((cls + ".") if cls else "", name))


def _isa_args(call, env):
    """arguments of a `x.isA(...)` call"""
    res = []
    for a in call.args:
        if isinstance(a, ast.Starred):
            res.extend(_lit(a.value, env))
        else:
            v = _lit(a, env)
            res.extend(v if isinstance(v, list) else [v])
    return res


def extract():
    env = {}
    cons = _parse("Constituent.py")
    out = {}
    for n in cons.body:
        if isinstance(n, ast.Assign) and len(n.targets) == 1 and isinstance(n.targets[0], ast.Name):
            if n.targets[0].id in ("optionListMethods", "deprels"):
                env[n.targets[0].id] = list(_lit(n.value, env))
    for k in ("optionListMethods", "deprels"):
        if k not in env:
            _err(k + " not found")
        out[k] = env[k]
    # every other module-level constant collection (a table may be written in the function or hoisted to module level)
    for n in cons.body:
        if isinstance(n, ast.Assign) and len(n.targets) == 1 and isinstance(n.targets[0], ast.Name) and n.targets[0].id not in env:
            try:
                v = _lit(n.value, env)
            except Exception:  # noqa: not a literal
                continue
            if isinstance(v, (list, dict)):
                env[n.targets[0].id] = v
    # makeOptionMethod calls
    opts = []
    for n in cons.body:
        if (isinstance(n, ast.Expr) and isinstance(n.value, ast.Call) and getattr(n.value.func, "id", None) == "setattr"
                and len(n.value.args) == 3 and isinstance(n.value.args[2], ast.Call)
                and getattr(n.value.args[2].func, "id", None) == "makeOptionMethod"):
            meth = _lit(n.value.args[1], env)
            a = n.value.args[2].args
            if len(a) not in (3, 4):
                _err("makeOptionMethod arity")
            option, valid, allowed = _lit(a[0], env), _lit(a[1], env), _lit(a[2], env)
            prop = _lit(a[3], env) if len(a) == 4 else option
            if meth != option:
                _err("method %s installs option %s" % (meth, option))
            opts.append({"name": option, "valid": valid, "allowed": allowed, "prop": prop})
    if len(opts) < 10:
        _err("only %d makeOptionMethod calls found" % len(opts))
    out["options"] = opts
    # the loop installing the list options
    ok = False
    for n in cons.body:
        if isinstance(n, ast.For) and isinstance(n.iter, ast.Name) and n.iter.id == "optionListMethods":
            ok = "makeOptionListMethod" in ast.dump(n)
    if not ok:
        _err("loop over optionListMethods installing makeOptionListMethod not found")
    # options not propagated through CP / coord
    mk = _func(cons, "makeOptionMethod")
    noprop = []
    for n in ast.walk(mk):
        if isinstance(n, ast.Compare) and len(n.ops) == 1 and isinstance(n.ops[0], ast.NotIn) \
                and isinstance(n.left, ast.Name) and n.left.id == "option":
            noprop.append(_lit(n.comparators[0], env))
    if len(noprop) != 2 or noprop[0] != noprop[1]:
        _err("CP/coord non-propagated option lists: %r" % (noprop,))
    out["noPropagate"] = noprop[0]
    # setJSONprops skip list ; addJSONprops alias
    sj = _func(cons, "setJSONprops", "Constituent")
    skip = None
    for n in ast.walk(sj):
        if isinstance(n, ast.Compare) and isinstance(n.ops[0], ast.NotIn) and getattr(n.left, "id", None) == "opt":
            skip = _lit(n.comparators[0], env)
    if skip is None:
        _err("setJSONprops skip list not found")
    out["jsonSkip"] = skip
    aj = _func(cons, "addJSONprops", "Constituent")
    alias = []
    for n in ast.walk(aj):
        if isinstance(n, ast.IfExp) and isinstance(n.test, ast.Compare) and getattr(n.test.left, "id", None) == "prop":
            alias.append([_lit(n.test.comparators[0], env), _lit(n.body, env)])
    if len(alias) != 1:
        _err("addJSONprops alias: %r" % (alias,))
    out["jsonAlias"] = alias
    # typ
    ty = _func(cons, "typ", "Constituent")
    allowed_types = None
    typ_kinds = None
    for n in ast.walk(ty):
        if isinstance(n, ast.Assign) and getattr(n.targets[0], "id", None) == "allowedTypes":
            allowed_types = _lit(n.value, env)
        if isinstance(n, ast.Call) and getattr(n.func, "attr", None) == "isA":
            typ_kinds = _isa_args(n, env)
    if not allowed_types or not typ_kinds:
        _err("typ: allowedTypes / isA not found")
    out["typAllowed"] = [[k, v] for k, v in allowed_types.items()]
    out["typKinds"] = typ_kinds
    # dOpt
    do = _func(cons, "dOpt", "Constituent")
    # the two collections of allowed keys, found by content: assigned in the function (any name) or tested with `in`
    cands = []
    for n in ast.walk(do):
        val = None
        if isinstance(n, ast.Assign):
            val = n.value
        elif isinstance(n, ast.Compare) and len(n.ops) == 1 and isinstance(n.ops[0], (ast.In, ast.NotIn)):
            val = n.comparators[0]
        if val is None:
            continue
        try:
            v = _lit(val, env)
        except Exception:  # noqa
            continue
        if isinstance(v, list) and v and all(isinstance(x, str) for x in v) and v not in cands:
            cands.append(v)
    dtk = [v for v in cands if "rtime" in v]
    nok = [v for v in cands if "mprecision" in v]
    if len(dtk) != 1 or len(nok) != 1:
        _err("dOpt allowed keys: expected one collection with 'rtime' and one with 'mprecision', found %r / %r" % (dtk, nok))
    out["dOptKeysDT"], out["dOptKeysNO"] = dtk[0], nok[0]
    for fn in ("nat", "maje"):
        f = _func(cons, fn, "Constituent")
        kinds = None
        for n in ast.walk(f):
            if isinstance(n, ast.Call) and getattr(n.func, "attr", None) == "isA":
                kinds = _isa_args(n, env)
                break
        if not kinds:
            _err(fn + ": isA not found")
        out[fn + "Kinds"] = kinds
    # Terminal.setLemma defaults
    term = _parse("Terminal.py")
    sl = _func(term, "setLemma", "Terminal")
    dicts = []
    for n in ast.walk(sl):
        if isinstance(n, ast.Assign) and isinstance(n.targets[0], ast.Subscript) and isinstance(n.value, ast.Dict) \
                and ast.unparse(n.targets[0]) == "self.props['dOpt']":
            dicts.append(_lit(n.value, env))
    dt = [d for d in dicts if "year" in d]
    no = [d for d in dicts if "mprecision" in d]
    letters = [d for d in dicts if len(d) == 1]
    if len(dt) != 1 or len(no) != 1 or sorted(map(str, letters)) != sorted(map(str, [{"ord": True}, {"nat": True}])):
        _err("default dOpt dictionaries of DT/NO: %r" % (dicts,))
    out["dOptDefaultDT"] = [[k, v] for k, v in dt[0].items()]
    out["dOptDefaultNO"] = [[k, v] for k, v in no[0].items()]
    # Terminal kinds looked up in the lexicon
    lexk = None
    for n in ast.walk(sl):
        if isinstance(n, ast.Compare) and isinstance(n.ops[0], ast.In) and getattr(n.left, "id", None) == "terminalType":
            lexk = _lit(n.comparators[0], env)
    if not lexk:
        _err("lexicon terminal kinds not found")
    out["lexKinds"] = lexk
    # utils.fromJSON accepted types
    ut = _parse("utils.py")
    fj = _func(ut, "fromJSON")
    uenv = dict(env)            # utils.py's own module-level constant collections
    for n in ut.body:
        if isinstance(n, ast.Assign) and len(n.targets) == 1 and isinstance(n.targets[0], ast.Name):
            try:
                v = _lit(n.value, uenv)
            except Exception:  # noqa
                continue
            if isinstance(v, (list, dict)):
                uenv[n.targets[0].id] = v
    acc = []
    for n in ast.walk(fj):
        if isinstance(n, ast.Compare) and isinstance(n.ops[0], ast.In) and isinstance(n.left, ast.Name):
            try:
                v = _lit(n.comparators[0], uenv)
            except Exception:  # noqa
                continue
            if isinstance(v, list) and v and all(isinstance(x, str) for x in v):
                acc.append(v)
    # by content: the phrase kinds hold "NP", the dependency relations "root", the terminal kinds "N"
    ph = [v for v in acc if "NP" in v]
    dp = [v for v in acc if "root" in v]
    tm = [v for v in acc if "N" in v and "NP" not in v]
    if len(ph) != 1 or len(dp) != 1 or len(tm) != 1:
        _err("fromJSON accepted types: %r" % (acc,))
    out["jsonPhraseKinds"], out["jsonDepKinds"], out["jsonTermKinds"] = ph[0], dp[0], tm[0]
    # toJSON: the keys emitted (checked to exist: terminal/lemma, phrase/elements, dependent/terminal/dependents, lang, props)
    for fname, cls, keys_ in (("Terminal.py", "Terminal", ["terminal", "lemma", "lang"]),
                              ("Phrase.py", "Phrase", ["phrase", "elements", "lang"]),
                              ("Dependent.py", "Dependent", ["dependent", "terminal", "dependents", "lang"])):
        src = ast.dump(_func(_parse(fname), "toJSON", cls))
        for k in keys_:
            if "Constant(value='%s')" % k not in src:
                _err("%s.toJSON no longer emits %r" % (cls, k))
    return out


# the unusual characters of the generator's alphabet (harness/props/C12.py draws Q texts, tag names, attribute values
# and punctuation from it); which of them Python's str.isprintable() rejects is computed by RUNNING Python (a recorded
# assumption: this is how repr() decides what to escape)
CHAR_ALPHABET = [0x00, 0x0d, 0x09, 0x0c, 0x01, 0x1b, 0x7f, 0x85, 0xa0, 0xad, 0x200b, 0x2028, 0xfeff, 0xfffe, 0xd7ff, 0xe9, 0x20ac,
                 0x1f600, 0x1d11e, 0xe0001, 0xe0020, 0xe007f, 0xf0000, 0x10fffd]


def non_printable():
    return [cp for cp in CHAR_ALPHABET if not chr(cp).isprintable()]


def _s(x):
    return '"' + x.replace("\\", "\\\\").replace('"', '\\"') + '"'


def _litl(v):
    if isinstance(v, bool):
        return ".bool " + ("true" if v else "false")
    if isinstance(v, int):
        return ".int (%d)" % v
    if isinstance(v, str):
        return ".str " + _s(v)
    _err("unsupported literal %r" % (v,))


def _strs(l):
    return "[" + ", ".join(_s(x) for x in l) + "]"


def generate():
    t = extract()
    L = []
    w = L.append
    w("/-! GENERATED by harness/translate/options.py from src/pyrealb/{Constituent,Terminal,utils}.py — do not edit. -/")
    w("namespace Pyrealb.Gen.OptionTable")
    w("")
    w("inductive Lit where")
    w("  | str (s : String) | int (n : Int) | bool (b : Bool)")
    w("  deriving DecidableEq, Repr")
    w("")
    w("/-- `setattr(Constituent, name, makeOptionMethod(name, validVals, allowedConsts, propName))` -/")
    w("structure OptSpec where")
    w("  name : String")
    w("  valid : List Lit")
    w("  allowed : List String")
    w("  prop : String")
    w("  deriving Repr")
    w("")
    names = []
    for o in t["options"]:
        nm = "opt_" + "".join(c if c.isalnum() else "_" for c in o["name"])
        names.append(nm)
        w("def %s : OptSpec := { name := %s, valid := [%s], allowed := %s, prop := %s }" % (
            nm, _s(o["name"]), ", ".join(_litl(v) for v in o["valid"]), _strs(o["allowed"]), _s(o["prop"])))
    w("")
    w("def options : List OptSpec := [%s]" % ", ".join(names))
    w("def optionListMethods : List String := " + _strs(t["optionListMethods"]))
    w("def deprels : List String := " + _strs(t["deprels"]))
    w("def noPropagate : List String := " + _strs(t["noPropagate"]))
    w("def jsonSkip : List String := " + _strs(t["jsonSkip"]))
    w("def jsonAlias : List (String × String) := [%s]" % ", ".join("(%s, %s)" % (_s(a), _s(b)) for a, b in t["jsonAlias"]))
    w("def typAllowed : List (String × List Lit) := [%s]" % ", ".join(
        "(%s, [%s])" % (_s(k), ", ".join(_litl(v) for v in vs)) for k, vs in t["typAllowed"]))
    w("def typKinds : List String := " + _strs(t["typKinds"]))
    w("def dOptKeysDT : List String := " + _strs(t["dOptKeysDT"]))
    w("def dOptKeysNO : List String := " + _strs(t["dOptKeysNO"]))
    w("def natKinds : List String := " + _strs(t["natKinds"]))
    w("def majeKinds : List String := " + _strs(t["majeKinds"]))
    w("def dOptDefaultDT : List (String × Lit) := [%s]" % ", ".join("(%s, %s)" % (_s(k), _litl(v)) for k, v in t["dOptDefaultDT"]))
    w("def dOptDefaultNO : List (String × Lit) := [%s]" % ", ".join("(%s, %s)" % (_s(k), _litl(v)) for k, v in t["dOptDefaultNO"]))
    w("def lexKinds : List String := " + _strs(t["lexKinds"]))
    w("def jsonPhraseKinds : List String := " + _strs(t["jsonPhraseKinds"]))
    w("def jsonDepKinds : List String := " + _strs(t["jsonDepKinds"]))
    w("def jsonTermKinds : List String := " + _strs(t["jsonTermKinds"]))
    w("/-- code points of the harness' character alphabet for which `str.isprintable()` is False (repr escapes them) -/")
    w("def nonPrintable : List Nat := [%s]" % ", ".join(str(cp) for cp in non_printable()))
    w("def charAlphabet : List Nat := [%s]" % ", ".join(str(cp) for cp in CHAR_ALPHABET))
    w("")
    w("end Pyrealb.Gen.OptionTable")
    return {"Pyrealb/Gen/OptionTable.lean": "\n".join(L) + "\n"}
