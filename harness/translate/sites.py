"""Static inventories extracted from src/pyrealb/*.py by AST walk (no execution) -> lean/Pyrealb/Gen/Sites.lean

(i)  globalWriteSites: every assignment / augmented assignment / del / mutating method call inside a function
     whose target is rooted in a module-level name (global variable, function or class object: class attributes,
     function attributes), in a name declared `global`, in `cls`/`type(self)`/`self.__class__`, or in a value
     obtained from the lexicon accessors (getLexicon/getRules/getLemma/getLexicalInfo, also through a local bound
     to such a value or to a subscript of a module global; flow-insensitive, to a fixpoint inside one function);
     plus mutable default arguments and caching decorators.
(ii) langSites: every call of a lexicon accessor or of a constituent factory, with the kind of its language
     argument: "self" (self.lang()), "literal", "param" (a parameter or local of the enclosing function),
     "absent" (= the CURRENT language decides).
(iii) callGraph: name-based (enclosing function -> called names), for reachability arguments.
Sites carry file, enclosing function and a description of the target, never a line number (so unrelated edits
do not change the inventory)."""
import ast
import re
import os

from harness import core
from harness.translate import TranslateError

ACCESSORS = {"getLexicon", "getRules", "getLemma", "getLexicalInfo"}
FACTORIES = {"N", "A", "Pro", "D", "Adv", "V", "P", "C", "DT", "NO", "Q", "NP", "AP", "AdvP", "VP", "PP", "CP", "S", "SP",
             "root", "subj", "det", "mod", "comp", "coord", "terminal", "phrase", "dep", "fromJSON"}
LANG_READERS = {"getLanguage"}
MUTATORS = {"append", "extend", "insert", "pop", "remove", "clear", "update", "sort", "reverse", "setdefault",
            "popitem", "add", "discard", "__setitem__", "__delitem__"}
CACHE_DECOS = {"cache", "lru_cache", "cached_property"}


def lean_str(x):
    return '"' + x.replace("\\", "\\\\").replace('"', '\\"') + '"'


def src_dir():
    return os.path.join(core.REPO, "src", "pyrealb")


def module_files():
    d = src_dir()
    fs = sorted(f for f in os.listdir(d) if f.endswith(".py"))
    if "Constituent.py" not in fs or "Lexicon.py" not in fs:
        raise TranslateError("src/pyrealb/Constituent.py or Lexicon.py not found")
    return [(f, os.path.join(d, f)) for f in fs]


def chain_root(e):
    """strip Subscript / Attribute / Call layers; returns (root expr, description suffix)"""
    suffix = []
    while True:
        if isinstance(e, ast.Subscript):
            suffix.append("[]")
            e = e.value
        elif isinstance(e, ast.Attribute):
            suffix.append("." + e.attr)
            e = e.value
        elif isinstance(e, ast.Call):
            f = e.func
            name = f.id if isinstance(f, ast.Name) else (f.attr if isinstance(f, ast.Attribute) else None)
            if name in ACCESSORS:
                return ("accessor", name), "".join(reversed(suffix))
            if isinstance(f, ast.Name) and f.id == "type":
                return ("class-object", "type(self)"), "".join(reversed(suffix))
            suffix.append("()")
            e = f
        else:
            break
    return e, "".join(reversed(suffix))


class FuncInfo:
    def __init__(self, qual):
        self.qual = qual
        self.globals_decl = set()
        self.taint = {}     # local name -> root description
        self.params = set()


def analyse():
    writes, langs, calls = set(), set(), set()
    switches = set()
    mods = {}
    for fn, path in module_files():
        tree = ast.parse(open(path, encoding="utf-8").read(), filename=path)
        modnames, classes = set(), {}
        for node in tree.body:
            if isinstance(node, (ast.Assign, ast.AnnAssign, ast.AugAssign)):
                tgts = node.targets if isinstance(node, ast.Assign) else [node.target]
                for t in tgts:
                    for n in ast.walk(t):
                        if isinstance(n, ast.Name):
                            modnames.add(n.id)
            elif isinstance(node, (ast.FunctionDef, ast.AsyncFunctionDef)):
                modnames.add(node.name)
            elif isinstance(node, ast.ClassDef):
                modnames.add(node.name)
                classes[node.name] = node
            elif isinstance(node, ast.ImportFrom):
                if node.level > 0 or (node.module or "").startswith("pyrealb"):
                    for a in node.names:
                        if a.name != "*":
                            modnames.add(a.asname or a.name)
        mods[fn] = (tree, modnames, classes)
    allclasses = set()
    allglobals = set()
    for fn, (tree, modnames, classes) in mods.items():
        allclasses |= set(classes)
        allglobals |= modnames
    # names imported with * : every module sees every other module's top-level names
    for fn, (tree, modnames, classes) in mods.items():
        star = any(isinstance(n, ast.ImportFrom) and any(a.name == "*" for a in n.names) for n in ast.walk(tree))
        names = set(modnames) | allclasses | (allglobals if star else set())

        def visit_func(fnode, qual):
            info = FuncInfo(qual)
            args = fnode.args
            for a in args.posonlyargs + args.args + args.kwonlyargs + ([args.vararg] if args.vararg else []) + ([args.kwarg] if args.kwarg else []):
                info.params.add(a.arg)
            for d in list(args.defaults) + [k for k in args.kw_defaults if k is not None]:
                if isinstance(d, (ast.List, ast.Dict, ast.Set)) or (isinstance(d, ast.Call) and isinstance(d.func, ast.Name) and d.func.id in ("list", "dict", "set")):
                    writes.add((fn, qual, "<default-argument>", "mutable-default"))
            for deco in getattr(fnode, "decorator_list", []):
                dn = deco.func if isinstance(deco, ast.Call) else deco
                name = dn.id if isinstance(dn, ast.Name) else (dn.attr if isinstance(dn, ast.Attribute) else "")
                if name in CACHE_DECOS:
                    writes.add((fn, qual, "@" + name, "decorator-cache"))
            body_nodes = []
            for st in fnode.body:
                body_nodes.extend(own_nodes(st))
            for n in body_nodes:
                if isinstance(n, ast.Global):
                    info.globals_decl |= set(n.names)
            locals_assigned = set()
            for n in body_nodes:
                if isinstance(n, (ast.Assign, ast.AnnAssign, ast.AugAssign, ast.For, ast.NamedExpr, ast.withitem)):
                    tg = (n.targets if isinstance(n, ast.Assign) else [getattr(n, "target", None) or getattr(n, "optional_vars", None)])
                    for t in tg:
                        if t is not None:
                            for m in ast.walk(t):
                                if isinstance(m, ast.Name) and isinstance(m.ctx, ast.Store):
                                    locals_assigned.add(m.id)
            localset = (info.params | locals_assigned) - info.globals_decl

            def rooted(e):
                """description of the global/resource root of expression e, or None"""
                r, suf = chain_root(e)
                if isinstance(r, tuple):
                    return r[1] + "()" + suf if r[0] == "accessor" else r[1] + suf
                if isinstance(r, ast.Name):
                    if r.id in info.taint:
                        return info.taint[r.id] + suf
                    if r.id == "cls" and "cls" in info.params:
                        return "cls" + suf
                    if r.id in localset:
                        return None
                    if r.id in names or r.id in info.globals_decl:
                        return r.id + suf
                    return None
                return None

            def rooted_self_class(e):
                # self.__class__.x
                r, suf = chain_root(e)
                if isinstance(r, ast.Name) and r.id == "self" and suf.startswith(".__class__"):
                    return "self" + suf
                return None

            # taint to a fixpoint
            changed = True
            while changed:
                changed = False
                for n in body_nodes:
                    pairs = []
                    if isinstance(n, ast.Assign):
                        for t in n.targets:
                            pairs.append((t, n.value))
                    elif isinstance(n, ast.AnnAssign) and n.value is not None:
                        pairs.append((n.target, n.value))
                    elif isinstance(n, ast.NamedExpr):
                        pairs.append((n.target, n.value))
                    elif isinstance(n, ast.For):
                        it = n.iter
                        if isinstance(it, ast.Call) and isinstance(it.func, ast.Attribute) and it.func.attr in ("items", "values"):
                            it = it.func.value
                            pairs.append((n.target, ast.Subscript(value=it, slice=ast.Constant(value=0), ctx=ast.Load())))
                        else:
                            pairs.append((n.target, ast.Subscript(value=it, slice=ast.Constant(value=0), ctx=ast.Load())))
                    for t, v in pairs:
                        # only container-valued aliases matter: value is an accessor chain / global subscript chain / tainted chain
                        if isinstance(v, (ast.Call, ast.Subscript, ast.Attribute, ast.Name)):
                            if isinstance(v, ast.Call):
                                f = v.func
                                nm = f.id if isinstance(f, ast.Name) else (f.attr if isinstance(f, ast.Attribute) else None)
                                # x = something.get(k) / .copy() …: .get keeps aliasing, copy() does not
                                if nm not in ACCESSORS and nm not in ("get",):
                                    continue
                                if nm == "get":
                                    v = f.value
                            if isinstance(v, ast.Name) and v.id not in info.taint:
                                continue  # plain global name alias: x = G  (handled: treat as taint too)
                            rd = rooted(v)
                            if rd is None:
                                continue
                            # a bare module-level function/class name is not a container alias
                            if isinstance(v, ast.Name):
                                pass
                            for m in ast.walk(t):
                                if isinstance(m, ast.Name) and isinstance(m.ctx, ast.Store) and m.id not in info.taint:
                                    info.taint[m.id] = rd
                                    changed = True
            in_warn = set()
            for n in body_nodes:
                if isinstance(n, ast.Call) and isinstance(n.func, ast.Attribute) and n.func.attr in ("warn", "warning", "morphoError"):
                    for a in list(n.args) + [k.value for k in n.keywords]:
                        for m in ast.walk(a):
                            in_warn.add(id(m))
            for n in body_nodes:
                tgts = []
                if isinstance(n, ast.Assign):
                    tgts = [(t, "assign") for t in n.targets]
                elif isinstance(n, ast.AugAssign):
                    tgts = [(n.target, "augassign")]
                elif isinstance(n, ast.AnnAssign) and n.value is not None:
                    tgts = [(n.target, "assign")]
                elif isinstance(n, ast.Delete):
                    tgts = [(t, "del") for t in n.targets]
                flat = []
                for t, k in tgts:
                    if isinstance(t, (ast.Tuple, ast.List)):
                        flat += [(e, k) for e in t.elts]
                    else:
                        flat.append((t, k))
                for t, k in flat:
                    if isinstance(t, ast.Name):
                        if t.id in info.globals_decl:
                            writes.add((fn, qual, t.id, k))
                    elif isinstance(t, (ast.Subscript, ast.Attribute)):
                        rd = rooted(t) or rooted_self_class(t)
                        if rd is not None:
                            writes.add((fn, qual, rd, k))
                if isinstance(n, ast.Call):
                    f = n.func
                    if isinstance(f, ast.Attribute) and f.attr in MUTATORS:
                        rd = rooted(f.value) or rooted_self_class(f.value)
                        if rd is not None:
                            writes.add((fn, qual, rd, "call:" + f.attr))
                    if isinstance(f, ast.Name) and f.id in ("setattr", "delattr") and n.args:
                        rd = rooted(n.args[0])
                        if rd is not None:
                            writes.add((fn, qual, rd, "call:" + f.id))
                    # ---- language sites and call graph
                    cname = f.id if isinstance(f, ast.Name) else (f.attr if isinstance(f, ast.Attribute) else None)
                    if cname:
                        calls.add((qual, cname))
                    # calls that can switch the current language: load*/realize(<lang>)
                    if (cname in ("load", "loadEn", "loadFr") and isinstance(f, ast.Name)) or (cname == "realize" and (n.args or n.keywords)):
                        switches.add((fn, qual, cname))
                    if cname in LANG_READERS:
                        langs.add((fn, qual, cname, "current"))
                    if cname in ACCESSORS or (cname in FACTORIES and isinstance(f, ast.Name)):
                        kind = lang_arg_kind(n, cname, info)
                        if kind == "absent" and id(n) in in_warn:
                            kind = "absent-in-warning-text"
                        langs.add((fn, qual, cname, kind))

        def lang_arg_kind(call, cname, info):
            arg = None
            for kw in call.keywords:
                if kw.arg == "lang":
                    arg = kw.value
            if arg is None:
                # positional language argument
                pos = {"getLexicon": 0, "getRules": 0, "getLemma": 1, "terminal": 2, "phrase": 2, "dep": 2, "fromJSON": 1}
                if cname in pos:
                    if len(call.args) > pos[cname]:
                        arg = call.args[pos[cname]]
                elif cname in ("N", "A", "Pro", "D", "Adv", "V", "P", "C", "DT", "NO", "Q"):
                    if len(call.args) > 1:
                        arg = call.args[1]
            if arg is None:
                return "absent"
            if isinstance(arg, ast.Constant):
                return "absent" if arg.value is None else "literal"
            if isinstance(arg, ast.Call) and isinstance(arg.func, ast.Attribute) and arg.func.attr == "lang":
                r, _ = chain_root(arg.func.value)
                return "self" if isinstance(r, ast.Name) and r.id == "self" else "other-constituent"
            return "param"

        def own_nodes(st):
            """all nodes of a statement, not descending into nested function/class definitions"""
            out = []
            if isinstance(st, (ast.FunctionDef, ast.AsyncFunctionDef, ast.ClassDef)):
                nested.append(st)
                return out
            stack = [st]
            while stack:
                x = stack.pop()
                out.append(x)
                for c in ast.iter_child_nodes(x):
                    if isinstance(c, (ast.FunctionDef, ast.AsyncFunctionDef, ast.ClassDef)):
                        nested.append(c)
                        continue
                    stack.append(c)
            return out

        def walk_defs(nodes, prefix):
            for node in nodes:
                if isinstance(node, (ast.FunctionDef, ast.AsyncFunctionDef)):
                    q = prefix + node.name
                    del nested[:]
                    visit_func(node, q)
                    inner = list(nested)
                    walk_defs(inner, q + ".")
                elif isinstance(node, ast.ClassDef):
                    walk_defs(node.body, prefix + node.name + ".")

        nested = []
        walk_defs(tree.body, "")
    return sorted(writes), sorted(langs), sorted(calls), sorted(switches)


def exempt_roots():
    """the exempt roots are part of the MODEL (Model/LangSites.lean, with the reason for each); read here only to compute the
    certificate of the derived ones"""
    import os
    t = open(os.path.join(os.path.dirname(os.path.dirname(os.path.dirname(os.path.abspath(__file__)))), "lean", "Pyrealb", "Model", "LangSites.lean"), encoding="utf-8").read()
    body = t[t.index("def exemptFunctions : List String := ["):]
    body = body[:body.index("]")]
    return re.findall(r'"([^"]+)"', body)


def generate():
    writes, langs, calls, switches = analyse()
    if not any(w[1] == "loadFr" for w in writes):
        raise TranslateError("write inventory: the write of the current language in Lexicon.loadFr was not found")
    out = ["/-! GENERATED by harness/translate/sites.py from src/pyrealb/*.py — do not edit. -/",
           "namespace Pyrealb.Gen.Sites", "",
           "structure WriteSite where", "  file : String", "  func : String", "  target : String", "  kind : String",
           "  deriving DecidableEq, Repr", "",
           "structure LangSite where", "  file : String", "  func : String", "  callee : String", "  kind : String",
           "  deriving DecidableEq, Repr", ""]
    out.append("def globalWriteSites : List WriteSite := [")
    out.append(",\n".join("  ⟨%s, %s, %s, %s⟩" % tuple(lean_str(x) for x in w) for w in writes))
    out.append("]\n")
    out.append("/-- calls that can change the current language: load, loadEn, loadFr and realize(<lang>) -/")
    out.append("def langSwitchCalls : List (String × String × String) := [")
    out.append(",\n".join("  (%s, %s, %s)" % tuple(lean_str(x) for x in w) for w in switches))
    out.append("]\n")
    chunks = [langs[i:i + 60] for i in range(0, len(langs), 60)] or [[]]
    for k, ch in enumerate(chunks):
        out.append("def langSites%d : List LangSite := [" % k)
        out.append(",\n".join("  ⟨%s, %s, %s, %s⟩" % tuple(lean_str(x) for x in w) for w in ch))
        out.append("]\n")
    out.append("def langSites : List LangSite := " + " ++ ".join("langSites%d" % k for k in range(len(chunks))) + "\n")
    cchunks = [calls[i:i + 100] for i in range(0, len(calls), 100)] or [[]]
    for k, ch in enumerate(cchunks):
        out.append("def callGraph%d : List (String × String) := [" % k)
        out.append(",\n".join("  (%s, %s)" % (lean_str(a), lean_str(b)) for a, b in ch))
        out.append("]\n")
    out.append("def callGraph : List (String × String) := " + " ++ ".join("callGraph%d" % k for k in range(len(cchunks))) + "\n")
    # private helpers of exempt functions: functions holding a current-language site whose callers (name-based call graph,
    # self-calls apart) are ALL exempt roots or earlier entries of this list; Lean re-checks this certificate
    roots = exempt_roots()
    cur_funcs = []
    for w in langs:
        if w[3] in ("absent", "current") and w[1] not in cur_funcs:
            cur_funcs.append(w[1])
    derived = []
    changed = True
    while changed:
        changed = False
        for f in cur_funcs:
            if f in roots or f in derived:
                continue
            bare = f.split(".")[-1]
            callers = sorted(set(a for a, b in calls if b == bare and a != f))
            if callers and all(c in roots or c in derived for c in callers):
                derived.append(f)
                changed = True
    out.append("/-- helpers reachable only from exempt functions (certificate re-checked by `derived_exempt_tbl`) -/")
    out.append("def derivedExempt : List String := [" + ", ".join(lean_str(f) for f in derived) + "]\n")
    out.append("end Pyrealb.Gen.Sites\n")
    return {"Pyrealb/Gen/Sites.lean": "\n".join(out)}


if __name__ == "__main__":
    w, l, c, sw = analyse()
    for x in sw:
        print("S", x)
    for x in w:
        print("W", x)
    from collections import Counter
    print(Counter(k for _, _, _, k in l))
    for x in l:
        if x[3] in ("absent", "current"):
            print("L", x)
    print(len(c), "call edges")
