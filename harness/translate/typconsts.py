"""Translator for C11 (shared with C03/C13): lifts from the Python AST of /repo (no execution)

* the `allowedTypes` table of `Constituent.typ` (flag names and legal values) and the receiver kinds,
* `deprels`,
* an inventory of every READER site of the `typ` dictionary in the realization sources, classified by the idiom it
  uses to test a flag (`K in T and T[K] != False`, `== True`, `is not False`, `is True`, truthiness, `.get`, …).
  A new reader that distinguishes `False` from an absent key (`K in T` alone, raw `.get`, an unguarded subscript)
  makes the `decide` theorem `typ_false_eq_absent_sites` of Props/C11 fail.

Output: lean/Pyrealb/Gen/TypConsts.lean
"""
import ast
import os

from harness import core

READER_FILES = ["Phrase.py", "Dependent.py", "NonTerminalEn.py", "NonTerminalFr.py", "PhraseEn.py", "PhraseFr.py",
                "DependentEn.py", "DependentFr.py", "Terminal.py", "TerminalEn.py", "TerminalFr.py",
                "Constituent.py", "ConstituentEn.py", "ConstituentFr.py"]
WRITER_FUNCS = {"typ", "validate_neg_option"}      # the functions that build the dictionary (modelled in Model/Typ)
TYP_NAMES = {"types", "typs"}


def _err(msg):
    from harness import translate
    raise translate.TranslateError("typconsts: " + msg)


def _src(name):
    p = os.path.join(core.REPO, "src", "pyrealb", name)
    try:
        with open(p, encoding="utf-8") as f:
            return ast.parse(f.read(), p)
    except (OSError, SyntaxError) as e:
        _err("cannot parse %s: %s" % (p, e))


def lean_str(x):
    return "[" + ",".join("'%s'" % ("\\'" if c == "'" else "\\\\" if c == "\\" else c) for c in x) + "]"


def lean_val(v):
    if v is True:
        return "Val.b true"
    if v is False:
        return "Val.b false"
    if isinstance(v, str):
        return "Val.s " + lean_str(v)
    if isinstance(v, int):
        return "Val.i (%d)" % v
    if v is None:
        return "Val.none"
    _err("unexpected legal value %r in allowedTypes" % (v,))


# ------------------------------------------------------------------------------------------ allowedTypes

def extract_allowed():
    tree = _src("Constituent.py")
    deprels = None
    for n in tree.body:
        if isinstance(n, ast.Assign) and len(n.targets) == 1 and getattr(n.targets[0], "id", None) == "deprels":
            try:
                deprels = ast.literal_eval(n.value)
            except ValueError:
                _err("deprels is no longer a literal")
    if not deprels:
        _err("module constant `deprels` not found in Constituent.py")
    typ = None
    for n in ast.walk(tree):
        if isinstance(n, ast.ClassDef) and n.name == "Constituent":
            for m in n.body:
                if isinstance(m, ast.FunctionDef) and m.name == "typ":
                    typ = m
    if typ is None:
        _err("Constituent.typ not found")
    allowed = None
    receivers = None
    for n in ast.walk(typ):
        if isinstance(n, ast.Assign) and len(n.targets) == 1 and getattr(n.targets[0], "id", None) == "allowedTypes":
            try:
                allowed = ast.literal_eval(n.value)
            except ValueError:
                _err("allowedTypes is no longer a literal dict")
        if isinstance(n, ast.Call) and isinstance(n.func, ast.Attribute) and n.func.attr == "isA" and receivers is None:
            rs = []
            ok = True
            for a in n.args:
                if isinstance(a, ast.Constant) and isinstance(a.value, str):
                    rs.append(a.value)
                elif isinstance(a, ast.Starred) and getattr(a.value, "id", None) == "deprels":
                    rs.extend(deprels)
                else:
                    ok = False
            if ok and rs:
                receivers = rs
    if not isinstance(allowed, dict) or not allowed:
        _err("allowedTypes table not found in Constituent.typ")
    if receivers is None:
        _err("receiver test self.isA(...) not found in Constituent.typ")
    for k, vs in allowed.items():
        if not isinstance(k, str) or not isinstance(vs, list):
            _err("allowedTypes entry %r is not str -> list" % (k,))
    return allowed, receivers, deprels


# ------------------------------------------------------------------------------------------ reader inventory

def _is_typ_expr(n, names):
    """is `n` an expression denoting the typ dictionary?"""
    if isinstance(n, ast.Name) and n.id in names:
        return True
    if isinstance(n, ast.Subscript) and isinstance(n.value, ast.Attribute) and n.value.attr == "props" \
            and isinstance(n.slice, ast.Constant) and n.slice.value == "typ":
        return True
    return False


def _key(n):
    if isinstance(n, ast.Constant) and isinstance(n.value, str):
        return n.value
    return "*"


def _same(a, b):
    return ast.dump(a) == ast.dump(b)


def _const_is(n, v):
    return isinstance(n, ast.Constant) and n.value is v


def _second_operand_idiom(op2, T, K):
    """idiom of the conjunct that follows `K in T`, or None"""
    def is_TK(x):
        return isinstance(x, ast.Subscript) and _same(x.value, T) and _same(x.slice, K)
    if is_TK(op2):
        return "truthy"
    if isinstance(op2, ast.Compare) and len(op2.ops) == 1 and is_TK(op2.left):
        o, c = op2.ops[0], op2.comparators[0]
        if isinstance(o, ast.NotEq) and _const_is(c, False):
            return "neFalse"
        if isinstance(o, ast.Eq) and _const_is(c, True):
            return "eqTrue"
        if isinstance(o, ast.IsNot) and _const_is(c, False):
            return "isNotFalse"
        if isinstance(o, ast.Is) and _const_is(c, True):
            return "isTrue"
    return None


class _Fn:
    def __init__(self, file, cls, node):
        self.file, self.cls, self.node = file, cls, node
        self.name = node.name


def _functions(tree, file):
    res = []

    def rec(body, cls, prefix):
        for n in body:
            if isinstance(n, ast.ClassDef):
                rec(n.body, n.name, prefix)
            elif isinstance(n, (ast.FunctionDef, ast.AsyncFunctionDef)):
                f = _Fn(file, cls, n)
                f.name = prefix + n.name
                res.append(f)
    rec(tree.body, None, "")
    return res


def _parents(root):
    par = {}
    for n in ast.walk(root):
        for c in ast.iter_child_nodes(n):
            par[id(c)] = n
    return par


def _guards_in(test, names):
    """the set of (dump(T), dump(K)) pairs that `test` establishes by a recognised `K in T and …` conjunction"""
    res = set()
    for n in ast.walk(test):
        if isinstance(n, ast.BoolOp) and isinstance(n.op, ast.And):
            for i, v in enumerate(n.values[:-1]):
                if isinstance(v, ast.Compare) and len(v.ops) == 1 and isinstance(v.ops[0], ast.In) \
                        and _is_typ_expr(v.comparators[0], names):
                    if _second_operand_idiom(n.values[i + 1], v.comparators[0], v.left):
                        res.add((ast.dump(v.comparators[0]), ast.dump(v.left)))
    return res


def inventory():
    sites = []          # (file, func, key, idiom)
    raw_unguarded = []  # (file, func, key, funcnode-name) to be resolved by caller guards
    calls = {}          # callee name -> list of (guard pairs at call site, names)
    per_fn = []
    for file in READER_FILES:
        p = os.path.join(core.REPO, "src", "pyrealb", file)
        if not os.path.exists(p):
            continue
        tree = _src(file)
        for fn in _functions(tree, file):
            if fn.node.name in WRITER_FUNCS:
                continue
            names = set()
            for a in fn.node.args.args + fn.node.args.kwonlyargs:
                if a.arg in TYP_NAMES:
                    names.add(a.arg)
            for n in ast.walk(fn.node):
                if isinstance(n, ast.Assign) and len(n.targets) == 1 and isinstance(n.targets[0], ast.Name) \
                        and _is_typ_expr(n.value, set()):
                    names.add(n.targets[0].id)
            per_fn.append((fn, names))
    for fn, names in per_fn:
        par = _parents(fn.node)
        consumed = set()

        def ancestors(n):
            while id(n) in par:
                n = par[id(n)]
                yield n

        # first pass: recognised conjunctions
        for n in ast.walk(fn.node):
            if isinstance(n, ast.BoolOp) and isinstance(n.op, ast.And):
                for i, v in enumerate(n.values):
                    if isinstance(v, ast.Compare) and len(v.ops) == 1 and isinstance(v.ops[0], (ast.In, ast.NotIn)) \
                            and _is_typ_expr(v.comparators[0], names):
                        T, K = v.comparators[0], v.left
                        idiom = None
                        if isinstance(v.ops[0], ast.In) and i + 1 < len(n.values):
                            idiom = _second_operand_idiom(n.values[i + 1], T, K)
                        if idiom:
                            sites.append((fn.file, fn.name, _key(K), idiom))
                            consumed.add(id(v))
                            for x in ast.walk(n.values[i + 1]):
                                consumed.add(id(x))
        # second pass: every other occurrence of the dictionary
        for n in ast.walk(fn.node):
            if not _is_typ_expr(n, names) or id(n) in consumed:
                continue
            p = par.get(id(n))
            if isinstance(n, ast.Name) and isinstance(n.ctx, ast.Store):
                continue
            if isinstance(p, ast.Subscript) and _is_typ_expr(p, set()) and p.value is not n:
                continue
            # `props["typ"]` itself contains the Attribute `.props` — the inner nodes are not typ expressions
            if isinstance(p, ast.Compare) and n in p.comparators and len(p.ops) == 1 \
                    and isinstance(p.ops[0], (ast.In, ast.NotIn)):
                if id(p) in consumed:
                    continue
                sites.append((fn.file, fn.name, _key(p.left), "inOnly"))
            elif isinstance(p, ast.Subscript) and p.value is n:
                if id(p) in consumed:
                    continue
                if isinstance(p.ctx, (ast.Store, ast.Del)):
                    sites.append((fn.file, fn.name, _key(p.slice), "unguarded"))   # a reader module writing the dict
                    continue
                g = set()
                child = p
                for a in ancestors(p):
                    if isinstance(a, (ast.If, ast.While)) and any(x is child or _contains(x, p) for x in a.body):
                        g |= _guards_in(a.test, names)
                    if isinstance(a, ast.IfExp) and (a.body is child or _contains(a.body, p)):
                        g |= _guards_in(a.test, names)
                    child = a
                if (ast.dump(n), ast.dump(p.slice)) in g:
                    sites.append((fn.file, fn.name, _key(p.slice), "guardedValue"))
                else:
                    raw_unguarded.append((fn, names, n, p))
            elif isinstance(p, ast.Attribute) and p.value is n:
                pp = par.get(id(p))
                if p.attr == "get" and isinstance(pp, ast.Call) and pp.func is p:
                    k = _key(pp.args[0]) if pp.args else "*"
                    ppp = par.get(id(pp))
                    cond = (isinstance(ppp, (ast.If, ast.While, ast.IfExp)) and ppp.test is pp) or \
                        isinstance(ppp, ast.BoolOp) or (isinstance(ppp, ast.UnaryOp) and isinstance(ppp.op, ast.Not))
                    sites.append((fn.file, fn.name, k, "getTruthy" if cond else "getRaw"))
                elif p.attr in ("items", "keys", "values", "copy", "pop", "update", "setdefault", "clear"):
                    sites.append((fn.file, fn.name, "*", "inOnly"))
                else:
                    sites.append((fn.file, fn.name, "*", "inOnly"))
            elif isinstance(p, ast.Call) and (n in p.args or any(k.value is n for k in p.keywords)):
                callee = p.func.attr if isinstance(p.func, ast.Attribute) else getattr(p.func, "id", "?")
                if callee in ("str", "repr"):
                    continue                                       # only inside warning texts
                g = set()
                child = p
                for a in ancestors(p):
                    if isinstance(a, (ast.If, ast.While)) and any(x is child or _contains(x, p) for x in a.body):
                        g |= _guards_in(a.test, names)
                    child = a
                calls.setdefault(callee, []).append({k for (_, k) in g})
            elif isinstance(p, (ast.For, ast.comprehension)) and p.iter is n:
                sites.append((fn.file, fn.name, "*", "inOnly"))
            elif isinstance(p, ast.Assign) and p.value is n:
                continue                                           # alias (already in `names`)
            elif isinstance(p, ast.Return):
                continue
            else:
                sites.append((fn.file, fn.name, "*", "inOnly"))
    # unguarded subscripts: guarded when every call of the enclosing function is under a guard on the same key
    for fn, names, T, sub in raw_unguarded:
        kd = ast.dump(sub.slice)
        cs = calls.get(fn.node.name, [])
        if cs and all(kd in c for c in cs):
            sites.append((fn.file, fn.name, _key(sub.slice), "guardedValue"))
        else:
            sites.append((fn.file, fn.name, _key(sub.slice), "unguarded"))
    return sorted(set(sites)), sorted((s for s in sites))


def _contains(root, n):
    return any(x is n for x in ast.walk(root))


# ------------------------------------------------------------------------------------------ output

def generate():
    allowed, receivers, deprels = extract_allowed()
    uniq, allsites = inventory()
    if not any(i == "neFalse" for (_, _, _, i) in uniq):
        _err("no reader site of the typ dictionary was found (refactored?)")
    out = ["import Pyrealb.Model.HeapVal",
           "/-! GENERATED by harness/translate/typconsts.py from src/pyrealb/Constituent.py (`typ`, `deprels`) and the",
           "    realization sources (reader sites of the `typ` dictionary).  Do not edit. -/",
           "namespace Pyrealb.Gen.TypConsts", "open Pyrealb", ""]
    names = []
    for k, vs in allowed.items():
        nm = "allowed_" + k
        names.append((k, nm))
        out.append("def %s : List Val := [%s]" % (nm, ", ".join(lean_val(v) for v in vs)))
    out.append("")
    out.append("/-- `allowedTypes` of `Constituent.typ`, in source order -/")
    out.append("def allowedTypes : List (Str × List Val) := [%s]" % ", ".join("(%s, %s)" % (lean_str(k), nm) for k, nm in names))
    out.append("")
    out.append("/-- constituent kinds that accept `.typ` : `self.isA(…)` in `Constituent.typ` -/")
    out.append("def typReceivers : List Str := [%s]" % ", ".join(lean_str(r) for r in receivers))
    out.append("def deprels : List Str := [%s]" % ", ".join(lean_str(r) for r in deprels))
    out.append("")
    out.append("/-- every reader site of the `typ` dictionary (file, function, flag, idiom) -/")
    out.append("def readerSites : List ReaderSite := [")
    rows = ['  ⟨"%s", "%s", "%s", Idiom.%s⟩' % s for s in uniq]
    out.append(",\n".join(rows))
    out.append("]")
    out.append("")
    out.append("end Pyrealb.Gen.TypConsts")
    return {"Pyrealb/Gen/TypConsts.lean": "\n".join(out) + "\n"}


if __name__ == "__main__":
    for k, v in generate().items():
        print(v)
