"""smoke test of the built driver (part of MANIFEST.setup_cmd)"""
import sys
from harness import core

r = core.run_driver([{"op": "oneof", "calls": [{"key": "a", "alts": "vv", "perm": [1, 0]}]}], "drv_oneof")
assert r == [{"res": [[0, []]]}], r
print("driver ok")
