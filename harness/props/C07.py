"""C07 — realization is total: warnings and [[lemma]], never an exception.

Lean side (Model/Total.lean, Props/C07.lean): the warning/exception discipline for any computation (raise iff
warn; nothing else escapes unless a step crashes) and the decision logic of the generic option setter over the
option table regenerated from the source.  PARTIAL: that no step of construction/realization crashes is proved
only inside the component models of the other properties; here it is explored.

Correspondence: every option x receiver type x value (valid and invalid) against the model of makeOptionMethod.
Exploration / direct oracle on the implementation: generated expressions (valid stream, malformed stream, the
repository's own test expressions) are built and realized twice — exceptionOnWarning off and on.
"""
import io
import json
import multiprocessing
import os
import signal
import sys
import traceback

from harness import core
from harness.impl import corpus, exprgen

META = {
    "driver": "drv_total",
    "ops": "option",
    "translators": ["options", "conj", "decl", "doccells", "elision", "coordconsts", "number"],
    "extra_modules": ["Pyrealb.Props.C07Compose"],
    "technique": "Lean 4 proof of the warn/exception discipline and option-setter decision logic + exhaustive option "
                 "correspondence + grammar-based exploration of the public API (valid and malformed streams)",
    "level_text": "Kernel-checked: for every computation that reads exceptionOnWarning only inside warn, the flagged run raises "
                  "PyrealbException iff the unflagged run warns and nothing else escapes unless a step crashes (induction over "
                  "runs); the generic option setter sets iff receiver legal and value valid, otherwise warns, for every option "
                  "of the table regenerated from Constituent.py. Tie: all options x 25 receiver types x values against the real "
                  "methods (exhaustive); both disciplines tested on every generated expression (flag off/on).",
    "level_note": "PARTIAL: totality of the steps themselves (that construction and realization never raise) is proved only for the "
                  "component models — collected in Props/C07Compose.components_total: conjugation, declension, elision, "
                  "coordination, number spelling, each under its WF hypothesis (dates: C17.dateFormat_total_partial; "
                  "formatting/JSON/store: their own Props); for whole expressions it is "
                  "explored by the grammar-based generator (valid + malformed streams) and the repository's test expressions, and "
                  "the crash sites found on the unchanged tree are listed as known findings (signature = exception type + file + "
                  "function + source line).",
    "rule": "expressions from a grammar over the public API (both notations, both languages, all terminal kinds incl. DT/NO/Q, "
            "all 21 tenses, 13 interrogative types, every subset of date fields, a/b/en/tag/cap/lier, add with position, nested "
            "argument lists) — valid stream, malformed stream (unknown or wrong-POS lemmas, non-string lemmas, wrong-typed or "
            "missing children, illegal option values/receivers) and the expressions of /repo/tests; each realized with "
            "exceptionOnWarning off and on. non-trivial = distinct source whose outcome is not a plain warning-free string",
    "assumptions": ["the generator's grammar bounds what is explored outside the component models"],
    "trusted": [],
}

CONST_TYPES = ["N", "A", "Pro", "D", "Adv", "V", "P", "C", "DT", "NO", "Q", "NP", "AP", "AdvP", "VP", "PP", "CP", "S", "SP",
               "root", "subj", "det", "mod", "comp", "coord"]
_NS = {}


def ns():
    if not _NS:
        _NS.update(corpus.namespace())
    return _NS


class Quiet:
    def __enter__(self):
        self.old = sys.stderr
        self.oldout = sys.stdout
        sys.stderr = self.buf = io.StringIO()
        sys.stdout = io.StringIO()   # some library messages go to stdout (print(..., sys.stderr) without file=)
        return self

    def __exit__(self, *a):
        sys.stderr = self.old
        sys.stdout = self.oldout

    def nwarn(self):
        return len([l for l in self.buf.getvalue().split("\n") if l.strip()])


def innermost(tb):
    """(file, function, source line) of the innermost frame inside src/pyrealb"""
    best = None
    for fr in traceback.extract_tb(tb):
        if os.sep + "pyrealb" + os.sep in fr.filename:
            best = (os.path.basename(fr.filename), fr.name, " ".join((fr.line or "").split()))
    return best or ("<outside>", "", "")


class Timeout(Exception):
    pass


def _alarm(sig, frm):
    raise Timeout()


def run_one(entry, flag):
    """build + realize under the given exceptionOnWarning flag; returns a canonical outcome dict"""
    import pyrealb
    from pyrealb import Constituent, PyrealbException
    (pyrealb.loadEn if entry["lang"] == "en" else pyrealb.loadFr)()
    Constituent.exceptionOnWarning = flag
    signal.signal(signal.SIGALRM, _alarm)
    signal.alarm(20)
    try:
        with Quiet() as qz:
            try:
                e = eval(entry["src"], dict(ns()))
                r = e.realize() if hasattr(e, "realize") else None
                out = {"k": "ok" if isinstance(r, str) else "not-a-string:" + type(r).__name__, "w": None}
            except PyrealbException:
                out = {"k": "PyrealbException", "w": None}
            except Timeout:
                out = {"k": "hang", "w": None}
            except RecursionError:
                out = {"k": "exc", "type": "RecursionError", "at": ["?", "?", "?"], "w": None}
            except Exception as ex:  # noqa
                out = {"k": "exc", "type": type(ex).__name__, "at": list(innermost(ex.__traceback__)), "w": None}
        out["w"] = qz.nwarn()
    finally:
        signal.alarm(0)
        Constituent.exceptionOnWarning = False
    return out


def work(entries):
    core.ensure_repo_on_path()
    res = []
    for en in entries:
        a = run_one(en, False)
        b = run_one(en, True)
        res.append((a, b))
    return res


def crash_sig(o):
    return "crash:%s|%s|%s|%s" % (o["type"], o["at"][0], o["at"][1], o["at"][2])


def judge(ctx, en, a, b):
    inp = {"lang": en["lang"], "src": en["src"]}
    if en.get("history"):
        inp["history"] = en["history"]
    if a["k"] == "exc":
        if a["at"][0] == "<outside>" and a["type"] in ("AttributeError", "SyntaxError", "NameError"):
            return  # the generated source called a method this kind of constituent does not have: not a library crash
        ctx.fail(crash_sig(a), inp, a)
        return
    if a["k"] == "hang":
        ctx.fail("hang", inp, a)
        return
    if a["k"].startswith("not-a-string") and not en.get("nonconst"):
        ctx.fail("realize-returned-" + a["k"], inp, a)
        return
    if a["k"] == "PyrealbException":
        ctx.fail("PyrealbException-without-flag", inp, a)
        return
    # flagged run: PyrealbException iff the unflagged run warned
    if b["k"] == "exc":
        if b["at"][0] == "<outside>" and b["type"] in ("AttributeError", "SyntaxError", "NameError"):
            return
        ctx.fail("flagged-" + crash_sig(b), inp, b)
    elif a["w"] > 0 and b["k"] != "PyrealbException":
        ctx.fail("warned-but-no-exception-with-flag", inp, {"unflagged": a, "flagged": b})
    elif a["w"] == 0 and b["k"] == "PyrealbException":
        ctx.fail("exception-with-flag-but-no-warning", inp, {"unflagged": a, "flagged": b})


# --------------------------------------------------------------------------------------------- option layer

def sample_const(ct, lang):
    en = lang == "en"
    w = {"N": ("cat", "chat"), "A": ("happy", "grand"), "Pro": ("I", "je"), "D": ("the", "le"), "Adv": ("now", "bien"),
         "V": ("eat", "manger"), "P": ("to", "à"), "C": ("and", "et")}
    if ct in w:
        return '%s("%s")' % (ct, w[ct][0 if en else 1])
    if ct == "DT":
        return 'DT("2024-02-29T12:00:00")'
    if ct == "NO":
        return "NO(3)"
    if ct == "Q":
        return 'Q("x")'
    if ct in ("NP", "AP", "AdvP", "VP", "PP", "S", "SP"):
        inner = {"NP": 'D("%s"),N("%s")' % (w["D"][0 if en else 1], w["N"][0 if en else 1]), "AP": 'A("%s")' % w["A"][0 if en else 1],
                 "AdvP": 'Adv("%s")' % w["Adv"][0 if en else 1], "VP": 'V("%s")' % w["V"][0 if en else 1],
                 "PP": 'P("%s"),NP(D("%s"),N("%s"))' % (w["P"][0 if en else 1], w["D"][0 if en else 1], w["N"][0 if en else 1]),
                 "S": 'Pro("%s"),VP(V("%s"))' % (w["Pro"][0 if en else 1], w["V"][0 if en else 1]),
                 "SP": 'Pro("%s"),VP(V("%s"))' % (("that", "qui")[0 if en else 1], w["V"][0 if en else 1])}[ct]
        return "%s(%s)" % (ct, inner)
    if ct == "CP":
        return 'CP(C("%s"))' % w["C"][0 if en else 1]
    if ct == "coord":
        return 'coord(C("%s"))' % w["C"][0 if en else 1]
    if ct == "root":
        return 'root(V("%s"))' % w["V"][0 if en else 1]
    if ct == "det":
        return 'det(D("%s"))' % w["D"][0 if en else 1]
    if ct == "mod":
        return 'mod(A("%s"))' % w["A"][0 if en else 1]
    return '%s(N("%s"))' % (ct, w["N"][0 if en else 1])


def option_lines(table):
    vals = {"pe": [1, 2, 3, "1", "3", 4, "x"], "n": ["s", "p", "x", "z", 1], "g": ["m", "f", "n", "x", "z"],
            "t": exprgen.TENSES + ["zz", 1], "aux": ["av", "êt", "aê", "zz"], "f": ["co", "su", "zz"], "tn": ["", "refl", "zz"],
            "c": ["nom", "acc", "dat", "refl", "gen", "zz"], "pos": ["post", "pre", "mid"], "pro": ["", False, True, "zz"],
            "ow": ["s", "p", "x", "z"], "poss": ["", False, True, "zz"], "cap": ["", False, True, "tit", "zz"],
            "lier": ["", False, True, "zz"]}
    lines = []
    for name in table:
        for ct in CONST_TYPES:
            for v in vals.get(name, ["zz"]) + [None]:
                for lang in ("en", "fr"):
                    lines.append({"op": "option", "name": name, "ct": ct, "val": v, "lang": lang})
    return lines


def impl_option(line, prop):
    import pyrealb
    (pyrealb.loadEn if line["lang"] == "en" else pyrealb.loadFr)()
    with Quiet():
        x = eval(sample_const(line["ct"], line["lang"]), dict(ns()))
    before = dict(x.props)
    with Quiet() as qz:
        try:
            if line["val"] is None:
                getattr(x, line["name"])()
            else:
                getattr(x, line["name"])(line["val"])
        except Exception as ex:  # noqa
            return {"outcome": "exc:" + type(ex).__name__}
    w = qz.nwarn()
    after = x.props
    if w == 0:
        if after == before and line["ct"] in ("CP", "coord"):
            return {"outcome": "propagate"}
        if prop in after and line["val"] is None and after[prop] is True:
            return {"outcome": "setTrue"}
        if prop in after and line["val"] is not None and after[prop] == line["val"] and type(after[prop]) is type(line["val"]):
            return {"outcome": "set"}
        return {"outcome": "silent-other", "props": str(after)}
    if prop in after and after[prop] is False and before.get(prop, None) is not False:
        return {"outcome": "warnIgnoredFalse"}
    if after == before:
        return {"outcome": "warnKeep"}
    return {"outcome": "warn-other", "props": str(after)}


def model_outcome(m):
    o = m["outcome"]
    return {"outcome": "warnKeep" if o in ("warnNoValue", "warnIgnoredKeep", "warnBadConst") else o}


def run_options(ctx):
    table = core.run_driver([{"op": "options"}], ctx.driver)[0]["options"]
    lines = option_lines(table)
    model = core.run_driver([{k: v for k, v in l.items() if k != "lang"} for l in lines], ctx.driver)
    nd = 0
    for l, m in zip(lines, model):
        if "driver_error" in m:
            raise core.Infra("driver: %s on %s" % (m["driver_error"], l))
        a = impl_option(l, m["prop"])
        mo = model_outcome(m)
        # a value that is valid but equal to the prop's previous content cannot be told from "keep": both fine
        ctx.cov["traces_validated_against_impl"] += 1
        ctx.count(l, a, trivial=False)
        if a["outcome"].startswith("exc:"):
            ctx.fail("option-raises:%s.%s(%r):%s" % (l["ct"], l["name"], l["val"], a["outcome"]), l, a)
        if mo["outcome"] == "warnIgnoredFalse" and a["outcome"] == "warnKeep":
            # prop was already False before? (not with our fresh samples) -> real difference
            pass
        if mo != {"outcome": a["outcome"]}:
            ctx.diff(l, mo, a)
            nd += 1
    ctx.notes["option_lines"] = len(lines)
    ctx.notes["option_table"] = table


# --------------------------------------------------------------------------------------------- main

def entries_for(ctx, deep=False):
    rng = ctx.rng
    nv, nm, nc = {"quick": (6000, 12000, 2000), "thorough": (250000, 500000, 7588)}[ctx.tier]
    if deep:
        nv, nm = nv * 2, nm * 2
    ents = exprgen.generate(rng, nv, malformed=0.0) + exprgen.generate(rng, nm, malformed=0.12)
    ents += exprgen.generate(rng, nm // 4, malformed=0.4)
    c = [e for e in corpus.load() if not e["setup"]]
    rng.shuffle(c)
    ents += [{"lang": e["lang"], "src": e["src"], "malformed": False} for e in c[:nc]]
    # the repository's expressions realized under the OTHER language (a rich source of warnings)
    ents += [{"lang": "fr" if e["lang"] == "en" else "en", "src": e["src"], "malformed": True} for e in c[:nc // 3]]
    cdir = os.path.join(core.VERIF, "corpus", "C07")
    if os.path.isdir(cdir):
        for fn in sorted(os.listdir(cdir)):
            ents.insert(0, json.load(open(os.path.join(cdir, fn))))
    return ents


def family_entries():
    """one small clause per (language, notation, interrogative / flag, pronoun subject, tense): realized one after the other
    in ONE process (see run): a crash that needs an earlier realization in the same process (module-level state consumed
    or left behind by a previous call) shows on the second member of its family"""
    out = []
    ints = ["yon", "wos", "wod", "woi", "wad", "wai", "whe", "why", "whn", "how", "muc", "tag"]
    flags = ['"neg":True', '"pas":True', '"prog":True', '"perf":True', '"mod":"poss"', '"exc":True', '"refl":True', '"contr":True', '"maje":True']
    for lang, subjs, v, o, tenses in (("en", ['Pro("I").pe(1)', 'Pro("I").pe(2)', 'Pro("I").pe(3).n("p")', 'NP(D("the"),N("cat"))'], "see",
                                       'NP(D("a"),N("mouse"))', ["p", "ps", "f"]),
                                      ("fr", ['Pro("je").pe(1)', 'Pro("je").pe(2)', 'Pro("je").pe(3).n("p")', 'NP(D("le"),N("chat"))'], "regarder",
                                       'NP(D("un"),N("souris"))', ["p", "pc", "f"])):
        for subj in subjs:
            for t in tenses:
                for typ in ['"int":"%s"' % i for i in ints] + flags:
                    out.append({"lang": lang, "src": 'S(%s,VP(V("%s").t("%s"),%s)).typ({%s})' % (subj, v, t, o, typ)})
                    hd = subj[4:-1] if subj.startswith("NP(") else None
                    sd = ('subj(N("%s"),det(D("%s")))' % (("cat", "the") if lang == "en" else ("chat", "le"))) if hd else "subj(%s)" % subj
                    od = 'comp(N("%s"),det(D("%s")))' % (("mouse", "a") if lang == "en" else ("souris", "un"))
                    out.append({"lang": lang, "src": 'root(V("%s").t("%s"),%s,%s).typ({%s})' % (v, t, sd, od, typ)})
    return out


def work_sequential(conn, entries):
    """child process: the whole list twice, one after the other, in this single process"""
    try:
        res = work(entries) + work(entries)
        conn.send(res)
    except BaseException as e:  # noqa
        conn.send({"error": repr(e)})
    conn.close()


def run(ctx, deep=False):
    core.ensure_repo_on_path()
    import pyrealb  # noqa
    run_options(ctx)
    ents = entries_for(ctx, deep)
    nproc = min(16, os.cpu_count() or 4)
    chunks = [ents[i:i + 400] for i in range(0, len(ents), 400)]
    # sequential stream in ONE fresh process (process-level state accumulates deterministically): the clause families and
    # a slice of the corpus, the whole list twice
    seq = family_entries() + ents[:(1500 if ctx.tier == "thorough" or deep else 500)]
    mp = multiprocessing.get_context("fork")
    parent_conn, child_conn = mp.Pipe(duplex=False)
    seqproc = mp.Process(target=work_sequential, args=(child_conn, seq))
    seqproc.start()
    child_conn.close()
    with mp.Pool(nproc) as pool:
        results = pool.map(work, chunks, chunksize=1)
    try:
        seqres = parent_conn.recv() if parent_conn.poll(1200) else {"error": "timeout"}
    except EOFError:
        seqres = {"error": "sequential child died"}
    seqproc.join(10)
    if isinstance(seqres, dict):
        raise core.Infra("sequential stream: " + seqres.get("error", "?"))
    first = {}
    for k, (en, (a, b)) in enumerate(zip(seq + seq, seqres)):
        key = (en["lang"], en["src"])
        ctx.count({"lang": en["lang"], "src": en["src"], "stream": "sequential", "pass": 1 + k // len(seq)}, {"unflagged": a, "flagged": b["k"]},
                  trivial=(a["k"] == "ok" and a["w"] == 0))
        if k < len(seq):
            first[key] = (a["k"], b["k"])
        elif first.get(key) != (a["k"], b["k"]) and first.get(key) is not None:
            ctx.fail("outcome-depends-on-earlier-realizations-in-the-process:%s->%s" % ("/".join(first[key]), "/".join((a["k"], b["k"]))),
                     {"lang": en["lang"], "src": en["src"], "history": "realized a second time in the same process after the %d expressions of the sequential stream" % len(seq)},
                     {"first": first[key], "second": {"unflagged": a, "flagged": b}})
            continue
        judge(ctx, dict(en, history="sequential stream, position %d" % k), a, b)
    ctx.notes["sequential_stream"] = 2 * len(seq)
    stats = {"ok": 0, "ok+warn": 0, "exc": 0, "flag-exception": 0, "malformed": 0}
    i = 0
    for ch, rs in zip(chunks, results):
        for en, (a, b) in zip(ch, rs):
            i += 1
            triv = (a["k"] == "ok" and a["w"] == 0)
            ctx.count({"lang": en["lang"], "src": en["src"]}, {"unflagged": a, "flagged": b["k"]}, trivial=triv)
            stats["malformed"] += 1 if en.get("malformed") else 0
            if a["k"] == "ok":
                stats["ok+warn" if a["w"] else "ok"] += 1
            elif a["k"] == "exc":
                stats["exc"] += 1
            if b["k"] == "PyrealbException":
                stats["flag-exception"] += 1
            judge(ctx, en, a, b)
    ctx.notes["outcomes"] = stats
    ctx.notes["expressions"] = len(ents)


def search(ctx):
    run(ctx, deep=True)


def replay(path):
    d = json.load(open(path))
    en = d["input"]
    core.ensure_repo_on_path()
    print(json.dumps({"unflagged": run_one(en, False), "flagged": run_one(en, True)}, ensure_ascii=False, indent=1))
    return 0


if __name__ == "__main__":
    # integrator's helper: list the crash signatures found on the current tree (to curate known_findings.d/C07.json)
    sys.path.insert(0, core.VERIF)
    c = core.Ctx("C07", sys.argv[1] if len(sys.argv) > 1 else "quick", int(os.environ.get("VERIF_SEED", "0")))
    c.driver = META["driver"]
    run(c)
    by = {}
    for f in c.failures:
        by.setdefault(f["sig"], []).append(f)
    for sig, fs in sorted(by.items(), key=lambda kv: -len(kv[1])):
        small = min(fs, key=lambda f: len(f["input"].get("src", "")))
        print(len(fs), sig, "\n      e.g.", small["input"])
    print(len(c.corr_diffs), "option diffs", c.corr_diffs[:5])
